#!/bin/bash
# Run once after a fresh restore, offline: warm the Go build cache by building the binary of every
# property claimed in MANIFEST.json (plain, instrumented-overlay and -race builds as each needs).
set -u
cd /verif || exit 2
export GOFLAGS=-mod=mod GOPROXY=off GOSUMDB=off GOTOOLCHAIN=local
mkdir -p .bin .work evidence
rc=0
for id in $(python3 -c "import json; print(' '.join(c['property_id'] for c in json.load(open('MANIFEST.json'))['checks']))"); do
  ./run "$id" --build-only || { echo "setup: build of $id failed" >&2; rc=2; }
done
exit $rc
