#!/bin/bash
# Run once after a fresh restore, offline: warm the Go build cache by building every property binary.
set -u
cd /verif || exit 2
export GOFLAGS=-mod=mod GOPROXY=off GOSUMDB=off GOTOOLCHAIN=local
mkdir -p .bin evidence
rc=0
for d in props/*/; do
  lc=$(basename "$d")
  ./run "$lc" --build-only || rc=2
done
exit $rc
