package verifrt

import "fmt"

func sprint(v any) string { return fmt.Sprint(v) }

// Options bound the schedule search.
type Options struct {
	PreemptBound int // max preemptions per execution (switching away from a thread that could continue)
	DataBound    int // max non-default data choices per execution
	Horizon      int // max choice points per execution (0: default)
	Shard        int // this process explores the subtrees k (numbered in DFS order at depth SplitDepth) with k % Shards == Shard
	Shards       int
	SplitDepth   int // depth (number of non-default answers) at which subtrees are dealt out; 0 = automatic
	Stop         func() bool
}

// Stats is what a search covered.
type Stats struct {
	Executions  int64 `json:"executions"`
	Steps       int64 `json:"steps"`     // choice points passed, all executions
	NewSteps    int64 `json:"new_steps"` // choice points beyond the replayed prefix = distinct schedule-tree nodes
	MaxSteps    int   `json:"max_steps"` // longest execution
	MaxPreempt  int   `json:"max_preemptions"`
	Deadlocks   int64 `json:"deadlocks"`
	Aborted     int64 `json:"aborted"`
	Divergences int64 `json:"divergences"`
	Stopped     bool  `json:"stopped"`
}

// Explore runs every schedule within the bounds. mk is called once per
// execution and returns the body of thread 0 and a callback that receives the
// execution record (where the harness evaluates its oracle).
func Explore(o Options, mk func() (main func(), done func(x *Exec))) Stats {
	var st Stats
	if o.Shards <= 0 {
		o.Shards = 1
	}
	// Subtrees are dealt out round robin at a depth where they are small (a free alternative - the
	// other thread first when a thread ends - roots a subtree as large as the whole search, so depth 1
	// balances badly). Nodes above that depth are executed by every shard (cheap) and counted by shard 0.
	split := o.SplitDepth
	if split <= 0 {
		split = 1
		if o.PreemptBound+o.DataBound >= 2 {
			split = 2
		}
	}
	top := 0
	var rec func(prefix []int, depth int)
	rec = func(prefix []int, depth int) {
		if o.Stop != nil && o.Stop() {
			st.Stopped = true
			return
		}
		main, done := mk()
		x := Run(prefix, o.Horizon, main)
		skipRoot := depth < split && o.Shard != 0
		if !skipRoot {
			st.Executions++
			st.Steps += int64(len(x.Steps))
			st.NewSteps += int64(len(x.Steps) - len(prefix))
			if len(x.Steps) > st.MaxSteps {
				st.MaxSteps = len(x.Steps)
			}
			if x.Preemptions > st.MaxPreempt {
				st.MaxPreempt = x.Preemptions
			}
			if x.Deadlock {
				st.Deadlocks++
			}
			if x.Aborted {
				st.Aborted++
			}
			done(x)
		}
		for _, p := range x.Panics {
			if len(p) > 17 && p[:17] == "REPLAY-DIVERGENCE" {
				st.Divergences++
				return
			}
		}
		if len(x.Steps) < len(prefix) {
			st.Divergences++
			return
		}
		pre, dat := 0, 0
		for i := 0; i < len(prefix); i++ {
			s := x.Steps[i]
			if s.Chosen != 0 {
				if s.Data {
					dat++
				} else if !s.Free {
					pre++
				}
			}
		}
		for i := len(prefix); i < len(x.Steps); i++ {
			s := x.Steps[i]
			for alt := 1; alt < s.N; alt++ {
				switch {
				case s.Data:
					if dat+1 > o.DataBound {
						continue
					}
				case !s.Free:
					if pre+1 > o.PreemptBound {
						continue
					}
				}
				if depth == split-1 {
					k := top
					top++
					if k%o.Shards != o.Shard {
						continue
					}
				}
				np := make([]int, i+1)
				for k := 0; k < i; k++ {
					np[k] = x.Steps[k].Chosen
				}
				np[i] = alt
				rec(np, depth+1)
			}
		}
	}
	rec(nil, 0)
	return st
}
