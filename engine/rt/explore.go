package verifrt

import "fmt"

func sprint(v ...any) string { return fmt.Sprint(v...) }

// Options bound the schedule search.
type Options struct {
	PreemptBound int // max preemptions per execution (switching away from a thread that could continue)
	DataBound    int // max non-default data choices per execution
	MaxFree      int // max non-default FREE scheduling choices per execution (which thread runs after a block or exit); 0 = unlimited
	Horizon      int // max choice points per execution (0: default)
	Shard        int // this process explores the subtrees k (numbered in DFS order at depth SplitDepth) with k % Shards == Shard
	Shards       int
	SplitDepth   int // depth (number of non-default answers) at which subtrees are dealt out; 0 = automatic
	Stop         func() bool
}

// Stats is what a search covered.
type Stats struct {
	Executions      int64  `json:"executions"`
	Steps           int64  `json:"steps"`     // choice points passed, all executions
	NewSteps        int64  `json:"new_steps"` // choice points beyond the replayed prefix = distinct schedule-tree nodes
	MaxSteps        int    `json:"max_steps"` // longest execution
	MaxPreempt      int    `json:"max_preemptions"`
	Deadlocks       int64  `json:"deadlocks"`
	Aborted         int64  `json:"aborted"`
	Divergences     int64  `json:"divergences"`
	FirstDivergence string `json:"first_divergence,omitempty"`
	Stopped         bool   `json:"stopped"`
	Stuck           int64  `json:"stuck"` // executions in which a thread waited on something the scheduler does not model
	StuckDump       string `json:"stuck_dump,omitempty"`
}

// Explore runs every schedule within the bounds. mk is called once per
// execution and returns the body of thread 0 and a callback that receives the
// execution record (where the harness evaluates its oracle).
func Explore(o Options, mk func() (main func(), done func(x *Exec))) Stats {
	var st Stats
	if o.Shards <= 0 {
		o.Shards = 1
	}
	// Subtrees are dealt out round robin where they are small: at the edges that add the splitT-th
	// bounded deviation (preemption or data deviation). Free alternatives (which thread runs when the
	// running one blocked or ended) cost nothing and can root subtrees as large as the whole search,
	// so they never define a unit: nodes with fewer than splitT bounded deviations - the root, its
	// free variants and, for splitT = 2, everything one deviation away - are executed by every shard
	// (a few thousand cheap executions at most) and counted by shard 0 only.
	splitT := o.SplitDepth
	if splitT <= 0 {
		splitT = 1
		if o.PreemptBound+o.DataBound >= 2 {
			splitT = 2
		}
	}
	top := 0
	var rec func(prefix []int)
	rec = func(prefix []int) {
		if st.Stopped || (o.Stop != nil && o.Stop()) {
			st.Stopped = true // sticky: once the budget is used up nothing more is explored
			return
		}
		main, done := mk()
		x := Run(prefix, o.Horizon, main)
		if x.Stuck {
			// no verdict for this execution and no further execution in this process
			st.Stuck++
			st.StuckDump = x.StuckDump
			st.Stopped = true
			return
		}
		for _, p := range x.Panics {
			if len(p) > 17 && p[:17] == "REPLAY-DIVERGENCE" {
				// the recorded prefix could not be replayed: the execution depends on something the harness
				// does not own (map order, time, randomness). That says nothing about the property: the
				// execution is not judged, its subtree is not explored, the search is reported incomplete.
				st.Divergences++
				if st.FirstDivergence == "" {
					st.FirstDivergence = p
				}
				return
			}
		}
		if len(x.Steps) < len(prefix) {
			st.Divergences++
			if st.FirstDivergence == "" {
				st.FirstDivergence = sprint("execution ended after ", len(x.Steps), " choice points, the recorded prefix has ", len(prefix))
			}
			return
		}
		pre, dat, fre := 0, 0, 0
		for i := 0; i < len(prefix); i++ {
			s := x.Steps[i]
			if s.Chosen != 0 {
				if s.Data {
					dat++
				} else if !s.Free {
					pre++
				} else {
					fre++
				}
			}
		}
		shared := pre+dat < splitT
		if !(shared && o.Shard != 0) {
			st.Executions++
			st.Steps += int64(len(x.Steps))
			st.NewSteps += int64(len(x.Steps) - len(prefix))
			if len(x.Steps) > st.MaxSteps {
				st.MaxSteps = len(x.Steps)
			}
			if x.Preemptions > st.MaxPreempt {
				st.MaxPreempt = x.Preemptions
			}
			if x.Deadlock {
				st.Deadlocks++
			}
			if x.Aborted {
				st.Aborted++
			}
			done(x)
		}
		for i := len(prefix); i < len(x.Steps); i++ {
			s := x.Steps[i]
			for alt := 1; alt < s.N; alt++ {
				bounded := s.Data || !s.Free
				switch {
				case s.Data:
					if dat+1 > o.DataBound {
						continue
					}
				case !s.Free:
					if pre+1 > o.PreemptBound {
						continue
					}
				default:
					// with several threads that block often (pipes) the free alternatives alone grow
					// exponentially; they can be bounded separately
					if o.MaxFree > 0 && fre+1 > o.MaxFree {
						continue
					}
				}
				if bounded && pre+dat+1 == splitT {
					k := top
					top++
					if k%o.Shards != o.Shard {
						continue
					}
				}
				np := make([]int, i+1)
				for k := 0; k < i; k++ {
					np[k] = x.Steps[k].Chosen
				}
				np[i] = alt
				rec(np)
			}
		}
	}
	rec(nil)
	return st
}
