package verifrt

import (
	"io"
	"sort"
	"sync"
)

// ---- sync shims: same method sets as the sync types they replace ----

// Mutex replaces sync.Mutex in instrumented files.
type Mutex struct {
	real   sync.Mutex
	locked bool // model state, used only while an execution is active
}

func (m *Mutex) Lock() {
	s := active
	if s == nil || s.ended {
		m.real.Lock()
		return
	}
	s.point("Mutex.Lock")
	s.block(func() bool { return !m.locked }, "Mutex.Lock")
	m.locked = true
}

func (m *Mutex) Unlock() {
	s := active
	if s == nil || s.ended {
		m.real.Unlock()
		return
	}
	if !m.locked {
		panic("verifrt: unlock of unlocked Mutex")
	}
	m.locked = false
	s.point("Mutex.Unlock")
}

func (m *Mutex) TryLock() bool {
	s := active
	if s == nil || s.ended {
		return m.real.TryLock()
	}
	s.point("Mutex.TryLock")
	if m.locked {
		return false
	}
	m.locked = true
	return true
}

// RWMutex replaces sync.RWMutex.
type RWMutex struct {
	real    sync.RWMutex
	writer  bool
	readers int
}

func (m *RWMutex) Lock() {
	s := active
	if s == nil || s.ended {
		m.real.Lock()
		return
	}
	s.point("RWMutex.Lock")
	s.block(func() bool { return !m.writer && m.readers == 0 }, "RWMutex.Lock")
	m.writer = true
}
func (m *RWMutex) Unlock() {
	s := active
	if s == nil || s.ended {
		m.real.Unlock()
		return
	}
	m.writer = false
	s.point("RWMutex.Unlock")
}
func (m *RWMutex) RLock() {
	s := active
	if s == nil || s.ended {
		m.real.RLock()
		return
	}
	s.point("RWMutex.RLock")
	s.block(func() bool { return !m.writer }, "RWMutex.RLock")
	m.readers++
}
func (m *RWMutex) RUnlock() {
	s := active
	if s == nil || s.ended {
		m.real.RUnlock()
		return
	}
	m.readers--
	s.point("RWMutex.RUnlock")
}

// Once replaces sync.Once.
type Once struct {
	real    sync.Once
	done    bool
	running bool
}

func (o *Once) Do(f func()) {
	s := active
	if s == nil || s.ended {
		o.real.Do(f)
		return
	}
	s.point("Once.Do")
	if o.done {
		return
	}
	if o.running {
		s.block(func() bool { return o.done }, "Once.Do")
		return
	}
	o.running = true
	defer func() {
		o.done = true
		o.running = false
		// keep the real Once in step, so that pass-through use after the execution agrees
		o.real.Do(func() {})
	}()
	f()
}

// WaitGroup replaces sync.WaitGroup.
type WaitGroup struct {
	real sync.WaitGroup
	n    int
}

func (w *WaitGroup) Add(d int) {
	s := active
	if s == nil || s.ended {
		w.real.Add(d)
		return
	}
	w.n += d
	if w.n < 0 {
		panic("verifrt: negative WaitGroup counter")
	}
	s.point("WaitGroup.Add")
}
func (w *WaitGroup) Done() { w.Add(-1) }
func (w *WaitGroup) Wait() {
	s := active
	if s == nil || s.ended {
		w.real.Wait()
		return
	}
	s.point("WaitGroup.Wait")
	s.block(func() bool { return w.n == 0 }, "WaitGroup.Wait")
}

// ---- pipe shim: semantics of io.Pipe, blocking visible to the scheduler ----

type pipe struct {
	rr *io.PipeReader // pass-through mode
	rw *io.PipeWriter

	model   bool
	pending []byte
	has     bool  // a writer has offered pending (possibly empty) and waits for it to be consumed
	rerr    error // reader side closed with
	werr    error // writer side closed with
	rclosed bool
	wclosed bool
	wmu     Mutex
}

// PipeReader replaces io.PipeReader.
type PipeReader struct{ p *pipe }

// PipeWriter replaces io.PipeWriter.
type PipeWriter struct{ p *pipe }

// Pipe replaces io.Pipe.
func Pipe() (*PipeReader, *PipeWriter) {
	p := &pipe{}
	if s := active; s != nil && !s.ended {
		p.model = true
	} else {
		p.rr, p.rw = io.Pipe()
	}
	return &PipeReader{p}, &PipeWriter{p}
}

func (r *PipeReader) Read(b []byte) (int, error) {
	p := r.p
	if !p.model {
		return p.rr.Read(b)
	}
	s := active
	if s == nil || s.ended {
		return 0, io.ErrClosedPipe
	}
	s.point("Pipe.Read")
	s.block(func() bool { return p.has || p.wclosed || p.rclosed }, "Pipe.Read")
	if p.rclosed {
		return 0, io.ErrClosedPipe
	}
	if p.has {
		n := copy(b, p.pending)
		p.pending = p.pending[n:]
		if len(p.pending) == 0 {
			p.has = false
		}
		return n, nil
	}
	if p.werr != nil {
		return 0, p.werr
	}
	return 0, io.EOF
}

func (r *PipeReader) Close() error { return r.CloseWithError(nil) }

func (r *PipeReader) CloseWithError(err error) error {
	p := r.p
	if !p.model {
		return p.rr.CloseWithError(err)
	}
	if s := active; s != nil && !s.ended {
		s.point("PipeReader.Close")
	}
	if !p.rclosed {
		if err == nil {
			err = io.ErrClosedPipe
		}
		p.rerr = err
		p.rclosed = true
	}
	return nil
}

func (w *PipeWriter) Write(b []byte) (int, error) {
	p := w.p
	if !p.model {
		return p.rw.Write(b)
	}
	s := active
	if s == nil || s.ended {
		return 0, io.ErrClosedPipe
	}
	s.point("Pipe.Write")
	p.wmu.Lock()
	defer p.wmu.Unlock()
	if p.rclosed {
		return 0, p.rerr
	}
	if p.wclosed {
		return 0, io.ErrClosedPipe
	}
	p.pending, p.has = b, true
	s.block(func() bool { return !p.has || p.rclosed }, "Pipe.Write")
	if p.has { // reader went away
		n := len(b) - len(p.pending)
		p.has, p.pending = false, nil
		return n, p.rerr
	}
	return len(b), nil
}

func (w *PipeWriter) Close() error { return w.CloseWithError(nil) }

func (w *PipeWriter) CloseWithError(err error) error {
	p := w.p
	if !p.model {
		return p.rw.CloseWithError(err)
	}
	if s := active; s != nil && !s.ended {
		s.point("PipeWriter.Close")
	}
	if !p.wclosed {
		p.werr = err
		p.wclosed = true
	}
	return nil
}

// ---- owned map iteration order ----

// KV is one map entry.
type KV[K comparable, V any] struct {
	K K
	V V
}

// Ordered replaces `range m` over the whitelisted maps: the entries in an
// order chosen by the explorer (default: sorted by the printed key), so Go's
// randomised iteration order becomes an enumerated choice instead of unowned
// nondeterminism. Pass-through mode returns the entries in Go's own order.
func Ordered[K comparable, V any](site string, m map[K]V) []KV[K, V] {
	out := make([]KV[K, V], 0, len(m))
	for k, v := range m {
		out = append(out, KV[K, V]{k, v})
	}
	ch := orderChooser
	if ch == nil {
		return out
	}
	sort.Slice(out, func(i, j int) bool { return keyString(out[i].K) < keyString(out[j].K) })
	// choose a permutation by successive selection (Lehmer code): n * (n-1) * ... alternatives
	res := make([]KV[K, V], 0, len(out))
	rest := out
	for len(rest) > 1 {
		i := ch(site, len(rest))
		res = append(res, rest[i])
		rest = append(append([]KV[K, V]{}, rest[:i]...), rest[i+1:]...)
	}
	return append(res, rest...)
}

// orderChooser, when set, answers the order choice points (the E2 chooser or
// the scheduler's Choose).
var orderChooser func(site string, n int) int

// SetOrderChooser installs (or with nil removes) the owner of map iteration order.
func SetOrderChooser(f func(site string, n int) int) { orderChooser = f }

func keyString(k any) string {
	switch v := k.(type) {
	case string:
		return v
	}
	return sprint(k)
}

// SortedStrings owns the order of a []string that the callee assembles in map order (the media type
// lists of go-openapi/analysis): a sorted copy while an order owner is installed, the slice itself otherwise.
func SortedStrings(s []string) []string {
	if orderChooser == nil || len(s) < 2 {
		return s
	}
	out := append([]string(nil), s...)
	sort.Strings(out)
	return out
}

// Pool replaces sync.Pool in instrumented files: what Get returns must not depend on the garbage
// collector or on which P ran last. Inside a controlled execution it is a LIFO list that starts empty
// with every execution; outside it is a real sync.Pool.
type Pool struct {
	New   func() any
	real  sync.Pool
	owner *sched
	items []any
}

func (p *Pool) Get() any {
	s := active
	if s == nil || s.ended {
		if v := p.real.Get(); v != nil {
			return v
		}
		if p.New != nil {
			return p.New()
		}
		return nil
	}
	if p.owner != s {
		p.owner, p.items = s, nil
	}
	if n := len(p.items); n > 0 {
		v := p.items[n-1]
		p.items = p.items[:n-1]
		return v
	}
	if p.New != nil {
		return p.New()
	}
	return nil
}

func (p *Pool) Put(v any) {
	s := active
	if s == nil || s.ended {
		p.real.Put(v)
		return
	}
	if p.owner != s {
		p.owner, p.items = s, nil
	}
	p.items = append(p.items, v)
}
