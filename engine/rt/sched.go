// Package verifrt is injected into go-openapi/runtime's module through a build
// overlay (as github.com/go-openapi/runtime/verifrt). It holds the controlled
// scheduler (E3): cooperative threads that run one at a time, scheduling points
// at every instrumented statement and at every hooked sync / pipe / spawn
// operation, a preemption-bounded stateless DFS over schedules, and the data
// choice points (map iteration order, environment answers) that share the same
// trace. With no execution active every shim is a pass-through to the real
// primitive.
package verifrt

import (
	"fmt"
	"os"
	"runtime"
	"runtime/debug"
	"strconv"
	"strings"
	"time"
)

type tstate uint8

const (
	tRunnable tstate = iota
	tBlocked
	tDone
)

type thread struct {
	id    int
	name  string
	wake  chan struct{}
	st    tstate
	ready func() bool
	what  string
}

// Step is one choice point of an execution.
type Step struct {
	N      int    `json:"n"`      // number of alternatives
	Chosen int    `json:"c"`      // answer taken
	Free   bool   `json:"free"`   // scheduling choice that is not a preemption (running thread blocked or ended)
	Data   bool   `json:"data"`   // data choice (Choose / Ordered), not a scheduling choice
	Loc    string `json:"loc"`    // where
	Thread int    `json:"thread"` // thread that was running
}

// Exec is the record of one execution.
type Exec struct {
	Steps       []Step
	Deadlock    bool     // some thread not finished and none enabled
	Blocked     []string // threads left blocked at the end ("name: what")
	Aborted     bool     // horizon reached
	Panics      []string // "thread: value\nstack"
	Stuck       bool     // the running thread did not come back to the scheduler within the watchdog time
	StuckDump   string   // goroutine dump taken then
	Preemptions int
	DataDevs    int
	Switches    int
}

// Choices returns the answer list (the replayable schedule).
func (x *Exec) Choices() []int {
	out := make([]int, len(x.Steps))
	for i, s := range x.Steps {
		out[i] = s.Chosen
	}
	return out
}

type sched struct {
	threads  []*thread
	cur      *thread
	prefix   []int
	x        *Exec
	finished chan struct{}
	horizon  int
	ended    bool
}

// active is the running execution; nil = pass-through mode. Only the one
// running cooperative thread (or the driver, between executions) touches it.
var active *sched

// Active reports whether a controlled execution is in progress.
func Active() bool { return active != nil }

// ReplayDivergence is the panic value raised when a recorded prefix cannot be
// replayed (nondeterminism escaped the harness).
type ReplayDivergence struct{ Msg string }

func (s *sched) pick(n int, free, data bool, loc string) int {
	i := len(s.x.Steps)
	v := 0
	if i < len(s.prefix) {
		v = s.prefix[i]
		if v >= n {
			panic(ReplayDivergence{fmt.Sprintf("step %d at %s: recorded choice %d but only %d alternatives", i, loc, v, n)})
		}
	}
	tid := -1
	if s.cur != nil {
		tid = s.cur.id
	}
	s.x.Steps = append(s.x.Steps, Step{N: n, Chosen: v, Free: free, Data: data, Loc: loc, Thread: tid})
	if v != 0 {
		switch {
		case data:
			s.x.DataDevs++
		case !free:
			s.x.Preemptions++
		}
	}
	if len(s.x.Steps) > s.horizon && !s.ended {
		s.x.Aborted = true
		s.end()
		select {} // park this thread for good; the driver has been released
	}
	return v
}

// enabled lists the threads that can run, canonical order: the running thread
// first when it is still enabled, then ascending ids.
func (s *sched) enabled(curEnabled bool) []*thread {
	var out []*thread
	if curEnabled {
		out = append(out, s.cur)
	}
	for _, t := range s.threads {
		if t == s.cur {
			continue
		}
		switch t.st {
		case tRunnable:
			out = append(out, t)
		case tBlocked:
			if t.ready() {
				out = append(out, t)
			}
		}
	}
	return out
}

func (s *sched) end() {
	if s.ended {
		return
	}
	s.ended = true
	for _, t := range s.threads {
		if t.st == tBlocked {
			s.x.Blocked = append(s.x.Blocked, t.name+": "+t.what)
		}
	}
	close(s.finished)
}

func (s *sched) switchTo(t, next *thread) {
	if next == t {
		return
	}
	s.x.Switches++
	s.cur = next
	next.wake <- struct{}{}
	<-t.wake
}

// point is a scheduling point of the running thread.
func (s *sched) point(loc string) {
	t := s.cur
	en := s.enabled(true)
	if len(en) == 1 {
		return // nothing to choose: not recorded, so traces stay short
	}
	next := en[s.pick(len(en), false, false, loc)]
	s.switchTo(t, next)
}

// block parks the running thread until ready() holds.
func (s *sched) block(ready func() bool, what string) {
	t := s.cur
	for !ready() {
		t.st, t.ready, t.what = tBlocked, ready, what
		en := s.enabled(false)
		if len(en) == 0 {
			s.x.Deadlock = true
			s.end()
			select {}
		}
		idx := 0
		if len(en) > 1 {
			idx = s.pick(len(en), true, false, "blocked:"+what)
		}
		next := en[idx]
		s.x.Switches++
		s.cur = next
		next.wake <- struct{}{}
		<-t.wake
		t.st = tRunnable
	}
	t.st = tRunnable
}

func (s *sched) exit(t *thread) {
	t.st = tDone
	en := s.enabled(false)
	if len(en) == 0 {
		for _, o := range s.threads {
			if o.st != tDone {
				s.x.Deadlock = true
			}
		}
		s.end()
		return
	}
	idx := 0
	if len(en) > 1 {
		idx = s.pick(len(en), true, false, "exit:"+t.name)
	}
	next := en[idx]
	s.x.Switches++
	s.cur = next
	next.wake <- struct{}{}
}

func (s *sched) spawn(name string, f func()) *thread {
	t := &thread{id: len(s.threads), name: name, wake: make(chan struct{}, 1)}
	if name == "" {
		t.name = fmt.Sprintf("t%d", t.id)
	}
	s.threads = append(s.threads, t)
	go func() {
		<-t.wake
		defer func() {
			if e := recover(); e != nil {
				if rd, ok := e.(ReplayDivergence); ok {
					// the execution is void: end it here (the other threads stay parked) instead of
					// scheduling on, which would only diverge again
					s.x.Panics = append(s.x.Panics, "REPLAY-DIVERGENCE: "+rd.Msg)
					t.st = tDone
					s.end()
					return
				} else {
					s.x.Panics = append(s.x.Panics, fmt.Sprintf("%s: %v\n%s", t.name, e, trimStack(debug.Stack())))
				}
			}
			s.exit(t)
		}()
		f()
	}()
	return t
}

func trimStack(b []byte) string {
	lines := strings.Split(string(b), "\n")
	if len(lines) > 40 {
		lines = lines[:40]
	}
	return strings.Join(lines, "\n")
}

// Run executes main as thread 0 under the scheduler, answering choice points
// with prefix and 0 afterwards, and returns when every thread has finished,
// nothing can run any more (deadlock) or the horizon of steps is reached.
func Run(prefix []int, horizon int, main func()) *Exec {
	if poisoned {
		panic("verifrt: an earlier execution of this process is stuck; no further execution can be controlled")
	}
	if active != nil {
		panic("verifrt: nested Run")
	}
	if horizon <= 0 {
		horizon = 200000
	}
	s := &sched{prefix: prefix, x: &Exec{}, finished: make(chan struct{}), horizon: horizon}
	active = s
	t0 := s.spawn("main", main)
	s.cur = t0
	t0.wake <- struct{}{}
	watchdog.Reset(stuckAfter)
	select {
	case <-s.finished:
		if !watchdog.Stop() {
			select {
			case <-watchdog.C:
			default:
			}
		}
	case <-watchdog.C:
		// The running thread waits for something the scheduler does not model (a channel, a
		// condition variable, the network, a spin loop): nothing can be concluded from this
		// execution, and since the thread may come back at any time the process cannot run
		// another one. The record handed out is a copy.
		poisoned = true
		buf := make([]byte, 1<<16)
		buf = buf[:runtime.Stack(buf, true)]
		x := &Exec{Steps: append([]Step(nil), s.x.Steps...), Stuck: true, StuckDump: string(buf)}
		return x
	}
	active = nil
	return s.x
}

// Poisoned reports whether an execution of this process got stuck (see Run).
func Poisoned() bool { return poisoned }

var (
	poisoned   bool
	stuckAfter = 90 * time.Second
	watchdog   = func() *time.Timer { t := time.NewTimer(time.Hour); t.Stop(); return t }()
)

func init() {
	if v, err := strconv.Atoi(os.Getenv("VERIF_STUCK_S")); err == nil && v > 0 {
		stuckAfter = time.Duration(v) * time.Second
	}
}

// P is the scheduling point the instrumenter inserts before every statement.
func P(loc string) {
	if s := active; s != nil && !s.ended {
		s.point(loc)
	}
}

// Go replaces the go statement: the new thread is created, then the spawner
// passes a scheduling point.
func Go(f func()) {
	s := active
	if s == nil || s.ended {
		go f()
		return
	}
	s.spawn("", f)
	s.point("spawn")
}

// GoNamed is Go with a thread name (harness use).
func GoNamed(name string, f func()) {
	s := active
	if s == nil || s.ended {
		go f()
		return
	}
	s.spawn(name, f)
	s.point("spawn:" + name)
}

// Block parks the calling thread until ready() holds (harness doubles use it to
// model waiting, e.g. "until the context is cancelled").
func Block(what string, ready func() bool) {
	s := active
	if s == nil || s.ended {
		panic("verifrt.Block outside a controlled execution")
	}
	s.point("before-block:" + what)
	s.block(ready, what)
}

// Choose is a data choice point (environment answer); 0 is the default.
func Choose(site string, n int) int {
	s := active
	if s == nil || s.ended || n <= 1 {
		return 0
	}
	return s.pick(n, false, true, site)
}

// CurrentThread returns the id of the running cooperative thread (-1 when inactive).
func CurrentThread() int {
	if s := active; s != nil && s.cur != nil {
		return s.cur.id
	}
	return -1
}
