package verifrt

import (
	"fmt"
	"io"
	"strings"
	"testing"
	"time"
)

func explore(t *testing.T, pb int, body func(res *[]string) func()) (Stats, map[string]int) {
	outcomes := map[string]int{}
	seen := map[string]bool{}
	st := Explore(Options{PreemptBound: pb}, func() (func(), func(*Exec)) {
		var res []string
		return body(&res), func(x *Exec) {
			k := fmt.Sprint(x.Choices())
			if seen[k] {
				t.Errorf("schedule explored twice: %s", k)
			}
			seen[k] = true
			if x.Preemptions > pb {
				t.Errorf("preemption bound exceeded: %d", x.Preemptions)
			}
			o := fmt.Sprint(res)
			if x.Deadlock {
				o = "DEADLOCK " + fmt.Sprint(x.Blocked)
			}
			if len(x.Panics) > 0 {
				o += " PANIC " + x.Panics[0]
			}
			outcomes[o]++
		}
	})
	return st, outcomes
}

func TestLostUpdate(t *testing.T) {
	body := func(res *[]string) func() {
		return func() {
			x := 0
			var wg WaitGroup
			wg.Add(2)
			for i := 0; i < 2; i++ {
				Go(func() {
					P("read")
					tmp := x
					P("write")
					x = tmp + 1
					wg.Done()
				})
			}
			wg.Wait()
			*res = append(*res, fmt.Sprint(x))
		}
	}
	_, o0 := explore(t, 0, body)
	if len(o0) != 1 || o0["[2]"] == 0 {
		t.Errorf("bound 0: %v", o0)
	}
	st, o1 := explore(t, 1, body)
	if o1["[1]"] == 0 || o1["[2]"] == 0 {
		t.Errorf("bound 1 should expose the lost update: %v", o1)
	}
	st2, _ := explore(t, 1, body)
	if st != st2 {
		t.Errorf("not deterministic: %+v vs %+v", st, st2)
	}
	t.Logf("bound1 %+v outcomes %v", st, o1)
}

func TestMutexProtects(t *testing.T) {
	body := func(res *[]string) func() {
		return func() {
			x := 0
			var mu Mutex
			var wg WaitGroup
			wg.Add(2)
			for i := 0; i < 2; i++ {
				Go(func() {
					mu.Lock()
					P("read")
					tmp := x
					P("write")
					x = tmp + 1
					mu.Unlock()
					wg.Done()
				})
			}
			wg.Wait()
			*res = append(*res, fmt.Sprint(x))
		}
	}
	st, o := explore(t, 3, body)
	if len(o) != 1 || o["[2]"] == 0 {
		t.Errorf("mutex: %v", o)
	}
	t.Logf("%+v", st)
}

func TestDeadlock(t *testing.T) {
	body := func(res *[]string) func() {
		return func() {
			var a, b Mutex
			Go(func() { a.Lock(); P("x"); b.Lock(); b.Unlock(); a.Unlock() })
			Go(func() { b.Lock(); P("y"); a.Lock(); a.Unlock(); b.Unlock() })
		}
	}
	_, o0 := explore(t, 0, body)
	for k := range o0 {
		if len(k) > 8 && k[:8] == "DEADLOCK" {
			t.Errorf("bound 0 should not deadlock: %v", o0)
		}
	}
	_, o1 := explore(t, 1, body)
	found := false
	for k := range o1 {
		if len(k) > 8 && k[:8] == "DEADLOCK" {
			found = true
		}
	}
	if !found {
		t.Errorf("bound 1 should find the deadlock: %v", o1)
	}
}

func TestPipe(t *testing.T) {
	body := func(res *[]string) func() {
		return func() {
			pr, pw := Pipe()
			Go(func() {
				_, _ = pw.Write([]byte("hello"))
				_, _ = pw.Write([]byte(" world"))
				pw.Close()
			})
			b, err := io.ReadAll(pr)
			*res = append(*res, string(b), fmt.Sprint(err))
		}
	}
	st, o := explore(t, 2, body)
	if len(o) != 1 || o["[hello world <nil>]"] == 0 {
		t.Errorf("pipe: %v", o)
	}
	t.Logf("%+v", st)
	// abandoned reader: the writer is left blocked, which the scheduler reports
	leak := func(res *[]string) func() {
		return func() {
			_, pw := Pipe()
			Go(func() { _, _ = pw.Write([]byte("x")) })
		}
	}
	_, o = explore(t, 1, leak)
	for k := range o {
		if len(k) < 8 || k[:8] != "DEADLOCK" {
			t.Errorf("expected blocked writer, got %v", o)
		}
	}
	// reader closing releases the writer with the error
	rel := func(res *[]string) func() {
		return func() {
			pr, pw := Pipe()
			var wg WaitGroup
			wg.Add(1)
			Go(func() { _, err := pw.Write([]byte("x")); *res = append(*res, fmt.Sprint(err)); wg.Done() })
			pr.CloseWithError(io.ErrUnexpectedEOF)
			wg.Wait()
		}
	}
	_, o = explore(t, 2, rel)
	if len(o) != 1 || o["[unexpected EOF]"] == 0 {
		t.Errorf("release: %v", o)
	}
}

func TestOnce(t *testing.T) {
	body := func(res *[]string) func() {
		return func() {
			var once Once
			n := 0
			var wg WaitGroup
			wg.Add(2)
			for i := 0; i < 2; i++ {
				Go(func() {
					once.Do(func() { P("init1"); n++; P("init2") })
					*res = append(*res, fmt.Sprint(n))
					wg.Done()
				})
			}
			wg.Wait()
		}
	}
	_, o := explore(t, 2, body)
	if len(o) != 1 || o["[1 1]"] == 0 {
		t.Errorf("once: %v", o)
	}
}

func TestPassThrough(t *testing.T) {
	var mu Mutex
	mu.Lock()
	mu.Unlock()
	var once Once
	n := 0
	once.Do(func() { n++ })
	once.Do(func() { n++ })
	pr, pw := Pipe()
	go func() { _, _ = pw.Write([]byte("ok")); pw.Close() }()
	b, _ := io.ReadAll(pr)
	if n != 1 || string(b) != "ok" {
		t.Fatal("pass-through broken")
	}
	P("nothing")
	got := Ordered("s", map[string]int{"a": 1, "b": 2})
	if len(got) != 2 {
		t.Fatal("ordered")
	}
}

func TestShardingPartitionsTheSearch(t *testing.T) {
	mk := func(seen map[string]int) func() (func(), func(*Exec)) {
		return func() (func(), func(*Exec)) {
			return func() {
					x := 0
					for i := 0; i < 3; i++ {
						Go(func() { P("a"); x++; P("b"); x++; P("c") })
					}
				}, func(x *Exec) {
					seen[fmt.Sprint(x.Choices())]++
				}
		}
	}
	for _, pb := range []int{1, 2} {
		whole := map[string]int{}
		st := Explore(Options{PreemptBound: pb}, mk(whole))
		for _, shards := range []int{2, 5} {
			union := map[string]int{}
			var total int64
			for sh := 0; sh < shards; sh++ {
				s := Explore(Options{PreemptBound: pb, Shard: sh, Shards: shards}, mk(union))
				total += s.Executions
			}
			if total != st.Executions || len(union) != len(whole) {
				t.Errorf("pb=%d shards=%d: %d executions / %d distinct, unsharded %d / %d", pb, shards, total, len(union), st.Executions, len(whole))
			}
			for k, n := range union {
				if n != 1 || whole[k] != 1 {
					t.Errorf("schedule %s explored %d times across shards", k, n)
					break
				}
			}
		}
	}
}

// A replay divergence inside a thread must end the execution, not crash the process.
func TestDivergenceEndsExecution(t *testing.T) {
	n := 0
	st := Explore(Options{PreemptBound: 1}, func() (func(), func(*Exec)) {
		n++
		k := n
		return func() {
			GoNamed("a", func() { P("a1"); P("a2") })
			GoNamed("b", func() {
				P("b1")
				if k%2 == 0 { // every second execution has fewer alternatives than the recorded prefix expects
					return
				}
				GoNamed("c", func() { P("c1") })
				P("b2")
			})
			P("m1")
		}, func(x *Exec) {}
	})
	if st.Divergences == 0 {
		t.Skip("no divergence provoked by this shape")
	}
}

// A thread that waits on something the scheduler does not model must not hang the search:
// the execution is reported stuck and the process refuses further controlled executions.
// (Runs last in the file: it poisons the process.)
func TestZZStuckExecutionIsReported(t *testing.T) {
	old := stuckAfter
	stuckAfter = 300 * time.Millisecond
	defer func() { stuckAfter = old }()
	never := make(chan struct{})
	st := Explore(Options{PreemptBound: 1}, func() (func(), func(*Exec)) {
		return func() {
				GoNamed("a", func() { P("a1"); <-never })
				P("m1")
			}, func(x *Exec) {
				t.Errorf("oracle called for a stuck execution")
			}
	})
	if st.Stuck != 1 || !st.Stopped || !Poisoned() {
		t.Fatalf("stats %+v poisoned=%v", st, Poisoned())
	}
	if !strings.Contains(st.StuckDump, "goroutine") {
		t.Fatalf("no dump")
	}
}
