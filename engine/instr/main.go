// Command instr rewrites a listed set of go-openapi/runtime source files for
// the controlled scheduler and writes a `go build -overlay` description; the
// repository itself is never touched.
//
//	instr -repo /repo -conf props/c09/overlay.conf -out .work/ov-123
//
// Conf lines:
//
//	file <path relative to repo>             statement points + sync/pipe/go rewriting
//	order <relative path> <expr as printed>  range over that map expression becomes an owned choice
//	sortcall <relative path> <fun as printed> calls of that function (returning []string in an order the callee
//	                                         takes from a map, e.g. go-openapi/analysis' media type lists) are wrapped
//	                                         in verifrt.SortedStrings: the order is owned, fixed to sorted
//	rtonly                                   (no files) only make the verifrt package available
//
// What it does per listed file: (1) verifrt.P("file:line") before every statement
// of every block, case clause and comm clause (never inside the clause list of a
// switch/select body); (2) selectors sync.Mutex/RWMutex/Once/WaitGroup/Pool and
// io.Pipe/PipeReader/PipeWriter -> verifrt equivalents; (3) `go f(a, b)` ->
// t1, t2 := a, b; verifrt.Go(func(){ f(t1, t2) }) (arguments are evaluated by the
// spawner, as the language says); (4) whitelisted map ranges -> range
// verifrt.Ordered(site, m).
// A tree that has moved on must not break the checks: a listed file that no longer exists is
// skipped with a note, and when a whitelisted range expression is no longer found the package
// is type-checked (go/types, source importer) and EVERY range over a map in the listed files
// of that package becomes an owned choice instead.
package main

import (
	"bufio"
	"bytes"
	"encoding/json"
	"flag"
	"fmt"
	"go/ast"
	"go/format"
	"go/importer"
	"go/parser"
	"go/printer"
	"go/token"
	"go/types"
	"os"
	"path/filepath"
	"reflect"
	"strings"
)

const rtImport = "github.com/go-openapi/runtime/verifrt"

func die(f string, a ...any) {
	fmt.Fprintf(os.Stderr, "instr: "+f+"\n", a...)
	os.Exit(2)
}

func main() {
	repo := flag.String("repo", "/repo", "checkout to instrument")
	conf := flag.String("conf", "", "configuration file")
	out := flag.String("out", "", "output directory")
	rtdir := flag.String("rt", "/verif/engine/rt", "source of the verifrt package")
	flag.Parse()
	if *conf == "" || *out == "" {
		die("need -conf and -out")
	}
	absRepo, _ := filepath.Abs(*repo)
	absOut, _ := filepath.Abs(*out)
	if err := os.MkdirAll(absOut, 0o755); err != nil {
		die("%v", err)
	}
	var files []string
	orders := map[string][]string{}
	sortcalls := map[string][]string{}
	cf, err := os.Open(*conf)
	if err != nil {
		die("%v", err)
	}
	sc := bufio.NewScanner(cf)
	for sc.Scan() {
		ln := strings.TrimSpace(sc.Text())
		if ln == "" || strings.HasPrefix(ln, "#") {
			continue
		}
		f := strings.SplitN(ln, " ", 3)
		switch f[0] {
		case "file":
			files = append(files, f[1])
		case "order":
			orders[f[1]] = append(orders[f[1]], f[2])
		case "sortcall":
			sortcalls[f[1]] = append(sortcalls[f[1]], f[2])
		case "rtonly":
		default:
			die("bad conf line %q", ln)
		}
	}
	replace := map[string]string{}
	// the virtual package
	ents, err := os.ReadDir(*rtdir)
	if err != nil {
		die("%v", err)
	}
	for _, e := range ents {
		n := e.Name()
		if strings.HasSuffix(n, ".go") && !strings.HasSuffix(n, "_test.go") {
			abs, _ := filepath.Abs(filepath.Join(*rtdir, n))
			replace[filepath.Join(absRepo, "verifrt", n)] = abs
		}
	}
	points := 0
	for i, rel := range files {
		src := filepath.Join(absRepo, rel)
		b, err := os.ReadFile(src)
		if err != nil {
			fmt.Fprintf(os.Stderr, "instr: note: listed file %s does not exist in this tree; skipped\n", rel)
			delete(orders, rel)
			continue
		}
		curSortCalls = sortcalls[rel]
		nb, n, err := rewrite(rel, b, orders[rel], nil)
		if me, ok := err.(missingRange); ok {
			fmt.Fprintf(os.Stderr, "instr: note: %s: %v; owning every map range of the file by type instead\n", rel, me)
			at, terr := mapRangesByType(absRepo, rel)
			if terr != nil {
				fmt.Fprintf(os.Stderr, "instr: note: %s: type check failed (%v); map ranges of this file are not owned\n", rel, terr)
				at = map[string]bool{}
			}
			nb, n, err = rewrite(rel, b, nil, at)
		}
		if err != nil {
			die("%s: %v", rel, err)
		}
		points += n
		dst := filepath.Join(absOut, fmt.Sprintf("f%02d_%s", i, strings.ReplaceAll(rel, "/", "_")))
		if err := os.WriteFile(dst, nb, 0o644); err != nil {
			die("%v", err)
		}
		replace[src] = dst
		delete(orders, rel)
	}
	for rel := range orders {
		fmt.Fprintf(os.Stderr, "instr: note: order rule for %s, which is not a listed file; ignored\n", rel)
	}
	ob, _ := json.MarshalIndent(map[string]any{"Replace": replace}, "", " ")
	if err := os.WriteFile(filepath.Join(absOut, "overlay.json"), ob, 0o644); err != nil {
		die("%v", err)
	}
	fmt.Fprintf(os.Stderr, "instr: %d files, %d points\n", len(files), points)
}

type rw struct {
	fset   *token.FileSet
	rel    string
	points int
	usedRT bool
	orders map[string]bool // expr -> seen
	at     map[string]bool // "line:col" of map ranges found by type (fallback mode)
	err    error
	tmpN   int
}

func exprString(fset *token.FileSet, e ast.Expr) string {
	var b bytes.Buffer
	_ = printer.Fprint(&b, fset, e)
	return b.String()
}

// missingRange is the error for a whitelisted range expression that the file no longer contains.
type missingRange string

func (m missingRange) Error() string {
	return fmt.Sprintf("whitelisted map range %q not found", string(m))
}

// mapRangesByType type-checks the package of rel and returns the positions ("line:col") of all
// range statements over a map in that file.
func mapRangesByType(absRepo, rel string) (map[string]bool, error) {
	dir := filepath.Dir(filepath.Join(absRepo, rel))
	old, _ := os.Getwd()
	if err := os.Chdir(dir); err != nil {
		return nil, err
	}
	defer os.Chdir(old)
	fset := token.NewFileSet()
	pkgs, err := parser.ParseDir(fset, dir, func(fi os.FileInfo) bool { return !strings.HasSuffix(fi.Name(), "_test.go") }, 0)
	if err != nil {
		return nil, err
	}
	out := map[string]bool{}
	for name, p := range pkgs {
		var files []*ast.File
		var target *ast.File
		for fn, f := range p.Files {
			files = append(files, f)
			if filepath.Base(fn) == filepath.Base(rel) {
				target = f
			}
		}
		if target == nil {
			continue
		}
		info := &types.Info{Types: map[ast.Expr]types.TypeAndValue{}}
		var firstErr error
		conf := types.Config{Importer: importer.ForCompiler(fset, "source", nil), Error: func(err error) {
			if firstErr == nil {
				firstErr = err
			}
		}}
		_, _ = conf.Check(name, fset, files, info)
		if firstErr != nil {
			return nil, firstErr
		}
		ast.Inspect(target, func(n ast.Node) bool {
			if r, ok := n.(*ast.RangeStmt); ok {
				if tv, ok := info.Types[r.X]; ok {
					if _, ok := tv.Type.Underlying().(*types.Map); ok {
						p := fset.Position(r.Pos())
						out[fmt.Sprintf("%d:%d", p.Line, p.Column)] = true
					}
				}
			}
			return true
		})
	}
	return out, nil
}

func rewrite(rel string, src []byte, orders []string, at map[string]bool) ([]byte, int, error) {
	fset := token.NewFileSet()
	// comments are dropped (go/printer can misplace them around inserted nodes); a file that
	// carries compiler directives in comments must therefore not be instrumented silently
	if bytes.Contains(src, []byte("\n//go:")) || bytes.HasPrefix(src, []byte("//go:")) || bytes.Contains(src, []byte("\n// +build")) {
		return nil, 0, fmt.Errorf("file carries //go: directives; the instrumenter would drop them")
	}
	f, err := parser.ParseFile(fset, rel, src, 0)
	if err != nil {
		return nil, 0, err
	}
	r := &rw{fset: fset, rel: rel, orders: map[string]bool{}, at: at}
	for _, o := range orders {
		r.orders[o] = false
	}
	// names under which sync and io are imported
	syncName, ioName := "", ""
	for _, im := range f.Imports {
		p := strings.Trim(im.Path.Value, `"`)
		name := ""
		if im.Name != nil {
			name = im.Name.Name
		}
		switch p {
		case "sync":
			syncName = "sync"
			if name != "" {
				syncName = name
			}
		case "io":
			ioName = "io"
			if name != "" {
				ioName = name
			}
		}
	}
	// pass 0: calls whose []string result order is owned
	if len(curSortCalls) > 0 {
		want := map[string]bool{}
		for _, c := range curSortCalls {
			want[c] = true
		}
		found := map[string]bool{}
		done := map[*ast.CallExpr]bool{}
		replaceExprs(f, func(e ast.Expr) ast.Expr {
			c, ok := e.(*ast.CallExpr)
			if !ok || done[c] {
				return e
			}
			fn := exprString(fset, c.Fun)
			if !want[fn] {
				return e
			}
			done[c] = true
			found[fn] = true
			r.usedRT = true
			return &ast.CallExpr{Fun: &ast.SelectorExpr{X: ast.NewIdent("verifrt"), Sel: ast.NewIdent("SortedStrings")}, Args: []ast.Expr{c}}
		})
		for c := range want {
			if !found[c] {
				fmt.Fprintf(os.Stderr, "instr: note: %s: no call of %s found; its result order is not owned\n", rel, c)
			}
		}
	}
	syncLeft, ioLeft := false, false
	// pass 1: selectors, go statements, map ranges
	ast.Inspect(f, func(n ast.Node) bool {
		switch x := n.(type) {
		case *ast.SelectorExpr:
			if id, ok := x.X.(*ast.Ident); ok && id.Obj == nil {
				if id.Name == syncName && syncName != "" {
					switch x.Sel.Name {
					case "Mutex", "RWMutex", "Once", "WaitGroup", "Pool":
						id.Name = "verifrt"
						r.usedRT = true
					default:
						syncLeft = true
					}
				}
				if id.Name == ioName && ioName != "" {
					switch x.Sel.Name {
					case "Pipe", "PipeReader", "PipeWriter":
						id.Name = "verifrt"
						r.usedRT = true
					default:
						ioLeft = true
					}
				}
			}
		}
		return true
	})
	r.stmtLists(f)
	if r.err != nil {
		return nil, 0, r.err
	}
	for o, seen := range r.orders {
		if !seen {
			return nil, 0, missingRange(o)
		}
	}
	// imports: add verifrt, drop sync / io when nothing else uses them
	if r.usedRT {
		addImport(f, rtImport)
	}
	if syncName != "" && !syncLeft {
		dropImport(f, "sync")
	}
	if ioName != "" && !ioLeft {
		dropImport(f, "io")
	}
	var out bytes.Buffer
	if err := format.Node(&out, fset, f); err != nil {
		return nil, 0, err
	}
	return out.Bytes(), r.points, nil
}

var curSortCalls []string

var exprType = reflect.TypeOf((*ast.Expr)(nil)).Elem()

// replaceExprs applies fn to every expression-typed field (and element of expression slices) below root,
// children first, and stores what fn returns.
func replaceExprs(root ast.Node, fn func(ast.Expr) ast.Expr) {
	ast.Inspect(root, func(n ast.Node) bool {
		if n == nil {
			return true
		}
		v := reflect.ValueOf(n)
		if v.Kind() != reflect.Ptr || v.IsNil() || v.Elem().Kind() != reflect.Struct {
			return true
		}
		sv := v.Elem()
		for i := 0; i < sv.NumField(); i++ {
			fv := sv.Field(i)
			switch {
			case fv.Type() == exprType && !fv.IsNil() && fv.CanSet():
				if ne := fn(fv.Interface().(ast.Expr)); ne != nil {
					fv.Set(reflect.ValueOf(ne))
				}
			case fv.Kind() == reflect.Slice && fv.Type().Elem() == exprType:
				for j := 0; j < fv.Len(); j++ {
					ev := fv.Index(j)
					if !ev.IsNil() {
						if ne := fn(ev.Interface().(ast.Expr)); ne != nil {
							ev.Set(reflect.ValueOf(ne))
						}
					}
				}
			}
		}
		return true
	})
}

func addImport(f *ast.File, path string) {
	spec := &ast.ImportSpec{Path: &ast.BasicLit{Kind: token.STRING, Value: `"` + path + `"`}}
	for _, d := range f.Decls {
		if g, ok := d.(*ast.GenDecl); ok && g.Tok == token.IMPORT {
			g.Specs = append(g.Specs, spec)
			if !g.Lparen.IsValid() {
				g.Lparen = g.Pos()
				g.Rparen = g.End()
			}
			f.Imports = append(f.Imports, spec)
			return
		}
	}
	g := &ast.GenDecl{Tok: token.IMPORT, Specs: []ast.Spec{spec}}
	f.Decls = append([]ast.Decl{g}, f.Decls...)
	f.Imports = append(f.Imports, spec)
}

func dropImport(f *ast.File, path string) {
	for _, d := range f.Decls {
		g, ok := d.(*ast.GenDecl)
		if !ok || g.Tok != token.IMPORT {
			continue
		}
		var keep []ast.Spec
		for _, s := range g.Specs {
			if strings.Trim(s.(*ast.ImportSpec).Path.Value, `"`) != path {
				keep = append(keep, s)
			}
		}
		g.Specs = keep
	}
}

func (r *rw) point(pos token.Pos) ast.Stmt {
	r.points++
	r.usedRT = true
	p := r.fset.Position(pos)
	return &ast.ExprStmt{X: &ast.CallExpr{
		Fun:  &ast.SelectorExpr{X: ast.NewIdent("verifrt"), Sel: ast.NewIdent("P")},
		Args: []ast.Expr{&ast.BasicLit{Kind: token.STRING, Value: fmt.Sprintf("%q", fmt.Sprintf("%s:%d", r.rel, p.Line))}},
	}}
}

// stmtLists walks the file and instruments every statement list.
func (r *rw) stmtLists(f *ast.File) {
	var visit func(n ast.Node, clauseBody bool)
	visit = func(n ast.Node, clauseBody bool) {
		if n == nil {
			return
		}
		switch x := n.(type) {
		case *ast.BlockStmt:
			if x == nil {
				return
			}
			if clauseBody {
				for _, c := range x.List {
					visit(c, false)
				}
				return
			}
			x.List = r.list(x.List)
			for _, s := range x.List {
				visit(s, false)
			}
			return
		case *ast.CaseClause:
			for _, e := range x.List {
				visit(e, false)
			}
			x.Body = r.list(x.Body)
			for _, s := range x.Body {
				visit(s, false)
			}
			return
		case *ast.CommClause:
			x.Body = r.list(x.Body)
			for _, s := range x.Body {
				visit(s, false)
			}
			return
		case *ast.SwitchStmt:
			visit(x.Init, false)
			visit(x.Tag, false)
			visit(x.Body, true)
			return
		case *ast.TypeSwitchStmt:
			visit(x.Init, false)
			visit(x.Assign, false)
			visit(x.Body, true)
			return
		case *ast.SelectStmt:
			visit(x.Body, true)
			return
		case *ast.LabeledStmt:
			visit(x.Stmt, false)
			return
		}
		// generic traversal of children, stopping at the node kinds handled above
		ast.Inspect(n, func(c ast.Node) bool {
			if c == nil || c == n {
				return true
			}
			switch c.(type) {
			case *ast.BlockStmt, *ast.CaseClause, *ast.CommClause, *ast.SwitchStmt, *ast.TypeSwitchStmt, *ast.SelectStmt, *ast.LabeledStmt:
				visit(c, false)
				return false
			}
			return true
		})
	}
	for _, d := range f.Decls {
		switch x := d.(type) {
		case *ast.FuncDecl:
			if x.Body != nil {
				visit(x.Body, false)
			}
		case *ast.GenDecl:
			// function literals in package-level initialisers
			visit(x, false)
		}
	}
}

// list instruments one statement list: a point before every statement, go
// statements and whitelisted ranges rewritten in place.
func (r *rw) list(in []ast.Stmt) []ast.Stmt {
	out := make([]ast.Stmt, 0, 2*len(in))
	for _, s := range in {
		switch x := s.(type) {
		case *ast.GoStmt:
			r.usedRT = true
			out = append(out, r.point(s.Pos()))
			var fn ast.Expr
			if fl, ok := x.Call.Fun.(*ast.FuncLit); ok && len(x.Call.Args) == 0 {
				fn = fl
			} else {
				// the spawner evaluates the arguments; literals and nil/true/false stay in place
				// (a temporary would fix the type of an untyped constant)
				call := &ast.CallExpr{Fun: x.Call.Fun, Ellipsis: x.Call.Ellipsis}
				var lhs, rhs []ast.Expr
				for _, a := range x.Call.Args {
					inline := false
					switch v := a.(type) {
					case *ast.BasicLit:
						inline = true
					case *ast.Ident:
						inline = v.Name == "nil" || v.Name == "true" || v.Name == "false"
					}
					if inline {
						call.Args = append(call.Args, a)
						continue
					}
					r.tmpN++
					t := fmt.Sprintf("verifArg%d", r.tmpN)
					lhs = append(lhs, ast.NewIdent(t))
					rhs = append(rhs, a)
					call.Args = append(call.Args, ast.NewIdent(t))
				}
				if len(lhs) > 0 {
					out = append(out, &ast.AssignStmt{Lhs: lhs, Tok: token.DEFINE, Rhs: rhs})
				}
				fn = &ast.FuncLit{Type: &ast.FuncType{Params: &ast.FieldList{}}, Body: &ast.BlockStmt{List: []ast.Stmt{&ast.ExprStmt{X: call}}}}
			}
			out = append(out, &ast.ExprStmt{X: &ast.CallExpr{Fun: &ast.SelectorExpr{X: ast.NewIdent("verifrt"), Sel: ast.NewIdent("Go")}, Args: []ast.Expr{fn}}})
			continue
		case *ast.RangeStmt:
			es := exprString(r.fset, x.X)
			if _, ok := r.orders[es]; ok {
				r.orders[es] = true
				r.rangeRewrite(x, es)
			} else if p := r.fset.Position(x.Pos()); r.at[fmt.Sprintf("%d:%d", p.Line, p.Column)] && x.Tok == token.DEFINE {
				r.rangeRewrite(x, es)
			}
		}
		// a declaration statement that only labels / a bare label target still gets its point before it
		out = append(out, r.point(s.Pos()), s)
	}
	return out
}

// rangeRewrite turns `for k, v := range m {B}` into
// `for _, kvN := range verifrt.Ordered(site, m) { k, v := kvN.K, kvN.V; B }`.
func (r *rw) rangeRewrite(x *ast.RangeStmt, es string) {
	r.usedRT = true
	r.tmpN++
	tmp := fmt.Sprintf("verifKV%d", r.tmpN)
	site := fmt.Sprintf("%s:%d:%s", r.rel, r.fset.Position(x.Pos()).Line, es)
	var lhs, rhs []ast.Expr
	if id, ok := x.Key.(*ast.Ident); ok && x.Key != nil && id.Name != "_" {
		lhs = append(lhs, ast.NewIdent(id.Name))
		rhs = append(rhs, &ast.SelectorExpr{X: ast.NewIdent(tmp), Sel: ast.NewIdent("K")})
	}
	if x.Value != nil {
		if id, ok := x.Value.(*ast.Ident); ok && id.Name != "_" {
			lhs = append(lhs, ast.NewIdent(id.Name))
			rhs = append(rhs, &ast.SelectorExpr{X: ast.NewIdent(tmp), Sel: ast.NewIdent("V")})
		}
	}
	if x.Tok != token.DEFINE {
		r.err = fmt.Errorf("%s: range with '=' is not supported", r.fset.Position(x.Pos()))
		return
	}
	x.X = &ast.CallExpr{
		Fun:  &ast.SelectorExpr{X: ast.NewIdent("verifrt"), Sel: ast.NewIdent("Ordered")},
		Args: []ast.Expr{&ast.BasicLit{Kind: token.STRING, Value: fmt.Sprintf("%q", site)}, x.X},
	}
	x.Key = ast.NewIdent("_")
	x.Value = ast.NewIdent(tmp)
	if len(lhs) > 0 {
		assign := &ast.AssignStmt{Lhs: lhs, Tok: token.DEFINE, Rhs: rhs}
		// keep "declared and not used" away when the body ignores one of them
		var uses []ast.Stmt
		for _, l := range lhs {
			uses = append(uses, &ast.AssignStmt{Lhs: []ast.Expr{ast.NewIdent("_")}, Tok: token.ASSIGN, Rhs: []ast.Expr{ast.NewIdent(l.(*ast.Ident).Name)}})
		}
		x.Body.List = append(append([]ast.Stmt{assign}, uses...), x.Body.List...)
	} else {
		x.Body.List = append([]ast.Stmt{&ast.AssignStmt{Lhs: []ast.Expr{ast.NewIdent("_")}, Tok: token.ASSIGN, Rhs: []ast.Expr{ast.NewIdent(tmp)}}}, x.Body.List...)
	}
}
