// Package doubles holds scripted environment doubles whose nondeterminism is
// owned by a choice.Chooser: readers that short-read, return data together
// with EOF, perform zero-length reads or fail at any offset; writers that fail
// at the k-th write; close counters.
package doubles

import (
	"errors"
	"io"

	"verif/engine/choice"
)

// ErrInjected is the error scripted streams fail with.
var ErrInjected = errors.New("injected stream error")

// Reader is a scripted io.ReadCloser over Data. Every Read with a non-empty
// buffer is a choice point:
//
//	0          deliver as many bytes as fit (what bytes.Reader does); EOF comes on the next call
//	1..        deliver k bytes for each smaller k in ShortSizes (short read)
//	then       deliver the rest together with the terminal condition (data+EOF), when everything fits
//	then       a zero-length read (0, nil), at most ZeroReads times
//	then       fail now with ErrInjected (sticky), when Faults is set
//
// Terminal: io.EOF, or Term when set (sticky).
type Reader struct {
	Name      string
	Data      []byte
	C         *choice.Chooser
	Term      error // nil = io.EOF
	Faults    bool  // offer "fail now" at every read
	ZeroReads int   // budget of zero-length reads offered
	NoShort   bool  // do not offer short reads

	Pos            int
	Reads          int
	Closes         int
	Failed         error // sticky injected failure
	SawTerm        bool  // terminal condition has been delivered
	ReadAfterClose int
}

func (r *Reader) term() error {
	if r.Term != nil {
		return r.Term
	}
	return io.EOF
}

func (r *Reader) Read(p []byte) (int, error) {
	r.Reads++
	if r.Closes > 0 {
		r.ReadAfterClose++
	}
	if r.Failed != nil {
		return 0, r.Failed
	}
	if len(p) == 0 {
		return 0, nil
	}
	rem := r.Data[r.Pos:]
	type opt struct {
		n    int
		term bool
		zero bool
		fail bool
	}
	var opts []opt
	if len(rem) == 0 {
		opts = append(opts, opt{term: true})
	} else {
		m := len(p)
		if m > len(rem) {
			m = len(rem)
		}
		opts = append(opts, opt{n: m})
		if !r.NoShort {
			if m > 1 {
				opts = append(opts, opt{n: 1})
			}
			if m > 2 {
				opts = append(opts, opt{n: m - 1})
			}
		}
		if m == len(rem) {
			opts = append(opts, opt{n: m, term: true})
		}
	}
	if r.ZeroReads > 0 {
		opts = append(opts, opt{zero: true})
	}
	if r.Faults {
		opts = append(opts, opt{fail: true})
	}
	o := opts[0]
	if r.C != nil && len(opts) > 1 {
		o = opts[r.C.Choose(r.Name+".Read", len(opts))]
	}
	switch {
	case o.zero:
		r.ZeroReads--
		return 0, nil
	case o.fail:
		r.Failed = ErrInjected
		return 0, r.Failed
	}
	n := copy(p, rem[:o.n])
	r.Pos += n
	if o.term {
		r.SawTerm = true
		if r.Term != nil {
			r.Failed = r.Term
		}
		return n, r.term()
	}
	return n, nil
}

func (r *Reader) Close() error {
	r.Closes++
	return nil
}

// Plain is Reader without the Close method (an io.Reader that is not a Closer).
type Plain struct{ R *Reader }

func (p Plain) Read(b []byte) (int, error) { return p.R.Read(b) }

// Writer is a scripted io.WriteCloser: every Write is a choice point when
// Faults is set (0 = accept everything, 1 = fail now, sticky; 2 = short write without error is NOT offered:
// io.Writer forbids it).
type Writer struct {
	Name   string
	C      *choice.Chooser
	Faults bool

	Buf    []byte
	Writes int
	Closes int
	Failed error
}

func (w *Writer) Write(p []byte) (int, error) {
	w.Writes++
	if w.Failed != nil {
		return 0, w.Failed
	}
	if w.Faults && w.C != nil {
		if w.C.Choose(w.Name+".Write", 2) == 1 {
			w.Failed = ErrInjected
			return 0, w.Failed
		}
	}
	w.Buf = append(w.Buf, p...)
	return len(p), nil
}

func (w *Writer) Close() error {
	w.Closes++
	return nil
}

// PlainWriter is Writer without Close.
type PlainWriter struct{ W *Writer }

func (p PlainWriter) Write(b []byte) (int, error) { return p.W.Write(b) }
