// Package enum holds the small-scope enumerators (E1): products, subsets,
// permutations, strings up to a length, and a work-sharing parallel loop.
package enum

import (
	"runtime"
	"sync"
	"sync/atomic"
)

// Parallel calls fn(i) for every i in [0,n) on all cores (dynamic work queue).
// stop, if non-nil, is polled before each item; returning true abandons the rest.
func Parallel(n int, stop func() bool, fn func(i int)) {
	w := runtime.NumCPU()
	if w > n {
		w = n
	}
	if w < 1 {
		w = 1
	}
	var next atomic.Int64
	var wg sync.WaitGroup
	for k := 0; k < w; k++ {
		wg.Add(1)
		go func() {
			defer wg.Done()
			for {
				i := int(next.Add(1) - 1)
				if i >= n {
					return
				}
				if stop != nil && stop() {
					return
				}
				fn(i)
			}
		}()
	}
	wg.Wait()
}

// Strings returns every string of length 0..max over the alphabet, shortest
// first, in alphabet order (simplest first).
func Strings(alpha []string, max int) []string {
	out := []string{""}
	prev := []string{""}
	for l := 1; l <= max; l++ {
		cur := make([]string, 0, len(prev)*len(alpha))
		for _, p := range prev {
			for _, a := range alpha {
				cur = append(cur, p+a)
			}
		}
		out = append(out, cur...)
		prev = cur
	}
	return out
}

// Seqs returns every sequence of length min..max over n symbols.
func Seqs(n, min, max int) [][]int {
	var out [][]int
	var rec func(cur []int)
	rec = func(cur []int) {
		if len(cur) >= min {
			out = append(out, append([]int(nil), cur...))
		}
		if len(cur) == max {
			return
		}
		for i := 0; i < n; i++ {
			rec(append(cur, i))
		}
	}
	// breadth-first order: shortest first
	for l := min; l <= max; l++ {
		var rl func(cur []int)
		rl = func(cur []int) {
			if len(cur) == l {
				out = append(out, append([]int(nil), cur...))
				return
			}
			for i := 0; i < n; i++ {
				rl(append(cur, i))
			}
		}
		rl(nil)
	}
	_ = rec
	return out
}

// Subsets returns all subsets of {0..n-1} whose size is in [min,max], as
// sorted index lists, smallest first.
func Subsets(n, min, max int) [][]int {
	var out [][]int
	for k := min; k <= max; k++ {
		var rec func(start int, cur []int)
		rec = func(start int, cur []int) {
			if len(cur) == k {
				out = append(out, append([]int(nil), cur...))
				return
			}
			for i := start; i < n; i++ {
				rec(i+1, append(cur, i))
			}
		}
		rec(0, nil)
	}
	return out
}

// Perms returns all permutations of 0..n-1 in lexicographic order.
func Perms(n int) [][]int {
	var out [][]int
	used := make([]bool, n)
	var rec func(cur []int)
	rec = func(cur []int) {
		if len(cur) == n {
			out = append(out, append([]int(nil), cur...))
			return
		}
		for i := 0; i < n; i++ {
			if !used[i] {
				used[i] = true
				rec(append(cur, i))
				used[i] = false
			}
		}
	}
	rec(nil)
	return out
}

// Product calls fn with every index tuple of the given axis sizes,
// lexicographic, first axis slowest. fn must not retain idx.
func Product(sizes []int, fn func(idx []int)) {
	for _, s := range sizes {
		if s == 0 {
			return
		}
	}
	idx := make([]int, len(sizes))
	for {
		fn(idx)
		k := len(sizes) - 1
		for k >= 0 {
			idx[k]++
			if idx[k] < sizes[k] {
				break
			}
			idx[k] = 0
			k--
		}
		if k < 0 {
			return
		}
	}
}
