// Package report is the common front end of every property binary: argument
// parsing (tier / replay), counting, violation collection, attribution to the
// committed known-findings file, replay artefacts and the evidence file.
package report

import (
	"crypto/sha256"
	"encoding/hex"
	"encoding/json"
	"fmt"
	"os"
	"path/filepath"
	"runtime"
	"runtime/debug"
	"sort"
	"strconv"
	"sync"
	"sync/atomic"
	"time"
)

const root = "/verif"

// Failure is one case on which the oracle was not satisfied.
type Failure struct {
	Class string `json:"class"` // classifier verdict; known findings are matched on it
	What  string `json:"what"`  // observed vs expected, human readable
	Case  any    `json:"case"`  // replayable input (property specific)
}

type finding struct {
	Property string `json:"property"`
	ID       string `json:"id"`
	Status   string `json:"status"`
	Class    string `json:"class"`
	Witness  any    `json:"witness"`
	What     string `json:"what"`
	Commit   string `json:"commit,omitempty"`
}

// R collects what one run covered.
type R struct {
	Prop   string
	Level  string
	Tier   string
	Seed   int64
	Replay string // non-empty: replay that file instead of exploring

	start       time.Time
	evals       atomic.Int64
	nontrivial  atomic.Int64
	states      atomic.Int64
	transitions atomic.Int64
	traces      atomic.Int64

	mu       sync.Mutex
	samples  []any
	fails    map[string][]Failure // by class, capped
	failN    map[string]int
	extra    map[string]any
	assume   []string
	outcomes map[string]int64
	deadline time.Time
	cut      atomic.Bool
	partial  atomic.Bool
}

// Start parses the command line: <quick|thorough> or --replay <file>.
func Start(prop, level string) *R {
	r := &R{Prop: prop, Level: level, Tier: "quick", start: time.Now(),
		fails: map[string][]Failure{}, failN: map[string]int{}, extra: map[string]any{}, outcomes: map[string]int64{}}
	// the explorers allocate many short-lived objects on all cores over a tiny live heap;
	// collecting at 100% growth would spend most of the time in the collector
	debug.SetGCPercent(2000)
	// ... but never let that balloon a large live heap: the collector becomes eager again near 3 GiB
	// (several checks may run side by side on one machine)
	debug.SetMemoryLimit(3 << 30)
	// a tree under test may make the code allocate without bound (an output loop that never ends): the
	// machine has no memory limit of its own, so the run gives up long before the kernel has to choose
	// a victim. No verdict can be given then: exit 2 with a message.
	go func() {
		var ms runtime.MemStats
		for {
			time.Sleep(250 * time.Millisecond)
			runtime.ReadMemStats(&ms)
			if ms.HeapAlloc > 12<<30 {
				fmt.Fprintf(os.Stderr, "internal: live heap of %d MiB: the code under test allocates without bound; giving up without a verdict\n", ms.HeapAlloc>>20)
				os.Exit(2)
			}
		}
	}()
	args := os.Args[1:]
	for i := 0; i < len(args); i++ {
		switch args[i] {
		case "quick", "thorough":
			r.Tier = args[i]
		case "--replay", "replay":
			if i+1 >= len(args) {
				fmt.Fprintln(os.Stderr, "usage: --replay <file>")
				os.Exit(2)
			}
			r.Replay = args[i+1]
			i++
		default:
			fmt.Fprintf(os.Stderr, "unknown argument %q\n", args[i])
			os.Exit(2)
		}
	}
	if t := os.Getenv("VERIF_TIER"); t == "quick" || t == "thorough" {
		if len(args) == 0 {
			r.Tier = t
		}
	}
	if s := os.Getenv("VERIF_SEED"); s != "" {
		if v, err := strconv.ParseInt(s, 10, 64); err == nil {
			r.Seed = v
		}
	}
	// internal time budget: reaching it ends the run with exhaustive:false, never with an alarm
	budget := 20 * time.Minute
	if r.Tier == "quick" {
		budget = 4 * time.Minute
	}
	if s := os.Getenv("VERIF_BUDGET_S"); s != "" {
		if v, err := strconv.Atoi(s); err == nil {
			budget = time.Duration(v) * time.Second
		}
	}
	r.deadline = r.start.Add(budget)
	// hard deadline: the budget above is polled between units of work; code under test that never
	// comes back (a call that blocks for ever) would keep the run from ever polling it. Well after the
	// budget the run ends itself with what it has: recorded violations are reported, otherwise the
	// verdict is "not exhaustive" - never a hang.
	go func() {
		time.Sleep(budget + 75*time.Second)
		r.Incomplete("hard deadline reached: part of the run did not come back from the code under test (a call that never returns, or a machine far too slow); what was explored until then is reported")
		fmt.Fprintln(os.Stderr, "note: hard deadline reached; ending the run with what was explored")
		r.Finish("run ended by its hard deadline", false)
	}()
	// worker processes of the same run (schedule search shards) inherit the deadline
	if os.Getenv("VERIF_DEADLINE_UNIX") == "" {
		os.Setenv("VERIF_DEADLINE_UNIX", strconv.FormatInt(r.deadline.Unix(), 10))
	}
	return r
}

func (r *R) Thorough() bool { return r.Tier == "thorough" }

// OutOfTime reports whether the internal budget is used up; explorers poll it
// between shards and stop (the run is then reported as not exhaustive).
func (r *R) OutOfTime() bool {
	if time.Now().After(r.deadline) {
		r.cut.Store(true)
		return true
	}
	return false
}
func (r *R) Cut() bool { return r.cut.Load() }

// Incomplete records that part of the stated space was not explored (time budget, an execution
// the explorer could not control): the run ends with exhaustive:false, never with an alarm.
func (r *R) Incomplete(why string) {
	r.partial.Store(true) // other parts of the run go on
	r.mu.Lock()
	defer r.mu.Unlock()
	l, _ := r.extra["incomplete_because"].([]string)
	if len(l) < 8 {
		r.extra["incomplete_because"] = append(l, why)
	}
}

func (r *R) Eval(n int64)       { r.evals.Add(n) }
func (r *R) Nontrivial(n int64) { r.nontrivial.Add(n) }
func (r *R) States(n int64)     { r.states.Add(n) }
func (r *R) Transitions(n int64) {
	r.transitions.Add(n)
}
func (r *R) Traces(n int64) { r.traces.Add(n) }

// Outcome counts a distinct observed outcome label (vacuity indicator).
func (r *R) Outcome(label string, n int64) {
	r.mu.Lock()
	r.outcomes[label] += n
	r.mu.Unlock()
}

// Sample keeps up to 12 explored cases for the evidence file.
func (r *R) Sample(v any) {
	r.mu.Lock()
	if len(r.samples) < 12 {
		r.samples = append(r.samples, v)
	}
	r.mu.Unlock()
}
func (r *R) WantSample() bool {
	r.mu.Lock()
	defer r.mu.Unlock()
	return len(r.samples) < 12
}

func (r *R) Set(k string, v any) {
	r.mu.Lock()
	r.extra[k] = v
	r.mu.Unlock()
}
func (r *R) Assume(s ...string) { r.assume = append(r.assume, s...) }

// Fail records a case on which the oracle failed.
func (r *R) Fail(class, what string, c any) {
	r.mu.Lock()
	r.failN[class]++
	if len(r.fails[class]) < 5 {
		r.fails[class] = append(r.fails[class], Failure{Class: class, What: what, Case: c})
	}
	r.mu.Unlock()
}

func (r *R) Failed() int {
	r.mu.Lock()
	defer r.mu.Unlock()
	n := 0
	for _, v := range r.failN {
		n += v
	}
	return n
}

// loadFindings reads /verif/known_findings/<prop>.json (committed, read-only at
// run time; absent file = no findings for that property).
func loadFindings(prop string) []finding {
	var f struct {
		Findings []finding `json:"findings"`
	}
	b, err := os.ReadFile(filepath.Join(root, "known_findings", prop+".json"))
	if os.IsNotExist(err) {
		return nil
	}
	if err != nil {
		fmt.Fprintln(os.Stderr, "cannot read known findings:", err)
		os.Exit(2)
	}
	if err := json.Unmarshal(b, &f); err != nil {
		fmt.Fprintln(os.Stderr, "known findings:", err)
		os.Exit(2)
	}
	return f.Findings
}

// Finish attributes failures, writes replay files and the evidence file,
// prints the verdict lines and exits.
func (r *R) Finish(rule string, exhaustive bool) {
	if r.cut.Load() || r.partial.Load() {
		exhaustive = false
	}
	known := map[string]finding{}
	for _, f := range loadFindings(r.Prop) {
		if f.Property == r.Prop && f.Status == "known" {
			known[f.Class] = f
		}
	}
	classes := make([]string, 0, len(r.failN))
	for c := range r.failN {
		classes = append(classes, c)
	}
	sort.Strings(classes)
	violations := 0
	knownSeen := []string{}
	for _, c := range classes {
		if f, ok := known[c]; ok {
			fmt.Printf("KNOWN-FINDING: property=%s %s [%s: %d cases this run, e.g. %s]\n", r.Prop, f.What, f.ID, r.failN[c], r.fails[c][0].What)
			knownSeen = append(knownSeen, f.ID)
			continue
		}
		violations += r.failN[c]
		fl := r.fails[c][0]
		b, _ := json.MarshalIndent(map[string]any{"property": r.Prop, "class": c, "what": fl.What, "case": fl.Case, "count": r.failN[c], "more": r.fails[c][1:]}, "", " ")
		h := sha256.Sum256(b)
		dir := filepath.Join(root, "replays", r.Prop)
		_ = os.MkdirAll(dir, 0o755)
		p := filepath.Join(dir, hex.EncodeToString(h[:6])+".json")
		_ = os.WriteFile(p, b, 0o644)
		fmt.Printf("VIOLATION property=%s replay=%s\n", r.Prop, p)
		fmt.Printf("  class=%s cases=%d first: %s\n", c, r.failN[c], fl.What)
	}
	cov := map[string]any{
		"evaluations":         r.evals.Load(),
		"distinct_nontrivial": r.nontrivial.Load(),
		"rule":                rule,
		"samples":             r.samples,
		"exhaustive":          exhaustive,
		"distinct_outcomes":   len(r.outcomes),
		"outcome_counts":      r.outcomes,
		"known_findings_seen": knownSeen,
	}
	if r.Level == "model_checking" || r.states.Load() > 0 {
		cov["states"] = r.states.Load()
		cov["transitions"] = r.transitions.Load()
		cov["traces_validated_against_impl"] = r.traces.Load()
	}
	for k, v := range r.extra {
		cov[k] = v
	}
	if len(r.samples) == 0 {
		cov["samples"] = []any{"(no case explored)"}
	}
	ev := map[string]any{
		"property_id": r.Prop,
		"tier":        r.Tier,
		"seed":        r.Seed,
		"level":       r.Level,
		"coverage":    cov,
		"assumptions": r.assume,
		"wall_s":      time.Since(r.start).Seconds(),
		"violations":  violations,
	}
	if r.Replay == "" && os.Getenv("VERIF_NO_EVIDENCE") == "" && os.Getenv("VERIF_PARTS") == "" { // (a run restricted to some parts is a development aid)
		b, _ := json.MarshalIndent(ev, "", " ")
		_ = os.MkdirAll(filepath.Join(root, "evidence"), 0o755)
		if err := os.WriteFile(filepath.Join(root, "evidence", r.Prop+".json"), b, 0o644); err != nil {
			fmt.Fprintln(os.Stderr, "evidence:", err)
			os.Exit(2)
		}
	}
	fmt.Printf("%s %s: evaluations=%d nontrivial=%d outcomes=%d exhaustive=%v violations=%d wall=%.1fs\n",
		r.Prop, r.Tier, r.evals.Load(), r.nontrivial.Load(), len(r.outcomes), exhaustive, violations, time.Since(r.start).Seconds())
	if violations > 0 {
		os.Exit(1)
	}
	os.Exit(0)
}

// LoadReplay reads the "case" member of a replay file into v.
func (r *R) LoadReplay(v any) {
	b, err := os.ReadFile(r.Replay)
	if err != nil {
		fmt.Fprintln(os.Stderr, err)
		os.Exit(2)
	}
	var f struct {
		Case json.RawMessage `json:"case"`
	}
	if err := json.Unmarshal(b, &f); err != nil || f.Case == nil {
		// allow a bare case too
		f.Case = b
	}
	if err := json.Unmarshal(f.Case, v); err != nil {
		fmt.Fprintln(os.Stderr, "replay case:", err)
		os.Exit(2)
	}
}
