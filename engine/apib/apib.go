// Package apib builds in-memory Swagger 2.0 descriptions and untyped APIs for
// the server-side harnesses (no files, no network).
package apib

import (
	"encoding/json"
	"fmt"
	"sort"
	"strings"

	"github.com/go-openapi/loads"
)

// Op is one operation of a generated description.
type Op struct {
	Method    string                 `json:"method"`
	Path      string                 `json:"path"`
	ID        string                 `json:"id,omitempty"`
	Consumes  []string               `json:"consumes,omitempty"`
	Produces  []string               `json:"produces,omitempty"`
	Params    []map[string]any       `json:"params,omitempty"`    // raw swagger parameter objects
	Security  *[]map[string][]string `json:"security,omitempty"`  // nil: inherit; empty list: none
	Responses map[string]any         `json:"responses,omitempty"` // raw; default {"200":{"description":"ok"}}
}

// Spec is a generated API description.
type Spec struct {
	BasePath     string                `json:"basePath"`
	NoBasePath   bool                  `json:"noBasePath,omitempty"`
	Title        string                `json:"title,omitempty"`
	Consumes     []string              `json:"consumes,omitempty"`
	Produces     []string              `json:"produces,omitempty"`
	SecurityDefs map[string]any        `json:"securityDefinitions,omitempty"`
	Security     []map[string][]string `json:"security,omitempty"`
	Ops          []Op                  `json:"ops"`
}

// OpID is the id given to an operation that has none.
func OpID(o Op) string {
	if o.ID != "" {
		return o.ID
	}
	r := strings.NewReplacer("/", "_", "{", "", "}", "", ".", "-")
	return strings.ToLower(o.Method) + r.Replace(o.Path)
}

// JSON renders the description.
func (s Spec) JSON() []byte {
	title := s.Title
	if title == "" {
		title = "generated"
	}
	doc := map[string]any{
		"swagger": "2.0",
		"info":    map[string]any{"title": title, "version": "1"},
	}
	if !s.NoBasePath {
		doc["basePath"] = s.BasePath
	}
	if s.Consumes != nil {
		doc["consumes"] = s.Consumes
	}
	if s.Produces != nil {
		doc["produces"] = s.Produces
	}
	if s.SecurityDefs != nil {
		doc["securityDefinitions"] = s.SecurityDefs
	}
	if s.Security != nil {
		doc["security"] = s.Security
	}
	paths := map[string]any{}
	for _, o := range s.Ops {
		pi, _ := paths[o.Path].(map[string]any)
		if pi == nil {
			pi = map[string]any{}
			paths[o.Path] = pi
		}
		op := map[string]any{"operationId": OpID(o)}
		if o.Consumes != nil {
			op["consumes"] = o.Consumes
		}
		if o.Produces != nil {
			op["produces"] = o.Produces
		}
		if o.Params != nil {
			op["parameters"] = o.Params
		}
		if o.Security != nil {
			op["security"] = *o.Security
		}
		if o.Responses != nil {
			op["responses"] = o.Responses
		} else {
			op["responses"] = map[string]any{"200": map[string]any{"description": "ok"}}
		}
		pi[strings.ToLower(o.Method)] = op
	}
	doc["paths"] = paths
	b, err := json.Marshal(doc)
	if err != nil {
		panic(err)
	}
	return b
}

// Load analyses the description in memory.
func Load(s Spec) (*loads.Document, error) {
	return loads.Analyzed(json.RawMessage(s.JSON()), "")
}

// MustLoad panics on a description that does not load (a harness bug).
func MustLoad(s Spec) *loads.Document {
	d, err := Load(s)
	if err != nil {
		panic(fmt.Sprintf("spec does not load: %v\n%s", err, s.JSON()))
	}
	return d
}

// SortedKeys is a helper for deterministic iteration.
func SortedKeys[V any](m map[string]V) []string {
	ks := make([]string, 0, len(m))
	for k := range m {
		ks = append(ks, k)
	}
	sort.Strings(ks)
	return ks
}
