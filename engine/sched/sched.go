// Package sched spreads a schedule search (verifrt.Explore) over worker
// processes: the scheduler state is process-global, so parallelism is by
// process, each worker exploring the top-level subtrees k = shard (mod shards).
package sched

import (
	"bytes"
	"encoding/json"
	"fmt"
	"os"
	"os/exec"
	"runtime"
	"runtime/debug"
	"strconv"
	"strings"
	"sync"
	"time"

	"github.com/go-openapi/runtime/verifrt"

	"verif/engine/report"
)

// Result is what one worker (or the merge of all) reports for one scenario.
type Result struct {
	Scenario string           `json:"scenario"`
	Stats    verifrt.Stats    `json:"stats"`
	Failures []report.Failure `json:"failures"`
	FailN    map[string]int   `json:"fail_n"`
	Outcomes map[string]int64 `json:"outcomes"`
	Samples  []any            `json:"samples"`
	Err      string           `json:"err,omitempty"`
}

// Collector is handed to the scenario body in a worker.
type Collector struct{ res *Result }

func (c *Collector) Fail(class, what string, cs any) {
	c.res.FailN[class]++
	if c.res.FailN[class] <= 3 {
		c.res.Failures = append(c.res.Failures, report.Failure{Class: class, What: what, Case: cs})
	}
}
func (c *Collector) Outcome(label string) { c.res.Outcomes[label]++ }
func (c *Collector) Sample(v any) {
	if len(c.res.Samples) < 2 {
		c.res.Samples = append(c.res.Samples, v)
	}
}

// ScenarioFunc explores one scenario within the options and reports into c.
type ScenarioFunc func(scenario string, o verifrt.Options, c *Collector) verifrt.Stats

// WorkerMain must be called first thing in main: when the process was started
// as a worker it runs the shard and exits.
func WorkerMain(fn ScenarioFunc) {
	if len(os.Args) < 2 || os.Args[1] != "e3worker" {
		return
	}
	a := os.Args[2:]
	atoi := func(s string) int { v, _ := strconv.Atoi(s); return v }
	res := &Result{Scenario: a[0], FailN: map[string]int{}, Outcomes: map[string]int64{}}
	o := verifrt.Options{PreemptBound: atoi(a[1]), DataBound: atoi(a[2]), Shard: atoi(a[3]), Shards: atoi(a[4])}
	if len(a) > 5 {
		o.MaxFree = atoi(a[5])
	}
	if d, err := strconv.ParseInt(os.Getenv("VERIF_DEADLINE_UNIX"), 10, 64); err == nil && d > 0 {
		// the run's internal time budget: a shard that reaches it stops and reports Stopped (exhaustive:false)
		deadline := time.Unix(d, 0)
		// a worker stuck in the code under test must not outlive the run
		time.AfterFunc(time.Until(deadline)+60*time.Second, func() { os.Exit(3) })
		n := 0
		o.Stop = func() bool {
			n++
			return n%16 == 0 && time.Now().After(deadline)
		}
	}
	func() {
		defer func() {
			if e := recover(); e != nil {
				// a panic outside a controlled execution: the code under test panicked in one of the
				// scenario's solo / set-up calls (a harness bug would show on the unchanged tree too)
				res.FailN["panic/outside-controlled-execution"]++
				res.Failures = append(res.Failures, report.Failure{Class: "panic/outside-controlled-execution",
					What: fmt.Sprintf("scenario %s: %v | %s", a[0], e, firstLines(string(debug.Stack()), 16)), Case: map[string]any{"kind": "schedule", "scenario": a[0], "choices": []int{}}})
			}
		}()
		res.Stats = fn(a[0], o, &Collector{res})
	}()
	b, _ := json.Marshal(res)
	os.Stdout.Write(append(b, '\n'))
	os.Exit(0)
}

// RunSharded starts the workers for one scenario and merges their results.
func RunSharded(scenario string, pb, db int) (*Result, error) {
	return RunShardedN(scenario, pb, db, runtime.NumCPU())
}

// RunShardedN is RunSharded with a stated number of worker processes (small searches are
// better run several at a time with few workers each).
func RunShardedN(scenario string, pb, db, n int) (*Result, error) {
	return RunShardedFree(scenario, pb, db, n, 0)
}

// RunShardedFree additionally bounds the non-default free scheduling choices (0 = unlimited).
func RunShardedFree(scenario string, pb, db, n, maxFree int) (*Result, error) {
	if n < 1 || (pb == 0 && db == 0) {
		n = 1
	}
	results := make([]*Result, n)
	errs := make([]error, n)
	var wg sync.WaitGroup
	for i := 0; i < n; i++ {
		wg.Add(1)
		go func(i int) {
			defer wg.Done()
			cmd := exec.Command(os.Args[0], "e3worker", scenario, strconv.Itoa(pb), strconv.Itoa(db), strconv.Itoa(i), strconv.Itoa(n), strconv.Itoa(maxFree))
			cmd.Env = append(os.Environ(), "GOMAXPROCS=1")
			var out, errb bytes.Buffer
			cmd.Stdout, cmd.Stderr = &out, &errb
			if err := cmd.Run(); err != nil {
				if ee, ok := err.(*exec.ExitError); ok && ee.ExitCode() == 3 {
					// the worker ended itself at its hard deadline: it was stuck in the code under test
					results[i] = &Result{Scenario: scenario, FailN: map[string]int{}, Outcomes: map[string]int64{},
						Stats: verifrt.Stats{Stuck: 1, Stopped: true, StuckDump: "worker ended by its hard deadline (stuck in the code under test)"}}
					return
				}
				errs[i] = fmt.Errorf("worker %d: %v\n%s", i, err, tail(errb.String()))
				return
			}
			var r Result
			lines := bytes.Split(bytes.TrimSpace(out.Bytes()), []byte("\n"))
			if err := json.Unmarshal(lines[len(lines)-1], &r); err != nil {
				errs[i] = fmt.Errorf("worker %d: bad output: %v\n%s", i, err, tail(out.String()))
				return
			}
			results[i] = &r
		}(i)
	}
	wg.Wait()
	m := &Result{Scenario: scenario, FailN: map[string]int{}, Outcomes: map[string]int64{}}
	for i, r := range results {
		if errs[i] != nil {
			return nil, errs[i]
		}
		if r.Err != "" {
			return nil, fmt.Errorf("worker %d: %s", i, r.Err)
		}
		m.Stats.Executions += r.Stats.Executions
		m.Stats.Steps += r.Stats.Steps
		m.Stats.NewSteps += r.Stats.NewSteps
		m.Stats.Deadlocks += r.Stats.Deadlocks
		m.Stats.Aborted += r.Stats.Aborted
		m.Stats.Divergences += r.Stats.Divergences
		if m.Stats.FirstDivergence == "" {
			m.Stats.FirstDivergence = r.Stats.FirstDivergence
		}
		m.Stats.Stopped = m.Stats.Stopped || r.Stats.Stopped
		m.Stats.Stuck += r.Stats.Stuck
		if m.Stats.StuckDump == "" {
			m.Stats.StuckDump = r.Stats.StuckDump
		}
		if r.Stats.MaxSteps > m.Stats.MaxSteps {
			m.Stats.MaxSteps = r.Stats.MaxSteps
		}
		if r.Stats.MaxPreempt > m.Stats.MaxPreempt {
			m.Stats.MaxPreempt = r.Stats.MaxPreempt
		}
		for k, v := range r.FailN {
			m.FailN[k] += v
		}
		m.Failures = append(m.Failures, r.Failures...)
		for k, v := range r.Outcomes {
			m.Outcomes[k] += v
		}
		if len(m.Samples) < 3 {
			m.Samples = append(m.Samples, r.Samples...)
		}
	}
	return m, nil
}

func tail(s string) string {
	if len(s) > 4000 {
		return s[len(s)-4000:]
	}
	return s
}

// Merge folds a scenario result into the run report.
func Merge(r *report.R, m *Result) {
	r.Eval(m.Stats.Executions)
	r.Traces(m.Stats.Executions)
	r.States(m.Stats.NewSteps)
	r.Transitions(m.Stats.Steps)
	first := map[string]report.Failure{}
	for _, f := range m.Failures {
		if _, ok := first[f.Class]; !ok {
			first[f.Class] = f
		}
	}
	for cls, n := range m.FailN {
		f := first[cls]
		for i := 0; i < n; i++ {
			r.Fail(cls, f.What, f.Case)
		}
	}
	for k, v := range m.Outcomes {
		r.Outcome(m.Scenario+":"+k, v)
	}
	for _, s := range m.Samples {
		r.Sample(s)
	}
	if m.Stats.Divergences > 0 {
		// unowned nondeterminism is a limit of the harness on this tree, not a verdict about the property
		r.Incomplete(fmt.Sprintf("scenario %s: %d execution(s) could not replay their recorded prefix (behaviour depends on something the harness does not own: map order, time, randomness); they were not judged and their subtrees were not explored", m.Scenario, m.Stats.Divergences))
		fmt.Fprintf(os.Stderr, "note: %s: %d replay divergence(s); first: %s\n", m.Scenario, m.Stats.Divergences, tail(m.Stats.FirstDivergence))
	}
	if m.Stats.Stuck > 0 {
		// not a verdict about the property: the search is incomplete
		d := m.Stats.StuckDump
		if len(d) > 3000 {
			d = d[:3000]
		}
		r.Incomplete(fmt.Sprintf("scenario %s: %d execution(s) stuck - a thread waited on something the controlled scheduler does not model; their subtrees were not explored", m.Scenario, m.Stats.Stuck))
		fmt.Fprintf(os.Stderr, "note: %s: %d stuck execution(s); goroutines:\n%s\n", m.Scenario, m.Stats.Stuck, d)
	} else if m.Stats.Stopped {
		r.Incomplete(fmt.Sprintf("scenario %s: time budget reached", m.Scenario))
	}
}

func firstLines(s string, n int) string {
	l := strings.Split(s, "\n")
	if len(l) > n {
		l = l[:n]
	}
	return strings.Join(l, " | ")
}
