// Package choice is the deviation-bounded environment explorer (E2): harness
// doubles ask Choose(site, n); answer 0 is the default environment behaviour,
// any other answer is a deviation. Explore runs the body for EVERY choice
// sequence with at most `bound` deviations (stateless DFS by replay).
package choice

import (
	"fmt"
	"runtime"
	"sync"
	"sync/atomic"
)

// Point is one choice point of an execution.
type Point struct {
	Site   string `json:"site"`
	N      int    `json:"n"`
	Chosen int    `json:"chosen"`
}

// Chooser answers the choice points of one execution.
type Chooser struct {
	prefix []int
	Trace  []Point
}

// Replay returns a chooser that answers with the given choices and 0 afterwards.
func Replay(choices []int) *Chooser { return &Chooser{prefix: choices} }

// Choose returns a value in [0,n). n must be >= 1.
func (c *Chooser) Choose(site string, n int) int {
	if n < 1 {
		panic("choice: n < 1 at " + site)
	}
	i := len(c.Trace)
	v := 0
	if i < len(c.prefix) {
		v = c.prefix[i]
		if v >= n {
			// a divergence while replaying a prefix means nondeterminism escaped the harness
			panic(fmt.Sprintf("choice: replay divergence at point %d (%s): choice %d out of range %d", i, site, v, n))
		}
	}
	c.Trace = append(c.Trace, Point{site, n, v})
	return v
}

// Choices returns the answers given so far.
func (c *Chooser) Choices() []int {
	out := make([]int, len(c.Trace))
	for i, p := range c.Trace {
		out[i] = p.Chosen
	}
	return out
}

// Deviations counts non-default answers.
func (c *Chooser) Deviations() int {
	n := 0
	for _, p := range c.Trace {
		if p.Chosen != 0 {
			n++
		}
	}
	return n
}

// Explore runs body once per choice sequence with at most bound deviations
// (bound < 0: unbounded). body must build fresh state on every call and must be
// deterministic given the chooser. It returns the number of executions.
// stop, if non-nil, is polled between executions.
func Explore(bound int, stop func() bool, body func(c *Chooser)) int64 {
	var n int64
	var rec func(prefix []int)
	rec = func(prefix []int) {
		if stop != nil && stop() {
			return
		}
		c := Replay(prefix)
		body(c)
		n++
		if len(c.Trace) < len(prefix) {
			panic(fmt.Sprintf("choice: replay divergence: prefix of %d choices but only %d points reached", len(prefix), len(c.Trace)))
		}
		tr := c.Trace
		dev := 0
		for i := 0; i < len(prefix); i++ {
			if tr[i].Chosen != 0 {
				dev++
			}
		}
		for i := len(prefix); i < len(tr); i++ {
			// tr[i].Chosen == 0 here (default after the prefix)
			if bound >= 0 && dev+1 > bound {
				break
			}
			for alt := 1; alt < tr[i].N; alt++ {
				np := make([]int, i+1)
				for k := 0; k < i; k++ {
					np[k] = tr[k].Chosen
				}
				np[i] = alt
				rec(np)
			}
		}
	}
	rec(nil)
	return n
}

// ExploreParallel is Explore with the first level of the search tree spread over all cores.
func ExploreParallel(bound int, stop func() bool, body func(c *Chooser)) int64 {
	c0 := Replay(nil)
	body(c0)
	var n atomic.Int64
	n.Add(1)
	if bound == 0 {
		return 1
	}
	type job struct{ prefix []int }
	var jobs []job
	for i, p := range c0.Trace {
		for alt := 1; alt < p.N; alt++ {
			np := make([]int, i+1)
			np[i] = alt
			jobs = append(jobs, job{np})
		}
	}
	var next atomic.Int64
	var wg sync.WaitGroup
	for w := 0; w < runtime.NumCPU(); w++ {
		wg.Add(1)
		go func() {
			defer wg.Done()
			for {
				k := int(next.Add(1) - 1)
				if k >= len(jobs) || (stop != nil && stop()) {
					return
				}
				n.Add(exploreFrom(jobs[k].prefix, bound, stop, body))
			}
		}()
	}
	wg.Wait()
	return n.Load()
}

func exploreFrom(start []int, bound int, stop func() bool, body func(c *Chooser)) int64 {
	var n int64
	var rec func(prefix []int)
	rec = func(prefix []int) {
		if stop != nil && stop() {
			return
		}
		c := Replay(prefix)
		body(c)
		n++
		if len(c.Trace) < len(prefix) {
			panic("choice: replay divergence (short trace)")
		}
		tr := c.Trace
		dev := 0
		for i := 0; i < len(prefix); i++ {
			if tr[i].Chosen != 0 {
				dev++
			}
		}
		for i := len(prefix); i < len(tr); i++ {
			if bound >= 0 && dev+1 > bound {
				break
			}
			for alt := 1; alt < tr[i].N; alt++ {
				np := make([]int, i+1)
				for k := 0; k < i; k++ {
					np[k] = tr[k].Chosen
				}
				np[i] = alt
				rec(np)
			}
		}
	}
	rec(start)
	return n
}
