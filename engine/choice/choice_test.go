package choice

import "testing"

func TestCounts(t *testing.T) {
	body := func(c *Chooser) {
		a := c.Choose("a", 2)
		if a == 1 {
			c.Choose("x", 3) // only reachable after a deviation
		}
		c.Choose("b", 2)
		c.Choose("c", 2)
	}
	want := map[int]int64{0: 1, 1: 4, -1: 2*2*2 + 2*2*2} // a=0: 4 ; a=1: 3*4=12 -> 16
	want[-1] = 16
	for b, w := range want {
		if got := Explore(b, nil, body); got != w {
			t.Errorf("bound %d: %d executions, want %d", b, got, w)
		}
		if got := ExploreParallel(b, nil, body); got != w {
			t.Errorf("parallel bound %d: %d executions, want %d", b, got, w)
		}
	}
	seen := map[string]bool{}
	Explore(2, nil, func(c *Chooser) {
		body(c)
		k := ""
		for _, p := range c.Trace {
			k += string(rune('0' + p.Chosen))
		}
		if seen[k] {
			t.Errorf("duplicate execution %s", k)
		}
		seen[k] = true
		if c.Deviations() > 2 {
			t.Errorf("execution %s exceeds bound", k)
		}
	})
	// bound 2: a=0: 1+2+1=4 ; a=1 (1 dev): x,b,c with <=1 more deviation: 1+2+1+1=5 -> 9
	if len(seen) != 9 {
		t.Errorf("bound 2: %d distinct executions, want 9", len(seen))
	}
}
