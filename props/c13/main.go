// C13 - responses reach the reader with the right consumer; concurrent calls
// on one transport are safe. E1 (exhaustive product of response content types x
// consumer registries x status/headers x client/context precedence), E3 (all
// schedules of 2-3 concurrent Submit calls on one fresh Runtime up to a
// preemption bound) and R (free-running race pass).
package main

import (
	"github.com/opentracing/opentracing-go"
	"github.com/opentracing/opentracing-go/mocktracer"

	"bytes"
	"context"
	"encoding/json"
	"fmt"
	"io"
	"log"
	"mime"
	"mime/multipart"
	"net/http"
	"os"
	"os/exec"
	"reflect"
	goruntime "runtime"
	"sort"
	"strings"
	"sync"

	"github.com/go-openapi/runtime"
	"github.com/go-openapi/runtime/client"
	"github.com/go-openapi/runtime/verifrt"
	"github.com/go-openapi/strfmt"

	"verif/engine/enum"
	"verif/engine/report"
	"verif/engine/sched"
)

// ---------- E1: consumer selection ----------

type recConsumer struct{ id string }

func (c recConsumer) Consume(r io.Reader, v interface{}) error {
	b, err := io.ReadAll(r)
	if p, ok := v.(*string); ok {
		*p = string(b)
	}
	return err
}

type ctKind struct {
	Header  []string `json:"header"`  // Content-Type header lines (nil: absent)
	Media   string   `json:"media"`   // intended media type, lower case ("" = none can be determined)
	Exact   bool     `json:"exact"`   // spelled in lower case without oddities: the text forces the consumer
	Malform bool     `json:"malform"` // not a well-formed media type
}

// InputCase is the replayable E1 case.
type InputCase struct {
	Kind                 string   `json:"kind"` // "input"
	CT                   ctKind   `json:"ct"`
	Registry             string   `json:"registry"`
	Status               int      `json:"status"`
	OpClient             bool     `json:"op_client"`
	OpClientNilTransport bool     `json:"op_client_nil_transport,omitempty"` // the operation's client has no Transport of its own: http.DefaultTransport carries the request
	OpCtx                bool     `json:"op_ctx"`
	Debug                bool     `json:"debug,omitempty"`      // the transport dumps requests and responses (Runtime.Debug)
	BodyFault            string   `json:"body_fault,omitempty"` // scripted failure of the response body stream
	Via                  string   `json:"via,omitempty"`        // "" | "opentracing" | "opentelemetry": Submit goes through the tracing decorator (active only with an operation context)
	RtCtx                string   `json:"rt_ctx"`               // "set" | "nil"
	Default              string   `json:"default_media_type"`
	Headers              []string `json:"-"`
}

func ctKinds() []ctKind {
	var out []ctKind
	out = append(out, ctKind{Header: nil, Media: "<default>", Exact: true})
	out = append(out, ctKind{Header: []string{""}, Media: "<default>", Exact: true})
	medias := []string{"application/json", "text/plain", "application/xml", "application/octet-stream", "application/x-yaml", "text/csv", "text/html", "application/vnd.verif+json", "image/png"}
	params := []string{"", "; charset=utf-8", ";charset=UTF-8", " ; q=0.5 ; a=\"b;c\"", "; boundary=xyz"}
	for _, m := range medias {
		for _, p := range params {
			out = append(out, ctKind{Header: []string{m + p}, Media: m, Exact: true})
		}
		// media types are case-insensitive by definition (RFC 9110 8.3.1): "Application/JSON" IS the
		// media type application/json, with or without parameters
		up := strings.ToUpper(m[:1]) + m[1:]
		out = append(out, ctKind{Header: []string{up}, Media: m, Exact: true})
		out = append(out, ctKind{Header: []string{strings.ToUpper(m)}, Media: m, Exact: true})
		out = append(out, ctKind{Header: []string{strings.ToUpper(m) + "; charset=utf-8"}, Media: m, Exact: true})
		out = append(out, ctKind{Header: []string{" " + m + " "}, Media: m})
	}
	for _, bad := range []string{"garbage", "a/b/c", "text/plain;", "text/plain; =x", "text/plain; charset", "/json", "application/", ";", "text/plain; charset=utf-8; charset=latin1", "*/*", "text/*"} {
		// not (clearly) well formed: whatever a lenient reading could take as the media type is acceptable
		lenient := strings.ToLower(strings.TrimSpace(strings.SplitN(bad, ";", 2)[0]))
		out = append(out, ctKind{Header: []string{bad}, Media: lenient, Malform: true})
	}
	// two header lines: the first is the one Header.Get reports
	out = append(out, ctKind{Header: []string{"text/plain", "application/json"}, Media: "text/plain", Exact: true})
	return out
}

var defaultSet = []string{"application/x-yaml", "application/json", "application/xml", "text/plain", "text/html", "text/csv", "application/octet-stream"}

func registry(name string) map[string]runtime.Consumer {
	m := map[string]runtime.Consumer{}
	switch name {
	case "default":
		for _, k := range defaultSet {
			m[k] = recConsumer{k}
		}
	case "default+any":
		for _, k := range defaultSet {
			m[k] = recConsumer{k}
		}
		m["*/*"] = recConsumer{"*/*"}
	case "only-any":
		m["*/*"] = recConsumer{"*/*"}
	case "json-only":
		m["application/json"] = recConsumer{"application/json"}
	case "empty":
	}
	return m
}

type ctxKey string

type stubRT struct {
	name      string
	status    int
	header    http.Header
	body      string
	bodyFault string // "", "read-error-once@1", "read-error-once@2", "read-error-sticky@2", "close-error"
	seen      *http.Request
	ctxTag    string
}

type silentLogger struct{}

func (silentLogger) Printf(string, ...interface{}) {}
func (silentLogger) Debugf(string, ...interface{}) {}

// faultyBody delivers the response body two bytes at a time and fails as scripted.
type faultyBody struct {
	data   []byte
	pos    int
	reads  int
	fault  string
	failed bool
}

var errBody = fmt.Errorf("injected response body error")

func (b *faultyBody) Read(p []byte) (int, error) {
	b.reads++
	switch {
	case b.fault == "read-error-once@1" && b.reads == 1, b.fault == "read-error-once@2" && b.reads == 2:
		return 0, errBody
	case b.fault == "read-error-sticky@2" && b.reads >= 2:
		return 0, errBody
	}
	if b.pos >= len(b.data) {
		return 0, io.EOF
	}
	n := 2
	if n > len(b.data)-b.pos {
		n = len(b.data) - b.pos
	}
	if n > len(p) {
		n = len(p)
	}
	copy(p, b.data[b.pos:b.pos+n])
	b.pos += n
	return n, nil
}

func (b *faultyBody) Close() error {
	if b.fault == "close-error" {
		return errBody
	}
	return nil
}

func (s *stubRT) RoundTrip(req *http.Request) (*http.Response, error) {
	s.seen = req
	s.ctxTag = ""
	for _, k := range []string{"op", "rt"} {
		if v, _ := req.Context().Value(ctxKey(k)).(string); v != "" {
			s.ctxTag += k + ":" + v + " "
		}
	}
	if req.Body != nil {
		_, _ = io.Copy(io.Discard, req.Body)
		req.Body.Close()
	}
	return &http.Response{
		StatusCode: s.status, Status: fmt.Sprintf("%d %s", s.status, http.StatusText(s.status)),
		Proto: "HTTP/1.1", ProtoMajor: 1, ProtoMinor: 1,
		Header: s.header.Clone(), Body: &faultyBody{data: []byte(s.body), fault: s.bodyFault}, Request: req,
	}, nil
}

type seenResp struct {
	consumer string
	code     int
	msg      string
	one      string
	multi    []string
	body     string
	readErr  error
	called   bool
}

func checkInput(c InputCase) (class, what string) {
	rt := client.New("example.test", "/base", []string{"http"})
	if c.Default != "" {
		rt.DefaultMediaType = c.Default
	}
	rt.Consumers = registry(c.Registry)
	hdr := http.Header{}
	if c.CT.Header != nil {
		hdr["Content-Type"] = append([]string(nil), c.CT.Header...)
	}
	hdr["X-One"] = []string{"single"}
	hdr["X-Multi"] = []string{"m1", "m2"}
	body := "BODY-" + fmt.Sprint(c.Status)
	tStub := &stubRT{name: "transport", status: c.Status, header: hdr, body: body, bodyFault: c.BodyFault}
	oStub := &stubRT{name: "operation", status: c.Status, header: hdr, body: body, bodyFault: c.BodyFault}
	rt.Debug = c.Debug
	if c.Debug {
		rt.SetLogger(silentLogger{}) // the dumps go to this logger
	}
	rt.Transport = tStub
	switch c.RtCtx {
	case "set":
		rt.Context = context.WithValue(context.Background(), ctxKey("rt"), "R")
	case "nil":
		rt.Context = nil
	}
	var seen seenResp
	op := &runtime.ClientOperation{
		ID: "op", Method: "GET", PathPattern: "/x",
		ProducesMediaTypes: []string{"application/json"}, ConsumesMediaTypes: []string{"application/json"},
		Schemes: []string{"http"},
		Params:  runtime.ClientRequestWriterFunc(func(runtime.ClientRequest, strfmt.Registry) error { return nil }),
		Reader: runtime.ClientResponseReaderFunc(func(resp runtime.ClientResponse, cons runtime.Consumer) (interface{}, error) {
			seen.called = true
			if rc, ok := cons.(recConsumer); ok {
				seen.consumer = rc.id
			} else {
				seen.consumer = fmt.Sprintf("<foreign %T>", cons)
			}
			seen.code, seen.msg = resp.Code(), resp.Message()
			seen.one, seen.multi = resp.GetHeader("X-One"), resp.GetHeaders("X-Multi")
			b, rerr := io.ReadAll(resp.Body())
			seen.body, seen.readErr = string(b), rerr
			return "result", nil
		}),
	}
	if c.OpClient {
		op.Client = &http.Client{Transport: oStub}
		if c.OpClientNilTransport {
			// a client without Transport means http.DefaultTransport (replaced by defaultStub in main)
			op.Client = &http.Client{}
		}
	}
	if c.OpCtx {
		op.Context = context.WithValue(context.Background(), ctxKey("op"), "O")
	}
	var res interface{}
	var err error
	func() {
		defer func() {
			if e := recover(); e != nil {
				err = fmt.Errorf("PANIC: %v", e)
				class = "panic"
			}
		}()
		var tr runtime.ClientTransport = rt
		switch c.Via {
		case "opentracing":
			tr = rt.WithOpenTracing()
			if op.Context != nil {
				// a parent span in the operation's context is what makes the decorator create a client span
				op.Context = opentracing.ContextWithSpan(op.Context, mocktracer.New().StartSpan("parent"))
			}
		case "opentelemetry":
			tr = rt.WithOpenTelemetry()
		}
		res, err = tr.Submit(op)
	}()
	if class == "panic" {
		return class, err.Error()
	}
	if c.OpClient && c.OpClientNilTransport {
		if tStub.seen != nil {
			return "client-precedence", "the operation's HTTP client (no Transport of its own, i.e. the default transport) was replaced by the transport-wide transport"
		}
		if err != nil && strings.Contains(err.Error(), "default transport reached") {
			return "", "operation client used: request went to the default transport"
		}
		return "client-precedence", fmt.Sprintf("request did not go through the operation's HTTP client (default transport): err=%v", err)
	}
	// which transport carried the request, with which context
	used, other := tStub, oStub
	if c.OpClient {
		used, other = oStub, tStub
	}
	if used.seen == nil || other.seen != nil {
		return "client-precedence", fmt.Sprintf("request went through the wrong HTTP client (operation client set: %v)", c.OpClient)
	}
	wantCtx := ""
	switch {
	case c.OpCtx:
		wantCtx = "op:O "
	case c.RtCtx == "set":
		wantCtx = "rt:R "
	}
	if used.ctxTag != wantCtx {
		return "context-precedence", fmt.Sprintf("request context carries %q, want %q", used.ctxTag, wantCtx)
	}
	// expected consumer
	reg := rt.Consumers
	media := c.CT.Media
	if media == "<default>" {
		media = strings.ToLower(rt.DefaultMediaType)
	}
	_, hasAny := reg["*/*"]
	ctText := ""
	if len(c.CT.Header) > 0 {
		ctText = c.CT.Header[0]
	}
	allowed := map[string]bool{} // consumer ids that may be handed over
	mayErr := c.BodyFault != ""  // a response whose body stream fails may fail the call
	if c.CT.Malform {
		mayErr = true
		if hasAny {
			allowed["*/*"] = true
		}
		if _, ok := reg[media]; ok && media != "" {
			allowed[media] = true
		}
	} else {
		_, hasM := reg[media]
		switch {
		case hasM && c.CT.Exact:
			allowed[media] = true
		case hasM:
			// odd spelling (case, surrounding blanks): the text does not force case folding
			allowed[media] = true
			if hasAny {
				allowed["*/*"] = true
			} else {
				mayErr = true
			}
		case hasAny:
			allowed["*/*"] = true
		default:
			mayErr = true
		}
	}
	if err != nil {
		if seen.called {
			return "reader-called-and-error", fmt.Sprintf("reader ran with consumer %q yet Submit failed: %v", seen.consumer, err)
		}
		if !mayErr {
			return "unexpected-error", fmt.Sprintf("Submit failed: %v; expected consumer in %v", err, keys(allowed))
		}
		if c.BodyFault == "" && !c.CT.Malform && ctText != "" && !strings.Contains(err.Error(), strings.TrimSpace(ctText)) && !strings.Contains(strings.ToLower(err.Error()), media) {
			return "error-does-not-name-content-type", fmt.Sprintf("error %q does not name the content type %q", err, ctText)
		}
		return "", "error: " + err.Error()
	}
	if !seen.called {
		return "reader-not-called", fmt.Sprintf("Submit returned (%v, nil) without calling the reader", res)
	}
	if !allowed[seen.consumer] {
		return "wrong-consumer", fmt.Sprintf("reader got consumer %q for Content-Type %q; allowed %v (error allowed: %v)", seen.consumer, c.CT.Header, keys(allowed), mayErr)
	}
	if seen.code != c.Status || seen.msg != fmt.Sprintf("%d %s", c.Status, http.StatusText(c.Status)) {
		return "status-changed", fmt.Sprintf("reader saw %d %q", seen.code, seen.msg)
	}
	if seen.one != "single" || !reflect.DeepEqual(seen.multi, []string{"m1", "m2"}) {
		return "headers-changed", fmt.Sprintf("reader saw X-One=%q X-Multi=%v", seen.one, seen.multi)
	}
	if seen.readErr != nil {
		// the stream failed in the reader's hands: it saw the response as it is
		if c.BodyFault == "" {
			return "body-changed", fmt.Sprintf("reader got a read error %v from a body that does not fail", seen.readErr)
		}
		return "", "consumer " + seen.consumer + " (body stream failed in the reader's hands)"
	}
	if seen.body != body {
		return "body-changed", fmt.Sprintf("reader read body %q without any error, the response body is %q (debug=%v, body fault %q)", seen.body, body, c.Debug, c.BodyFault)
	}
	if res != "result" {
		return "result-changed", fmt.Sprintf("Submit returned %v", res)
	}
	return "", "consumer " + seen.consumer
}

// defaultStub stands in for http.DefaultTransport for the whole process: a request that reaches it
// was sent by an http.Client that has no Transport of its own.
type defaultStub struct{}

func (defaultStub) RoundTrip(req *http.Request) (*http.Response, error) {
	if req.Body != nil {
		req.Body.Close()
	}
	return nil, fmt.Errorf("default transport reached")
}

func keys(m map[string]bool) []string {
	var out []string
	for k := range m {
		out = append(out, k)
	}
	sort.Strings(out)
	return out
}

// ---------- E3: concurrent Submit on one Runtime ----------

// SchedCase is the replayable form of one schedule.
type SchedCase struct {
	Kind     string `json:"kind"` // "schedule"
	Scenario string `json:"scenario"`
	Choices  []int  `json:"choices"`
}

type call struct {
	Tok      string
	RespType string // content type the echo server answers with
	OpClient bool
	Timeout  bool
	Upload   bool // multipart request: a form field and a file whose content is derived from Tok
}

func uploadContent(tok string) string { return "file content of " + tok + " " + strings.Repeat(tok, 8) }

type echoRT struct{ tag string }

func (e echoRT) RoundTrip(req *http.Request) (*http.Response, error) {
	verifrt.P("stub:enter")
	var body []byte
	if req.Body != nil {
		body, _ = io.ReadAll(req.Body)
		req.Body.Close()
	}
	if mt, params, err := mime.ParseMediaType(req.Header.Get("Content-Type")); err == nil && strings.HasPrefix(mt, "multipart/") {
		// a canonical rendering of the parts (the boundary is random)
		mr := multipart.NewReader(bytes.NewReader(body), params["boundary"])
		canon := ""
		for {
			part, err := mr.NextPart()
			if err != nil {
				break
			}
			b, _ := io.ReadAll(part)
			canon += fmt.Sprintf("[%s %q %s %s]", part.FormName(), part.FileName(), part.Header.Get("Content-Type"), b)
		}
		body = []byte(canon)
	}
	verifrt.P("stub:read")
	want := req.Header.Get("X-Resp-Type")
	payload := map[string]string{"path": req.URL.Path, "hdr": req.Header.Get("X-Tok"), "body": string(body), "query": req.URL.Query().Get("t"), "via": e.tag}
	var out []byte
	if want == "text/plain" {
		out = []byte(payload["path"] + "|" + payload["hdr"] + "|" + payload["body"] + "|" + payload["query"] + "|" + payload["via"])
	} else {
		out, _ = json.Marshal(payload)
	}
	verifrt.P("stub:exit")
	return &http.Response{StatusCode: 200, Status: "200 OK", Proto: "HTTP/1.1", ProtoMajor: 1, ProtoMinor: 1,
		Header: http.Header{"Content-Type": []string{want}, "X-Echo": []string{req.Header.Get("X-Tok")}},
		Body:   io.NopCloser(bytes.NewReader(out)), Request: req}, nil
}

func scenarioCalls(name string) []call {
	switch name {
	case "two-json-first-calls":
		return []call{{Tok: "AAA", RespType: "application/json"}, {Tok: "BBB", RespType: "application/json"}}
	case "json-vs-text":
		return []call{{Tok: "AAA", RespType: "application/json"}, {Tok: "BBB", RespType: "text/plain"}}
	case "op-client-vs-shared":
		return []call{{Tok: "AAA", RespType: "application/json", OpClient: true}, {Tok: "BBB", RespType: "text/plain"}}
	case "two-multipart-uploads":
		return []call{{Tok: "AAA", RespType: "application/json", Upload: true}, {Tok: "BBB", RespType: "text/plain", Upload: true}}
	case "upload-vs-json":
		return []call{{Tok: "AAA", RespType: "text/plain", Upload: true}, {Tok: "BBB", RespType: "application/json"}}
	case "three-calls":
		return []call{{Tok: "AAA", RespType: "application/json"}, {Tok: "BBB", RespType: "text/plain"}, {Tok: "CCC", RespType: "application/json", OpClient: true}}
	}
	panic("unknown scenario " + name)
}

var scenarioNames = []string{"two-json-first-calls", "json-vs-text", "op-client-vs-shared", "three-calls", "two-multipart-uploads", "upload-vs-json"}

// submitOne performs one call and returns what the caller observed.
// keptResp is a response a reader kept beyond ReadResponse (generated readers keep it inside API errors).
type keptResp struct {
	resp runtime.ClientResponse
	echo string
}

func submitOne(rt *client.Runtime, c call) string {
	s, _ := submitKeep(rt, c)
	return s
}

func submitKeep(rt *client.Runtime, c call) (string, *keptResp) {
	var kept *keptResp
	op := &runtime.ClientOperation{
		ID: "echo-" + c.Tok, Method: "POST", PathPattern: "/echo/{tok}",
		ProducesMediaTypes: []string{"application/json", "text/plain"}, ConsumesMediaTypes: []string{"application/json"},
		Schemes: []string{"http"},
		Params: runtime.ClientRequestWriterFunc(func(req runtime.ClientRequest, _ strfmt.Registry) error {
			_ = req.SetPathParam("tok", c.Tok)
			_ = req.SetHeaderParam("X-Tok", c.Tok)
			_ = req.SetHeaderParam("X-Resp-Type", c.RespType)
			_ = req.SetQueryParam("t", c.Tok)
			if c.Upload {
				_ = req.SetFormParam("note", c.Tok)
				return req.SetFileParam("file", runtime.NamedReader("dir/f-"+c.Tok+".txt", strings.NewReader(uploadContent(c.Tok))))
			}
			return req.SetBodyParam("body-" + c.Tok)
		}),
		Reader: runtime.ClientResponseReaderFunc(func(resp runtime.ClientResponse, cons runtime.Consumer) (interface{}, error) {
			kept = &keptResp{resp, resp.GetHeader("X-Echo")}
			if resp.GetHeader("Content-Type") == "text/plain" {
				var s string
				if err := cons.Consume(resp.Body(), &s); err != nil {
					return nil, err
				}
				return "text:" + s + " echo=" + resp.GetHeader("X-Echo"), nil
			}
			var m map[string]string
			if err := cons.Consume(resp.Body(), &m); err != nil {
				return nil, err
			}
			return fmt.Sprintf("json:%s|%s|%s|%s|%s echo=%s", m["path"], m["hdr"], m["body"], m["query"], m["via"], resp.GetHeader("X-Echo")), nil
		}),
	}
	if c.OpClient {
		op.Client = &http.Client{Transport: echoRT{"opclient"}}
	}
	if c.Upload {
		op.ConsumesMediaTypes = []string{"multipart/form-data"}
	}
	res, err := rt.Submit(op)
	return fmt.Sprintf("%v err=%v", res, err), kept
}

func expected(c call) string {
	via := "shared"
	if c.OpClient {
		via = "opclient"
	}
	body := fmt.Sprintf("%q\n", "body-"+c.Tok) // JSON producer output
	if c.Upload {
		body = fmt.Sprintf("[note %q  %s][file %q text/plain; charset=utf-8 %s]", "", c.Tok, "f-"+c.Tok+".txt", uploadContent(c.Tok))
	}
	if c.RespType == "text/plain" {
		return fmt.Sprintf("text:/base/echo/%s|%s|%s|%s|%s echo=%s err=<nil>", c.Tok, c.Tok, body, c.Tok, via, c.Tok)
	}
	return fmt.Sprintf("json:/base/echo/%s|%s|%s|%s|%s echo=%s err=<nil>", c.Tok, c.Tok, body, c.Tok, via, c.Tok)
}

func newRuntime() *client.Runtime {
	rt := client.New("example.test", "/base", []string{"http"})
	rt.Transport = echoRT{"shared"}
	return rt
}

func runSchedule(name string, prefix []int) (*verifrt.Exec, []string) {
	calls := scenarioCalls(name)
	got := make([]string, len(calls))
	kept := make([]*keptResp, len(calls))
	rt := newRuntime()
	x := verifrt.Run(prefix, 0, func() {
		for i, c := range calls {
			i, c := i, c
			verifrt.GoNamed("call-"+c.Tok, func() { got[i], kept[i] = submitKeep(rt, c) })
		}
	})
	recheckKept(got, kept)
	return x, got
}

// recheckKept looks again, after every call has finished, at the responses the readers kept.
func recheckKept(got []string, kept []*keptResp) {
	for i, k := range kept {
		if k != nil && k.resp.GetHeader("X-Echo") != k.echo {
			got[i] += fmt.Sprintf(" KEPT-RESPONSE-CHANGED(X-Echo %q -> %q)", k.echo, k.resp.GetHeader("X-Echo"))
		}
	}
}

func judgeSchedule(name string, x *verifrt.Exec, got []string) (string, string) {
	calls := scenarioCalls(name)
	for _, p := range x.Panics {
		if strings.HasPrefix(p, "REPLAY-DIVERGENCE") {
			return "replay-divergence", p
		}
		return "panic", firstLines(p, 6)
	}
	if x.Deadlock {
		return "deadlock", fmt.Sprintf("threads left blocked: %v", x.Blocked)
	}
	if x.Aborted {
		return "horizon-reached", "execution did not finish"
	}
	for i, c := range calls {
		if got[i] != expected(c) {
			return "wrong-response-for-caller", fmt.Sprintf("caller %s (preemptions=%d) observed\n   %s\n  but its own exchange is\n   %s", c.Tok, x.Preemptions, got[i], expected(c))
		}
	}
	return "", ""
}

func exploreScenario(name string, o verifrt.Options, c *sched.Collector) verifrt.Stats {
	verifrt.SetOrderChooser(func(string, int) int { return 0 })
	// sanity: every call alone yields its expected exchange
	for _, cl := range scenarioCalls(name) {
		if got := submitOne(newRuntime(), cl); got != expected(cl) {
			c.Fail("solo-call-unexpected", fmt.Sprintf("call %s alone observed %s, harness expects %s", cl.Tok, got, expected(cl)), SchedCase{"schedule", name, nil})
			return verifrt.Stats{}
		}
	}
	return verifrt.Explore(o, func() (func(), func(*verifrt.Exec)) {
		calls := scenarioCalls(name)
		got := make([]string, len(calls))
		kept := make([]*keptResp, len(calls))
		rt := newRuntime()
		main := func() {
			for i, cl := range calls {
				i, cl := i, cl
				verifrt.GoNamed("call-"+cl.Tok, func() { got[i], kept[i] = submitKeep(rt, cl) })
			}
		}
		done := func(x *verifrt.Exec) {
			recheckKept(got, kept)
			cls, what := judgeSchedule(name, x, got)
			if cls == "replay-divergence" {
				c.Fail(cls, what, SchedCase{"schedule", name, x.Choices()})
				return
			}
			if cls != "" {
				c.Fail(cls, what, SchedCase{"schedule", name, x.Choices()})
				return
			}
			c.Outcome(fmt.Sprintf("all-%d-callers-own-response", len(calls)))
			if x.Preemptions > 0 {
				c.Sample(map[string]any{"scenario": name, "preemptions": x.Preemptions, "choice_points": len(x.Steps), "switches": x.Switches})
			}
		}
		return main, done
	})
}

func firstLines(s string, n int) string {
	l := strings.Split(s, "\n")
	if len(l) > n {
		l = l[:n]
	}
	return strings.Join(l, " | ")
}

// ---------- R ----------

func racePass() {
	verifrt.SetOrderChooser(func(string, int) int { return 0 })
	for round := 0; round < 40; round++ {
		rt := newRuntime() // fresh: the first calls race on the lazily created client
		if round%2 == 1 {
			rt.Context = nil // every field a Submit may lazily default is left unset in half of the rounds
		}
		var wg sync.WaitGroup
		var mu sync.Mutex
		bad := ""
		for g := 0; g < 16; g++ {
			g := g
			wg.Add(1)
			go func() {
				defer wg.Done()
				for it := 0; it < 8; it++ {
					c := call{Tok: fmt.Sprintf("T%d-%d-%d", round, g, it), RespType: []string{"application/json", "text/plain"}[(g+it)%2], OpClient: (g+it)%5 == 0}
					if got := submitOne(rt, c); got != expected(c) {
						mu.Lock()
						bad = fmt.Sprintf("caller %s observed %s want %s", c.Tok, got, expected(c))
						mu.Unlock()
					}
				}
			}()
		}
		wg.Wait()
		if bad != "" {
			fmt.Println("RACEPASS-MISMATCH", bad)
		}
	}
	fmt.Println("racepass done")
}

// ---------- main ----------

func main() {
	log.SetOutput(io.Discard) // Runtime.Debug dumps through the standard logger
	http.DefaultTransport = defaultStub{}
	sched.WorkerMain(exploreScenario)
	if len(os.Args) > 1 && os.Args[1] == "racepass" {
		racePass()
		return
	}
	r := report.Start("C13", "model_checking")
	if r.Replay != "" {
		var probe struct {
			Kind string `json:"kind"`
		}
		r.LoadReplay(&probe)
		cl, what := "", ""
		var cs any
		if probe.Kind == "history" {
			var hc HistCase
			r.LoadReplay(&hc)
			cs = hc
			cl, what = checkHistory(hc)
		} else if probe.Kind == "input" {
			var ic InputCase
			r.LoadReplay(&ic)
			cs = ic
			cl, what = checkInput(ic)
		} else {
			var sc SchedCase
			r.LoadReplay(&sc)
			cs = sc
			verifrt.SetOrderChooser(func(string, int) int { return 0 })
			x, got := runSchedule(sc.Scenario, sc.Choices)
			cl, what = judgeSchedule(sc.Scenario, x, got)
			if cl == "" {
				what = strings.Join(got, " ; ")
			}
		}
		fmt.Printf("replay %+v\n  class=%q\n  %s\n", cs, cl, what)
		if cl != "" {
			r.Fail(cl, what, cs)
		}
		r.Eval(1)
		r.Nontrivial(2)
		r.States(1)
		r.Transitions(1)
		r.Sample(cs)
		r.Finish("replay of one case", false)
	}
	parts := os.Getenv("VERIF_PARTS")
	part := func(p string) bool { return parts == "" || strings.Contains(parts, p) }

	// E1
	cts := ctKinds()
	regs := []string{"default", "default+any", "only-any", "json-only", "empty"}
	statuses := []int{200, 204, 404, 500}
	defaults := []string{"", "text/plain", "image/png"}
	var cases []InputCase
	for _, ct := range cts {
		for _, rg := range regs {
			for _, st := range statuses {
				for _, oc := range []bool{false, true} {
					for _, octx := range []bool{false, true} {
						for _, rctx := range []string{"set", "nil"} {
							for _, d := range defaults {
								if d != "" && ct.Media != "<default>" && st != 200 {
									continue // the default media type only matters when the header is absent
								}
								cases = append(cases, InputCase{Kind: "input", CT: ct, Registry: rg, Status: st, OpClient: oc, OpCtx: octx, RtCtx: rctx, Default: d})
								if rctx == "set" && (d == "" || ct.Media == "<default>") {
									// the tracing decorators must be transparent (they act only when the operation has a context)
									for _, via := range []string{"opentracing", "opentelemetry"} {
										cases = append(cases, InputCase{Kind: "input", CT: ct, Registry: rg, Status: st, OpClient: oc, OpCtx: octx, RtCtx: rctx, Default: d, Via: via})
									}
								}
								if oc && st == 200 && d == "" {
									cases = append(cases, InputCase{Kind: "input", CT: ct, Registry: rg, Status: st, OpClient: true, OpClientNilTransport: true, OpCtx: octx, RtCtx: rctx, Default: d})
								}
							}
						}
					}
				}
			}
		}
	}
	for _, ct := range []ctKind{{Header: []string{"application/json"}, Media: "application/json", Exact: true}, {Header: []string{"text/plain; charset=utf-8"}, Media: "text/plain", Exact: true}, {Header: nil, Media: "<default>", Exact: true}} {
		for _, dbg := range []bool{false, true} {
			for _, bf := range []string{"", "read-error-once@1", "read-error-once@2", "read-error-sticky@2", "close-error"} {
				for _, st := range statuses {
					for _, oc := range []bool{false, true} {
						if !dbg && bf == "" {
							continue
						}
						cases = append(cases, InputCase{Kind: "input", CT: ct, Registry: "default", Status: st, OpClient: oc, RtCtx: "set", Debug: dbg, BodyFault: bf})
						for _, via := range []string{"opentracing", "opentelemetry"} {
							cases = append(cases, InputCase{Kind: "input", CT: ct, Registry: "default", Status: st, OpClient: oc, OpCtx: true, RtCtx: "set", Debug: dbg, BodyFault: bf, Via: via})
						}
					}
				}
			}
		}
	}
	if part("input") {
		var mu sync.Mutex
		distinct := map[string]bool{}
		enum.Parallel(len(cases), r.OutOfTime, func(i int) {
			cl, what := checkInput(cases[i])
			r.Eval(1)
			if cl != "" {
				r.Fail(cl, what, cases[i])
				return
			}
			lab := "consumer"
			if strings.HasPrefix(what, "error") {
				lab = "error"
			} else if strings.HasSuffix(what, "*/*") {
				lab = "catch-all-consumer"
			}
			r.Outcome("input:"+lab, 1)
			mu.Lock()
			distinct[fmt.Sprint(cases[i].CT.Header, cases[i].Registry, cases[i].Default, what)] = true
			mu.Unlock()
			if i%997 == int(r.Seed%997) {
				r.Sample(map[string]any{"case": cases[i], "observed": what})
			}
		})
		r.Nontrivial(int64(len(distinct)))
		r.Set("input_cases", len(cases))
		r.Set("input_axes", map[string]int{"content_type_values": len(cts), "registries": len(regs), "statuses": len(statuses), "op_client": 2, "op_context": 2, "transport_context": 2, "default_media_types": len(defaults)})
	}

	// E4 histories on one Runtime
	if part("hist") {
		depth := 5
		if r.Thorough() {
			depth = 7
		}
		seqs := enum.Seqs(len(histOps), 1, depth)
		enum.Parallel(len(seqs), r.OutOfTime, func(i int) {
			hc := HistCase{"history", seqs[i]}
			cl, what := checkHistory(hc)
			r.Eval(1)
			r.Traces(1)
			r.Transitions(int64(len(seqs[i])))
			if cl != "" {
				r.Fail(cl, what, hc)
			}
		})
		r.States(int64(len(seqs)))
		r.Nontrivial(int64(len(seqs)))
		r.Outcome("history:sequences", int64(len(seqs)))
		r.Set("history_depth", depth)
		r.Set("history_ops", histOps)
		r.Sample(HistCase{"history", seqs[len(seqs)/2]})
	}

	// E3
	bounds := map[string]int{}
	for _, name := range scenarioNames {
		if r.OutOfTime() || !part("sched") {
			break
		}
		pb := 2
		if strings.Contains(name, "upload") {
			// four threads (two callers, two multipart writers) and pipe operations: bound 1 on every change
			pb = 1
			if r.Thorough() {
				pb = 2
			}
		} else if len(scenarioCalls(name)) == 3 {
			pb = 1
			if r.Thorough() {
				pb = 2
			}
		} else if r.Thorough() {
			pb = 3
		}
		maxFree := 0
		if strings.Contains(name, "upload") {
			maxFree = 2 // four threads blocking on pipes: also bound which thread runs after a block
		}
		m, err := sched.RunShardedFree(name, pb, 0, goruntime.NumCPU(), maxFree)
		if err != nil {
			fmt.Fprintln(os.Stderr, "internal error:", err)
			os.Exit(2)
		}
		sched.Merge(r, m)
		r.Nontrivial(m.Stats.Executions)
		bounds[fmt.Sprintf("%s@preemptions<=%d,free<=%s", name, pb, map[bool]string{true: "unbounded", false: fmt.Sprint(maxFree)}[maxFree == 0])] = int(m.Stats.Executions)
		if m.Stats.Stopped {
			r.OutOfTime()
		}
	}
	r.Set("schedules_per_scenario", bounds)

	// R
	if bin := os.Getenv("VERIF_RACE_BIN"); bin != "" && part("race") {
		for _, procs := range []string{"1", "4", "16"} {
			cmd := exec.Command(bin, "racepass")
			cmd.Env = append(os.Environ(), "GOMAXPROCS="+procs, "GORACE=halt_on_error=0 exitcode=66")
			var out bytes.Buffer
			cmd.Stdout, cmd.Stderr = &out, &out
			err := cmd.Run()
			txt := out.String()
			switch {
			case strings.Contains(txt, "WARNING: DATA RACE"):
				rep := txt[strings.Index(txt, "WARNING: DATA RACE"):]
				if len(rep) > 3000 {
					rep = rep[:3000]
				}
				r.Fail("data-race", rep, map[string]any{"kind": "racepass", "gomaxprocs": procs})
			case strings.Contains(txt, "RACEPASS-MISMATCH"):
				r.Fail("wrong-response-free-running", firstLines(txt[strings.Index(txt, "RACEPASS-MISMATCH"):], 4), map[string]any{"kind": "racepass", "gomaxprocs": procs})
			case strings.Contains(txt, "panic: ") && strings.Contains(txt, "github.com/go-openapi/runtime"):
				// the code under test panicked while free-running calls were in flight
				r.Fail("panic-free-running", firstLines(txt[strings.Index(txt, "panic: "):], 14), map[string]any{"kind": "racepass", "gomaxprocs": procs})
			case err != nil:
				fmt.Fprintf(os.Stderr, "internal error: race pass failed: %v\n%s\n", err, txt)
				os.Exit(2)
			}
			r.Outcome("racepass-gomaxprocs-"+procs, 1)
		}
		r.Set("race_pass", "free-running, -race, GOMAXPROCS in {1,4,16}, 40 fresh runtimes x 16 goroutines x 8 calls: complement of the cooperative scheduler (not model checking)")
	}
	r.Assume("interleavings at statement granularity of client/runtime.go, client/request.go, client/response.go, client/keepalive.go and at the three points of the stub transport; net/http's Client.Do runs atomically between them (a custom RoundTripper is called synchronously)",
		"map iteration order inside client/request.go is fixed (sorted) during schedule exploration")
	if parts != "" {
		r.Nontrivial(2)
		r.Finish("partial debugging run: "+parts, false)
	}
	r.Finish("E1: full product of response Content-Type values x consumer registries x status x operation/transport client x operation/transport context (x default media type where the header is absent); E3: every schedule of 2-3 concurrent Submit calls on one fresh Runtime within the stated preemption bound, every caller must read the echo of its own path, header, query and body token through the consumer of its own response type; non-trivial = distinct (header, registry, default, observed outcome) combinations plus executed schedules (distinct by construction of the DFS)", true)
}

// ---------- E4: histories on ONE Runtime: calls interleaved with registry edits ----------

var histOps = []string{"Submit(json)", "Submit(text)", "Submit(x-unk)", "ReplaceJSONConsumer", "SwapTextForXUnk", "ToggleCatchAll"}

// HistCase is the replayable form of one history.
type HistCase struct {
	Kind string `json:"kind"` // "history"
	Ops  []int  `json:"ops"`
}

type seqRT struct{ n int }

func (s *seqRT) RoundTrip(req *http.Request) (*http.Response, error) {
	s.n++
	ct := req.Header.Get("X-Resp-Type")
	code := []int{200, 404, 201, 500}[s.n%4]
	return &http.Response{StatusCode: code, Status: fmt.Sprintf("%d %s", code, http.StatusText(code)), Proto: "HTTP/1.1", ProtoMajor: 1, ProtoMinor: 1,
		Header: http.Header{"Content-Type": []string{ct}, "X-Seq": []string{fmt.Sprint(s.n)}},
		Body:   io.NopCloser(strings.NewReader("body-" + fmt.Sprint(s.n))), Request: req}, nil
}

// checkHistory runs one op sequence on a fresh Runtime and compares every call with the registry
// as it is at that moment; responses the reader kept are inspected again at the end.
func checkHistory(hc HistCase) (string, string) {
	rt := client.New("example.test", "/base", []string{"http"})
	tr := &seqRT{}
	rt.Transport = tr
	reg := map[string]string{"application/json": "json#1", "text/plain": "text#1", "application/xml": "xml#1"}
	rt.Consumers = map[string]runtime.Consumer{}
	for k, v := range reg {
		rt.Consumers[k] = recConsumer{v}
	}
	gen := 1
	type kept struct {
		resp runtime.ClientResponse
		seq  string
		code int
	}
	var keep []kept
	for i, op := range hc.Ops {
		at := fmt.Sprintf("op %d (%s) of %v", i+1, histOps[op], hc.Ops)
		switch op {
		case 0, 1, 2:
			ct := []string{"application/json", "text/plain", "application/x-unk"}[op]
			var gotCons string
			var k kept
			called := false
			o := &runtime.ClientOperation{ID: "h", Method: "GET", PathPattern: "/h", Schemes: []string{"http"},
				Params: runtime.ClientRequestWriterFunc(func(req runtime.ClientRequest, _ strfmt.Registry) error {
					return req.SetHeaderParam("X-Resp-Type", ct)
				}),
				Reader: runtime.ClientResponseReaderFunc(func(resp runtime.ClientResponse, cons runtime.Consumer) (interface{}, error) {
					called = true
					if rc, ok := cons.(recConsumer); ok {
						gotCons = rc.id
					}
					k = kept{resp, resp.GetHeader("X-Seq"), resp.Code()}
					return nil, nil
				})}
			var err error
			var pan string
			func() {
				defer func() {
					if e := recover(); e != nil {
						pan = fmt.Sprint(e)
					}
				}()
				_, err = rt.Submit(o)
			}()
			if pan != "" {
				return "history/panic", at + ": Submit panics: " + pan
			}
			want, ok := reg[ct]
			if !ok {
				want, ok = reg["*/*"]
			}
			switch {
			case !ok && err == nil:
				return "history/no-error-without-consumer", fmt.Sprintf("%s: no consumer is registered for %q (registry %v) but the call succeeded with consumer %q", at, ct, reg, gotCons)
			case !ok:
				if called {
					return "history/reader-called-and-error", at
				}
			case err != nil:
				return "history/unexpected-error", fmt.Sprintf("%s: %v (registry %v)", at, err, reg)
			case gotCons != want:
				return "history/stale-or-wrong-consumer", fmt.Sprintf("%s: reader was handed consumer %q, the registry now holds %q for %q (registry %v)", at, gotCons, want, ct, reg)
			}
			if called {
				if k.seq != fmt.Sprint(tr.n) {
					return "history/response-of-another-call", fmt.Sprintf("%s: reader saw X-Seq %q, this was exchange %d", at, k.seq, tr.n)
				}
				keep = append(keep, k)
			}
		case 3:
			gen++
			reg["application/json"] = fmt.Sprintf("json#%d", gen)
			rt.Consumers["application/json"] = recConsumer{reg["application/json"]}
		case 4:
			if _, ok := reg["text/plain"]; ok {
				delete(reg, "text/plain")
				delete(rt.Consumers, "text/plain")
				gen++
				reg["application/x-unk"] = fmt.Sprintf("xunk#%d", gen)
				rt.Consumers["application/x-unk"] = recConsumer{reg["application/x-unk"]}
			} else {
				delete(reg, "application/x-unk")
				delete(rt.Consumers, "application/x-unk")
				gen++
				reg["text/plain"] = fmt.Sprintf("text#%d", gen)
				rt.Consumers["text/plain"] = recConsumer{reg["text/plain"]}
			}
		case 5:
			if _, ok := reg["*/*"]; ok {
				delete(reg, "*/*")
				delete(rt.Consumers, "*/*")
			} else {
				gen++
				reg["*/*"] = fmt.Sprintf("any#%d", gen)
				rt.Consumers["*/*"] = recConsumer{reg["*/*"]}
			}
		}
	}
	// the response handed to a reader stays the response of ITS exchange
	for _, k := range keep {
		if k.resp.GetHeader("X-Seq") != k.seq || k.resp.Code() != k.code {
			return "history/kept-response-changed", fmt.Sprintf("history %v: the response of exchange %s (status %d) now reports X-Seq %q status %d", hc.Ops, k.seq, k.code, k.resp.GetHeader("X-Seq"), k.resp.Code())
		}
	}
	return "", ""
}
