package main

import (
	"bytes"
	"errors"
	"fmt"
	"io"
	"net/http"
	"net/http/httptest"
	"regexp"
	"sort"
	"strings"
	"sync/atomic"

	oaerrors "github.com/go-openapi/errors"
	"github.com/go-openapi/loads"
	"github.com/go-openapi/runtime"
	"github.com/go-openapi/runtime/middleware"
	"github.com/go-openapi/runtime/middleware/untyped"
	"github.com/go-openapi/runtime/security"
	"github.com/go-openapi/runtime/verifrt"

	"verif/engine/apib"
)

// reqSpec is one request of a scenario.
type reqSpec struct {
	Name    string            `json:"name"`
	Method  string            `json:"method"`
	Target  string            `json:"target"`
	Headers map[string]string `json:"headers,omitempty"`
	Body    string            `json:"body,omitempty"`
}

// world is the set of observations of one execution: one log per cooperative
// thread (attribution by the scheduler's notion of "running thread"), plus
// counters used by the history search.
type world struct {
	logs     map[int][]string
	logging  bool
	authN    atomic.Int64 // authenticator callback invocations
	authzN   atomic.Int64
	consumeN atomic.Int64
	produceN atomic.Int64
	handleN  atomic.Int64
}

func (w *world) reset() {
	w.logs = map[int][]string{}
	w.authN.Store(0)
	w.authzN.Store(0)
	w.consumeN.Store(0)
	w.produceN.Store(0)
	w.handleN.Store(0)
}

func newWorld(logging bool) *world { return &world{logs: map[int][]string{}, logging: logging} }

func (w *world) logf(format string, a ...any) {
	if !w.logging {
		return
	}
	id := verifrt.CurrentThread()
	w.logs[id] = append(w.logs[id], fmt.Sprintf(format, a...))
}

var specDoc *loads.Document

func theSpec() apib.Spec {
	key := []map[string][]string{{"key": {"read", "write"}}}
	opt := []map[string][]string{{"key": {}}, {}}
	none := []map[string][]string{}
	idp := map[string]any{"name": "id", "in": "path", "type": "integer", "format": "int32", "required": true}
	qp := map[string]any{"name": "q", "in": "query", "type": "string"}
	hp := map[string]any{"name": "X-Tag", "in": "header", "type": "string"}
	bp := map[string]any{"name": "body", "in": "body", "required": true, "schema": map[string]any{}}
	both := []string{"application/json", "text/plain"}
	return apib.Spec{
		BasePath:     "/api",
		SecurityDefs: map[string]any{"key": map[string]any{"type": "apiKey", "in": "header", "name": "X-Key"}},
		Ops: []apib.Op{
			{Method: "POST", Path: "/items/{id}", Consumes: both, Produces: both, Security: &key, Params: []map[string]any{idp, qp, hp, bp}},
			{Method: "GET", Path: "/items/{id}", Produces: both, Security: &key, Params: []map[string]any{idp, qp, hp}},
			{Method: "GET", Path: "/maybe/{id}", Produces: both, Security: &opt, Params: []map[string]any{idp, qp}},
			{Method: "PUT", Path: "/open/{id}", Consumes: both, Produces: both, Security: &none, Params: []map[string]any{idp, bp}},
			// routes without path parameter: nothing in the match is request specific except what the stages add
			{Method: "POST", Path: "/plain", Consumes: both, Produces: both, Security: &none, Params: []map[string]any{qp, bp}},
			{Method: "GET", Path: "/list", Produces: both, Security: &key, Params: []map[string]any{qp}},
			// a produces entry that carries a parameter: what is negotiated is not what producers are keyed by
			{Method: "GET", Path: "/param/{id}", Produces: []string{"text/plain; charset=utf-8", "application/json"}, Security: &none, Params: []map[string]any{idp, qp}},
			// admitted only through a wildcard consumes entry: the consumer is looked up per request, outside the route's own table
			{Method: "POST", Path: "/wild", Consumes: []string{"text/*"}, Produces: both, Security: &none, Params: []map[string]any{bp}},
		},
	}
}

type tagConsumer struct {
	w     *world
	id    string
	inner runtime.Consumer
}

func (c tagConsumer) Consume(r io.Reader, v interface{}) error {
	c.w.consumeN.Add(1)
	b, err := io.ReadAll(r)
	c.w.logf("consume[%s] %q", c.id, b)
	if err != nil {
		return err
	}
	return c.inner.Consume(bytes.NewReader(b), v)
}

type tagProducer struct {
	w     *world
	id    string
	inner runtime.Producer
}

func (p tagProducer) Produce(wr io.Writer, v interface{}) error {
	p.w.produceN.Add(1)
	p.w.logf("produce[%s] %v", p.id, stable(v))
	_, _ = io.WriteString(wr, "<"+p.id+">")
	return p.inner.Produce(wr, v)
}

// stable prints maps with sorted keys.
func stable(v interface{}) string {
	if m, ok := v.(map[string]interface{}); ok {
		ks := make([]string, 0, len(m))
		for k := range m {
			ks = append(ks, k)
		}
		sort.Strings(ks)
		var sb strings.Builder
		sb.WriteString("{")
		for _, k := range ks {
			fmt.Fprintf(&sb, "%s=%v(%T) ", k, m[k], m[k])
		}
		sb.WriteString("}")
		return sb.String()
	}
	return fmt.Sprintf("%v(%T)", v, v)
}

// site is one handler instance with its scripted doubles.
type site struct {
	w         *world
	ctx       *middleware.Context
	h         http.Handler
	firstAuth map[string][2]interface{} // per request kind: what a first Authorize answers
}

func newSite(w *world) *site {
	if specDoc == nil {
		specDoc = apib.MustLoad(theSpec())
	}
	api := untyped.NewAPI(specDoc)
	api.RegisterConsumer("application/json", tagConsumer{w, "json", runtime.JSONConsumer()})
	api.RegisterConsumer("text/plain", tagConsumer{w, "text", runtime.TextConsumer()})
	api.RegisterConsumer("text/csv", tagConsumer{w, "csv", runtime.TextConsumer()})
	api.RegisterProducer("application/json", tagProducer{w, "json", runtime.JSONProducer()})
	api.RegisterProducer("text/plain", tagProducer{w, "text", runtime.TextProducer()})
	api.RegisterAuth("key", security.APIKeyAuth("X-Key", "header", func(tok string) (interface{}, error) {
		w.authN.Add(1)
		w.logf("auth token=%q", tok)
		if strings.HasPrefix(tok, "good") {
			return "user-of-" + tok, nil
		}
		if tok == "nilprincipal" {
			return nil, nil
		}
		// principals that are non-nil but the zero value of their type: principals all the same
		switch tok {
		case "zero-string":
			return "", nil
		case "zero-int":
			return 0, nil
		case "zero-bool":
			return false, nil
		case "zero-struct":
			return struct{ Name string }{}, nil
		}
		return nil, oaerrors.Unauthenticated("key " + tok)
	}))
	api.RegisterAuthorizer(runtime.AuthorizerFunc(func(r *http.Request, p interface{}) error {
		w.authzN.Add(1)
		w.logf("authorize principal=%v", p)
		if p == "user-of-good-denied" {
			return errors.New("denied")
		}
		return nil
	}))
	for _, o := range theSpec().Ops {
		o := o
		api.RegisterOperation(o.Method, o.Path, runtime.OperationHandlerFunc(func(params interface{}) (interface{}, error) {
			w.handleN.Add(1)
			w.logf("handle %s %s %s", o.Method, o.Path, stable(params))
			m, _ := params.(map[string]interface{})
			out := map[string]interface{}{"op": o.Method + " " + o.Path}
			for k, v := range m {
				out[k] = v
			}
			// a string is something both the JSON and the text producer can write
			return stable(out), nil
		}))
	}
	ctx := middleware.NewContext(specDoc, api, nil)
	s := &site{w: w, ctx: ctx}
	s.h = ctx.RoutesHandler(func(next http.Handler) http.Handler {
		return http.HandlerFunc(func(rw http.ResponseWriter, r *http.Request) {
			if mr := middleware.MatchedRouteFrom(r); mr != nil {
				w.logf("routed %s %v", mr.PathPattern, mr.Params)
			} else {
				w.logf("routed <nil>")
			}
			next.ServeHTTP(rw, r)
		})
	})
	return s
}

func (rs reqSpec) build() *http.Request {
	var body io.Reader
	if rs.Body != "" {
		body = strings.NewReader(rs.Body)
	}
	req := httptest.NewRequest(rs.Method, rs.Target, body)
	for k, v := range rs.Headers {
		req.Header.Set(k, v)
	}
	return req
}

// serve runs one request through the handler and logs the final answer.
func (s *site) serve(rs reqSpec) {
	rec := httptest.NewRecorder()
	s.h.ServeHTTP(rec, rs.build())
	s.w.logf("response %d ct=%q body=%q", rec.Code, rec.Header().Get("Content-Type"), canonLists(rec.Body.String()))
}

var bracketList = regexp.MustCompile(`\[[^\]\[]*\]`)

// canonLists sorts the items of every [a b c] / [a,b,c] list in an error message: the order in which
// go-openapi/analysis reports an operation's media types is a map order fixed when a handler is
// built, so it differs between handler instances and says nothing about the request.
func canonLists(s string) string {
	return bracketList.ReplaceAllStringFunc(s, func(m string) string {
		items := strings.FieldsFunc(m[1:len(m)-1], func(r rune) bool { return r == ' ' || r == ',' })
		sort.Strings(items)
		return "[" + strings.Join(items, " ") + "]"
	})
}

// typedBind is what a generated (typed) server does for one request: look the route up and call
// Context.BindValidRequest with its own binder, which reads the body with the consumer the context
// selected for THIS request. It returns what the request observed.
func (s *site) typedBind(rs reqSpec) string {
	req := rs.build()
	route, rr, ok := s.ctx.RouteInfo(req)
	if !ok || route == nil {
		return "no route"
	}
	seen := "binder not called"
	err := s.ctx.BindValidRequest(rr, route, binderFunc(func(r *http.Request, rt *middleware.MatchedRoute) error {
		id := "<none>"
		if tc, ok := rt.Consumer.(tagConsumer); ok {
			id = tc.id
		} else if rt.Consumer != nil {
			id = fmt.Sprintf("<foreign %T>", rt.Consumer)
		}
		var v string
		var cerr error
		if rt.Consumer != nil && r.Body != nil {
			cerr = rt.Consumer.Consume(r.Body, &v)
		}
		seen = fmt.Sprintf("consumer=%s value=%q consume-err=%v", id, v, cerr)
		return nil
	}))
	return fmt.Sprintf("%s err=%v", seen, canonLists(errText(err)))
}

func errText(e error) string {
	if e == nil {
		return "<nil>"
	}
	return e.Error()
}

type binderFunc func(*http.Request, *middleware.MatchedRoute) error

func (f binderFunc) BindRequest(r *http.Request, rt *middleware.MatchedRoute) error { return f(r, rt) }

// typedRequests: bodies for the wildcard route and for ordinary routes, through the typed flavour.
func typedRequests() []reqSpec {
	return []reqSpec{
		{Name: "wild-plain", Method: "POST", Target: "/api/wild", Headers: map[string]string{"Content-Type": "text/plain", "Accept": "text/plain"}, Body: "plain body"},
		{Name: "wild-csv", Method: "POST", Target: "/api/wild", Headers: map[string]string{"Content-Type": "text/csv", "Accept": "application/json"}, Body: "a,b"},
		{Name: "wild-html-no-consumer", Method: "POST", Target: "/api/wild", Headers: map[string]string{"Content-Type": "text/html", "Accept": "text/plain"}, Body: "<p>"},
		{Name: "wild-json-refused", Method: "POST", Target: "/api/wild", Headers: map[string]string{"Content-Type": "application/json", "Accept": "text/plain"}, Body: `"j"`},
		{Name: "plain-text", Method: "POST", Target: "/api/plain?q=t", Headers: map[string]string{"Content-Type": "text/plain", "Accept": "text/plain"}, Body: "tb"},
		{Name: "plain-json", Method: "POST", Target: "/api/plain?q=j", Headers: map[string]string{"Content-Type": "application/json", "Accept": "application/json"}, Body: `"jb"`},
	}
}
