package main

import (
	"fmt"
	"reflect"
	"strings"

	"github.com/go-openapi/runtime/verifrt"

	"verif/engine/sched"
)

// scenario: requests served concurrently by one handler instance.
type scenario struct {
	Name string
	Reqs []reqSpec
}

func jsonHdr(key string) map[string]string {
	return map[string]string{"Content-Type": "application/json", "X-Key": key, "Accept": "application/json"}
}

func scenarios() []scenario {
	postA := reqSpec{Name: "postA", Method: "POST", Target: "/api/items/11?q=alpha", Headers: jsonHdr("good-a"), Body: `{"v":"A"}`}
	postB := reqSpec{Name: "postB", Method: "POST", Target: "/api/items/22?q=beta", Headers: jsonHdr("good-b"), Body: `{"v":"B"}`}
	postText := reqSpec{Name: "postText", Method: "POST", Target: "/api/items/33?q=gamma", Headers: map[string]string{"Content-Type": "text/plain", "X-Key": "good-t", "Accept": "text/plain", "X-Tag": "tt"}, Body: "plain text body"}
	postBad := reqSpec{Name: "postBad", Method: "POST", Target: "/api/items/44?q=delta", Headers: jsonHdr("wrong"), Body: `{"v":"D"}`}
	postAnon := reqSpec{Name: "postAnon", Method: "POST", Target: "/api/items/55", Headers: map[string]string{"Content-Type": "application/json", "Accept": "application/json"}, Body: `{"v":"E"}`}
	postDenied := reqSpec{Name: "postDenied", Method: "POST", Target: "/api/items/66", Headers: jsonHdr("good-denied"), Body: `{"v":"F"}`}
	getA := reqSpec{Name: "getA", Method: "GET", Target: "/api/items/77?q=eta", Headers: map[string]string{"X-Key": "good-g", "Accept": "text/plain"}}
	getBadID := reqSpec{Name: "getBadID", Method: "GET", Target: "/api/items/notanumber", Headers: map[string]string{"X-Key": "good-h", "Accept": "application/json"}}
	maybeAnon := reqSpec{Name: "maybeAnon", Method: "GET", Target: "/api/maybe/88?q=theta", Headers: map[string]string{"Accept": "application/json"}}
	maybeKey := reqSpec{Name: "maybeKey", Method: "GET", Target: "/api/maybe/99?q=iota", Headers: map[string]string{"X-Key": "good-m", "Accept": "text/plain"}}
	openPut := reqSpec{Name: "openPut", Method: "PUT", Target: "/api/open/12", Headers: map[string]string{"Content-Type": "text/plain", "Accept": "text/plain"}, Body: "open body"}
	notFound := reqSpec{Name: "notFound", Method: "GET", Target: "/api/nothing/here", Headers: map[string]string{"Accept": "application/json"}}
	wrongMethod := reqSpec{Name: "wrongMethod", Method: "DELETE", Target: "/api/items/5", Headers: map[string]string{"Accept": "application/json"}}
	noAccept := reqSpec{Name: "noAccept", Method: "POST", Target: "/api/items/13", Headers: map[string]string{"Content-Type": "application/json", "X-Key": "good-n", "Accept": "image/png"}, Body: `{"v":"N"}`}
	plainJSON := reqSpec{Name: "plainJSON", Method: "POST", Target: "/api/plain?q=pj", Headers: map[string]string{"Content-Type": "application/json", "Accept": "application/json"}, Body: `{"v":"PJ"}`}
	plainText := reqSpec{Name: "plainText", Method: "POST", Target: "/api/plain?q=pt", Headers: map[string]string{"Content-Type": "text/plain", "Accept": "text/plain"}, Body: "plain route text"}
	listGood := reqSpec{Name: "listGood", Method: "GET", Target: "/api/list?q=lg", Headers: map[string]string{"X-Key": "good-l", "Accept": "application/json"}}
	listNone := reqSpec{Name: "listNone", Method: "GET", Target: "/api/list?q=ln", Headers: map[string]string{"Accept": "application/json"}}
	listBad := reqSpec{Name: "listBad", Method: "GET", Target: "/api/list?q=lb", Headers: map[string]string{"X-Key": "wrong", "Accept": "text/plain"}}
	paramText := reqSpec{Name: "paramText", Method: "GET", Target: "/api/param/5?q=pt", Headers: map[string]string{"Accept": "text/plain"}}
	paramJSON := reqSpec{Name: "paramJSON", Method: "GET", Target: "/api/param/6?q=pj", Headers: map[string]string{"Accept": "application/json"}}
	// bodies admitted only through a wildcard consumes entry: the consumer is looked up per request
	wildPlain := reqSpec{Name: "wildPlain", Method: "POST", Target: "/api/wild", Headers: map[string]string{"Content-Type": "text/plain", "Accept": "text/plain"}, Body: "wild plain body"}
	wildCSV := reqSpec{Name: "wildCSV", Method: "POST", Target: "/api/wild", Headers: map[string]string{"Content-Type": "text/csv", "Accept": "application/json"}, Body: "w,c"}
	return []scenario{
		{"wildcard-consumes-plain-vs-csv", []reqSpec{wildPlain, wildCSV}},
		{"offer-with-parameter-vs-json", []reqSpec{paramText, paramJSON}},
		{"static-route-json-vs-text", []reqSpec{plainJSON, plainText}},
		{"static-route-text-vs-json", []reqSpec{plainText, plainJSON}},
		{"static-secured-good-vs-none", []reqSpec{listGood, listNone}},
		{"static-secured-bad-vs-none-vs-good", []reqSpec{listBad, listNone, listGood}},
		{"same-op-different-values", []reqSpec{postA, postB}},
		{"json-vs-text-consumer", []reqSpec{postA, postText}},
		{"good-vs-bad-credentials", []reqSpec{postA, postBad}},
		{"good-vs-absent-credentials", []reqSpec{postB, postAnon}},
		{"denied-vs-admitted", []reqSpec{postDenied, postA}},
		{"different-accept", []reqSpec{getA, postA}},
		{"two-operations", []reqSpec{postText, getA}},
		{"optional-auth", []reqSpec{maybeAnon, maybeKey}},
		{"invalid-vs-valid", []reqSpec{getBadID, getA}},
		{"open-vs-secured", []reqSpec{openPut, postA}},
		{"errors-404-405-406", []reqSpec{notFound, wrongMethod, noAccept}},
		{"three-requests", []reqSpec{postA, postText, getA}},
	}
}

func findScenario(name string) scenario {
	for _, s := range scenarios() {
		if s.Name == name {
			return s
		}
	}
	panic("unknown scenario " + name)
}

// soloLogs serves every request of the scenario alone on a fresh site.
func soloLogs(sc scenario) [][]string {
	out := make([][]string, len(sc.Reqs))
	for i, rs := range sc.Reqs {
		w := newWorld(true)
		s := newSite(w)
		rs := rs
		x := verifrt.Run(nil, 0, func() { s.serve(rs) })
		if len(x.Panics) > 0 || x.Deadlock {
			out[i] = []string{"SOLO-FAILED " + fmt.Sprint(x.Panics, x.Deadlock)}
			continue
		}
		out[i] = w.logs[0]
	}
	return out
}

// E3Case is the replayable form of one schedule.
type E3Case struct {
	Kind     string `json:"kind"` // "schedule"
	Scenario string `json:"scenario"`
	Choices  []int  `json:"choices"`
	Fresh    bool   `json:"fresh_handler"`
}

// exploreScenario is the worker body: all schedules within the bounds.
func exploreScenario(name string, o verifrt.Options, c *sched.Collector) verifrt.Stats {
	sc := findScenario(name)
	// owned orders (map ranges, analysis' media type lists) are fixed to sorted for the solo runs as
	// well: what a request observes alone must be comparable text for text
	verifrt.SetOrderChooser(func(string, int) int { return 0 })
	want := soloLogs(sc)
	for i, l := range want {
		if len(l) > 0 && strings.HasPrefix(l[0], "SOLO-FAILED") {
			c.Fail("solo-run-failed", fmt.Sprintf("request %s alone: %v", sc.Reqs[i].Name, l), E3Case{"schedule", name, nil, true})
			return verifrt.Stats{}
		}
	}
	verifrt.SetOrderChooser(func(string, int) int { return 0 }) // map orders fixed (sorted) while scheduling
	// bound <= 1: a fresh handler for every execution. Deeper: one handler is reused (building one
	// costs milliseconds); should reuse ever disturb replay, the shard is redone with fresh handlers.
	fresh := o.PreemptBound <= 1
	var shared *site
	run := func(fresh bool) verifrt.Stats {
		return verifrt.Explore(o, func() (func(), func(*verifrt.Exec)) {
			var s *site
			w := newWorld(true)
			if fresh {
				s = newSite(w)
			} else {
				if shared == nil {
					shared = newSite(w)
				}
				shared.w.reset()
				s = shared
				w = shared.w
			}
			main := func() {
				for i, rs := range sc.Reqs {
					rs := rs
					verifrt.GoNamed(fmt.Sprintf("r%d-%s", i+1, rs.Name), func() { s.serve(rs) })
				}
			}
			done := func(x *verifrt.Exec) {
				cs := E3Case{"schedule", name, x.Choices(), fresh}
				if x.Aborted {
					c.Fail("horizon-reached", "execution did not finish within the step horizon", cs)
					return
				}
				for _, p := range x.Panics {
					if strings.HasPrefix(p, "REPLAY-DIVERGENCE") {
						return // counted by Explore; handled by the caller
					}
					c.Fail("panic", firstLines(p, 6), cs)
					return
				}
				if x.Deadlock {
					c.Fail("deadlock", fmt.Sprintf("threads left blocked: %v", x.Blocked), cs)
					return
				}
				ok := true
				for i := range sc.Reqs {
					got := w.logs[i+1]
					if !reflect.DeepEqual(got, want[i]) {
						ok = false
						c.Fail("interference", fmt.Sprintf("request %s under schedule (preemptions=%d) observed\n   %s\n  but alone it observes\n   %s", sc.Reqs[i].Name, x.Preemptions, strings.Join(got, "\n   "), strings.Join(want[i], "\n   ")), cs)
						break
					}
				}
				if ok {
					c.Outcome(fmt.Sprintf("all-%d-requests-as-alone", len(sc.Reqs)))
				}
				if x.Preemptions > 0 {
					c.Sample(map[string]any{"scenario": name, "preemptions": x.Preemptions, "switches": x.Switches, "choice_points": len(x.Steps), "choices": compress(x.Choices())})
				}
			}
			return main, done
		})
	}
	st := run(fresh)
	if st.Divergences > 0 && !fresh {
		st = run(true)
	}
	// (divergences that remain with a fresh handler per execution are reported by sched.Merge as an incomplete search)
	return st
}

func firstLines(s string, n int) string {
	l := strings.Split(s, "\n")
	if len(l) > n {
		l = l[:n]
	}
	return strings.Join(l, " | ")
}

// compress renders a choice list as index:choice pairs of the non-default answers.
func compress(ch []int) string {
	var sb strings.Builder
	fmt.Fprintf(&sb, "len=%d nonzero:", len(ch))
	for i, v := range ch {
		if v != 0 {
			fmt.Fprintf(&sb, " %d:%d", i, v)
		}
	}
	return sb.String()
}

// replaySchedule re-executes one recorded schedule and prints the logs.
func replaySchedule(cs E3Case) (string, string) {
	sc := findScenario(cs.Scenario)
	verifrt.SetOrderChooser(func(string, int) int { return 0 })
	want := soloLogs(sc)
	w := newWorld(true)
	s := newSite(w)
	x := verifrt.Run(cs.Choices, 0, func() {
		for i, rs := range sc.Reqs {
			rs := rs
			verifrt.GoNamed(fmt.Sprintf("r%d-%s", i+1, rs.Name), func() { s.serve(rs) })
		}
	})
	if len(x.Panics) > 0 {
		return "panic", firstLines(x.Panics[0], 8)
	}
	if x.Deadlock {
		return "deadlock", fmt.Sprint(x.Blocked)
	}
	for i := range sc.Reqs {
		if !reflect.DeepEqual(w.logs[i+1], want[i]) {
			return "interference", fmt.Sprintf("request %s observed\n   %s\n  alone\n   %s", sc.Reqs[i].Name, strings.Join(w.logs[i+1], "\n   "), strings.Join(want[i], "\n   "))
		}
	}
	return "", "every request observed what it observes alone"
}
