package main

import (
	stdctx "context"
	"fmt"
	"io"
	"net/http"
	"reflect"
	"strings"

	"github.com/go-openapi/runtime/middleware"
)

// ---- E4: all sequences of the per-request accessors on one request ----

var opNames = []string{"RouteInfo", "ContentType", "ResponseFormat", "Authorize", "BindAndValidate", "ResetAuth", "ResponseFormat(offers reversed)", "CancelRequestContext"}

// HistCase is the replayable form of one history.
type HistCase struct {
	Kind string `json:"kind"` // "history"
	Req  string `json:"request"`
	Ops  []int  `json:"ops"`
}

func histRequests() []reqSpec {
	return []reqSpec{
		{Name: "body+creds", Method: "POST", Target: "/api/items/11?q=alpha", Headers: jsonHdr("good-a"), Body: `{"v":"A"}`},
		{Name: "nobody+creds", Method: "GET", Target: "/api/items/77?q=eta", Headers: map[string]string{"X-Key": "good-g", "Accept": "text/plain"}},
		{Name: "bad-creds", Method: "POST", Target: "/api/items/44", Headers: jsonHdr("wrong"), Body: `{"v":"D"}`},
		{Name: "anonymous-allowed", Method: "GET", Target: "/api/maybe/88?q=theta", Headers: map[string]string{"Accept": "application/json"}},
		{Name: "unacceptable-accept", Method: "POST", Target: "/api/items/13", Headers: map[string]string{"Content-Type": "application/json", "X-Key": "good-n", "Accept": "image/png"}, Body: `{"v":"N"}`},
		{Name: "invalid-param", Method: "GET", Target: "/api/items/notanumber", Headers: map[string]string{"X-Key": "good-h", "Accept": "application/json"}},
		{Name: "no-accept-header", Method: "GET", Target: "/api/items/78?q=na", Headers: map[string]string{"X-Key": "good-na"}},
		{Name: "empty-accept-header", Method: "GET", Target: "/api/list?q=ea", Headers: map[string]string{"X-Key": "good-ea", "Accept": ""}},
		{Name: "static-unsecured-body", Method: "POST", Target: "/api/plain?q=sb", Headers: map[string]string{"Content-Type": "text/plain", "Accept": "*/*"}, Body: "static body"},
		{Name: "offer-with-parameter", Method: "GET", Target: "/api/param/5?q=op", Headers: map[string]string{"Accept": "text/plain"}},
		{Name: "no-security", Method: "PUT", Target: "/api/open/12", Headers: map[string]string{"Content-Type": "text/plain", "Accept": "text/plain"}, Body: "open body"},
		// edge values: principals that equal the zero value of their type; a charset spelled in upper case
		{Name: "principal-empty-string", Method: "GET", Target: "/api/items/81?q=zs", Headers: map[string]string{"X-Key": "zero-string", "Accept": "text/plain"}},
		{Name: "principal-zero-int", Method: "GET", Target: "/api/list?q=zi", Headers: map[string]string{"X-Key": "zero-int", "Accept": "application/json"}},
		{Name: "principal-false", Method: "GET", Target: "/api/items/82?q=zb", Headers: map[string]string{"X-Key": "zero-bool", "Accept": "text/plain"}},
		{Name: "principal-zero-struct", Method: "GET", Target: "/api/items/83?q=zt", Headers: map[string]string{"X-Key": "zero-struct", "Accept": "text/plain"}},
		{Name: "charset-upper-case", Method: "POST", Target: "/api/plain?q=cu", Headers: map[string]string{"Content-Type": "text/plain; charset=UTF-8", "Accept": "*/*"}, Body: "upper"},
		{Name: "charset-mixed-case-json", Method: "POST", Target: "/api/items/84?q=cm", Headers: map[string]string{"Content-Type": "application/json; Charset=Utf-8", "X-Key": "good-cm", "Accept": "application/json"}, Body: `{"v":"CM"}`},
	}
}

// countingBody counts what is pulled from the request body.
type countingBody struct {
	r        io.Reader
	bytes    int
	afterEOF int
	sawEOF   bool
	closes   int
}

func (c *countingBody) Read(p []byte) (int, error) {
	if c.sawEOF {
		c.afterEOF++
	}
	n, err := c.r.Read(p)
	c.bytes += n
	if err == io.EOF {
		c.sawEOF = true
	}
	return n, err
}
func (c *countingBody) Close() error { c.closes++; return nil }

// model is the abstract memo table of Appendix A.2.
type model struct {
	route  *middleware.MatchedRoute
	ct     *[2]string
	format *string
	princ  interface{}
	bound  bool
	boundV interface{}
	boundE string
}

func errStr(e error) string {
	if e == nil {
		return "<nil>"
	}
	return e.Error()
}

// runHistory executes one op sequence on a fresh request and checks every
// transition against the model. It returns ("","") or (class, what), and a
// digest of the (model state, observations) reached after each op for state counting.
func runHistory(s *site, rs reqSpec, ops []int, keys *[]string) (string, string) {
	s.w.reset()
	s.w.logging = false
	// the request context is cancellable: cancellation is an event of the history, and what a stage
	// produced before or after it is reused all the same
	rctx, cancelReq := stdctx.WithCancel(stdctx.Background())
	defer cancelReq()
	req := rs.build().WithContext(rctx)
	var body *countingBody
	if rs.Body != "" {
		body = &countingBody{r: strings.NewReader(rs.Body)}
		req.Body = body
	}
	ctx := s.ctx
	var m model
	r := req
	// every history starts by routing (the later accessors need the matched route)
	route, r2, ok := ctx.RouteInfo(r)
	if !ok || route == nil || r2 == nil {
		return "history/route-not-found", "RouteInfo did not match " + rs.Target
	}
	m.route, r = route, r2
	// whether the operation is secured is read off the description (theSpec), not asked of the code under test
	hasAuth := !(strings.HasPrefix(rs.Target, "/api/open") || strings.HasPrefix(rs.Target, "/api/plain") || strings.HasPrefix(rs.Target, "/api/param") || strings.HasPrefix(rs.Target, "/api/wild"))
	for step, op := range ops {
		at := fmt.Sprintf("op %d (%s) of %v", step+1, opNames[op], names(ops))
		authBefore, consBefore := s.w.authN.Load(), s.w.consumeN.Load()
		bytesBefore := 0
		if body != nil {
			bytesBefore = body.bytes
		}
		switch op {
		case 0: // RouteInfo
			rt, rr, ok := ctx.RouteInfo(r)
			if !ok || rt != m.route {
				return "memo/route-recomputed", at + ": matched route was looked up again (a different *MatchedRoute came back)"
			}
			if rr != r {
				return "memo/request-not-reused", at + ": memo hit must return the request it was given"
			}
		case 1: // ContentType
			mt, cs, rr, err := ctx.ContentType(r)
			if err != nil {
				return "history/content-type-error", at + ": " + err.Error()
			}
			if m.ct != nil {
				if rr != r {
					return "memo/request-not-reused", at + ": memo hit must return the request it was given"
				}
				if mt != m.ct[0] || cs != m.ct[1] {
					return "memo/value-changed", fmt.Sprintf("%s: content type %q;%q, first answer %q;%q", at, mt, cs, m.ct[0], m.ct[1])
				}
			} else {
				m.ct = &[2]string{mt, cs}
				if rr != nil {
					r = rr
				}
			}
		case 2, 6: // ResponseFormat, asked with the route's offers or with the same offers in reverse order
			offers := m.route.Produces
			if op == 6 {
				offers = make([]string, len(m.route.Produces))
				for i, o := range m.route.Produces {
					offers[len(offers)-1-i] = o
				}
			}
			f, rr := ctx.ResponseFormat(r, offers)
			if m.format != nil {
				if rr != r {
					return "memo/request-not-reused", at + ": memo hit must return the request it was given"
				}
				if f != *m.format {
					return "memo/value-changed", fmt.Sprintf("%s: format %q, first answer %q", at, f, *m.format)
				}
			} else {
				if f != "" {
					m.format = &f
				}
				if rr != nil {
					r = rr
				}
			}
		case 3: // Authorize
			p, rr, err := ctx.Authorize(r, m.route)
			if !hasAuth {
				// nothing to authorize: no principal and no error; whether a request value comes back is
				// not fixed by the text (if one does, it is the one to go on with)
				if p != nil || err != nil {
					return "history/authorize-without-auth", fmt.Sprintf("%s: route without security answered (%v,%v,%v)", at, p, rr != nil, err)
				}
				if rr != nil {
					r = rr
				}
				break
			}
			if m.princ != nil {
				if err != nil || !reflect.DeepEqual(p, m.princ) {
					return "memo/value-changed", fmt.Sprintf("%s: principal %v err %v, first answer %v", at, p, err, m.princ)
				}
				if rr != r {
					return "memo/request-not-reused", at + ": memo hit must return the request it was given"
				}
				if s.w.authN.Load() != authBefore {
					return "memo/authenticator-consulted-again", at + ": an accepting authenticator was consulted again although the principal is held by the request"
				}
			} else {
				// nothing is held (first asked, or after ResetAuth): the answer is the one this request
				// gets when asked for the first time - derived from the request alone
				if wp, we := firstAuthorize(s, rs); !reflect.DeepEqual(p, wp) || errStr(err) != we {
					return "history/authorize-differs-from-first-evaluation", fmt.Sprintf("%s: nothing held for the request, Authorize answered (%v, %s); asked first on a fresh request it answers (%v, %s)", at, p, errStr(err), wp, we)
				}
				if err == nil && p != nil {
					m.princ = p
				}
				if err == nil && rr == nil {
					return "history/authorize-no-request", at + ": admitted but no request returned"
				}
				if rr != nil {
					r = rr
					if p != nil {
						if got := middleware.SecurityPrincipalFrom(r); !reflect.DeepEqual(got, p) {
							return "history/principal-not-stored", fmt.Sprintf("%s: returned principal %v but the request carries %v", at, p, got)
						}
					}
				}
			}
		case 4: // BindAndValidate
			b, rr, err := ctx.BindAndValidate(r, m.route)
			if m.bound {
				if rr != r {
					return "memo/request-not-reused", at + ": memo hit must return the request it was given"
				}
				if errStr(err) != m.boundE || !reflect.DeepEqual(b, m.boundV) {
					return "memo/value-changed", fmt.Sprintf("%s: binding outcome (%v, %s), first outcome (%v, %s)", at, b, errStr(err), m.boundV, m.boundE)
				}
				if s.w.consumeN.Load() != consBefore {
					return "memo/body-consumed-again", at + ": the consumer ran again although the binding outcome is held by the request"
				}
				if body != nil && body.bytes != bytesBefore {
					return "memo/body-consumed-again", at + ": the body was read again although the binding outcome is held by the request"
				}
			} else {
				m.bound, m.boundV, m.boundE = true, b, errStr(err)
				if rr == nil {
					return "history/bind-no-request", at + ": no request returned"
				}
				r = rr
			}
		case 7: // the client goes away: the request context is cancelled
			cancelReq()
		case 5: // ResetAuth
			rr := ctx.ResetAuth(r)
			if rr == nil {
				return "history/reset-no-request", at
			}
			r = rr
			m.princ = nil
			if got := middleware.SecurityPrincipalFrom(r); got != nil {
				return "history/reset-keeps-principal", fmt.Sprintf("%s: principal %v still present", at, got)
			}
		}
		if s.w.consumeN.Load() > 1 {
			return "memo/body-consumed-again", at + ": consumer invoked more than once for one request"
		}
		if body != nil && (body.bytes > len(rs.Body) || body.afterEOF > 2) {
			return "memo/body-consumed-again", fmt.Sprintf("%s: %d bytes pulled from a %d byte body, %d reads after EOF", at, body.bytes, len(rs.Body), body.afterEOF)
		}
		if keys != nil {
			*keys = append(*keys, fmt.Sprintf("%s|r%v c%v f%v p%v b%v|a%d k%d", rs.Name, m.route != nil, m.ct != nil, m.format != nil, m.princ != nil, m.bound, s.w.authN.Load(), s.w.consumeN.Load()))
		}
	}
	return "", ""
}

// firstAuthorize is what Authorize answers when it is the first stage asked on a fresh copy of the
// request (computed once per site and request kind).
func firstAuthorize(s *site, rs reqSpec) (interface{}, string) {
	if s.firstAuth == nil {
		s.firstAuth = map[string][2]interface{}{}
	}
	if v, ok := s.firstAuth[rs.Name]; ok {
		return v[0], v[1].(string)
	}
	req := rs.build()
	route, r2, ok := s.ctx.RouteInfo(req)
	var p interface{}
	es := "<no route>"
	if ok && route != nil {
		var err error
		p, _, err = s.ctx.Authorize(r2, route)
		es = errStr(err)
	}
	s.firstAuth[rs.Name] = [2]interface{}{p, es}
	return p, es
}

func names(ops []int) []string {
	out := make([]string, len(ops))
	for i, o := range ops {
		out[i] = opNames[o]
	}
	return out
}

var _ = http.MethodGet
