// C09 - per-request state is private under concurrency; stage results are
// reused. Three parts: E3 (all schedules of 2-3 concurrent requests up to a
// preemption bound, statement-granular, on the instrumented build), E4 (all
// sequences of the memoising accessors up to a depth against the memo-table
// model) and R (free-running race-detector pass over the same request sets).
package main

import (
	"bytes"
	"fmt"
	"net/http/httptest"
	"os"
	"os/exec"
	"runtime/debug"
	"strings"
	"sync"
	"time"

	"github.com/go-openapi/runtime/verifrt"

	"verif/engine/enum"
	"verif/engine/report"
	"verif/engine/sched"
)

func main() {
	sched.WorkerMain(exploreScenario)
	if len(os.Args) > 1 && os.Args[1] == "racepass" {
		racePass()
		return
	}
	r := report.Start("C09", "model_checking")
	if r.Replay != "" {
		var probe struct {
			Kind string `json:"kind"`
		}
		r.LoadReplay(&probe)
		cl, what := "", ""
		var cs any
		if probe.Kind == "history" {
			var hc HistCase
			r.LoadReplay(&hc)
			cs = hc
			for _, rs := range histRequests() {
				if rs.Name == hc.Req {
					cl, what = runHistory(newSite(newWorld(false)), rs, hc.Ops, nil)
				}
			}
		} else {
			var ec E3Case
			r.LoadReplay(&ec)
			cs = ec
			cl, what = replaySchedule(ec)
		}
		fmt.Printf("replay %+v\n  class=%q\n  %s\n", cs, cl, what)
		if cl != "" {
			r.Fail(cl, what, cs)
		}
		r.Eval(1)
		r.Nontrivial(2)
		r.States(1)
		r.Transitions(1)
		r.Sample(cs)
		r.Finish("replay of one case", false)
	}

	t0 := time.Now()
	// VERIF_PARTS (debugging aid only; registered commands never set it) restricts the run to some parts
	parts := os.Getenv("VERIF_PARTS")
	part := func(p string) bool { return parts == "" || strings.Contains(parts, p) }
	// ---- E4 histories ----
	depth := 5
	if r.Thorough() {
		depth = 7
	}
	seqs := enum.Seqs(len(opNames), 0, depth)
	reqs := histRequests()
	stateSet := map[string]bool{}
	var mu sync.Mutex
	const chunk = 2000
	nChunks := (len(seqs) + chunk - 1) / chunk
	for _, rs := range reqs {
		rs := rs
		if !part("hist") {
			break
		}
		enum.Parallel(nChunks, r.OutOfTime, func(ci int) {
			s := newSite(newWorld(false))
			local := map[string]bool{}
			var trans int64
			lo, hi := ci*chunk, (ci+1)*chunk
			if hi > len(seqs) {
				hi = len(seqs)
			}
			for _, ops := range seqs[lo:hi] {
				var keys []string
				cl, what := runHistorySafe(s, rs, ops, &keys)
				trans += int64(len(ops))
				for _, k := range keys {
					local[k] = true
				}
				if cl != "" {
					r.Fail(cl, what, HistCase{"history", rs.Name, ops})
				}
			}
			r.Eval(int64(hi - lo))
			r.Traces(int64(hi - lo))
			r.Transitions(trans)
			mu.Lock()
			for k := range local {
				stateSet[k] = true
			}
			mu.Unlock()
		})
	}
	r.States(int64(len(stateSet)))
	r.Nontrivial(int64(len(stateSet)))
	r.Set("history_depth", depth)
	r.Set("history_sequences_per_request", len(seqs))
	r.Set("history_requests", len(reqs))
	r.Set("history_distinct_model_states", len(stateSet))
	r.Sample(HistCase{"history", reqs[0].Name, seqs[len(seqs)/2]})

	r.Set("t_histories_s", time.Since(t0).Seconds())
	// ---- R: free-running race pass (separate processes; runs alongside the schedule search) ----
	var raceDone chan struct{}
	if bin := os.Getenv("VERIF_RACE_BIN"); bin != "" && part("race") {
		raceDone = make(chan struct{})
		go func() {
			defer close(raceDone)
			for _, procs := range []string{"1", "4", "16"} {
				cmd := exec.Command(bin, "racepass")
				cmd.Env = append(os.Environ(), "GOMAXPROCS="+procs, "GORACE=halt_on_error=0 exitcode=66")
				var out bytes.Buffer
				cmd.Stdout, cmd.Stderr = &out, &out
				err := cmd.Run()
				txt := out.String()
				if strings.Contains(txt, "WARNING: DATA RACE") {
					i := strings.Index(txt, "WARNING: DATA RACE")
					rep := txt[i:]
					if len(rep) > 3000 {
						rep = rep[:3000]
					}
					r.Fail("data-race", rep, map[string]any{"kind": "racepass", "gomaxprocs": procs})
				} else if strings.Contains(txt, "RACEPASS-MISMATCH") {
					i := strings.Index(txt, "RACEPASS-MISMATCH")
					r.Fail("interference-free-running", firstLines(txt[i:], 6), map[string]any{"kind": "racepass", "gomaxprocs": procs})
				} else if i := strings.Index(txt, "panic: "); i >= 0 && strings.Contains(txt, "github.com/go-openapi/runtime") {
					// the code under test panicked while serving free-running requests
					r.Fail("panic-free-running", firstLines(txt[i:], 14), map[string]any{"kind": "racepass", "gomaxprocs": procs})
				} else if err != nil {
					fmt.Fprintf(os.Stderr, "internal error: race pass failed: %v\n%s\n", err, txt)
					os.Exit(2)
				}
				r.Outcome("racepass-gomaxprocs-"+procs, 1)
			}
			r.Set("race_pass", "free-running, -race, GOMAXPROCS in {1,4,16}: complement of the cooperative scheduler (not model checking)")
		}()
	} else {
		r.Set("race_pass", "not run (no race binary)")
	}

	r.Set("t_total_s", time.Since(t0).Seconds())
	// ---- E3 schedules ----
	type plan struct {
		name string
		pb   int
	}
	var plans []plan
	for _, sc := range scenarios() {
		pb := 1
		if r.Thorough() && len(sc.Reqs) == 2 {
			pb = 2
		}
		plans = append(plans, plan{sc.Name, pb})
	}
	if !r.Thorough() {
		// one pair at bound 2 on every change as well
		plans = append(plans, plan{"static-route-json-vs-text", 2})
	}
	bounds := map[string]int{}
	// small searches (bound 1) run four at a time with four workers each, deep ones alone on all cores
	type done struct {
		p   plan
		m   *sched.Result
		err error
	}
	var small, deep []plan
	for _, p := range plans {
		if p.pb <= 1 {
			small = append(small, p)
		} else {
			deep = append(deep, p)
		}
	}
	results := make(chan done, len(plans))
	if part("sched") {
		sem := make(chan struct{}, 4)
		var wg sync.WaitGroup
		for _, p := range small {
			p := p
			wg.Add(1)
			go func() {
				defer wg.Done()
				sem <- struct{}{}
				defer func() { <-sem }()
				if r.OutOfTime() {
					return
				}
				m, err := sched.RunShardedN(p.name, p.pb, 0, 4)
				results <- done{p, m, err}
			}()
		}
		wg.Wait()
		for _, p := range deep {
			if r.OutOfTime() {
				break
			}
			m, err := sched.RunSharded(p.name, p.pb, 0)
			results <- done{p, m, err}
		}
	}
	close(results)
	for d := range results {
		if d.err != nil {
			fmt.Fprintln(os.Stderr, "internal error:", d.err)
			os.Exit(2)
		}
		sched.Merge(r, d.m)
		r.Nontrivial(d.m.Stats.Executions)
		bounds[fmt.Sprintf("%s@preemptions<=%d", d.p.name, d.p.pb)] = int(d.m.Stats.Executions)
		if d.m.Stats.Stopped {
			r.OutOfTime()
		}
	}
	r.Set("schedules_per_scenario", bounds)

	r.Set("t_schedules_s", time.Since(t0).Seconds())
	if raceDone != nil {
		<-raceDone
	}
	r.Assume("interleavings at statement granularity of the instrumented files (props/c09/overlay.conf); code of dependencies and the standard library runs atomically between points",
		"map iteration order inside instrumented files is fixed (sorted) during schedule exploration",
		"reference = the same request served alone by a fresh handler")
	if parts != "" {
		r.Nontrivial(2)
		r.Finish("partial debugging run: "+parts, false)
	}
	r.Finish("E4: every sequence (with repetition) of the six per-request accessors up to the stated depth on each of the request kinds, checked step by step against the memo-table model; E3: every schedule of the scenario's 2-3 request threads with at most the stated number of preemptions, each thread's observation log compared with the log of the same request served alone; non-trivial = distinct (request kind, memo state, counters) states reached plus executed schedules (each schedule is distinct by construction of the DFS)", true)
}

// racePass: free-running goroutines on one handler, race detector on (R).
func racePass() {
	verifrt.SetOrderChooser(func(string, int) int { return 0 }) // sorted map order, as in the schedule search
	for _, sc := range scenarios() {
		w := newWorld(false)
		s := newSite(w)
		want := make([]string, len(sc.Reqs))
		for i, rs := range sc.Reqs {
			rec := httptest.NewRecorder()
			s.h.ServeHTTP(rec, rs.build())
			want[i] = fmt.Sprintf("%d %q %q", rec.Code, rec.Header().Get("Content-Type"), canonLists(rec.Body.String()))
		}
		// the concurrent phase runs on a handler that has not served anything yet: whatever is built or
		// remembered lazily is built under concurrency
		s = newSite(newWorld(false))
		var wg sync.WaitGroup
		var mu sync.Mutex
		bad := ""
		for g := 0; g < 16; g++ {
			g := g
			wg.Add(1)
			go func() {
				defer wg.Done()
				for it := 0; it < 60; it++ {
					i := (g + it) % len(sc.Reqs)
					rec := httptest.NewRecorder()
					s.h.ServeHTTP(rec, sc.Reqs[i].build())
					got := fmt.Sprintf("%d %q %q", rec.Code, rec.Header().Get("Content-Type"), canonLists(rec.Body.String()))
					if got != want[i] {
						mu.Lock()
						bad = fmt.Sprintf("scenario %s request %s: got %s want %s", sc.Name, sc.Reqs[i].Name, got, want[i])
						mu.Unlock()
					}
				}
			}()
		}
		wg.Wait()
		if bad != "" {
			fmt.Println("RACEPASS-MISMATCH", bad)
		}
	}
	// the typed flavour (Context.BindValidRequest with the caller's own binder), including a route whose
	// bodies are admitted only through a wildcard consumes entry
	{
		w := newWorld(false)
		s := newSite(w)
		reqs := typedRequests()
		want := make([]string, len(reqs))
		for i, rs := range reqs {
			want[i] = s.typedBind(rs)
		}
		s = newSite(newWorld(false)) // cold handler for the concurrent phase
		var wg sync.WaitGroup
		var mu sync.Mutex
		bad := ""
		for g := 0; g < 16; g++ {
			g := g
			wg.Add(1)
			go func() {
				defer wg.Done()
				for it := 0; it < 120; it++ {
					i := (g + it) % len(reqs)
					if got := s.typedBind(reqs[i]); got != want[i] {
						mu.Lock()
						bad = fmt.Sprintf("typed flavour, request %s: got %s want %s", reqs[i].Name, got, want[i])
						mu.Unlock()
					}
				}
			}()
		}
		wg.Wait()
		if bad != "" {
			fmt.Println("RACEPASS-MISMATCH", bad)
		}
	}
	fmt.Println("racepass done")
}

// runHistorySafe: a panic of the code under test inside a history is a finding about that history, not
// a reason for the run to die without a verdict.
func runHistorySafe(s *site, rs reqSpec, ops []int, keys *[]string) (cl, what string) {
	defer func() {
		if e := recover(); e != nil {
			cl, what = "history/panic", fmt.Sprintf("%v panics on request %s: %v | %s", names(ops), rs.Name, e, firstLines(string(debug.Stack()), 14))
		}
	}()
	return runHistory(s, rs, ops, keys)
}
