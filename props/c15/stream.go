package main

// Byte-exact codecs (ByteStreamConsumer/Producer, TextConsumer/Producer) driven
// through scripted streams whose behaviour is owned by the E2 chooser.

import (
	"bytes"
	"crypto/sha256"
	"encoding/json"
	"errors"
	"fmt"
	"io"
	"reflect"
	"strings"

	"github.com/go-openapi/runtime"

	"verif/engine/choice"
)

var errClosed = errors.New("harness: stream used after Close")

// ---- destination and source types owned by the harness ----

type namedString string
type namedBytes []byte
type namedU8 uint8

type rfDest struct {
	buf   bytes.Buffer
	calls int
}

func (d *rfDest) ReadFrom(r io.Reader) (int64, error) { d.calls++; return d.buf.ReadFrom(r) }

type buDest struct {
	got   []byte
	calls int
}

func (d *buDest) UnmarshalBinary(b []byte) error {
	d.calls++
	d.got = append([]byte(nil), b...)
	return nil
}

type tuDest struct {
	got   []byte
	calls int
}

func (d *tuDest) UnmarshalText(b []byte) error {
	d.calls++
	d.got = append([]byte(nil), b...)
	return nil
}

// wtSrc is an io.WriterTo: two writes when there are at least two bytes.
type wtSrc struct{ data []byte }

func (s *wtSrc) WriteTo(w io.Writer) (int64, error) {
	var total int64
	parts := [][]byte{s.data}
	if len(s.data) >= 2 {
		h := len(s.data) / 2
		parts = [][]byte{s.data[:h], s.data[h:]}
	}
	for _, p := range parts {
		n, err := w.Write(p)
		total += int64(n)
		if err != nil {
			return total, err
		}
	}
	return total, nil
}

// wtrcSrc is an io.WriterTo that is also an io.ReadCloser (like *os.File).
type wtrcSrc struct {
	wtSrc
	closes int
	reads  int
}

func (s *wtrcSrc) Read(p []byte) (int, error) { s.reads++; return 0, io.EOF }
func (s *wtrcSrc) Close() error               { s.closes++; return nil }

type bmSrc struct{ data []byte }

func (s bmSrc) MarshalBinary() ([]byte, error) { return append([]byte(nil), s.data...), nil }

type tmSrc struct{ data []byte }

func (s tmSrc) MarshalText() ([]byte, error) { return append([]byte(nil), s.data...), nil }

type errSrc struct{ s string }

func (e errSrc) Error() string { return e.s }

type strSrc struct{ s string }

func (e strSrc) String() string { return e.s }

// Types that have a text form of their own (MarshalText / UnmarshalText) AND another rendering
// (String or Error) that differs from it. Only their round trip is judged: what the text producer
// writes for them must be what their own UnmarshalText reads back.
type dualStringer struct{ v []byte }

func (d dualStringer) MarshalText() ([]byte, error) { return append([]byte("T:"), d.v...), nil }
func (d dualStringer) String() string               { return "S:" + string(d.v) }

type dualError struct{ v []byte }

func (d dualError) MarshalText() ([]byte, error) { return append([]byte("T:"), d.v...), nil }
func (d dualError) Error() string                { return "E:" + string(d.v) }

type dualDest struct {
	got   []byte
	calls int
}

func (d *dualDest) UnmarshalText(b []byte) error {
	d.calls++
	if !bytes.HasPrefix(b, []byte("T:")) {
		return fmt.Errorf("dual: %q is not the text form of this type", b)
	}
	d.got = append([]byte{}, b[2:]...)
	return nil
}

var rtOnlySrc = []skind{
	{"TextMarshaler+Stringer", supIface, func(_ *choice.Chooser, content []byte, _, _ int) src {
		return src{data: dualStringer{cp(content)}}
	}},
	{"*TextMarshaler+Stringer", supIface, func(_ *choice.Chooser, content []byte, _, _ int) src {
		return src{data: &dualStringer{cp(content)}}
	}},
	{"TextMarshaler+error", supIface, func(_ *choice.Chooser, content []byte, _, _ int) src {
		return src{data: dualError{cp(content)}}
	}},
}
var rtOnlyDst = []dkind{
	{"dual TextUnmarshaler", supIface, func(*choice.Chooser, int) dst {
		d := &dualDest{}
		return dst{data: d, get: func() []byte { return d.got }}
	}},
}

type jsonSrc struct {
	S string `json:"s"`
	N int    `json:"n"`
}

// ---- kinds ----

const (
	supConcrete = iota // supported; the stored bytes are read off the destination value itself
	supIface           // supported; the bytes are handed to an interface the harness implements
	supJSON            // supported source that is documented to be written as JSON
	unsupported        // not supported by the codec
	nilUntyped         // untyped nil
	nilTyped           // typed nil pointer
)

type dst struct {
	data any
	get  func() []byte
	w    *swriter // destination is a scripted writer
	old  []byte   // pre-populated content (nil: fresh)
}

type dkind struct {
	name string
	sup  int
	mk   func(ch *choice.Chooser, ev int) dst
}

func anyBytes(a any) []byte {
	switch v := a.(type) {
	case string:
		return []byte(v)
	case []byte:
		return v
	}
	return []byte(fmt.Sprintf("<%T>", a))
}

func unsup(name string, mk func() any) dkind {
	return dkind{name, unsupported, func(*choice.Chooser, int) dst { return dst{data: mk()} }}
}
func tnil(name string, v any) dkind {
	return dkind{name, nilTyped, func(*choice.Chooser, int) dst { return dst{data: v} }}
}

var oldString = "old-old-old"
var oldBytes = "0123456789abcdef"

func strDest(prepop bool) dst {
	s := new(string)
	d := dst{data: s, get: func() []byte { return []byte(*s) }}
	if prepop {
		*s = oldString
		d.old = []byte(oldString)
	}
	return d
}
func nstrDest(prepop bool) dst {
	s := new(namedString)
	d := dst{data: s, get: func() []byte { return []byte(*s) }}
	if prepop {
		*s = namedString(oldString)
		d.old = []byte(oldString)
	}
	return d
}

var bsConsumeKinds = []dkind{
	{"io.ReaderFrom", supIface, func(*choice.Chooser, int) dst {
		d := &rfDest{}
		return dst{data: d, get: func() []byte { return d.buf.Bytes() }}
	}},
	{"io.Writer", supIface, func(ch *choice.Chooser, ev int) dst {
		w := &swriter{Name: "dst", C: ch, Errs: 2, ErrVals: ev}
		return dst{data: plainW{w}, get: func() []byte { return w.Buf }, w: w}
	}},
	{"*bytes.Buffer", supIface, func(*choice.Chooser, int) dst {
		b := new(bytes.Buffer)
		return dst{data: b, get: func() []byte { return b.Bytes() }}
	}},
	{"*bytes.Buffer/prepop", supIface, func(*choice.Chooser, int) dst {
		b := bytes.NewBufferString("old")
		// a writer-like destination is appended to: what is judged is what was handed over after the old content
		return dst{data: b, get: func() []byte { return bytes.TrimPrefix(b.Bytes(), []byte("old")) }}
	}},
	{"encoding.BinaryUnmarshaler", supIface, func(*choice.Chooser, int) dst {
		d := &buDest{}
		return dst{data: d, get: func() []byte { return d.got }}
	}},
	{"*string", supConcrete, func(*choice.Chooser, int) dst { return strDest(false) }},
	{"*string/prepop", supConcrete, func(*choice.Chooser, int) dst { return strDest(true) }},
	{"*[]byte", supConcrete, func(*choice.Chooser, int) dst {
		b := new([]byte)
		return dst{data: b, get: func() []byte { return *b }}
	}},
	{"*[]byte/prepop", supConcrete, func(*choice.Chooser, int) dst {
		b := []byte(oldBytes)
		return dst{data: &b, get: func() []byte { return b }, old: []byte(oldBytes)}
	}},
	{"*namedString", supConcrete, func(*choice.Chooser, int) dst { return nstrDest(false) }},
	{"*namedBytes", supConcrete, func(*choice.Chooser, int) dst {
		b := new(namedBytes)
		return dst{data: b, get: func() []byte { return []byte(*b) }}
	}},
	{"*[]namedU8", supConcrete, func(*choice.Chooser, int) dst {
		b := new([]namedU8)
		return dst{data: b, get: func() []byte {
			out := make([]byte, len(*b))
			for i, x := range *b {
				out[i] = byte(x)
			}
			return out
		}}
	}},
	{"*any(string)", supConcrete, func(*choice.Chooser, int) dst {
		var a any = "old"
		return dst{data: &a, get: func() []byte { return anyBytes(a) }, old: []byte("old")}
	}},
	{"*any([]byte)", supConcrete, func(*choice.Chooser, int) dst {
		var a any = []byte("old")
		return dst{data: &a, get: func() []byte { return anyBytes(a) }, old: []byte("old")}
	}},
	{"*any(empty string)", supConcrete, func(*choice.Chooser, int) dst {
		var a any = ""
		return dst{data: &a, get: func() []byte { return anyBytes(a) }}
	}},
	unsup("*any(int)", func() any { var a any = 7; return &a }),
	unsup("*any(nil)", func() any { var a any; return &a }),
	unsup("*any(namedString)", func() any { var a any = namedString("x"); return &a }),
	unsup("*int", func() any { return new(int) }),
	unsup("*struct{}", func() any { return &struct{}{} }),
	unsup("**string", func() any { s := new(string); return &s }),
	unsup("*[]int", func() any { return new([]int) }),
	unsup("*[]string", func() any { return new([]string) }),
	unsup("*[4]byte", func() any { return new([4]byte) }),
	unsup("*map[string]string", func() any { return new(map[string]string) }),
	unsup("string", func() any { return "x" }),
	unsup("[]byte", func() any { return []byte("x") }),
	unsup("int", func() any { return 3 }),
	unsup("struct{}", func() any { return struct{}{} }),
	unsup("map[string]string", func() any { return map[string]string{} }),
	{"nil", nilUntyped, func(*choice.Chooser, int) dst { return dst{data: nil} }},
	tnil("(*string)(nil)", (*string)(nil)),
	tnil("(*[]byte)(nil)", (*[]byte)(nil)),
	tnil("(*any)(nil)", (*any)(nil)),
	tnil("(*int)(nil)", (*int)(nil)),
	tnil("(*struct{})(nil)", (*struct{})(nil)),
	tnil("(*bytes.Buffer)(nil)", (*bytes.Buffer)(nil)),
	tnil("(*BinaryUnmarshaler)(nil)", (*buDest)(nil)),
}

var textConsumeKinds = []dkind{
	{"encoding.TextUnmarshaler", supIface, func(*choice.Chooser, int) dst {
		d := &tuDest{}
		return dst{data: d, get: func() []byte { return d.got }}
	}},
	{"*string", supConcrete, func(*choice.Chooser, int) dst { return strDest(false) }},
	{"*string/prepop", supConcrete, func(*choice.Chooser, int) dst { return strDest(true) }},
	{"*namedString", supConcrete, func(*choice.Chooser, int) dst { return nstrDest(false) }},
	{"*namedString/prepop", supConcrete, func(*choice.Chooser, int) dst { return nstrDest(true) }},
	unsup("*[]byte", func() any { return new([]byte) }),
	unsup("*any(string)", func() any { var a any = "old"; return &a }),
	unsup("*int", func() any { return new(int) }),
	unsup("*struct{}", func() any { return &struct{}{} }),
	unsup("**string", func() any { s := new(string); return &s }),
	unsup("string", func() any { return "x" }),
	unsup("[]byte", func() any { return []byte("x") }),
	unsup("int", func() any { return 3 }),
	unsup("map[string]string", func() any { return map[string]string{} }),
	{"nil", nilUntyped, func(*choice.Chooser, int) dst { return dst{data: nil} }},
	tnil("(*string)(nil)", (*string)(nil)),
	tnil("(*namedString)(nil)", (*namedString)(nil)),
	tnil("(*int)(nil)", (*int)(nil)),
	tnil("(*TextUnmarshaler)(nil)", (*tuDest)(nil)),
}

type src struct {
	data    any
	expect  []byte      // exact bytes that must be written (supConcrete / supIface)
	jsonOf  any         // supJSON: the written JSON must decode to this value
	payload *sreader    // source is a scripted reader
	closes  func() int  // closable source payload: close counter
	intact  func() bool // the source bytes were not modified
}

type skind struct {
	name string
	sup  int
	mk   func(ch *choice.Chooser, content []byte, zero, ev int) src
}

func cp(b []byte) []byte { return append([]byte{}, b...) }

func exact(name string, mk func(b []byte) any) skind {
	return skind{name, supConcrete, func(_ *choice.Chooser, content []byte, _, _ int) src {
		return src{data: mk(cp(content)), expect: content}
	}}
}
func usrc(name string, sup int, v func() any) skind {
	return skind{name, sup, func(*choice.Chooser, []byte, int, int) src { return src{data: v()} }}
}
func jsrc(name string, mk func(tag string) (val any)) skind {
	return skind{name, supJSON, func(_ *choice.Chooser, content []byte, _, _ int) src {
		v := mk(fmt.Sprintf("%x", content))
		return src{data: v, jsonOf: v}
	}}
}

var commonSrcTail = []skind{
	jsrc("struct", func(t string) any { return jsonSrc{t, len(t)} }),
	jsrc("*struct", func(t string) any { return &jsonSrc{t, len(t)} }),
	jsrc("[]int", func(t string) any { return []int{len(t), -1, 1 << 40} }),
	jsrc("[]string", func(t string) any { return []string{t, "<&>"} }),
	usrc("int", unsupported, func() any { return 3 }),
	usrc("*int", unsupported, func() any { return new(int) }),
	usrc("bool", unsupported, func() any { return true }),
	usrc("float64", unsupported, func() any { return 1.5 }),
	usrc("map[string]string", unsupported, func() any { return map[string]string{"a": "b"} }),
	usrc("**string", unsupported, func() any { s := new(string); return &s }),
	usrc("[3]byte", unsupported, func() any { return [3]byte{1, 2, 3} }),
	usrc("func()", unsupported, func() any { return func() {} }),
	usrc("nil", nilUntyped, func() any { return nil }),
	usrc("(*string)(nil)", nilTyped, func() any { return (*string)(nil) }),
	usrc("(*[]byte)(nil)", nilTyped, func() any { return (*[]byte)(nil) }),
	usrc("(*struct)(nil)", nilTyped, func() any { return (*jsonSrc)(nil) }),
}

var bsProduceKinds = append([]skind{
	{"io.WriterTo", supIface, func(_ *choice.Chooser, content []byte, _, _ int) src {
		return src{data: &wtSrc{cp(content)}, expect: content}
	}},
	{"io.WriterTo+ReadCloser", supIface, func(_ *choice.Chooser, content []byte, _, _ int) src {
		s := &wtrcSrc{wtSrc: wtSrc{cp(content)}}
		return src{data: s, expect: content, closes: func() int { return s.closes }}
	}},
	{"io.ReadCloser", supIface, func(ch *choice.Chooser, content []byte, zero, ev int) src {
		rd := &sreader{Name: "payload", Data: content, C: ch, Errs: 2, ErrVals: ev, Zero: zero, CloseFaults: true}
		return src{data: rd, expect: content, payload: rd, closes: func() int { return rd.Closes }}
	}},
	{"io.Reader", supIface, func(ch *choice.Chooser, content []byte, zero, ev int) src {
		rd := &sreader{Name: "payload", Data: content, C: ch, Errs: 2, ErrVals: ev, Zero: zero}
		return src{data: plainR{rd}, expect: content, payload: rd}
	}},
	{"encoding.BinaryMarshaler", supIface, func(_ *choice.Chooser, content []byte, _, _ int) src {
		return src{data: bmSrc{cp(content)}, expect: content}
	}},
	exact("error", func(b []byte) any { return errSrc{string(b)} }),
	{"[]byte", supConcrete, func(_ *choice.Chooser, content []byte, _, _ int) src {
		b := cp(content)
		return src{data: b, expect: content, intact: func() bool { return bytes.Equal(b, content) }}
	}},
	{"*[]byte", supConcrete, func(_ *choice.Chooser, content []byte, _, _ int) src {
		b := cp(content)
		return src{data: &b, expect: content, intact: func() bool { return bytes.Equal(b, content) }}
	}},
	{"namedBytes", supConcrete, func(_ *choice.Chooser, content []byte, _, _ int) src {
		b := namedBytes(cp(content))
		return src{data: b, expect: content, intact: func() bool { return bytes.Equal(b, content) }}
	}},
	exact("string", func(b []byte) any { return string(b) }),
	exact("*string", func(b []byte) any { s := string(b); return &s }),
	exact("namedString", func(b []byte) any { return namedString(b) }),
	exact("*namedString", func(b []byte) any { s := namedString(b); return &s }),
}, commonSrcTail...)

var textProduceKinds = append([]skind{
	{"encoding.TextMarshaler", supIface, func(_ *choice.Chooser, content []byte, _, _ int) src {
		return src{data: tmSrc{cp(content)}, expect: content}
	}},
	{"*encoding.TextMarshaler", supIface, func(_ *choice.Chooser, content []byte, _, _ int) src {
		return src{data: &tmSrc{cp(content)}, expect: content}
	}},
	exact("error", func(b []byte) any { return errSrc{string(b)} }),
	exact("fmt.Stringer", func(b []byte) any { return strSrc{string(b)} }),
	exact("string", func(b []byte) any { return string(b) }),
	exact("*string", func(b []byte) any { s := string(b); return &s }),
	exact("namedString", func(b []byte) any { return namedString(b) }),
	exact("*namedString", func(b []byte) any { s := namedString(b); return &s }),
}, commonSrcTail...)

func findD(ks []dkind, name string) *dkind {
	for i := range ks {
		if ks[i].name == name {
			return &ks[i]
		}
	}
	return nil
}
func findS(ks []skind, name string) *skind {
	for i := range ks {
		if ks[i].name == name {
			return &ks[i]
		}
	}
	return nil
}

// call runs f and converts a panic into an outcome.
func call(f func() error) (err error, panicked string) {
	defer func() {
		if e := recover(); e != nil {
			panicked = fmt.Sprint(e)
			if strings.HasPrefix(panicked, "choice:") {
				panic(e) // the explorer's own complaint (unreplayable branch), not a panic of the code under test
			}
		}
	}()
	return f(), ""
}

func q(b []byte) string {
	if len(b) <= 24 {
		return fmt.Sprintf("%q", b)
	}
	h := sha256.Sum256(b)
	return fmt.Sprintf("%q...(%d bytes, sha256 %x)", b[:12], len(b), h[:6])
}

type verdict struct {
	class, what string
	outcome     string
	nontrivial  bool
}

func consumerOf(cs Case) (runtime.Consumer, []dkind) {
	if cs.Codec == "text" {
		return runtime.TextConsumer(), textConsumeKinds
	}
	if cs.Close {
		return runtime.ByteStreamConsumer(runtime.ClosesStream), bsConsumeKinds
	}
	return runtime.ByteStreamConsumer(), bsConsumeKinds
}

func producerOf(cs Case) (runtime.Producer, []skind) {
	if cs.Codec == "text" {
		return runtime.TextProducer(), textProduceKinds
	}
	if cs.Close {
		return runtime.ByteStreamProducer(runtime.ClosesStream), bsProduceKinds
	}
	return runtime.ByteStreamProducer(), bsProduceKinds
}

// runConsume executes one Consume of the byte-stream or text consumer on a
// scripted reader and judges it against the property text.
func runConsume(cs Case, content []byte, ch *choice.Chooser) verdict {
	cons, kinds := consumerOf(cs)
	k := findD(kinds, cs.Kind)
	if k == nil {
		return verdict{class: "harness", what: "unknown destination kind " + cs.Kind}
	}
	rd := &sreader{Name: "src", Data: content, C: ch, Max: cs.Chunk, Errs: cs.Errs, ErrVals: cs.ErrValues, Zero: cs.Zero, CloseFaults: true}
	var reader io.Reader
	switch cs.Stream {
	case "closer":
		reader = rd
	case "plain":
		reader = plainR{rd}
	case "nil":
		reader = nil
	default:
		return verdict{class: "harness", what: "unknown stream kind " + cs.Stream}
	}
	d := k.mk(ch, cs.ErrValues)
	err, pan := call(func() error { return cons.Consume(reader, d.data) })
	v := verdict{nontrivial: rd.Reads > 0 || pan != ""}
	tag := cs.Codec + "-consume:"

	if pan != "" {
		v.outcome = tag + "panic"
		if k.sup == nilTyped {
			v.class = "panic/" + cs.Codec + "-consumer-typed-nil-destination"
		} else {
			v.class = "panic"
		}
		v.what = fmt.Sprintf("%s consumer panicked on destination %s (content %s): %s; the property demands an error, never a panic", cs.Codec, k.name, q(content), pan)
		return v
	}
	// closing duty
	if cs.Stream == "closer" {
		want := cs.Codec == "bytestream" && cs.Close
		switch {
		case rd.Closes > 0 && !want:
			v.class, v.what = "closed-without-option", fmt.Sprintf("%s consumer closed the reader %d time(s) although the closing option was not requested (destination %s)", cs.Codec, rd.Closes, k.name)
			return v
		case rd.Closes == 0 && want:
			if k.sup == nilUntyped {
				v.class = "close-duty-skipped/nil-argument-early-exit"
			} else {
				v.class = "not-closed"
			}
			v.what = fmt.Sprintf("ByteStreamConsumer(ClosesStream) returned (err=%v) without closing the reader (destination %s)", err, k.name)
			return v
		}
	}
	if cs.Stream == "nil" {
		// a nil reader is not a destination: the property does not say what happens (the tree returns an error)
		if err != nil {
			v.outcome = tag + "nil-reader-error(unjudged)"
		} else {
			v.outcome = tag + "nil-reader-accepted(unjudged)"
		}
		return v
	}
	readFault := rd.Faulted()
	switch k.sup {
	case supConcrete, supIface:
		writeFault := d.w != nil && d.w.Faulted()
		if err != nil {
			if !readFault && !writeFault {
				if rd.CloseFailed > 0 {
					// the statement fixes WHEN the stream is closed, not what becomes of an error Close returns:
					// reporting it and dropping it are both allowed
					v.outcome = tag + "close-error-reported(MAY)"
					return v
				}
				v.class, v.what = "unexpected-error", fmt.Sprintf("%s consumer failed on a fault-free stream into supported destination %s (content %s): %v", cs.Codec, k.name, q(content), err)
				return v
			}
			if readFault {
				v.outcome = tag + "read-error-returned"
			} else {
				v.outcome = tag + "destination-write-error-returned"
			}
			return v
		}
		if readFault {
			v.class, v.what = "read-error-swallowed", fmt.Sprintf("the reader failed after %d of %d bytes but the %s consumer reported success (destination %s holds %s)", rd.Pos, len(content), cs.Codec, k.name, q(d.get()))
			return v
		}
		if writeFault {
			v.class, v.what = "write-error-swallowed", fmt.Sprintf("the destination writer failed but the %s consumer reported success (destination %s)", cs.Codec, k.name)
			return v
		}
		stored := d.get()
		if !bytes.Equal(stored, content) {
			switch {
			case cs.Codec == "text" && len(content) == 0 && k.sup == supConcrete && d.old != nil && bytes.Equal(stored, d.old):
				v.class = "stored-mismatch/text-empty-input-keeps-prepopulated-string"
			case len(stored) < len(content) && bytes.HasPrefix(content, stored):
				v.class = "stored-truncated"
			default:
				v.class = "stored-mismatch"
			}
			v.what = fmt.Sprintf("%s consumer reported success; bytes read %s, bytes stored in %s %s", cs.Codec, q(content), k.name, q(stored))
			return v
		}
		// the stored bytes must stay the bytes read: a second consumption with the same consumer must not change them
		if len(content) > 0 {
			other := make([]byte, len(content))
			for i, b := range content {
				other[i] = ^b
			}
			d2 := k.mk(nil, 1)
			err2, pan2 := call(func() error { return cons.Consume(bytes.NewReader(other), d2.data) })
			if pan2 != "" {
				v.class, v.what = "panic", fmt.Sprintf("second Consume into %s panicked: %s", k.name, pan2)
				return v
			}
			// the same consumer value used again must behave as a fresh one does
			if got2 := d2.get(); err2 != nil || !bytes.Equal(got2, other) {
				v.class, v.what = "second-call-differs", fmt.Sprintf("the same %s consumer used a second time (fresh destination %s, fault-free stream %s): err=%v stored %s", cs.Codec, k.name, q(other), err2, q(got2))
				return v
			}
			if again := d.get(); !bytes.Equal(again, content) {
				v.class, v.what = "stored-bytes-aliased", fmt.Sprintf("bytes stored in %s changed from %s to %s when the same consumer consumed another stream", k.name, q(content), q(again))
				return v
			}
		}
		v.outcome = tag + "stored-exactly"
		if d.old != nil {
			v.outcome = tag + "stored-exactly-over-prepopulated"
		}
	default: // unsupported, nil, typed nil
		if err == nil {
			if cs.Codec == "text" && len(content) == 0 && !readFault {
				// nothing was read, nothing had to be stored: the text does not force an error here
				v.outcome = tag + "empty-input-unsupported-destination-accepted(unjudged)"
				return v
			}
			v.class = "no-error-for-unsupported-destination"
			v.what = fmt.Sprintf("%s consumer reported success for destination %s (content %s)", cs.Codec, k.name, q(content))
			return v
		}
		switch k.sup {
		case nilUntyped:
			v.outcome = tag + "nil-destination-error"
		case nilTyped:
			v.outcome = tag + "typed-nil-destination-error"
		default:
			v.outcome = tag + "unsupported-destination-error"
		}
	}
	return v
}

// runProduce executes one Produce of the byte-stream or text producer on a
// scripted writer.
func runProduce(cs Case, content []byte, ch *choice.Chooser) verdict {
	prod, kinds := producerOf(cs)
	k := findS(kinds, cs.Kind)
	if k == nil {
		return verdict{class: "harness", what: "unknown source kind " + cs.Kind}
	}
	w := &swriter{Name: "dst", C: ch, Errs: cs.Errs, ErrVals: cs.ErrValues, CloseFaults: true}
	var writer io.Writer
	switch cs.Stream {
	case "closer":
		writer = w
	case "plain":
		writer = plainW{w}
	case "nil":
		writer = nil
	default:
		return verdict{class: "harness", what: "unknown stream kind " + cs.Stream}
	}
	s := k.mk(ch, content, cs.Zero, cs.ErrValues)
	err, pan := call(func() error { return prod.Produce(writer, s.data) })
	v := verdict{nontrivial: w.Writes > 0 || pan != "" || (s.payload != nil && s.payload.Reads > 0)}
	tag := cs.Codec + "-produce:"

	if pan != "" {
		if k.sup == nilTyped {
			// a typed nil SOURCE is not a destination; the statement does not cover it
			v.outcome = tag + "typed-nil-source-panic(unjudged)"
			return v
		}
		v.outcome = tag + "panic"
		v.class = "panic"
		v.what = fmt.Sprintf("%s producer panicked on source %s (content %s): %s", cs.Codec, k.name, q(content), pan)
		return v
	}
	if cs.Stream == "closer" {
		want := cs.Codec == "bytestream" && cs.Close
		switch {
		case w.Closes > 0 && !want:
			v.class, v.what = "closed-without-option", fmt.Sprintf("%s producer closed the writer %d time(s) although the closing option was not requested (source %s)", cs.Codec, w.Closes, k.name)
			return v
		case w.Closes == 0 && want:
			if k.sup == nilUntyped {
				v.class = "close-duty-skipped/nil-argument-early-exit"
			} else {
				v.class = "not-closed"
			}
			v.what = fmt.Sprintf("ByteStreamProducer(ClosesStream) returned (err=%v) without closing the writer (source %s)", err, k.name)
			return v
		}
	}
	if cs.Codec == "bytestream" && s.closes != nil && s.closes() == 0 {
		if cs.Stream == "nil" {
			v.class = "close-duty-skipped/nil-argument-early-exit"
		} else {
			v.class = "payload-not-closed"
		}
		v.what = fmt.Sprintf("ByteStreamProducer returned (err=%v) without closing the closable source payload %s (writer %s)", err, k.name, cs.Stream)
		return v
	}
	if cs.Stream == "nil" {
		// the writer is where the bytes go: a nil writer is a nil destination
		if err == nil {
			v.class, v.what = "no-error-for-nil-writer", fmt.Sprintf("%s producer reported success with a nil writer (source %s)", cs.Codec, k.name)
			return v
		}
		v.outcome = tag + "nil-writer-error"
		return v
	}
	writeFault := w.Faulted()
	readFault := s.payload != nil && s.payload.Faulted()
	switch k.sup {
	case supConcrete, supIface, supJSON:
		if err != nil {
			if !writeFault && !readFault {
				if w.CloseFailed > 0 || (s.payload != nil && s.payload.CloseFailed > 0) {
					// only a Close failed: reporting it and dropping it are both allowed (see runConsume);
					// the payload itself had been written before, and must be exact
					if k.sup != supJSON && !bytes.Equal(w.Buf, s.expect) {
						v.class, v.what = "written-mismatch", fmt.Sprintf("%s producer reported only the Close error; source bytes %s (%s), bytes written %s", cs.Codec, q(s.expect), k.name, q(w.Buf))
						return v
					}
					v.outcome = tag + "close-error-reported(MAY)"
					return v
				}
				v.class, v.what = "unexpected-error", fmt.Sprintf("%s producer failed on a fault-free writer for supported source %s (content %s): %v", cs.Codec, k.name, q(content), err)
				return v
			}
			if writeFault {
				v.outcome = tag + "write-error-returned"
			} else {
				v.outcome = tag + "payload-read-error-returned"
			}
			return v
		}
		if writeFault {
			v.class, v.what = "write-error-swallowed", fmt.Sprintf("the writer failed at write %d but the %s producer reported success (source %s, %d of %d bytes accepted)", w.Writes, cs.Codec, k.name, len(w.Buf), len(content))
			return v
		}
		if readFault {
			v.class, v.what = "read-error-swallowed", fmt.Sprintf("the source payload failed after %d of %d bytes but the %s producer reported success", s.payload.Pos, len(content), cs.Codec)
			return v
		}
		if k.sup == supJSON {
			// structs and slices cannot be "exactly the source bytes"; the doc comment says JSON, the statement
			// says nothing about their encoding: recorded, not judged
			got := reflect.New(reflect.TypeOf(s.jsonOf))
			if e := json.Unmarshal(w.Buf, got.Interface()); e != nil || !reflect.DeepEqual(got.Elem().Interface(), s.jsonOf) {
				v.outcome = tag + "struct-or-slice-written-in-another-form(unjudged)"
				return v
			}
			v.outcome = tag + "written-as-json"
			return v
		}
		if !bytes.Equal(w.Buf, s.expect) {
			if len(w.Buf) < len(s.expect) && bytes.HasPrefix(s.expect, w.Buf) {
				v.class = "written-truncated"
			} else {
				v.class = "written-mismatch"
			}
			v.what = fmt.Sprintf("%s producer reported success; source bytes %s (%s), bytes written %s", cs.Codec, q(s.expect), k.name, q(w.Buf))
			return v
		}
		if s.intact != nil && !s.intact() {
			// the statement does not speak of the source after the call: recorded, not judged
			v.outcome = tag + "written-exactly-source-modified(unjudged)"
			return v
		}
		// the same producer value used again must behave as a fresh one does
		if len(content) > 0 {
			other := make([]byte, len(content))
			for i, b := range content {
				other[i] = ^b
			}
			s2 := k.mk(nil, other, 0, 1)
			var out2 bytes.Buffer
			err2, pan2 := call(func() error { return prod.Produce(&out2, s2.data) })
			if pan2 != "" || err2 != nil || !bytes.Equal(out2.Bytes(), other) {
				v.class, v.what = "second-call-differs", fmt.Sprintf("the same %s producer used a second time (source %s %s, bytes.Buffer): panic=%q err=%v wrote %s", cs.Codec, k.name, q(other), pan2, err2, q(out2.Bytes()))
				return v
			}
			if !bytes.Equal(w.Buf, s.expect) {
				v.class, v.what = "written-bytes-aliased", fmt.Sprintf("bytes received by the first writer changed to %s after the second Produce", q(w.Buf))
				return v
			}
		}
		v.outcome = tag + "written-exactly"
	default:
		// unsupported or nil SOURCES are not destinations: outcome recorded, not judged
		lab := map[int]string{unsupported: "unsupported-source", nilUntyped: "nil-source", nilTyped: "typed-nil-source"}[k.sup]
		if err != nil {
			v.outcome = tag + lab + "-error(unjudged)"
		} else {
			v.outcome = tag + lab + "-accepted(unjudged)"
		}
	}
	return v
}
