package main

// Scripted streams of C15. They extend engine/doubles (Reader/Writer) with the
// behaviours the io.Reader / io.Writer contracts allow and a bytes.Buffer never
// shows: an error returned TOGETHER with k>0 bytes, errors that are not
// repeated by the next call (the stream resumes, or ends with io.EOF although
// bytes are missing), transient (0, err) errors, short writes with an error,
// and Close calls that fail. Every behaviour is a choice point owned by the
// E2 chooser; answer 0 is what bytes.Reader / bytes.Buffer do.

import (
	"errors"
	"fmt"
	"io"

	"verif/engine/choice"
)

var errInjected = errors.New("injected stream error")

// The values an injected error can take. Only a bare io.EOF is the end of a
// stream: each of these is a failure, whatever it wraps.
var readErrValues = []error{
	errInjected,
	fmt.Errorf("connection reset by peer: %w", io.EOF),
	fmt.Errorf("reading body: %w", io.ErrUnexpectedEOF),
	io.ErrUnexpectedEOF,
	io.ErrClosedPipe,
}
var writeErrValues = []error{
	errInjected,
	io.ErrShortWrite,
	io.ErrClosedPipe,
	fmt.Errorf("broken pipe: %w", io.EOF),
}
var errCloseFailed = errors.New("injected close error")

// after an injected error the stream
const (
	modeSticky = iota // keeps failing: every later call returns (0, err)
	modeResume        // carries on as if nothing happened (the error is not repeated)
	modeEOF           // reader only: reports io.EOF from now on, the remaining bytes are lost
)

type sreader struct {
	Name    string
	Data    []byte
	C       *choice.Chooser
	Zero    int  // zero-length reads (0, nil) offered
	Errs    int  // injected errors offered
	ErrVals int  // how many of readErrValues an injected error may be (<=1: the plain sentinel only)
	Max     int  // >0: at most this many bytes per Read (a reader that chunks)
	Plain   bool // informational: handed out without Close (see plainR)

	CloseFaults bool // Close may fail (it still closes)

	Pos            int
	Reads          int
	Closes         int
	ReadAfterClose int
	CloseFailed    int  // Close calls that returned an error
	Delivered      int  // non-EOF errors returned by Read
	WithData       int  // ... of which together with at least one byte
	Lost           bool // the stream ended (modeEOF) before all bytes were delivered
	sticky         error
}

// Faulted: Read returned a non-EOF error at least once.
func (r *sreader) Faulted() bool { return r.Delivered > 0 }

type ropt struct {
	n    int
	term bool // together with io.EOF
	zero bool
	err  bool
	mode int
	val  int // index into readErrValues
}

func (r *sreader) Read(p []byte) (int, error) {
	r.Reads++
	if r.Closes > 0 {
		r.ReadAfterClose++
		return 0, errClosed
	}
	if r.sticky != nil {
		r.Delivered++
		return 0, r.sticky
	}
	if len(p) == 0 {
		return 0, nil
	}
	if r.Max > 0 && len(p) > r.Max {
		p = p[:r.Max]
	}
	rem := r.Data[r.Pos:]
	if r.Lost {
		rem = nil
	}
	m := len(p)
	if m > len(rem) {
		m = len(rem)
	}
	var opts []ropt
	if m == 0 {
		opts = append(opts, ropt{term: true})
	} else {
		opts = append(opts, ropt{n: m})
		if m > 1 {
			opts = append(opts, ropt{n: 1})
		}
		if m > 2 {
			opts = append(opts, ropt{n: m - 1})
		}
		if m == len(rem) {
			opts = append(opts, ropt{n: m, term: true})
		}
	}
	if r.Zero > 0 {
		opts = append(opts, ropt{zero: true})
	}
	if r.Errs > 0 {
		ks := []int{0}
		if m > 1 {
			ks = append(ks, 1)
		}
		if m > 0 {
			ks = append(ks, m)
		}
		nv := r.ErrVals
		if nv < 1 {
			nv = 1
		}
		for val := 0; val < nv && val < len(readErrValues); val++ {
			for _, k := range ks {
				opts = append(opts, ropt{n: k, err: true, mode: modeSticky, val: val}, ropt{n: k, err: true, mode: modeResume, val: val})
				if k < len(rem) { // bytes remain after this call: they can also be lost
					opts = append(opts, ropt{n: k, err: true, mode: modeEOF, val: val})
				}
			}
		}
	}
	o := opts[0]
	if r.C != nil && len(opts) > 1 {
		o = opts[r.C.Choose(r.Name+".Read", len(opts))]
	}
	switch {
	case o.zero:
		r.Zero--
		return 0, nil
	case o.err:
		r.Errs--
		n := copy(p, rem[:o.n])
		r.Pos += n
		r.Delivered++
		if n > 0 {
			r.WithData++
		}
		e := readErrValues[o.val]
		switch o.mode {
		case modeSticky:
			r.sticky = e
		case modeEOF:
			r.Lost = true
		}
		return n, e
	}
	n := copy(p, rem[:o.n])
	r.Pos += n
	if o.term {
		return n, io.EOF
	}
	return n, nil
}

func (r *sreader) Close() error {
	r.Closes++
	if r.CloseFaults && r.C != nil && r.C.Choose(r.Name+".Close", 2) == 1 {
		r.CloseFailed++
		return errCloseFailed
	}
	return nil
}

// plainR is the scripted reader without Close.
type plainR struct{ r *sreader }

func (p plainR) Read(b []byte) (int, error) { return p.r.Read(b) }

type swriter struct {
	Name        string
	C           *choice.Chooser
	Errs        int  // injected errors offered
	ErrVals     int  // how many of writeErrValues an injected error may be (<=1: the plain sentinel only)
	CloseFaults bool // Close may fail (it still closes)

	Buf             []byte
	Writes          int
	Closes          int
	WriteAfterClose int
	CloseFailed     int // Close calls that returned an error
	Delivered       int // errors returned by Write
	Short           int // ... of which after accepting some but not all bytes
	sticky          error
}

// Faulted: Write returned an error at least once.
func (w *swriter) Faulted() bool { return w.Delivered > 0 }

func (w *swriter) Write(p []byte) (int, error) {
	w.Writes++
	if w.Closes > 0 {
		w.WriteAfterClose++
		return 0, errClosed
	}
	if w.sticky != nil {
		w.Delivered++
		return 0, w.sticky
	}
	if w.Errs > 0 && w.C != nil {
		type wopt struct{ n, mode, val int }
		opts := []wopt{{len(p), -1, 0}}
		nv := w.ErrVals
		if nv < 1 {
			nv = 1
		}
		for val := 0; val < nv && val < len(writeErrValues); val++ {
			opts = append(opts, wopt{0, modeSticky, val}, wopt{0, modeResume, val})
			if len(p) > 1 {
				// short write: io.Writer demands an error with it
				opts = append(opts, wopt{1, modeSticky, val}, wopt{1, modeResume, val})
			}
			if len(p) > 2 {
				opts = append(opts, wopt{len(p) - 1, modeSticky, val}, wopt{len(p) - 1, modeResume, val})
			}
		}
		if o := opts[w.C.Choose(w.Name+".Write", len(opts))]; o.mode >= 0 {
			e := writeErrValues[o.val]
			w.Errs--
			w.Buf = append(w.Buf, p[:o.n]...)
			w.Delivered++
			if o.n > 0 {
				w.Short++
			}
			if o.mode == modeSticky {
				w.sticky = e
			}
			return o.n, e
		}
	}
	w.Buf = append(w.Buf, p...)
	return len(p), nil
}

func (w *swriter) Close() error {
	w.Closes++
	if w.CloseFaults && w.C != nil && w.C.Choose(w.Name+".Close", 2) == 1 {
		w.CloseFailed++
		return errCloseFailed
	}
	return nil
}

// plainW is the scripted writer without Close.
type plainW struct{ w *swriter }

func (p plainW) Write(b []byte) (int, error) { return p.w.Write(b) }
