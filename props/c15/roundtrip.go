package main

// Round trips producer -> bytes -> consumer for the five built-in pairs, with
// the writer and the reader scripted by the E2 chooser, and the destination
// totality sweep of the structured codecs.

import (
	"bytes"
	"encoding/json"
	"encoding/xml"
	"fmt"
	"math"
	"reflect"
	"strings"

	"github.com/go-openapi/runtime"
	"github.com/go-openapi/runtime/yamlpc"

	"verif/engine/choice"
)

type Leaf struct {
	S string  `json:"s" xml:"s" yaml:"s"`
	N int64   `json:"n" xml:"n" yaml:"n"`
	U uint64  `json:"u" xml:"u" yaml:"u"`
	F float64 `json:"f" xml:"f" yaml:"f"`
	B bool    `json:"b" xml:"b" yaml:"b"`
}

type Tree struct {
	Name  string   `json:"name" xml:"name" yaml:"name"`
	Leaf  Leaf     `json:"leaf" xml:"leaf" yaml:"leaf"`
	Ptr   *Leaf    `json:"ptr" xml:"ptr" yaml:"ptr"`
	Items []Leaf   `json:"items" xml:"items>item" yaml:"items"`
	Tags  []string `json:"tags" xml:"tag" yaml:"tags"`
	Nums  []int64  `json:"nums" xml:"num" yaml:"nums"`
	PS    *string  `json:"ps" xml:"ps" yaml:"ps"`
	PN    *int64   `json:"pn" xml:"pn" yaml:"pn"`
}

// AttrDoc exercises XML attributes and character data.
type AttrDoc struct {
	XMLName xml.Name `xml:"attr-doc"`
	ID      string   `xml:"id,attr"`
	Lang    string   `xml:"lang,attr,omitempty"`
	Body    string   `xml:",chardata"`
}

// JDyn holds dynamically typed JSON (numbers are json.Number because the consumer uses UseNumber).
type JDyn struct {
	Any any            `json:"any"`
	M   map[string]any `json:"m"`
	L   []any          `json:"l"`
	Raw []byte         `json:"raw"`
}

// YDyn holds dynamically typed YAML.
type YDyn struct {
	Any any            `yaml:"any"`
	M   map[string]any `yaml:"m"`
	L   []any          `yaml:"l"`
}

type rtValue struct {
	name   string
	val    any
	codecs string // subset of "jxy"
}

func sp(s string) *string { return &s }
func ip(i int64) *int64   { return &i }

var rtStrings = []struct{ s, codecs string }{
	{"", "jxy"}, {"a", "jxy"}, {"hello world", "jxy"}, {"<>&", "jxy"}, {"</s><!-- x -->", "jxy"},
	{`"quoted" \ back`, "jxy"}, {"line1\nline2", "jxy"}, {" lead and trail ", "jxy"}, {"tab\there", "jxy"},
	{"日本語 é", "jxy"}, {"😀", "jxy"}, {"true", "jxy"}, {"123", "jxy"}, {"null", "jxy"}, {"~", "jxy"},
	{"- x", "jxy"}, {"a: b", "jxy"}, {"# c", "jxy"}, {"{x}", "jxy"}, {"[y]", "jxy"}, {"'", "jxy"}, {"]]>", "jxy"},
	{"&amp;", "jxy"}, {"1e3", "jxy"}, {"0x1F", "jxy"}, {"2001-01-01", "jxy"}, {" ", "jxy"},
	// control characters: not representable in XML 1.0
	{"nul\x00byte", "jy"}, {"\x1f", "jy"},
	{"cr\r\nlf", "jxy"},
}

func buildFamily() []rtValue {
	var out []rtValue
	add := func(name string, v any, codecs string) { out = append(out, rtValue{name, v, codecs}) }
	for i, s := range rtStrings {
		add(fmt.Sprintf("leaf-string-%02d", i), Leaf{S: s.s}, s.codecs)
	}
	nums := []int64{0, -1, 1<<53 + 1, -(1<<53 + 1), math.MaxInt64, math.MinInt64}
	for i, n := range nums {
		add(fmt.Sprintf("leaf-int-%d", i), Leaf{N: n}, "jxy")
	}
	add("leaf-uint-max", Leaf{U: math.MaxUint64}, "jxy")
	add("leaf-uint-2^53+1", Leaf{U: 1<<53 + 1}, "jxy")
	floats := []float64{0.1, -2.5e-8, 1e21, math.MaxFloat64, math.SmallestNonzeroFloat64, 1.0000000000000002, 123456789.125}
	for i, f := range floats {
		add(fmt.Sprintf("leaf-float-%d", i), Leaf{F: f, B: i%2 == 0}, "jxy")
	}
	full := Leaf{S: "x<y", N: -42, U: 42, F: 2.5, B: true}
	add("ptr-leaf", &full, "jxy")
	add("tree-empty", Tree{}, "jxy")
	add("tree-nested", Tree{Name: "n", Leaf: full, Ptr: &Leaf{S: "p"}, Items: []Leaf{full, {S: "&"}, {}}, Tags: []string{"a", "", "<b>"}, Nums: []int64{1<<53 + 1, -1}, PS: sp(""), PN: ip(0)}, "jxy")
	add("tree-pointers", Tree{PS: sp("<&>"), PN: ip(math.MinInt64), Ptr: &Leaf{}}, "jxy")
	add("ptr-tree", &Tree{Name: "p", Items: []Leaf{{N: 1}, {N: 2}}}, "jxy")
	// top-level non-struct values
	add("top-string", "plain <&> text", "jxy")
	add("top-int64", int64(1<<53+1), "jxy")
	add("top-bool", true, "jxy")
	add("top-slice-string", []string{"a", "b<", ""}, "jy")
	add("top-slice-int", []int64{1, -2, 1<<53 + 1}, "jy")
	add("top-slice-leaf", []Leaf{full, {}}, "jy")
	add("top-empty-slice", []string{}, "jy")
	add("top-map", map[string]string{"k": "v", "<": ">", "": "empty-key"}, "jy")
	add("top-map-leaf", map[string]Leaf{"a": full}, "jy")
	add("top-ptr-ptr", func() any { s := sp("pp"); return &s }(), "jy")
	add("xml-attr", AttrDoc{XMLName: xml.Name{Local: "attr-doc"}, ID: `a"b<c&`, Lang: "en", Body: " body <&> \n text "}, "x")
	add("xml-attr-empty", AttrDoc{XMLName: xml.Name{Local: "attr-doc"}}, "x")
	// JSON dynamic values: numbers beyond float64 precision must survive (UseNumber)
	add("json-number-2^53+1", JDyn{Any: json.Number("9007199254740993")}, "j")
	add("json-number-30-digits", JDyn{Any: json.Number("123456789012345678901234567890")}, "j")
	add("json-number-fraction", JDyn{Any: json.Number("1.000000000000000000001")}, "j")
	add("json-number-exp", JDyn{Any: json.Number("-1E+400")}, "j")
	add("json-dyn-nested", JDyn{
		Any: map[string]any{"n": json.Number("18446744073709551616"), "s": "<&>", "b": true, "z": nil, "l": []any{json.Number("0.1"), "x", []any{}}},
		M:   map[string]any{"k": json.Number("1"), "<": "</script>"},
		L:   []any{json.Number("9007199254740993"), nil, false, map[string]any{}},
		Raw: []byte{0, 0xff, 0x80, '\n'},
	}, "j")
	add("json-dyn-empty", JDyn{}, "j")
	add("json-raw-empty", JDyn{Raw: []byte{}}, "j")
	add("json-top-any-number", func() any { var a any = json.Number("9007199254740993"); return &a }(), "j")
	add("json-top-any-list", func() any { var a any = []any{json.Number("1e999"), "s"}; return &a }(), "j")
	add("json-top-number", json.Number("123456789012345678901234567890.5"), "j")
	// YAML dynamic values
	add("yaml-dyn-nested", YDyn{
		Any: map[string]any{"n": 9007199254740993, "s": "<&>", "b": true, "z": nil, "f": 0.1, "l": []any{1, "x", "true", "1"}},
		M:   map[string]any{"k": 1, "~": "tilde", "yes": "no"},
		L:   []any{math.MaxInt64, uint64(math.MaxUint64), nil, false, "null", "1.5"},
	}, "y")
	add("yaml-dyn-empty", YDyn{}, "y")
	add("yaml-top-any-int", func() any { var a any = 9007199254740993; return &a }(), "y")
	add("yaml-top-any-list", func() any { var a any = []any{"a", 1, "1"}; return &a }(), "y")
	// a document that does not fit the codecs' internal buffers
	big := Tree{Name: strings.Repeat("long-name-", 60)}
	for i := 0; i < 100; i++ {
		big.Items = append(big.Items, Leaf{S: fmt.Sprintf("item <%d> & co", i), N: int64(i) * 1_000_000_007, U: uint64(i), F: float64(i) / 7, B: i%3 == 0})
		big.Tags = append(big.Tags, fmt.Sprintf("tag-%d", i))
	}
	add("tree-big", big, "jxy")
	return out
}

var family = buildFamily()

func findValue(name string) *rtValue {
	for i := range family {
		if family[i].name == name {
			return &family[i]
		}
	}
	return nil
}

func structured(codec string) (runtime.Producer, runtime.Consumer) {
	switch codec {
	case "json":
		return runtime.JSONProducer(), runtime.JSONConsumer()
	case "xml":
		return runtime.XMLProducer(), runtime.XMLConsumer()
	case "yaml":
		return yamlpc.YAMLProducer(), yamlpc.YAMLConsumer()
	}
	return nil, nil
}

// byte-exact pairs for the text and byte-stream round trip: source kind > destination kind
var exactPairs = map[string][]string{
	"bytestream": {"string>*string", "[]byte>*[]byte", "string>*[]byte", "[]byte>*string", "encoding.BinaryMarshaler>encoding.BinaryUnmarshaler", "io.Reader>io.Writer", "io.WriterTo>io.ReaderFrom", "namedBytes>*namedString", "error>*any(string)"},
	"text": {"string>*string", "encoding.TextMarshaler>encoding.TextUnmarshaler", "fmt.Stringer>*namedString", "error>*string", "*string>*string",
		"TextMarshaler+Stringer>dual TextUnmarshaler", "*TextMarshaler+Stringer>dual TextUnmarshaler", "TextMarshaler+error>dual TextUnmarshaler"},
}

// runRoundTrip: produce into a scripted writer, feed exactly what the writer
// received to the consumer through a scripted reader, compare.
func runRoundTrip(cs Case, content []byte, ch *choice.Chooser) verdict {
	tag := cs.Codec + "-roundtrip:"
	w := &swriter{Name: "w", C: ch, Errs: cs.Errs, ErrVals: cs.ErrValues, CloseFaults: true}
	wc := w
	var prod runtime.Producer
	var cons runtime.Consumer
	var source any
	var newDest func() (data any, equal func() (bool, string))
	var payload *sreader
	var dstw *swriter

	if cs.Codec == "text" || cs.Codec == "bytestream" {
		parts := strings.SplitN(cs.Kind, ">", 2)
		if len(parts) != 2 {
			return verdict{class: "harness", what: "bad pair " + cs.Kind}
		}
		pc := Case{Codec: cs.Codec}
		var sk []skind
		var dk []dkind
		prod, sk = producerOf(pc)
		cons, dk = consumerOf(pc)
		s, d := findS(sk, parts[0]), findD(dk, parts[1])
		if s == nil {
			s = findS(rtOnlySrc, parts[0])
		}
		if d == nil {
			d = findD(rtOnlyDst, parts[1])
		}
		if s == nil || d == nil {
			return verdict{class: "harness", what: "unknown pair " + cs.Kind}
		}
		sv := s.mk(ch, content, cs.Zero, cs.ErrValues)
		source, payload = sv.data, sv.payload
		newDest = func() (any, func() (bool, string)) {
			dv := d.mk(ch, cs.ErrValues)
			dstw = dv.w
			return dv.data, func() (bool, string) {
				got := dv.get()
				if bytes.Equal(got, content) {
					return true, ""
				}
				return false, fmt.Sprintf("source bytes %s, consumed bytes %s", q(content), q(got))
			}
		}
	} else {
		val := findValue(cs.Value)
		if cs.Value == "big-string" {
			// size ladder: one string value holding the generated content
			val = &rtValue{name: cs.Value, val: Leaf{S: string(content), N: int64(len(content))}}
		}
		if val == nil {
			return verdict{class: "harness", what: "unknown value " + cs.Value}
		}
		prod, cons = structured(cs.Codec)
		if prod == nil {
			return verdict{class: "harness", what: "unknown codec " + cs.Codec}
		}
		source = val.val
		newDest = func() (any, func() (bool, string)) {
			p := reflect.New(reflect.TypeOf(val.val))
			return p.Interface(), func() (bool, string) {
				got := p.Elem().Interface()
				if sameValue(reflect.ValueOf(got), reflect.ValueOf(val.val)) {
					return true, ""
				}
				if l, ok := got.(Leaf); ok && cs.Value == "big-string" {
					return false, fmt.Sprintf("produced a string of %s, consumed %s", q(content), q([]byte(l.S)))
				}
				return false, fmt.Sprintf("produced %#v, consumed %#v", deref(val.val), deref(got))
			}
		}
	}

	err, pan := call(func() error { return prod.Produce(wc, source) })
	v := verdict{nontrivial: w.Writes > 0}
	if pan != "" {
		v.class, v.what = "panic", fmt.Sprintf("%s producer panicked on %s%s: %s", cs.Codec, cs.Value, cs.Kind, pan)
		return v
	}
	if w.Closes > 0 {
		v.class, v.what = "closed-without-option", fmt.Sprintf("%s producer closed the writer although no closing option was requested", cs.Codec)
		return v
	}
	pfault := payload != nil && payload.Faulted()
	if w.Faulted() || pfault {
		if err == nil {
			v.class = "write-error-swallowed"
			if pfault {
				v.class = "read-error-swallowed"
			}
			v.what = fmt.Sprintf("%s producer reported success although the stream failed (write %d, %d bytes accepted) for %s%s", cs.Codec, w.Writes, len(w.Buf), cs.Value, cs.Kind)
			return v
		}
		v.outcome = tag + "produce-stream-error-returned"
		return v
	}
	if err != nil {
		v.class, v.what = "unexpected-error", fmt.Sprintf("%s producer failed on a fault-free writer for supported value %s%s: %v", cs.Codec, cs.Value, cs.Kind, err)
		return v
	}
	wire := append([]byte(nil), w.Buf...)
	rd := &sreader{Name: "r", Data: wire, C: ch, Max: cs.Chunk, Errs: cs.Errs, ErrVals: cs.ErrValues, Zero: cs.Zero, CloseFaults: true}
	data, equal := newDest()
	err, pan = call(func() error { return cons.Consume(rd, data) })
	if pan != "" {
		v.class, v.what = "panic", fmt.Sprintf("%s consumer panicked on its own producer's output %s: %s", cs.Codec, q(wire), pan)
		return v
	}
	if rd.Closes > 0 {
		v.class, v.what = "closed-without-option", fmt.Sprintf("%s consumer closed the reader although no closing option was requested", cs.Codec)
		return v
	}
	dfault := dstw != nil && dstw.Faulted()
	if err != nil {
		if !rd.Faulted() && !dfault {
			v.class, v.what = "unexpected-error", fmt.Sprintf("%s consumer failed on its own producer's output %s delivered without fault (%d reads): %v", cs.Codec, q(wire), rd.Reads, err)
			return v
		}
		v.outcome = tag + "consume-stream-error-returned"
		return v
	}
	if dfault {
		v.class, v.what = "write-error-swallowed", fmt.Sprintf("%s consumer reported success although the destination writer failed", cs.Codec)
		return v
	}
	ok, diff := equal()
	if !ok {
		if rd.Faulted() {
			v.class = "read-error-swallowed"
			v.what = fmt.Sprintf("%s consumer reported success with a different value after the reader failed at byte %d of %d: %s", cs.Codec, rd.Pos, len(wire), diff)
		} else {
			v.class = "roundtrip-mismatch"
			v.what = fmt.Sprintf("%s round trip through %s: %s", cs.Codec, q(wire), diff)
		}
		return v
	}
	if (cs.Codec == "text" || cs.Codec == "bytestream") && rd.Faulted() {
		// byte-exact codecs read to the end of the stream: a failure of the reader can only be reported
		v.class, v.what = "read-error-swallowed", fmt.Sprintf("%s consumer reported success although the reader failed at byte %d of %d", cs.Codec, rd.Pos, len(wire))
		return v
	}
	v.outcome = tag + "equal"
	if rd.Faulted() {
		v.outcome = tag + "equal-fault-after-complete-document"
	}
	return v
}

func deref(v any) any {
	rv := reflect.ValueOf(v)
	for rv.IsValid() && rv.Kind() == reflect.Ptr && !rv.IsNil() {
		rv = rv.Elem()
	}
	if !rv.IsValid() {
		return v
	}
	return rv.Interface()
}

// ---- destination totality of the structured codecs ----

type badDest struct {
	name  string
	judge string // "error": must return an error; "nopanic": only no panic is demanded
	mk    func() any
}

var badDests = []badDest{
	{"nil", "error", func() any { return nil }},
	{"(*Tree)(nil)", "error", func() any { return (*Tree)(nil) }},
	{"(*string)(nil)", "error", func() any { return (*string)(nil) }},
	{"(*any)(nil)", "error", func() any { return (*any)(nil) }},
	{"Tree(value)", "error", func() any { return Tree{} }},
	{"string(value)", "error", func() any { return "x" }},
	{"int(value)", "error", func() any { return 3 }},
	{"[]string(value)", "error", func() any { return []string{"x"} }},
	{"map[string]any(value)", "nopanic", func() any { return map[string]any{} }}, // a map is a reference: storing into it is possible
	{"*chan int", "error", func() any { return new(chan int) }},
	{"*func()", "error", func() any { return new(func()) }},
	{"*Tree/prepop", "nopanic", func() any {
		return &Tree{Name: "old", Leaf: Leaf{S: "old", N: 7}, Ptr: &Leaf{S: "old"}, Items: []Leaf{{S: "o1"}, {S: "o2"}, {S: "o3"}}, Tags: []string{"t1", "t2", "t3", "t4", "t5"}, PS: sp("old")}
	}},
	{"*any/prepop(*Tree)", "nopanic", func() any { var a any = &Tree{Name: "old"}; return &a }},
	{"*any/prepop(string)", "nopanic", func() any { var a any = "old"; return &a }},
	{"*map/prepop", "nopanic", func() any { m := map[string]any{"name": 1, "other": "x"}; return &m }},
	{"*[]Leaf/prepop", "nopanic", func() any { l := []Leaf{{S: "a"}, {S: "b"}}; return &l }},
}

func findBad(name string) *badDest {
	for i := range badDests {
		if badDests[i].name == name {
			return &badDests[i]
		}
	}
	return nil
}

// runDest feeds the codec's own encoding of a Tree to its consumer with an
// unsupported, nil or pre-populated destination.
func runDest(cs Case, ch *choice.Chooser) verdict {
	prod, cons := structured(cs.Codec)
	bd := findBad(cs.Kind)
	if prod == nil || bd == nil {
		return verdict{class: "harness", what: "unknown codec/destination " + cs.Codec + "/" + cs.Kind}
	}
	val := findValue(cs.Value)
	if val == nil {
		return verdict{class: "harness", what: "unknown value " + cs.Value}
	}
	var wire bytes.Buffer
	if err := prod.Produce(&wire, val.val); err != nil {
		return verdict{class: "unexpected-error", what: fmt.Sprintf("%s producer failed into a bytes.Buffer: %v", cs.Codec, err)}
	}
	rd := &sreader{Name: "r", Data: wire.Bytes(), C: ch, Errs: cs.Errs, ErrVals: cs.ErrValues, Zero: cs.Zero, CloseFaults: true}
	data := bd.mk()
	err, pan := call(func() error { return cons.Consume(rd, data) })
	v := verdict{nontrivial: true}
	tag := cs.Codec + "-dest:"
	if pan != "" {
		v.outcome = tag + "panic"
		v.class = "panic"
		if cs.Codec == "yaml" && bd.judge == "error" {
			rv := reflect.ValueOf(data)
			if !rv.IsValid() || rv.Kind() != reflect.Ptr || rv.IsNil() {
				v.class = "panic/yaml-consumer-destination-not-a-non-nil-pointer"
			}
		}
		v.what = fmt.Sprintf("%s consumer panicked on destination %s: %s; the property demands an error, never a panic", cs.Codec, bd.name, pan)
		return v
	}
	if rd.Closes > 0 {
		v.class, v.what = "closed-without-option", fmt.Sprintf("%s consumer closed the reader although no closing option was requested", cs.Codec)
		return v
	}
	if bd.judge == "error" && err == nil {
		v.class, v.what = "no-error-for-unsupported-destination", fmt.Sprintf("%s consumer reported success for destination %s", cs.Codec, bd.name)
		return v
	}
	if err != nil {
		v.outcome = tag + "error"
	} else {
		v.outcome = tag + "prepopulated-accepted(value unjudged)"
	}
	return v
}

// sameValue is value equality as the formats can express it: a nil slice or map
// equals an empty one (none of JSON null/[] conventions, XML or YAML keeps that
// distinction for every type); everything else is compared exactly.
func sameValue(a, b reflect.Value) bool {
	if !a.IsValid() || !b.IsValid() {
		return a.IsValid() == b.IsValid()
	}
	if a.Type() != b.Type() {
		return false
	}
	switch a.Kind() {
	case reflect.Ptr:
		if a.IsNil() || b.IsNil() {
			return a.IsNil() == b.IsNil()
		}
		return sameValue(a.Elem(), b.Elem())
	case reflect.Interface:
		if a.IsNil() || b.IsNil() {
			return a.IsNil() == b.IsNil()
		}
		return sameValue(a.Elem(), b.Elem())
	case reflect.Struct:
		for i := 0; i < a.NumField(); i++ {
			if !sameValue(a.Field(i), b.Field(i)) {
				return false
			}
		}
		return true
	case reflect.Slice, reflect.Array:
		if a.Len() != b.Len() {
			return false
		}
		for i := 0; i < a.Len(); i++ {
			if !sameValue(a.Index(i), b.Index(i)) {
				return false
			}
		}
		return true
	case reflect.Map:
		if a.Len() != b.Len() {
			return false
		}
		for _, k := range a.MapKeys() {
			bv := b.MapIndex(k)
			if !bv.IsValid() || !sameValue(a.MapIndex(k), bv) {
				return false
			}
		}
		return true
	}
	return reflect.DeepEqual(a.Interface(), b.Interface())
}
