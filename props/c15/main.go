// C15 - built-in codecs (JSON, XML, YAML, text, byte stream) round-trip values
// and never truncate, alias or panic.
//
// Fault enumeration (E2) on the real producers/consumers: every stream the
// codecs touch is a scripted double whose behaviour (chunk sizes, zero-length
// reads, data together with EOF, an error together with k>=0 bytes that is
// sticky / not repeated / followed by a premature EOF, short writes with an
// error, failing Close) is a choice point (props/c15/doubles.go). For every content of up to 3 (quick) / 4 (thorough) bytes over
// {a, \x00, \xff, \n} EVERY choice sequence is executed; longer contents and
// the documents of the structured codecs get every sequence with at most
// `bound` deviations from the bytes.Reader-like default (long contents 1 quick /
// 2 thorough; medium contents and round-trip documents one more). The static
// axes (codec x source/destination kind x stream kind x closing option x
// content) are a full product (E1). buildCases is the authoritative list.
package main

import (
	"encoding/hex"
	"fmt"
	"os"
	"runtime/debug"
	"sort"
	"strings"
	"sync"
	"sync/atomic"

	"verif/engine/choice"
	"verif/engine/enum"
	"verif/engine/report"
)

// Case is one execution: the static tuple plus the answers to the choice points.
type Case struct {
	Sweep     string `json:"sweep"`             // consume | produce | roundtrip | dest
	Codec     string `json:"codec"`             // bytestream | text | json | xml | yaml
	Kind      string `json:"kind,omitempty"`    // destination kind (consume, dest), source kind (produce), "src>dst" (byte-exact roundtrip)
	Stream    string `json:"stream,omitempty"`  // closer | plain | nil : the reader (consume) or writer (produce) handed to the codec
	Close     bool   `json:"close,omitempty"`   // ClosesStream option (byte stream codec only)
	Hex       string `json:"content_hex"`       // content, hex encoded
	GenLen    int    `json:"gen_len,omitempty"` // >0: generated content of that length instead of Hex
	Value     string `json:"value,omitempty"`   // name of the round-trip value (structured codecs)
	Zero      int    `json:"zero_reads"`        // how many zero-length reads the scripted readers may offer
	Errs      int    `json:"errs"`              // how many injected errors each scripted stream may offer
	ErrValues int    `json:"err_values"`        // how many error values (doubles.go readErrValues/writeErrValues) an injected error may take; 0/1 = plain sentinel
	Chunk     int    `json:"chunk,omitempty"`   // >0: the scripted reader delivers at most this many bytes per Read
	Pattern   string `json:"pattern,omitempty"` // generator of the GenLen content: "" | ladder-bin | ladder-ascii
	Bound     int    `json:"bound"`             // deviation bound used by the explorer (-1: every choice sequence)
	Choices   []int  `json:"choices"`           // answers to the choice points, 0 afterwards
}

const asciiAlphabet = "ABCDEFGHIJKLMNOPQRSTUVWXYZabcdefghijklmnopqrstuvwxyz0123456789-_"

var contentCache sync.Map // generated contents are shared read-only between the cases of a size

func (c Case) content() []byte {
	if c.GenLen > 0 {
		key := fmt.Sprintf("%s/%d", c.Pattern, c.GenLen)
		if b, ok := contentCache.Load(key); ok {
			return b.([]byte)
		}
		b := make([]byte, c.GenLen)
		switch c.Pattern {
		case "":
			for i := range b {
				b[i] = byte(i*7+1) ^ byte(i>>8) ^ byte(i>>13)
			}
		case "ladder-bin": // position dependent up to 4 GiB: a cut, a shift or a repeated window changes it
			for i := range b {
				b[i] = byte(i*7+1) ^ byte(i>>8) ^ byte((i>>13)*5) ^ byte((i>>21)*29)
			}
		case "ladder-ascii": // the same idea over letters, digits, '-' and '_' (valid text for every codec)
			for i := range b {
				b[i] = asciiAlphabet[(i*5+(i>>6)*3+(i>>12)*7+(i>>18)*11+(i>>24)*13)&63]
			}
		default:
			panic("unknown pattern " + c.Pattern)
		}
		if c.GenLen >= 1<<20 {
			contentCache.Store(key, b)
		}
		return b
	}
	b, err := hex.DecodeString(c.Hex)
	if err != nil {
		panic("bad content_hex: " + err.Error())
	}
	return b
}

func run(c Case, content []byte, ch *choice.Chooser) verdict {
	switch c.Sweep {
	case "consume":
		return runConsume(c, content, ch)
	case "produce":
		return runProduce(c, content, ch)
	case "roundtrip":
		return runRoundTrip(c, content, ch)
	case "dest":
		return runDest(c, ch)
	}
	return verdict{class: "harness", what: "unknown sweep " + c.Sweep}
}

// check re-executes exactly one case (used by replay and, through run, by the explorer).
func check(c Case) (string, string) {
	v := run(c, c.content(), choice.Replay(c.Choices))
	return v.class, v.what
}

type failure struct {
	class, what string
	c           Case
}

type tally struct {
	evals, nontrivial int64
	outcomes          map[string]int64
	byBound           map[string]int64
	fails             []failure
	samples           map[string][]any // by sweep/codec, a few each
	diverged          bool
}

func newTally() *tally {
	return &tally{outcomes: map[string]int64{}, byBound: map[string]int64{}, samples: map[string][]any{}}
}

func (t *tally) merge(o *tally) {
	t.evals += o.evals
	t.nontrivial += o.nontrivial
	for k, v := range o.outcomes {
		t.outcomes[k] += v
	}
	for k, v := range o.byBound {
		t.byBound[k] += v
	}
	t.fails = append(t.fails, o.fails...)
	for k, v := range o.samples {
		if len(t.samples[k]) < 3 {
			t.samples[k] = append(t.samples[k], v...)
		}
	}
}

// explore runs every choice sequence of one static case within its deviation
// bound and returns what it saw. Nothing is reported from here: a static case
// whose exploration had to be redone is counted once.
func explore(r *report.R, st Case, parallel bool) *tally {
	content := st.content()
	attempt := func(tolerant bool) (t *tally, divergence string) {
		t = newTally()
		var mu sync.Mutex
		body := func(ch *choice.Chooser) {
			v := run(st, content, ch)
			if parallel {
				mu.Lock()
				defer mu.Unlock()
			}
			if v.nontrivial {
				t.nontrivial++
			}
			c := st
			c.Choices = ch.Choices()
			if v.class != "" {
				if len(t.fails) < 64 {
					t.fails = append(t.fails, failure{v.class, v.what, c})
				} else {
					t.fails = append(t.fails, failure{class: v.class})
				}
				t.outcomes["FAIL "+v.class]++
				return
			}
			t.outcomes[v.outcome]++
			if key := st.Sweep + "/" + st.Codec; len(t.samples[key]) < 1 && ch.Deviations() >= 1 && st.GenLen == 0 && (int64(len(st.Kind)+len(st.Hex)+len(st.Value)+len(c.Choices))+r.Seed)%5 == 0 {
				t.samples[key] = append(t.samples[key], map[string]any{"case": c, "outcome": v.outcome})
			}
		}
		var n int64
		switch {
		case tolerant:
			n = exploreTolerant(st.Bound, r.OutOfTime, body)
		case parallel:
			n = choice.ExploreParallel(st.Bound, r.OutOfTime, body)
		default:
			func() {
				defer func() {
					if e := recover(); e != nil {
						msg := fmt.Sprint(e)
						if !strings.HasPrefix(msg, "choice:") {
							panic(e)
						}
						divergence = msg
					}
				}()
				n = choice.Explore(st.Bound, r.OutOfTime, body)
			}()
		}
		t.evals = n
		t.byBound[fmt.Sprintf("%s/%s/bound=%d", st.Sweep, st.Codec, st.Bound)] = n
		return t, divergence
	}
	t, div := attempt(false)
	if div != "" {
		// The code under test did not perform the same stream operations when the same case was re-executed
		// (state carried from one call to the next). The strict explorer refuses to go on; so that violations
		// are still found, the case is explored again tolerating branches that cannot be replayed, and the
		// run is reported as not exhaustive.
		fmt.Fprintf(os.Stderr, "C15: %s: case %+v is re-explored in tolerant mode; the run is not exhaustive\n", div, st)
		t, _ = attempt(true)
		t.diverged = true
	}
	return t
}

// exploreTolerant is choice.Explore for code whose choice points are not a
// function of the choices alone: a branch whose prefix cannot be replayed is
// skipped instead of stopping the run.
func exploreTolerant(bound int, stop func() bool, body func(c *choice.Chooser)) int64 {
	var n int64
	var rec func(prefix []int)
	rec = func(prefix []int) {
		if stop != nil && stop() {
			return
		}
		c := choice.Replay(prefix)
		ok := func() (ok bool) {
			defer func() {
				if e := recover(); e != nil {
					if !strings.HasPrefix(fmt.Sprint(e), "choice:") {
						panic(e)
					}
					ok = false
				}
			}()
			body(c)
			return true
		}()
		if !ok || len(c.Trace) < len(prefix) {
			return
		}
		n++
		dev := 0
		for i := 0; i < len(prefix); i++ {
			if c.Trace[i].Chosen != 0 {
				dev++
			}
		}
		for i := len(prefix); i < len(c.Trace); i++ {
			if bound >= 0 && dev+1 > bound {
				break
			}
			for alt := 1; alt < c.Trace[i].N; alt++ {
				np := make([]int, i+1)
				for k := 0; k < i; k++ {
					np[k] = c.Trace[k].Chosen
				}
				np[i] = alt
				rec(np)
			}
		}
	}
	rec(nil)
	return n
}

// caseSize orders counterexamples: the smallest one of each class is reported first.
func caseSize(c Case) int {
	n := len(c.Hex)/2 + c.GenLen
	if c.Value == "tree-big" {
		n += 10000
	}
	return n*64 + len(c.Choices)
}

func hx(s string) string { return hex.EncodeToString([]byte(s)) }

func buildCases(thorough bool) (cases []Case, sizes map[string]any) {
	alpha := []string{"a", "\x00", "\xff", "\n"}
	smallLen, zero, bound, rtBound := 3, 2, 1, 2
	bigLens := []int{513, 4097, 70000}
	if thorough {
		smallLen, zero, bound, rtBound = 4, 2, 2, 3
		bigLens = []int{513, 4097, 32769, 70000}
	}
	small := enum.Strings(alpha, smallLen) // every content up to smallLen: all choice sequences
	reduced := []string{"", "a", "\xff\n"} // for kinds whose dispatch does not look at the bytes
	// short contents that are longer than the exhaustive ones: explored with one deviation more than the long ones
	medium := []string{"a\x00\xff\n\n", " a \n", "\n\n\n\n\n\n", "\xff\xfe\x00\x80abc\n", "0123456789abcdef"}
	mBound := bound + 1
	sizes = map[string]any{
		"content_alphabet": []string{"a", "\\x00", "\\xff", "\\n"}, "content_all_strings_up_to": smallLen, "contents_exhaustive_chunking": len(small),
		"generated_lengths": bigLens, "deviation_bound_long_contents": bound, "deviation_bound_medium_contents": mBound, "medium_contents": len(medium), "deviation_bound_structured_roundtrip": rtBound, "zero_length_reads_offered": zero,
		"bytestream_destination_kinds": len(bsConsumeKinds), "text_destination_kinds": len(textConsumeKinds),
		"bytestream_source_kinds": len(bsProduceKinds), "text_source_kinds": len(textProduceKinds),
		"structured_bad_destinations": len(badDests), "roundtrip_values": len(family),
		"injected_errors_offered_per_stream": 2,
		"error_values_read":                  []string{"plain sentinel", "error wrapping io.EOF", "error wrapping io.ErrUnexpectedEOF", "io.ErrUnexpectedEOF", "io.ErrClosedPipe"},
		"error_values_write":                 []string{"plain sentinel", "io.ErrShortWrite", "io.ErrClosedPipe", "error wrapping io.EOF"},
		"error_value_axis_applies_to":        "contents of <=2 bytes (exhaustive chunking), medium contents, 513/4097-byte contents, all round-trip and destination cases; other cases: plain sentinel",
		"reader_behaviours_per_read":         "deliver all | 1 byte | all-1 | all together with io.EOF | zero-length read | non-EOF error together with k bytes, k in {0, 1, all}, after which the stream is sticky (keeps failing) | resumes (error not repeated) | ends with io.EOF losing the remaining bytes",
		"writer_behaviours_per_write":        "accept all | error after accepting k bytes, k in {0, 1, all-1} (short write with error), after which the stream is sticky | resumes",
		"close_behaviours":                   "Close succeeds | Close returns an error (the stream is closed either way); a closed stream fails every later Read/Write",
		"shared_instance_sequences":          "after every successful byte-exact case the SAME consumer/producer value is used a second time on a fresh stream with the complemented content: the second result must be what a fresh instance gives and the first result must not change",
	}
	// The error VALUE axis (plain sentinel, error wrapping io.EOF, error wrapping io.ErrUnexpectedEOF,
	// io.ErrUnexpectedEOF, io.ErrClosedPipe; writers: plain, io.ErrShortWrite, io.ErrClosedPipe, wrapped io.EOF)
	// is crossed with every (bytes delivered with the error, what the stream does afterwards, offset) for the
	// contents of up to 2 bytes (all choice sequences), the medium contents, the 513 and 4097 byte contents
	// and every round-trip / destination case; contents of 3-4 bytes, the longest contents and the 9 KB
	// document get the plain sentinel only (their bytes add nothing to how an error value is classified).
	add := func(c Case) {
		c.ErrValues = 1
		switch {
		case c.Value == "tree-big" || c.GenLen > 4097:
		case c.Sweep == "roundtrip" || c.Sweep == "dest" || c.GenLen > 0 || c.Bound >= 0 || len(c.Hex) <= 4:
			c.ErrValues = len(readErrValues)
		}
		cases = append(cases, c)
	}

	// --- consumers of the byte-exact codecs ---
	for _, codec := range []string{"bytestream", "text"} {
		kinds := bsConsumeKinds
		closes := []bool{false, true}
		if codec == "text" {
			kinds = textConsumeKinds
			closes = []bool{false}
		}
		for _, k := range kinds {
			supported := k.sup == supConcrete || k.sup == supIface
			for _, cl := range closes {
				for _, stream := range []string{"closer", "plain"} {
					cs := small
					if !supported || stream == "plain" {
						cs = reduced
					}
					for _, s := range cs {
						add(Case{Sweep: "consume", Codec: codec, Kind: k.name, Stream: stream, Close: cl, Hex: hx(s), Zero: zero, Errs: 2, Bound: -1})
					}
					if stream == "plain" {
						continue
					}
					if supported {
						for _, s := range medium {
							add(Case{Sweep: "consume", Codec: codec, Kind: k.name, Stream: stream, Close: cl, Hex: hx(s), Zero: 1, Errs: 2, Bound: mBound})
						}
					}
					if supported || k.name == "*int" || k.name == "nil" {
						for _, n := range bigLens {
							add(Case{Sweep: "consume", Codec: codec, Kind: k.name, Stream: stream, Close: cl, GenLen: n, Zero: 1, Errs: 2, Bound: bound})
						}
					}
				}
				add(Case{Sweep: "consume", Codec: codec, Kind: k.name, Stream: "nil", Close: cl, Hex: hx("a"), Errs: 2, Bound: -1})
			}
		}
	}
	// --- producers of the byte-exact codecs ---
	for _, codec := range []string{"bytestream", "text"} {
		kinds := bsProduceKinds
		closes := []bool{false, true}
		if codec == "text" {
			kinds = textProduceKinds
			closes = []bool{false}
		}
		for _, k := range kinds {
			exact := k.sup == supConcrete || k.sup == supIface
			for _, cl := range closes {
				for _, stream := range []string{"closer", "plain"} {
					cs := small
					if !exact || stream == "plain" {
						cs = reduced
					}
					for _, s := range cs {
						add(Case{Sweep: "produce", Codec: codec, Kind: k.name, Stream: stream, Close: cl, Hex: hx(s), Zero: zero, Errs: 2, Bound: -1})
					}
					if stream == "plain" || !exact {
						continue
					}
					for _, s := range medium {
						add(Case{Sweep: "produce", Codec: codec, Kind: k.name, Stream: stream, Close: cl, Hex: hx(s), Zero: 1, Errs: 2, Bound: mBound})
					}
					for _, n := range bigLens {
						add(Case{Sweep: "produce", Codec: codec, Kind: k.name, Stream: stream, Close: cl, GenLen: n, Zero: 1, Errs: 2, Bound: bound})
					}
				}
				add(Case{Sweep: "produce", Codec: codec, Kind: k.name, Stream: "nil", Close: cl, Hex: hx("a"), Errs: 2, Bound: -1})
			}
		}
	}
	// --- round trips ---
	for _, codec := range []string{"bytestream", "text"} {
		for _, pair := range exactPairs[codec] {
			for _, s := range append(append([]string{}, reduced...), medium[:3]...) {
				add(Case{Sweep: "roundtrip", Codec: codec, Kind: pair, Hex: hx(s), Zero: 1, Errs: 2, Bound: mBound})
			}
			add(Case{Sweep: "roundtrip", Codec: codec, Kind: pair, GenLen: 4097, Zero: 1, Errs: 2, Bound: bound})
		}
	}
	for _, codec := range []string{"json", "xml", "yaml"} {
		for _, v := range family {
			if !containsByte(v.codecs, codec[0]) {
				continue
			}
			b := rtBound
			if v.name == "tree-big" {
				b = bound
			}
			add(Case{Sweep: "roundtrip", Codec: codec, Value: v.name, Zero: 1, Errs: 2, Bound: b})
		}
		for _, bd := range badDests {
			for _, val := range []string{"tree-nested", "top-string"} {
				add(Case{Sweep: "dest", Codec: codec, Kind: bd.name, Value: val, Zero: 1, Errs: 2, Bound: 1})
			}
		}
	}
	// --- size ladder: nothing is cut, shifted or repeated at any internal buffer or cap boundary ---
	// Default stream behaviour only (bound 0: no deviation), full reads and one chunked reader (4096 bytes per Read);
	// every supported destination / source kind of the byte-exact codecs, one big string value for JSON, XML, YAML.
	ladder := []int{4097, 32769, 1<<20 + 1, 10<<20 + 1}
	if thorough {
		ladder = []int{4095, 4096, 4097, 32767, 32768, 32769, 65537, 1<<20 + 1, 10<<20 - 1, 10 << 20, 10<<20 + 1, 32<<20 + 1}
	}
	nLadder := 0
	for _, n := range ladder {
		for _, chunk := range []int{0, 4096} {
			for _, codec := range []string{"bytestream", "text"} {
				kinds, pat := bsConsumeKinds, "ladder-bin"
				if codec == "text" {
					kinds, pat = textConsumeKinds, "ladder-ascii"
				}
				for _, k := range kinds {
					if k.sup == supConcrete || k.sup == supIface {
						add(Case{Sweep: "consume", Codec: codec, Kind: k.name, Stream: "closer", GenLen: n, Pattern: pat, Chunk: chunk, Bound: 0})
						nLadder++
					}
				}
			}
			for _, codec := range []string{"json", "xml", "yaml"} {
				add(Case{Sweep: "roundtrip", Codec: codec, Value: "big-string", GenLen: n, Pattern: "ladder-ascii", Chunk: chunk, Bound: 0})
				nLadder++
			}
		}
		for _, codec := range []string{"bytestream", "text"} {
			kinds, pat := bsProduceKinds, "ladder-bin"
			if codec == "text" {
				kinds, pat = textProduceKinds, "ladder-ascii"
			}
			for _, k := range kinds {
				if k.sup == supConcrete || k.sup == supIface {
					add(Case{Sweep: "produce", Codec: codec, Kind: k.name, Stream: "closer", GenLen: n, Pattern: pat, Bound: 0})
					nLadder++
				}
			}
		}
	}
	sizes["size_ladder_lengths"] = ladder
	sizes["size_ladder_cases"] = nLadder
	sizes["size_ladder_axes"] = "length x {full reads, 4096-byte reads} x every supported destination kind of the byte-stream and text consumers + one big string value through JSON, XML, YAML; length x every byte-exact source kind of the byte-stream and text producers; position-dependent content (binary for the byte stream codec, letters/digits for the others); fault-free default streams; stored/written bytes compared exactly (length and sha256 reported)"
	return cases, sizes
}

func containsByte(s string, b byte) bool {
	for i := 0; i < len(s); i++ {
		if s[i] == b {
			return true
		}
	}
	return false
}

func main() {
	r := report.Start("C15", "fault_enumeration")
	if r.Replay != "" {
		var c Case
		r.LoadReplay(&c)
		ch := choice.Replay(c.Choices)
		v := run(c, c.content(), ch)
		fmt.Printf("replay %+v\n", c)
		for i, p := range ch.Trace {
			fmt.Printf("  choice %d at %s: %d of %d\n", i, p.Site, p.Chosen, p.N)
		}
		fmt.Printf("  outcome=%q class=%q %s\n", v.outcome, v.class, v.what)
		if v.class != "" {
			r.Fail(v.class, v.what, c)
		}
		r.Eval(1)
		r.Nontrivial(1)
		r.Sample(c)
		r.Finish("replay of one case", false)
	}

	cases, sizes := buildCases(r.Thorough())
	for k, v := range sizes {
		r.Set(k, v)
	}
	r.Set("static_cases", len(cases))
	// heavy cases first (long contents explored with a deviation bound), so that the dynamic queue balances
	sort.SliceStable(cases, func(i, j int) bool { return cases[i].GenLen > cases[j].GenLen })
	rot := 0
	if n := int64(len(cases)); n > 0 {
		rot = int(((r.Seed % n) + n) % n)
	}
	var mu sync.Mutex
	total := newTally()
	divergedCases := 0
	// the few documents that take milliseconds per execution are explored with the choice tree itself spread over the cores
	var light, big []Case
	for _, st := range cases {
		switch {
		case st.GenLen >= 1<<20:
			big = append(big, st)
		case st.Value != "tree-big":
			light = append(light, st)
		default:
			total.merge(explore(r, st, true))
		}
	}
	cases = light
	// the megabyte rungs of the size ladder hold several copies of their content: a few at a time,
	// in their own goroutines next to the main queue, under a memory limit
	var bigWG sync.WaitGroup
	var bigNext atomic.Int64
	debug.SetMemoryLimit(3 << 30) // the front end runs the collector rarely; this bounds what the big rungs can pile up
	for w := 0; w < 3; w++ {
		bigWG.Add(1)
		go func() {
			defer bigWG.Done()
			for {
				i := int(bigNext.Add(1) - 1)
				if i >= len(big) || r.OutOfTime() {
					return
				}
				t := explore(r, big[i], false)
				mu.Lock()
				total.merge(t)
				mu.Unlock()
			}
		}()
	}
	enum.Parallel(len(cases), r.OutOfTime, func(i int) {
		st := cases[(i+rot)%len(cases)]
		t := explore(r, st, false)
		mu.Lock()
		total.merge(t)
		if t.diverged {
			divergedCases++
		}
		mu.Unlock()
	})
	bigWG.Wait()
	r.Eval(total.evals)
	r.Nontrivial(total.nontrivial)
	// smallest counterexample of every class first (the report keeps the first five of a class)
	sort.SliceStable(total.fails, func(i, j int) bool {
		a, b := total.fails[i], total.fails[j]
		if (a.what == "") != (b.what == "") {
			return b.what == ""
		}
		return caseSize(a.c) < caseSize(b.c)
	})
	for _, f := range total.fails {
		r.Fail(f.class, f.what, f.c)
	}
	keys := make([]string, 0, len(total.samples))
	for k := range total.samples {
		keys = append(keys, k)
	}
	sort.Strings(keys)
	for round := 0; round < 3; round++ {
		for _, k := range keys {
			if round < len(total.samples[k]) {
				r.Sample(total.samples[k][round])
			}
		}
	}
	r.Set("static_cases_with_unreplayable_branches", divergedCases)
	for k, v := range total.outcomes {
		r.Outcome(k, v)
	}
	r.Set("executions_per_sweep", total.byBound)
	r.Assume(
		"scripted streams (props/c15/doubles.go, an extension of engine/doubles) behave as io.Reader/io.Writer allow: errors may come together with data and need not be repeated; a stream that was closed fails every later Read/Write",
		"byte-exact codecs: every non-EOF error a stream returned must surface as an error of the call (also when the stream resumed afterwards); JSON/XML/YAML: the call fails or the decoded value is complete and equal",
		"for destinations that are interfaces implemented by the harness (io.Writer, io.ReaderFrom, Binary/TextUnmarshaler) 'bytes stored' means the bytes handed over",
		"round-trip values are restricted to what each format can represent (no control characters in XML, no empty non-nil slices in XML, dynamically typed JSON numbers are json.Number)",
		"not judged because the statement does not force it: whether an error returned by Close (stream, sink or closable payload) is reported or dropped, the encoding the byte-exact producers choose for struct/slice sources, the state of a source after Produce, nil reader, unsupported or nil SOURCE of a producer, error on empty text input for an unsupported destination, the value left in a pre-populated destination of JSON/XML/YAML, error identity",
	)
	r.Finish("one evaluation = one execution of a real producer and/or consumer on scripted streams for one (static case, choice sequence); the explorer never repeats a choice sequence and the static cases are distinct tuples, so evaluations are distinct cases; non-trivial = the codec performed at least one Read or Write on a scripted stream (or panicked)", divergedCases == 0)
}
