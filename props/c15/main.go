// C15 - built-in codecs (JSON, XML, YAML, text, byte stream) round-trip values
// and never truncate, alias or panic.
//
// Fault enumeration (E2) on the real producers/consumers: every stream the
// codecs touch is a scripted double whose behaviour (chunk sizes, zero-length
// reads, data together with EOF, failure at any read or write) is a choice
// point. For short contents EVERY choice sequence is executed; for long
// contents and documents every sequence with at most `bound` deviations from
// the bytes.Reader-like default (1 quick, 2 thorough). The static axes (codec x
// source/destination kind x stream kind x closing option x content) are a
// full product (E1).
package main

import (
	"encoding/hex"
	"fmt"
	"os"
	"sort"
	"sync"
	"time"

	"verif/engine/choice"
	"verif/engine/enum"
	"verif/engine/report"
)

// Case is one execution: the static tuple plus the answers to the choice points.
type Case struct {
	Sweep   string `json:"sweep"`             // consume | produce | roundtrip | dest
	Codec   string `json:"codec"`             // bytestream | text | json | xml | yaml
	Kind    string `json:"kind,omitempty"`    // destination kind (consume, dest), source kind (produce), "src>dst" (byte-exact roundtrip)
	Stream  string `json:"stream,omitempty"`  // closer | plain | nil : the reader (consume) or writer (produce) handed to the codec
	Close   bool   `json:"close,omitempty"`   // ClosesStream option (byte stream codec only)
	Hex     string `json:"content_hex"`       // content, hex encoded
	GenLen  int    `json:"gen_len,omitempty"` // >0: generated content of that length instead of Hex
	Value   string `json:"value,omitempty"`   // name of the round-trip value (structured codecs)
	Zero    int    `json:"zero_reads"`        // how many zero-length reads the scripted readers may offer
	Bound   int    `json:"bound"`             // deviation bound used by the explorer (-1: every choice sequence)
	Choices []int  `json:"choices"`           // answers to the choice points, 0 afterwards
}

func (c Case) content() []byte {
	if c.GenLen > 0 {
		b := make([]byte, c.GenLen)
		for i := range b {
			b[i] = byte(i*7+1) ^ byte(i>>8) ^ byte(i>>13)
		}
		return b
	}
	b, err := hex.DecodeString(c.Hex)
	if err != nil {
		panic("bad content_hex: " + err.Error())
	}
	return b
}

func run(c Case, content []byte, ch *choice.Chooser) verdict {
	switch c.Sweep {
	case "consume":
		return runConsume(c, content, ch)
	case "produce":
		return runProduce(c, content, ch)
	case "roundtrip":
		return runRoundTrip(c, content, ch)
	case "dest":
		return runDest(c, ch)
	}
	return verdict{class: "harness", what: "unknown sweep " + c.Sweep}
}

// check re-executes exactly one case (used by replay and, through run, by the explorer).
func check(c Case) (string, string) {
	v := run(c, c.content(), choice.Replay(c.Choices))
	return v.class, v.what
}

type tally struct {
	evals, nontrivial int64
	outcomes          map[string]int64
	byBound           map[string]int64
}

func explore(r *report.R, st Case, t *tally, parallel bool) {
	content := st.content()
	ex := choice.Explore
	var mu sync.Mutex
	if parallel {
		ex = choice.ExploreParallel
	}
	n := ex(st.Bound, r.OutOfTime, func(ch *choice.Chooser) {
		v := run(st, content, ch)
		if parallel {
			mu.Lock()
			defer mu.Unlock()
		}
		if v.nontrivial {
			t.nontrivial++
		}
		if v.class != "" {
			c := st
			c.Choices = ch.Choices()
			r.Fail(v.class, v.what, c)
			t.outcomes["FAIL "+v.class]++
			return
		}
		t.outcomes[v.outcome]++
		if r.WantSample() && (ch.Deviations() == 1 || st.Sweep == "dest") && (int64(len(st.Kind)+len(st.Hex)+len(st.Value))+r.Seed)%5 == 0 {
			c := st
			c.Choices = ch.Choices()
			r.Sample(map[string]any{"case": c, "outcome": v.outcome})
		}
	})
	t.evals += n
	t.byBound[fmt.Sprintf("%s/%s/bound=%d", st.Sweep, st.Codec, st.Bound)] += n
}

func hx(s string) string { return hex.EncodeToString([]byte(s)) }

func buildCases(thorough bool) (cases []Case, sizes map[string]any) {
	alpha := []string{"a", "\x00", "\xff", "\n"}
	smallLen, zero, bound, rtBound := 3, 1, 1, 2
	bigLens := []int{513, 4097, 70000}
	if thorough {
		smallLen, zero, bound, rtBound = 4, 2, 2, 3
		bigLens = []int{513, 4097, 32769, 70000}
	}
	small := enum.Strings(alpha, smallLen) // every content up to smallLen: all choice sequences
	reduced := []string{"", "a", "\xff\n"} // for kinds whose dispatch does not look at the bytes
	medium := []string{"a\x00\xff\n", " a \n", "\n\n\n\n\n"}
	if thorough {
		medium = append(medium, enum.Strings([]string{"a", "\n"}, 4)[15:]...) // all 16 contents of length 4 over {a, \n}
	}
	sizes = map[string]any{
		"content_alphabet": []string{"a", "\\x00", "\\xff", "\\n"}, "content_all_strings_up_to": smallLen, "contents_exhaustive_chunking": len(small),
		"contents_bounded": len(medium) + len(bigLens), "generated_lengths": bigLens, "deviation_bound_long_contents": bound, "deviation_bound_structured_roundtrip": rtBound, "zero_length_reads_offered": zero,
		"bytestream_destination_kinds": len(bsConsumeKinds), "text_destination_kinds": len(textConsumeKinds),
		"bytestream_source_kinds": len(bsProduceKinds), "text_source_kinds": len(textProduceKinds),
		"structured_bad_destinations": len(badDests), "roundtrip_values": len(family),
	}
	add := func(c Case) { cases = append(cases, c) }

	// --- consumers of the byte-exact codecs ---
	for _, codec := range []string{"bytestream", "text"} {
		kinds := bsConsumeKinds
		closes := []bool{false, true}
		if codec == "text" {
			kinds = textConsumeKinds
			closes = []bool{false}
		}
		for _, k := range kinds {
			supported := k.sup == supConcrete || k.sup == supIface
			for _, cl := range closes {
				for _, stream := range []string{"closer", "plain"} {
					cs := small
					if !supported || stream == "plain" {
						cs = reduced
					}
					for _, s := range cs {
						add(Case{Sweep: "consume", Codec: codec, Kind: k.name, Stream: stream, Close: cl, Hex: hx(s), Zero: zero, Bound: -1})
					}
					if stream == "plain" {
						continue
					}
					if supported {
						for _, s := range medium {
							add(Case{Sweep: "consume", Codec: codec, Kind: k.name, Stream: stream, Close: cl, Hex: hx(s), Zero: 1, Bound: bound})
						}
					}
					if supported || k.name == "*int" || k.name == "nil" {
						for _, n := range bigLens {
							add(Case{Sweep: "consume", Codec: codec, Kind: k.name, Stream: stream, Close: cl, GenLen: n, Zero: 1, Bound: bound})
						}
					}
				}
				add(Case{Sweep: "consume", Codec: codec, Kind: k.name, Stream: "nil", Close: cl, Hex: hx("a"), Bound: -1})
			}
		}
	}
	// --- producers of the byte-exact codecs ---
	for _, codec := range []string{"bytestream", "text"} {
		kinds := bsProduceKinds
		closes := []bool{false, true}
		if codec == "text" {
			kinds = textProduceKinds
			closes = []bool{false}
		}
		for _, k := range kinds {
			exact := k.sup == supConcrete || k.sup == supIface
			for _, cl := range closes {
				for _, stream := range []string{"closer", "plain"} {
					cs := small
					if !exact || stream == "plain" {
						cs = reduced
					}
					for _, s := range cs {
						add(Case{Sweep: "produce", Codec: codec, Kind: k.name, Stream: stream, Close: cl, Hex: hx(s), Zero: zero, Bound: -1})
					}
					if stream == "plain" || !exact {
						continue
					}
					for _, s := range medium {
						add(Case{Sweep: "produce", Codec: codec, Kind: k.name, Stream: stream, Close: cl, Hex: hx(s), Zero: 1, Bound: bound})
					}
					for _, n := range bigLens {
						add(Case{Sweep: "produce", Codec: codec, Kind: k.name, Stream: stream, Close: cl, GenLen: n, Zero: 1, Bound: bound})
					}
				}
				add(Case{Sweep: "produce", Codec: codec, Kind: k.name, Stream: "nil", Close: cl, Hex: hx("a"), Bound: -1})
			}
		}
	}
	// --- round trips ---
	for _, codec := range []string{"bytestream", "text"} {
		for _, pair := range exactPairs[codec] {
			for _, s := range append(append([]string{}, reduced...), medium[:3]...) {
				add(Case{Sweep: "roundtrip", Codec: codec, Kind: pair, Hex: hx(s), Zero: 1, Bound: bound})
			}
			add(Case{Sweep: "roundtrip", Codec: codec, Kind: pair, GenLen: 4097, Zero: 1, Bound: bound})
		}
	}
	for _, codec := range []string{"json", "xml", "yaml"} {
		for _, v := range family {
			if !containsByte(v.codecs, codec[0]) {
				continue
			}
			b := rtBound
			if v.name == "tree-big" {
				b = bound
			}
			add(Case{Sweep: "roundtrip", Codec: codec, Value: v.name, Zero: 1, Bound: b})
		}
		for _, bd := range badDests {
			for _, val := range []string{"tree-nested", "top-string"} {
				add(Case{Sweep: "dest", Codec: codec, Kind: bd.name, Value: val, Zero: 1, Bound: 1})
			}
		}
	}
	return cases, sizes
}

func containsByte(s string, b byte) bool {
	for i := 0; i < len(s); i++ {
		if s[i] == b {
			return true
		}
	}
	return false
}

func main() {
	r := report.Start("C15", "fault_enumeration")
	if r.Replay != "" {
		var c Case
		r.LoadReplay(&c)
		ch := choice.Replay(c.Choices)
		v := run(c, c.content(), ch)
		fmt.Printf("replay %+v\n", c)
		for i, p := range ch.Trace {
			fmt.Printf("  choice %d at %s: %d of %d\n", i, p.Site, p.Chosen, p.N)
		}
		fmt.Printf("  outcome=%q class=%q %s\n", v.outcome, v.class, v.what)
		if v.class != "" {
			r.Fail(v.class, v.what, c)
		}
		r.Eval(1)
		r.Nontrivial(1)
		r.Sample(c)
		r.Finish("replay of one case", false)
	}

	cases, sizes := buildCases(r.Thorough())
	for k, v := range sizes {
		r.Set(k, v)
	}
	r.Set("static_cases", len(cases))
	// heavy cases first (long contents explored with a deviation bound), so that the dynamic queue balances
	sort.SliceStable(cases, func(i, j int) bool { return cases[i].GenLen > cases[j].GenLen })
	rot := 0
	if n := int64(len(cases)); n > 0 {
		rot = int(((r.Seed % n) + n) % n)
	}
	var mu sync.Mutex
	total := tally{outcomes: map[string]int64{}, byBound: map[string]int64{}}
	// the few documents that take milliseconds per execution are explored with the choice tree itself spread over the cores
	var light []Case
	for _, st := range cases {
		if st.Value != "tree-big" {
			light = append(light, st)
			continue
		}
		t := tally{outcomes: map[string]int64{}, byBound: map[string]int64{}}
		explore(r, st, &t, true)
		r.Eval(t.evals)
		r.Nontrivial(t.nontrivial)
		for k, v := range t.outcomes {
			total.outcomes[k] += v
		}
		for k, v := range t.byBound {
			total.byBound[k] += v
		}
	}
	cases = light
	enum.Parallel(len(cases), r.OutOfTime, func(i int) {
		st := cases[(i+rot)%len(cases)]
		t := tally{outcomes: map[string]int64{}, byBound: map[string]int64{}}
		t0 := time.Now()
		explore(r, st, &t, false)
		if os.Getenv("C15_TIMING") != "" {
			fmt.Fprintf(os.Stderr, "T %8.3f %d %s %s %s %s gen=%d hex=%s v=%s\n", time.Since(t0).Seconds(), t.evals, st.Sweep, st.Codec, st.Kind, st.Stream, st.GenLen, st.Hex, st.Value)
		}
		r.Eval(t.evals)
		r.Nontrivial(t.nontrivial)
		mu.Lock()
		for k, v := range t.outcomes {
			total.outcomes[k] += v
		}
		for k, v := range t.byBound {
			total.byBound[k] += v
		}
		mu.Unlock()
	})
	for k, v := range total.outcomes {
		r.Outcome(k, v)
	}
	r.Set("executions_per_sweep", total.byBound)
	r.Assume(
		"scripted stream doubles (engine/doubles Reader/Writer plus the close-aware wrappers in props/c15) behave as io.Reader/io.Writer allow; a stream that was closed fails every later Read/Write",
		"for destinations that are interfaces implemented by the harness (io.Writer, io.ReaderFrom, Binary/TextUnmarshaler) 'bytes stored' means the bytes handed over",
		"round-trip values are restricted to what each format can represent (no control characters in XML, no empty non-nil slices in XML, dynamically typed JSON numbers are json.Number)",
		"not judged because the statement does not force it: nil reader, unsupported or nil SOURCE of a producer, error on empty text input for an unsupported destination, the value left in a pre-populated destination of JSON/XML/YAML, error identity",
	)
	r.Finish("one evaluation = one execution of a real producer and/or consumer on scripted streams for one (static case, choice sequence); the explorer never repeats a choice sequence and the static cases are distinct tuples, so evaluations are distinct cases; non-trivial = the codec performed at least one Read or Write on a scripted stream (or panicked)", true)
}
