// Harness of C02: in-memory API descriptions whose operations declare the
// requirement structures under test, scripted authenticators / authorizer /
// consumer / handler, and the two drivers (Context.Authorize on a route of the
// real router; the full APIHandler chain).
package main

import (
	"bufio"
	"context"
	"encoding/base64"
	"encoding/json"
	stderrors "errors"
	"fmt"
	"io"
	"net/http"
	"net/http/httptest"
	"sort"
	"strconv"
	"strings"
	"sync/atomic"

	"github.com/go-openapi/analysis"
	oaerrors "github.com/go-openapi/errors"
	"github.com/go-openapi/loads"
	"github.com/go-openapi/runtime"
	"github.com/go-openapi/runtime/middleware"
	"github.com/go-openapi/runtime/middleware/untyped"
	"github.com/go-openapi/runtime/security"
	"github.com/go-openapi/spec"
	"github.com/go-openapi/strfmt"

	"verif/engine/apib"
)

// ---- per-request observation state, carried in the request context and the body ----

type stKey struct{}

type state struct {
	authCalls     int
	azCalls       int
	consumerCalls int
	bodyBytes     int64
	ran           bool // the handler's result reached ServeError, where principal and scopes were read
	sawPrinc      interface{}
	sawScopes     []string
}

func stateOf(ctx context.Context) *state {
	if st, ok := ctx.Value(stKey{}).(*state); ok {
		return st
	}
	return &state{} // a request the harness did not make: observations go nowhere
}

type body struct {
	rc io.ReadCloser
	st *state
}

func (b *body) Read(p []byte) (int, error) {
	n, err := b.rc.Read(p)
	b.st.bodyBytes += int64(n)
	return n, err
}
func (b *body) Close() error { return b.rc.Close() }

// ---- scripted parts ----

var principals = [nS]interface{}{"P1", "P2", "P3"}

// zeroPrincipals: non-nil principals that are the zero value of their type (a principal is "non-nil", not "non-zero")
var zeroPrincipals = [nS]interface{}{"", 0, false}

func principalOf(naming uint8, s int) interface{} {
	if naming == nameZeroPrincipals {
		return zeroPrincipals[s]
	}
	return principals[s]
}

var rejErr = [nS]error{
	oaerrors.New(401, tagName[tRej1]),
	oaerrors.New(403, tagName[tRej2]),
	stderrors.New(tagName[tRej3]), // a plain error without status
}
var scopeErr = [nS]error{
	oaerrors.New(403, tagName[tScope1]),
	oaerrors.New(403, tagName[tScope2]),
	oaerrors.New(403, tagName[tScope3]),
}

// decide turns the credential text found in the request into the scheme's answer.
func decide(naming uint8, s int, cred string, required []string) (bool, interface{}, error) {
	switch cred {
	case "":
		return false, nil, nil
	case "ok":
		return true, principalOf(naming, s), nil
	case "nil":
		return true, nil, nil
	case "rej":
		if naming == nameRejWithPrincipal {
			return true, principalOf(naming, s), rejErr[s] // an error is a rejection whatever comes with it
		}
		return true, nil, rejErr[s]
	case "oks":
		for _, sc := range required {
			if !granted(naming, s, sc) {
				return true, nil, scopeErr[s]
			}
		}
		return true, principalOf(naming, s), nil
	}
	return true, nil, rejErr[s]
}

func rawAuth(naming uint8, s int) runtime.Authenticator {
	hdr := "X-Out-" + schemeName[s]
	return runtime.AuthenticatorFunc(func(params interface{}) (bool, interface{}, error) {
		var req *http.Request
		var scopes []string
		switch p := params.(type) {
		case *security.ScopedAuthRequest:
			req, scopes = p.Request, p.RequiredScopes
		case *http.Request:
			req = p
		default:
			return false, nil, nil
		}
		stateOf(req.Context()).authCalls++
		return decide(naming, s, req.Header.Get(hdr), scopes)
	})
}

// realAuth builds scheme s from the exported constructors of package security; the mode
// selects the constructor family (context-carrying or plain callbacks; header or query API key;
// default or explicit realm). Plain callbacks do not see the request, so they cannot log the call.
func realAuth(naming, mode uint8, s int) runtime.Authenticator {
	ctxFlavour := mode == modeReal || mode == modeRealAlt
	alt := mode == modeRealAlt || mode == modeRealAltPlain
	switch s {
	case 0:
		name, in := "X-K1", "header"
		if alt {
			name, in = "k1key", "query"
		}
		if ctxFlavour {
			return security.APIKeyAuthCtx(name, in, func(ctx context.Context, token string) (context.Context, interface{}, error) {
				stateOf(ctx).authCalls++
				_, p, err := decide(naming, 0, token, nil)
				return ctx, p, err
			})
		}
		return security.APIKeyAuth(name, in, func(token string) (interface{}, error) {
			_, p, err := decide(naming, 0, token, nil)
			return p, err
		})
	case 1:
		switch {
		case ctxFlavour && alt:
			return security.BasicAuthRealmCtx("c02", func(ctx context.Context, _ string, pass string) (context.Context, interface{}, error) {
				stateOf(ctx).authCalls++
				_, p, err := decide(naming, 1, pass, nil)
				return ctx, p, err
			})
		case ctxFlavour:
			return security.BasicAuthCtx(func(ctx context.Context, _ string, pass string) (context.Context, interface{}, error) {
				stateOf(ctx).authCalls++
				_, p, err := decide(naming, 1, pass, nil)
				return ctx, p, err
			})
		case alt:
			return security.BasicAuthRealm("c02", func(_ string, pass string) (interface{}, error) {
				_, p, err := decide(naming, 1, pass, nil)
				return p, err
			})
		}
		return security.BasicAuth(func(_ string, pass string) (interface{}, error) {
			_, p, err := decide(naming, 1, pass, nil)
			return p, err
		})
	}
	if ctxFlavour {
		return security.BearerAuthCtx("k3", func(ctx context.Context, token string, scopes []string) (context.Context, interface{}, error) {
			stateOf(ctx).authCalls++
			_, p, err := decide(naming, 2, token, scopes)
			return ctx, p, err
		})
	}
	return security.BearerAuth("k3", func(token string, scopes []string) (interface{}, error) {
		_, p, err := decide(naming, 2, token, scopes)
		return p, err
	})
}

// wrappedAuth: the generic wrappers of package security around the scripted decision.
func wrappedAuth(naming uint8, s int) runtime.Authenticator {
	hdr := "X-Out-" + schemeName[s]
	if s == 2 {
		return security.ScopedAuthenticator(func(r *security.ScopedAuthRequest) (bool, interface{}, error) {
			stateOf(r.Request.Context()).authCalls++
			return decide(naming, s, r.Request.Header.Get(hdr), r.RequiredScopes)
		})
	}
	return security.HttpAuthenticator(func(r *http.Request) (bool, interface{}, error) {
		stateOf(r.Context()).authCalls++
		return decide(naming, s, r.Header.Get(hdr), nil)
	})
}

func authFor(naming, mode uint8, s int) runtime.Authenticator {
	switch mode {
	case modeRaw:
		return rawAuth(naming, s)
	case modeWrapped:
		return wrappedAuth(naming, s)
	}
	return realAuth(naming, mode, s)
}

var errAzPlain = stderrors.New(tagName[tAzDeny])
var errAz418 = oaerrors.New(418, tagName[tAz418])

var authorizer = runtime.AuthorizerFunc(func(r *http.Request, principal interface{}) error {
	stateOf(r.Context()).azCalls++
	switch r.Header.Get("X-Az") {
	case "deny":
		return errAzPlain
	case "deny418":
		return errAz418
	case "denyP1":
		if principal == principals[0] || principal == zeroPrincipals[0] {
			return errAzPlain
		}
	case "denyNil":
		if principal == nil {
			return errAzPlain
		}
	}
	return nil
})

var errRan = stderrors.New("c02: the operation handler ran")

func serveError(rw http.ResponseWriter, r *http.Request, err error) {
	if err == errRan {
		// this is where "what the handler can read" is observed: r is the request the
		// handler's result is answered on, derived from the one the security layer let through
		st := stateOf(r.Context())
		st.ran = true
		st.sawPrinc = middleware.SecurityPrincipalFrom(r)
		st.sawScopes = middleware.SecurityScopesFrom(r)
		rw.WriteHeader(http.StatusOK)
		return
	}
	oaerrors.ServeError(rw, r, err)
}

var consumer = runtime.ConsumerFunc(func(r io.Reader, v interface{}) error {
	if b, ok := r.(*body); ok {
		b.st.consumerCalls++
	}
	data, err := io.ReadAll(r)
	if err != nil {
		return err
	}
	return json.Unmarshal(data, v)
})

// ---- requirement structures ----

// structure: list of alternatives as scheme sets (mask 0 = anonymous), in list order.
type structure struct {
	n     int8
	masks [3]uint8
}

func (st structure) security(naming uint8) []map[string][]string {
	out := []map[string][]string{}
	for i := 0; i < int(st.n); i++ {
		alt := map[string][]string{}
		for s := 0; s < nS; s++ {
			if st.masks[i]&(1<<uint(s)) != 0 {
				alt[schemeNames[naming][s]] = scopesOf(naming, i, s)
			}
		}
		out = append(out, alt)
	}
	return out
}

func structureOf(k kase) structure {
	st := structure{n: k.nalts}
	for i := 0; i < int(k.nalts); i++ {
		st.masks[i] = k.alts[i].mask()
	}
	return st
}

// allStructures: every list of 1..maxAlts alternatives over {anonymous, 7 non-empty subsets}, shortest first.
func allStructures(maxAlts int) []structure {
	var out []structure
	for n := 1; n <= maxAlts; n++ {
		var rec func(i int, cur structure)
		rec = func(i int, cur structure) {
			if i == n {
				out = append(out, cur)
				return
			}
			for m := 0; m < 8; m++ {
				cur.masks[i] = uint8(m)
				rec(i+1, cur)
			}
		}
		rec(0, structure{n: int8(n)})
	}
	return out
}

// ---- environment: one built API ----

type envKey struct {
	decl, mode uint8
	reg, undef uint8
	az         bool
	wiring     uint8
	naming     uint8
}

type env struct {
	key          envKey
	structs      []structure
	ctx          *middleware.Context
	h            http.Handler
	handlerCalls []atomic.Int64
	bases        []*middleware.MatchedRoute
	noneBase     *middleware.MatchedRoute
}

const basePath = "/api"

func opPath(i int) string { return fmt.Sprintf("/o%d", i) }

func buildEnv(key envKey, structs []structure) *env {
	e := &env{key: key, structs: structs}
	defs := map[string]any{}
	if key.undef&1 == 0 {
		defs[schemeNames[key.naming][0]] = map[string]any{"type": "apiKey", "name": "X-K1", "in": "header"}
	}
	if key.undef&2 == 0 {
		defs[schemeNames[key.naming][1]] = map[string]any{"type": "basic"}
	}
	if key.undef&4 == 0 {
		scopes := map[string]any{}
		for pos := 0; pos < 3; pos++ {
			for s := 0; s < nS; s++ {
				for _, sc := range scopesOf(key.naming, pos, s) {
					scopes[sc] = "declared"
				}
			}
		}
		defs[schemeNames[key.naming][2]] = map[string]any{"type": "oauth2", "flow": "accessCode", "authorizationUrl": "http://a.invalid/a", "tokenUrl": "http://a.invalid/t", "scopes": scopes}
	}
	params := []map[string]any{
		{"name": "body", "in": "body", "required": true, "schema": map[string]any{"type": "object"}},
		{"name": "q", "in": "query", "type": "integer", "required": true},
	}
	sp := apib.Spec{BasePath: basePath, Consumes: []string{"application/json"}, Produces: []string{"application/json"}, SecurityDefs: defs}
	var paths []string
	switch key.decl {
	case declOp, declOpOverAnon:
		if key.decl == declOpOverAnon {
			sp.Security = []map[string][]string{{}}
		}
		for i, st := range structs {
			sec := st.security(key.naming)
			sp.Ops = append(sp.Ops, apib.Op{Method: "POST", Path: opPath(i), Params: params, Security: &sec})
			paths = append(paths, opPath(i))
		}
	case declAbsent: // /o0 declares the structure; /none has no security key and there is no global security
		if len(structs) != 1 {
			panic("no-security-key declaration takes one structure")
		}
		sec := structs[0].security(key.naming)
		sp.Ops = append(sp.Ops,
			apib.Op{Method: "POST", Path: opPath(0), Params: params, Security: &sec},
			apib.Op{Method: "POST", Path: "/none", Params: params})
		paths = append(paths, opPath(0), "/none")
	default: // declared globally: exactly one structure; /o0 inherits, /none overrides with the empty list
		if len(structs) != 1 {
			panic("global declaration takes one structure")
		}
		sp.Security = structs[0].security(key.naming)
		empty := []map[string][]string{}
		sp.Ops = append(sp.Ops,
			apib.Op{Method: "POST", Path: opPath(0), Params: params},
			apib.Op{Method: "POST", Path: "/none", Params: params, Security: &empty})
		paths = append(paths, opPath(0), "/none")
	}
	doc := apib.MustLoad(sp)
	e.handlerCalls = make([]atomic.Int64, len(paths))
	var az runtime.Authorizer
	if key.az {
		az = authorizer
		if key.wiring == wAuthorized {
			az = security.Authorized()
		}
	}
	if key.wiring == wTyped || key.wiring == wTypedRouter {
		e.buildTyped(doc, paths, az)
	} else {
		api := untyped.NewAPI(doc)
		api.RegisterConsumer("application/json", consumer)
		api.ServeError = serveError
		// the operation handlers are looked up by NewContext itself: they are always registered first
		for i, p := range paths {
			cnt := &e.handlerCalls[i]
			api.RegisterOperation("POST", p, runtime.OperationHandlerFunc(func(interface{}) (interface{}, error) {
				cnt.Add(1)
				return nil, errRan
			}))
		}
		registerSecurity := func() {
			for s := 0; s < nS; s++ {
				if key.reg&(1<<uint(s)) != 0 {
					api.RegisterAuth(schemeNames[key.naming][s], authFor(key.naming, key.mode, s))
				}
			}
			if az != nil {
				api.RegisterAuthorizer(az)
			}
		}
		switch key.wiring {
		case wLateRoutesHandler, wLateRapiDoc:
			// security is registered after the context exists and before any handler or router is built
			e.ctx = middleware.NewContext(doc, api, nil)
			registerSecurity()
			if key.wiring == wLateRoutesHandler {
				e.h = e.ctx.RoutesHandler(nil)
			} else {
				e.h = e.ctx.APIHandlerRapiDoc(nil)
			}
		case wServe:
			registerSecurity()
			e.h = middleware.Serve(doc, api)
		case wEarlySwaggerUI:
			registerSecurity()
			e.ctx = middleware.NewContext(doc, api, nil)
			e.h = e.ctx.APIHandlerSwaggerUI(nil)
		default:
			registerSecurity()
			e.ctx = middleware.NewContext(doc, api, nil)
			e.h = e.ctx.APIHandler(nil)
		}
	}
	if e.ctx == nil {
		return e // no Context in hand (middleware.Serve): no route lookups, the order cannot be owned
	}
	e.bases = make([]*middleware.MatchedRoute, len(structs))
	for i := range structs {
		e.bases[i] = e.lookup(opPath(i))
	}
	if key.decl == declGlobal || noRequirements(key.decl) {
		e.noneBase = e.lookup("/none")
	}
	return e
}

func (e *env) lookup(p string) *middleware.MatchedRoute {
	req, _ := http.NewRequest("POST", basePath+p, nil)
	m, ok := e.ctx.LookupRoute(req)
	if !ok || m == nil {
		panic("harness: operation " + p + " is not routed")
	}
	return m
}

// ordered returns a private copy of the route's alternatives whose Schemes are in
// the evaluation order of the case; false when the route's structure does not have
// the declared shape (then the order cannot be owned and the judge is lenient).
func ordered(base middleware.RouteAuthenticators, k kase) (middleware.RouteAuthenticators, bool) {
	if len(base) != int(k.nalts) {
		return base, false
	}
	out := make(middleware.RouteAuthenticators, len(base))
	copy(out, base)
	for i := range out {
		a := k.alts[i]
		if a.n == 0 {
			continue
		}
		if !sameSet(k.naming, out[i].Schemes, a) {
			return base, false
		}
		ns := make([]string, a.n)
		for j := range ns {
			ns[j] = schemeNames[k.naming][a.s[j]]
		}
		out[i].Schemes = ns
	}
	return out, true
}

func sameSet(naming uint8, schemes []string, a altK) bool {
	if len(schemes) != int(a.n) {
		return false
	}
	var m uint8
	for _, s := range schemes {
		found := false
		for i := 0; i < nS; i++ {
			if schemeNames[naming][i] == s {
				m |= 1 << uint(i)
				found = true
			}
		}
		if !found {
			return false
		}
	}
	return m == a.mask()
}

// setOrder writes the evaluation order of the case into the router's own entry:
// MatchedRoute.Authenticators shares its backing array with the route entry, and
// so does every Schemes slice in it. It then looks the route up again to confirm
// that the order took effect.
func (e *env) setOrder(op int, k kase) bool {
	base := e.bases[op].Authenticators
	if len(base) != int(k.nalts) {
		return false
	}
	for i := range base {
		a := k.alts[i]
		if a.n == 0 {
			continue
		}
		if !sameSet(k.naming, base[i].Schemes, a) {
			return false
		}
	}
	for i := range base {
		a := k.alts[i]
		for j := 0; j < int(a.n); j++ {
			base[i].Schemes[j] = schemeNames[k.naming][a.s[j]]
		}
	}
	again := e.lookup(opPath(op)).Authenticators
	if len(again) != len(base) {
		return false
	}
	for i := range again {
		a := k.alts[i]
		if a.n == 0 {
			continue
		}
		if len(again[i].Schemes) != int(a.n) {
			return false
		}
		for j := 0; j < int(a.n); j++ {
			if again[i].Schemes[j] != schemeNames[k.naming][a.s[j]] {
				return false
			}
		}
	}
	return true
}

// ---- the typed flavour: a RoutableAPI of the harness and a handler written the way go-swagger generates them ----

type typedAPI struct {
	key      envKey
	az       runtime.Authorizer
	handlers map[string]http.Handler
}

func (t *typedAPI) HandlerFor(method, path string) (http.Handler, bool) {
	if strings.ToUpper(method) != "POST" {
		return nil, false
	}
	h, ok := t.handlers[path]
	return h, ok
}
func (t *typedAPI) ServeErrorFor(string) func(http.ResponseWriter, *http.Request, error) {
	return serveError
}
func (t *typedAPI) ConsumersFor(mediaTypes []string) map[string]runtime.Consumer {
	out := map[string]runtime.Consumer{}
	for _, mt := range mediaTypes {
		if mt == "application/json" {
			out[mt] = consumer
		}
	}
	return out
}
func (t *typedAPI) ProducersFor(mediaTypes []string) map[string]runtime.Producer {
	out := map[string]runtime.Producer{}
	for _, mt := range mediaTypes {
		if mt == "application/json" {
			out[mt] = runtime.JSONProducer()
		}
	}
	return out
}
func (t *typedAPI) AuthenticatorsFor(schemes map[string]spec.SecurityScheme) map[string]runtime.Authenticator {
	out := map[string]runtime.Authenticator{}
	for s := 0; s < nS; s++ {
		if _, ok := schemes[schemeNames[t.key.naming][s]]; ok && t.key.reg&(1<<uint(s)) != 0 {
			out[schemeNames[t.key.naming][s]] = authFor(t.key.naming, t.key.mode, s)
		}
	}
	return out
}
func (t *typedAPI) Authorizer() runtime.Authorizer { return t.az }
func (t *typedAPI) Formats() strfmt.Registry       { return strfmt.Default }
func (t *typedAPI) DefaultProduces() string        { return "application/json" }
func (t *typedAPI) DefaultConsumes() string        { return "application/json" }

// typedParams binds what the operation declares: the integer query parameter q and the JSON body.
type typedParams struct {
	Q    int64
	Body map[string]interface{}
}

func (p *typedParams) BindRequest(r *http.Request, route *middleware.MatchedRoute) error {
	q := r.URL.Query().Get("q")
	v, err := strconv.ParseInt(q, 10, 64)
	if err != nil {
		return oaerrors.InvalidType("q", "query", "int64", q)
	}
	p.Q = v
	if runtime.HasBody(r) {
		if err := route.Consumer.Consume(r.Body, &p.Body); err != nil {
			return oaerrors.NewParseError("body", "body", "", err)
		}
	}
	return nil
}

func (e *env) buildTyped(doc *loads.Document, paths []string, az runtime.Authorizer) {
	t := &typedAPI{key: e.key, az: az, handlers: map[string]http.Handler{}}
	for i, p := range paths {
		cnt := &e.handlerCalls[i]
		t.handlers[p] = http.HandlerFunc(func(rw http.ResponseWriter, r *http.Request) {
			// the shape of a go-swagger generated operation: route, authorize, bind, handle(params, principal)
			ctx := e.ctx
			route, rCtx, _ := ctx.RouteInfo(r)
			if rCtx != nil {
				*r = *rCtx
			}
			principal, aCtx, err := ctx.Authorize(r, route)
			if err != nil {
				ctx.Respond(rw, r, route.Produces, route, err)
				return
			}
			if aCtx != nil {
				*r = *aCtx
			}
			var params typedParams
			if err := ctx.BindValidRequest(r, route, &params); err != nil {
				ctx.Respond(rw, r, route.Produces, route, err)
				return
			}
			// the handler proper: it is handed the principal and may read the request context
			cnt.Add(1)
			st := stateOf(r.Context())
			st.ran = true
			st.sawPrinc = principal
			st.sawScopes = middleware.SecurityScopesFrom(r)
			if middleware.SecurityPrincipalFrom(r) != principal {
				st.sawPrinc = struct{ mismatch string }{"the principal handed to the handler differs from the one in the request context"}
			}
			rw.WriteHeader(http.StatusOK)
		})
	}
	if e.key.wiring == wTypedRouter {
		e.ctx = middleware.NewRoutableContextWithAnalyzedSpec(doc, analysis.New(doc.Spec()), t, middleware.DefaultRouter(doc, t))
		e.h = e.ctx.APIHandler(nil)
	} else {
		e.ctx = middleware.NewRoutableContext(doc, t, nil)
		e.h = e.ctx.RoutesHandler(nil)
	}
}

// ---- requests ----

// credentialLines renders the abstract outcome vector and authorizer choice as
// request-target query and header lines.
func credentialLines(mode uint8, out [nS]uint8, az uint8) (query string, headers string) {
	var h strings.Builder
	if mode == modeRaw || mode == modeWrapped {
		for s := 0; s < nS; s++ {
			if out[s] != oNA {
				fmt.Fprintf(&h, "X-Out-%s: %s\r\n", schemeName[s], outName[out[s]])
			}
		}
	} else {
		if out[0] != oNA {
			if mode == modeRealAlt || mode == modeRealAltPlain {
				query = "k1key=" + outName[out[0]]
			} else {
				fmt.Fprintf(&h, "X-K1: %s\r\n", outName[out[0]])
			}
		}
		if out[1] != oNA {
			fmt.Fprintf(&h, "Authorization: Basic %s\r\n", base64.StdEncoding.EncodeToString([]byte("u:"+outName[out[1]])))
		}
		if out[2] != oNA {
			if out[1] == oNA {
				fmt.Fprintf(&h, "Authorization: Bearer %s\r\n", outName[out[2]])
			} else {
				if query != "" {
					query += "&"
				}
				query += "access_token=" + outName[out[2]]
			}
		}
	}
	if az != azAbsent {
		fmt.Fprintf(&h, "X-Az: %s\r\n", azName[az])
	}
	return query, h.String()
}

func rawRequest(path string, k kase) string {
	query, cred := credentialLines(k.mode, k.out, k.az)
	q := "q=1"
	if k.rest == restParam {
		q = "q=abc"
	}
	if query != "" {
		q += "&" + query
	}
	ct, accept := "application/json", "application/json"
	if k.rest == restCType {
		ct = "text/plain"
	}
	if k.rest == restAccept {
		accept = "text/csv"
	}
	const payload = `{"a":1}`
	return fmt.Sprintf("POST %s%s?%s HTTP/1.1\r\nHost: c02.invalid\r\nContent-Type: %s\r\nAccept: %s\r\nContent-Length: %d\r\n%s\r\n%s",
		basePath, path, q, ct, accept, len(payload), cred, payload)
}

func parseRequest(raw string) *http.Request {
	req, err := http.ReadRequest(bufio.NewReader(strings.NewReader(raw)))
	if err != nil {
		panic("harness: request does not parse: " + err.Error())
	}
	return req
}

// ---- observation helpers ----

func princIndex(p interface{}) int {
	if p == nil {
		return 0
	}
	for i := range principals {
		if p == principals[i] || p == zeroPrincipals[i] {
			return i + 1
		}
	}
	return -1
}

func fastCanon(ss []string) string {
	switch len(ss) {
	case 0:
		return ""
	case 1:
		return ss[0]
	}
	var buf [8]string
	c := buf[:0]
	if len(ss) > len(buf) {
		c = make([]string, 0, len(ss))
	}
	c = append(c, ss...)
	sort.Strings(c)
	n := 0
	for i, s := range c {
		if i == 0 || s != c[n-1] {
			c[n] = s
			n++
		}
	}
	return strings.Join(c[:n], " ")
}

func tagOfMessage(msg string) int {
	for t := 1; t < nTag; t++ {
		if msg == tagName[t] {
			return t
		}
	}
	return -1
}

// ---- driver 1: Context.Authorize ----

func (e *env) execAuthorize(base *middleware.MatchedRoute, auths middleware.RouteAuthenticators, owned bool, baseReq *http.Request) (o obs) {
	st := &state{}
	o.orderOwned = owned
	defer func() {
		if p := recover(); p != nil {
			o = obs{kind: obsPanic, msg: fmt.Sprint(p), orderOwned: owned}
		}
	}()
	req := baseReq.WithContext(context.WithValue(baseReq.Context(), stKey{}, st))
	m := *base
	m.Authenticators = auths
	m.Authenticator = nil
	p, r2, err := e.ctx.Authorize(req, &m)
	o.authCalls = st.authCalls
	if err != nil {
		msg, code := err.Error(), 0
		if ce, ok := err.(oaerrors.Error); ok {
			code = int(ce.Code())
		}
		o.status, o.msg = code, msg
		if t := tagOfMessage(msg); t > 0 {
			o.kind, o.tag = obsRefused, t
			if tagStatus[t] == 0 {
				o.status = 0
			}
			return o
		}
		if code == http.StatusUnauthorized {
			o.kind, o.tag = obsRefused, tDefault
			return o
		}
		o.kind = obsOther
		return o
	}
	if r2 == nil {
		o.kind = obsNoAuth
		return o
	}
	o.kind = obsRun
	o.princ = princIndex(p)
	o.princCtx = princIndex(middleware.SecurityPrincipalFrom(r2))
	o.scopes = fastCanon(middleware.SecurityScopesFrom(r2))
	return o
}

// ---- driver 2: the full handler chain ----

func (e *env) execHandler(opIdx int, path string, k kase, owned bool) (o obs) {
	st := &state{}
	o.orderOwned = owned
	req := parseRequest(rawRequest(path, k))
	req.Body = &body{rc: req.Body, st: st}
	req = req.WithContext(context.WithValue(req.Context(), stKey{}, st))
	before := e.handlerCalls[opIdx].Load()
	rec := httptest.NewRecorder()
	panicked := ""
	func() {
		defer func() {
			if p := recover(); p != nil {
				panicked = fmt.Sprint(p)
			}
		}()
		e.h.ServeHTTP(rec, req)
	}()
	if panicked != "" {
		return obs{kind: obsPanic, msg: panicked, orderOwned: owned}
	}
	o.handlerCalls = int(e.handlerCalls[opIdx].Load() - before)
	o.consumerCalls, o.bodyBytes, o.authCalls = st.consumerCalls, st.bodyBytes, st.authCalls
	o.status = rec.Code
	if o.handlerCalls > 0 || st.ran {
		o.kind = obsRun
		if st.ran {
			o.princ = princIndex(st.sawPrinc)
		} else {
			o.princ = -1
		}
		o.princCtx = o.princ
		o.scopes = fastCanon(st.sawScopes)
		return o
	}
	var payload struct {
		Code    int    `json:"code"`
		Message string `json:"message"`
	}
	_ = json.Unmarshal(rec.Body.Bytes(), &payload)
	o.msg = payload.Message
	if t := tagOfMessage(payload.Message); t > 0 {
		o.kind, o.tag = obsRefused, t
		return o
	}
	if rec.Code == http.StatusUnauthorized {
		o.kind, o.tag = obsRefused, tDefault
		return o
	}
	o.kind = obsOther
	return o
}

// ---- driver 3: RouteAuthenticators.Authenticate called directly (exported; what Authorize builds on) ----
// Mapping to the vocabulary of the reference (authorizer absent): a non-nil principal is an admission through the
// alternative left in route.Authenticator; (true, nil, nil) with an anonymous alternative left there is the
// anonymous admission; an error is that refusal; anything else is "no alternative applied".
func (e *env) execAuthenticators(base *middleware.MatchedRoute, auths middleware.RouteAuthenticators, owned bool, baseReq *http.Request, singular bool) (o obs) {
	st := &state{}
	o.orderOwned = owned
	defer func() {
		if p := recover(); p != nil {
			o = obs{kind: obsPanic, msg: fmt.Sprint(p), orderOwned: owned}
		}
	}()
	req := baseReq.WithContext(context.WithValue(baseReq.Context(), stKey{}, st))
	m := *base
	m.Authenticators = auths
	m.Authenticator = nil
	var applies bool
	var usr interface{}
	var err error
	if singular && len(auths) == 1 {
		// the exported method of the one alternative, called the way a hand-written handler may call it
		applies, usr, err = auths[0].Authenticate(req, &m)
	} else {
		applies, usr, err = auths.Authenticate(req, &m)
	}
	o.authCalls = st.authCalls
	switch {
	case err != nil:
		msg, code := err.Error(), 0
		if ce, ok := err.(oaerrors.Error); ok {
			code = int(ce.Code())
		}
		o.status, o.msg = code, msg
		if t := tagOfMessage(msg); t > 0 {
			o.kind, o.tag = obsRefused, t
			if tagStatus[t] == 0 {
				o.status = 0
			}
			return o
		}
		o.kind = obsOther
		return o
	case applies && (usr != nil || (m.Authenticator != nil && m.Authenticator.AllowsAnonymous())):
		o.kind = obsRun
		o.princ = princIndex(usr)
		o.princCtx = o.princ
		if m.Authenticator != nil {
			o.scopes = fastCanon(m.Authenticator.AllScopes())
		}
		return o
	}
	o.kind, o.tag, o.status = obsRefused, tDefault, 401
	return o
}
