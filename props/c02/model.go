// Reference model of C02, written from the property text (DESIGN.md Appendix A.1),
// and the classifier for the defects of the pinned tree.
package main

import (
	"fmt"
	"sort"
	"strings"
)

// ---- vocabulary ----

const nS = 3 // schemes k1 k2 k3

var schemeName = [nS]string{"k1", "k2", "k3"} // canonical ids (case files, headers of the scripted authenticators)

// naming: the actual names the description gives the three schemes and their scopes. The
// reference never compares names: it works on indices, so every naming is judged exactly
// like the plain one (names are distinct as byte strings, which is what distinguishes two
// security definitions and two scopes).
const (
	namePlain       = iota // k1 k2 k3; scopes <k>.<pos> and the common r
	nameCaseOnly           // names and scopes that differ only in ASCII case
	namePrefixes           // names and scopes that are prefixes of each other
	namePunctuation        // . - [ ] in names and scopes
	nameSyntax             // space, percent-escape look-alike, / : # ? & = + * in names and scopes
	nameUnicodeFold        // k vs KELVIN SIGN (equal under Unicode case folding), non-ASCII case pair, rune beyond the BMP
	nameLongSpace          // a 300-byte name, names that differ in leading/trailing space; 300-byte scopes
	nameNoScopes           // plain names; every scheme requires the empty scope list (zero-length collection)
	nameZeroPrincipals     // plain names; the principals are the non-nil zero values "", 0 and false
	nameRejWithPrincipal   // plain names; a rejecting scheme returns a principal together with its error
	nNaming
)

var namingName = [nNaming]string{"plain", "case-only", "prefixes", "punctuation", "syntax", "unicode-fold", "long-and-space", "no-scopes", "zero-value-principals", "rejection-carries-principal"}

var long300 = strings.Repeat("n", 300)

var schemeNames = [nNaming][nS]string{
	{"k1", "k2", "k3"},
	{"ApiKey", "apikey", "APIKEY"},
	{"k", "k1", "k12"},
	{"a.b", "a-b", "a[0]"},
	{"a b", "%41", "a/b:c#?&=+*"},
	{"k", "\u212a", "\u00c9"},
	{long300, " n", "n "},
	{"k1", "k2", "k3"},
	{"k1", "k2", "k3"},
	{"k1", "k2", "k3"},
}

// own scope stem of scheme s and the "common" scope of k2 / k3 (k1 has none)
var scopeStem = [nNaming][nS]string{
	{"k1", "k2", "k3"},
	{"scope", "Scope", "SCOPE"},
	{"a", "a.b", "a.b.c"},
	{"a.b", "a-b", "a[0]"},
	{"%41", "a+b", "a&b=c,d;e"},
	{"\u00e9", "\u00c9", "\U0001d11e"},
	{long300 + "1", long300 + "2", long300 + "3"},
	{"", "", ""}, // no scopes at all
	{"k1", "k2", "k3"},
	{"k1", "k2", "k3"},
}
var commonScope = [nNaming][nS]string{
	{"", "r", "r"},
	{"", "read", "Read"}, // not common any more: both must survive in the union
	{"", "a", "a"},
	{"", "r-w", "r-w"},
	{"", "*", "*"},
	{"", "k", "\u212a"},
	{"", "r", "r"},
	{"", "", ""},
	{"", "r", "r"},
	{"", "r", "r"},
}

// per-scheme outcome of the request (abstract; rendered into credentials by the harness)
const (
	oNA  = iota // no credentials for the scheme in the request
	oOK         // credentials accepted, principal P<k>, whatever scopes are required
	oNIL        // credentials accepted, nil principal
	oREJ        // credentials presented and rejected with the scheme's error
	oOKS        // scope-limited credentials: accepted with P<k> iff every required scope is granted
	//             (granted: r and the scheme's own scope of list position 0), otherwise rejected "insufficient scope"
	nOut
)

var outName = [nOut]string{"na", "ok", "nil", "rej", "oks"}

// authorizer kinds
const (
	azAbsent  = iota // no authorizer registered
	azAccept         // accepts every principal
	azDeny           // denies every principal with a plain error (=> 403)
	azDeny418        // denies every principal with errors.New(418, ..)
	azDenyP1         // denies exactly principal P1 with a plain error (=> 403)
	azDenyNil        // denies exactly the nil principal (the anonymous caller) with a plain error (=> 403)
	nAz
)

var azName = [nAz]string{"absent", "accept", "deny", "deny418", "denyP1", "denyNil"}

// rest of the request (handler level)
const (
	restFine   = iota
	restCType  // Content-Type the operation does not consume
	restParam  // required integer query parameter is not an integer
	restAccept // Accept header the operation cannot produce
	nRest
)

var restName = [nRest]string{"fine", "ctype", "param", "accept"}

const (
	lvlAuthorize      = iota // Context.Authorize on a route obtained from the real router
	lvlHandler               // full handler chain
	lvlAuthenticators        // RouteAuthenticators.Authenticate called directly on the route (no authorizer involved)
	lvlAuthenticator1        // (*RouteAuthenticator).Authenticate of the single alternative of a one-alternative structure, called directly
	nLvl
)

var lvlName = [nLvl]string{"authorize", "handler", "route-authenticators", "route-authenticator-singular"}

// how the requirement structure is declared
const (
	declOp         = iota // on the operation; no global security
	declOpOverAnon        // on the operation; the description has global security [anonymous] that must not leak in
	declGlobal            // globally; the operation inherits
	declNone              // globally; the operation overrides with an empty list: it declares no requirements
	declAbsent            // no security key anywhere for the operation (another operation of the API declares the structure)
	nDecl
)

var declName = [nDecl]string{"op", "op-over-global-anon", "global", "global-overridden-empty", "no-security-key"}

// noRequirements: the operation under test declares none. The statement speaks about operations that do; the
// complement (decision of the lead after mutation triage) is that the security layer is then transparent:
// Authorize answers (nil, nil, nil) or admits with a nil principal, nothing is refused with a security error,
// the handler runs once with no principal and no scopes, whatever credentials and authorizer are around.
func noRequirements(decl uint8) bool { return decl == declNone || decl == declAbsent }

const (
	modeRaw          = iota // scripted runtime.AuthenticatorFunc reading X-Out-<scheme>
	modeReal                // security.APIKeyAuthCtx(header) / BasicAuthCtx / BearerAuthCtx finding real credentials
	modeRealPlain           // security.APIKeyAuth(header) / BasicAuth / BearerAuth (callbacks without context)
	modeRealAlt             // security.APIKeyAuthCtx(query) / BasicAuthRealmCtx / BearerAuthCtx
	modeRealAltPlain        // security.APIKeyAuth(query) / BasicAuthRealm / BearerAuth
	modeWrapped             // security.HttpAuthenticator (k1, k2) / security.ScopedAuthenticator (k3) around the scripted decision
	nMode
)

var modeName = [nMode]string{"raw", "real", "real-plain", "real-alt", "real-alt-plain", "wrapped"}

// scopesReach: does scheme s learn the required scopes in this mode (only then can a scope-limited credential be judged)
func scopesReach(mode uint8, s int) bool { return mode == modeRaw || s == 2 }

// how the application wires API, context and handler (the exported entry points)
const (
	wEarlyAPIHandler   = iota // Register* -> middleware.NewContext -> Context.APIHandler          (the common path)
	wLateRoutesHandler        // NewContext -> RegisterAuth/RegisterAuthorizer -> Context.RoutesHandler
	wLateRapiDoc              // NewContext -> RegisterAuth/RegisterAuthorizer -> Context.APIHandlerRapiDoc
	wEarlySwaggerUI           // Register* -> NewContext -> Context.APIHandlerSwaggerUI
	wServe                    // Register* -> middleware.Serve (no Context in hand: handler level only, order not owned)
	wTyped                    // RoutableAPI of the harness + generated-style typed handler; NewRoutableContext(nil router) -> RoutesHandler
	wTypedRouter              // same; NewRoutableContextWithAnalyzedSpec with an explicit DefaultRouter -> APIHandler
	wAuthorized               // common path with security.Authorized() as the authorizer (accepts everything)
	nWiring
)

var wiringName = [nWiring]string{"register-newcontext-apihandler", "newcontext-register-routeshandler", "newcontext-register-rapidoc", "register-newcontext-swaggerui", "register-serve", "typed-routable-api", "typed-routable-api-explicit-router", "authorizer-security-authorized"}

// refusal tags
const (
	tDefault = iota // the runtime's own 401
	tRej1
	tRej2
	tRej3
	tScope1
	tScope2
	tScope3
	tAzDeny
	tAz418
	nTag
)

var tagName = [nTag]string{"default-401", "k1-rejects", "k2-rejects", "k3-rejects", "k1-insufficient-scope", "k2-insufficient-scope", "k3-insufficient-scope", "az-denies", "az-teapot"}

// status that goes with a tag; 0 = the error carries none (plain error of k3): any status
var tagStatus = [nTag]int{401, 401, 403, 0, 403, 403, 403, 403, 418}

// ---- the case ----

type altK struct {
	n int8    // number of schemes; 0 = the anonymous alternative
	s [nS]int8 // scheme indices in the evaluation order under test
}

func (a altK) mask() uint8 {
	var m uint8
	for i := 0; i < int(a.n); i++ {
		m |= 1 << uint(a.s[i])
	}
	return m
}

// kase is the compact, comparable form of a case.
type kase struct {
	level, decl, mode uint8
	nalts             int8
	alts              [3]altK
	reg               uint8 // bit k: scheme k has a registered authenticator
	undef             uint8 // bit k: scheme k is absent from securityDefinitions (never registered)
	out               [nS]uint8
	az, rest          uint8
	wiring            uint8
	naming            uint8
}

// Case is the replayable JSON form.
type Case struct {
	Level      string            `json:"level"`
	Decl       string            `json:"declared"`
	Mode       string            `json:"authenticators"`
	Alts       [][]string        `json:"alternatives"` // list order; inside: evaluation order; [] = anonymous
	Registered []string          `json:"registered"`
	Undefined  []string          `json:"undefined,omitempty"`
	Out        map[string]string `json:"outcome"`
	Authorizer string            `json:"authorizer"`
	Rest       string            `json:"rest,omitempty"`
	Wiring     string            `json:"wiring,omitempty"` // empty = the common path
	Naming     string            `json:"naming,omitempty"` // empty = plain; the case file speaks of k1 k2 k3, the description uses Names
	Names      []string          `json:"names,omitempty"`  // informational: the actual scheme names of that naming
}

func (k kase) toCase() Case {
	c := Case{Level: lvlName[k.level], Decl: declName[k.decl], Mode: modeName[k.mode], Authorizer: azName[k.az], Out: map[string]string{}, Alts: [][]string{}, Registered: []string{}}
	for i := 0; i < int(k.nalts); i++ {
		a := []string{}
		for j := 0; j < int(k.alts[i].n); j++ {
			a = append(a, schemeName[k.alts[i].s[j]])
		}
		c.Alts = append(c.Alts, a)
	}
	for s := 0; s < nS; s++ {
		if k.reg&(1<<uint(s)) != 0 {
			c.Registered = append(c.Registered, schemeName[s])
		}
		if k.undef&(1<<uint(s)) != 0 {
			c.Undefined = append(c.Undefined, schemeName[s])
		}
		c.Out[schemeName[s]] = outName[k.out[s]]
	}
	if k.level == lvlHandler {
		c.Rest = restName[k.rest]
	}
	if k.naming != namePlain {
		c.Naming = namingName[k.naming]
		c.Names = schemeNames[k.naming][:]
	}
	if k.wiring != wEarlyAPIHandler {
		c.Wiring = wiringName[k.wiring]
	}
	return c
}

func idx(names []string, v string, what string) (uint8, error) {
	for i, n := range names {
		if n == v {
			return uint8(i), nil
		}
	}
	return 0, fmt.Errorf("unknown %s %q (one of %v)", what, v, names)
}

func (c Case) toKase() (kase, error) {
	var k kase
	var err error
	if k.level, err = idx(lvlName[:], c.Level, "level"); err != nil {
		return k, err
	}
	if k.decl, err = idx(declName[:], c.Decl, "declared"); err != nil {
		return k, err
	}
	if k.mode, err = idx(modeName[:], c.Mode, "authenticators"); err != nil {
		return k, err
	}
	if k.az, err = idx(azName[:], c.Authorizer, "authorizer"); err != nil {
		return k, err
	}
	if c.Naming != "" {
		if k.naming, err = idx(namingName[:], c.Naming, "naming"); err != nil {
			return k, err
		}
	}
	if c.Wiring != "" {
		if k.wiring, err = idx(wiringName[:], c.Wiring, "wiring"); err != nil {
			return k, err
		}
	}
	if c.Rest != "" {
		if k.rest, err = idx(restName[:], c.Rest, "rest"); err != nil {
			return k, err
		}
	}
	if len(c.Alts) > 3 {
		return k, fmt.Errorf("at most 3 alternatives")
	}
	k.nalts = int8(len(c.Alts))
	for i, a := range c.Alts {
		if len(a) > nS {
			return k, fmt.Errorf("alternative %d too long", i)
		}
		k.alts[i].n = int8(len(a))
		for j, s := range a {
			v, err := idx(schemeName[:], s, "scheme")
			if err != nil {
				return k, err
			}
			for jj := 0; jj < j; jj++ {
				if k.alts[i].s[jj] == int8(v) {
					return k, fmt.Errorf("alternative %d repeats %s", i, s)
				}
			}
			k.alts[i].s[j] = int8(v)
		}
	}
	for _, s := range c.Registered {
		v, err := idx(schemeName[:], s, "scheme")
		if err != nil {
			return k, err
		}
		k.reg |= 1 << v
	}
	for _, s := range c.Undefined {
		v, err := idx(schemeName[:], s, "scheme")
		if err != nil {
			return k, err
		}
		k.undef |= 1 << v
	}
	if k.reg&k.undef != 0 {
		return k, fmt.Errorf("a scheme cannot be both registered and undefined")
	}
	for s := 0; s < nS; s++ {
		if o, ok := c.Out[schemeName[s]]; ok {
			if k.out[s], err = idx(outName[:], o, "outcome"); err != nil {
				return k, err
			}
		}
	}
	return k, nil
}

// ---- scopes: scheme s at list position i requires these ----

func ownScope(naming uint8, pos, s int) string {
	return fmt.Sprintf("%s.%d", scopeStem[naming][s], pos)
}

func scopesOf(naming uint8, pos, s int) []string {
	if scopeStem[naming][s] == "" {
		return []string{}
	}
	own := ownScope(naming, pos, s)
	if c := commonScope[naming][s]; c != "" {
		return []string{own, c}
	}
	return []string{own}
}

// granted to a scope-limited (oOKS) credential of scheme s: its common scope and the
// scheme's own scope of list position 0 - so the credential is accepted exactly when the
// scheme is asked for the scopes that the alternative at position 0 declares for it
// (byte-exact comparison: scopes are opaque strings)
func granted(naming uint8, s int, scope string) bool {
	if scopeStem[naming][s] == "" {
		return false // nothing is declared, nothing is granted (and nothing is required)
	}
	return (commonScope[naming][s] != "" && scope == commonScope[naming][s]) || scope == ownScope(naming, 0, s)
}

func canonScopes(ss []string) string {
	set := map[string]bool{}
	for _, s := range ss {
		set[s] = true
	}
	out := make([]string, 0, len(set))
	for s := range set {
		out = append(out, s)
	}
	sort.Strings(out)
	return strings.Join(out, " ")
}

// altScopes[naming][pos][mask] = canonical union of the scopes of the schemes in mask at list position pos
var altScopes [nNaming][3][8]string

func init() {
	for nm := uint8(0); nm < nNaming; nm++ {
		for pos := 0; pos < 3; pos++ {
			for m := 0; m < 8; m++ {
				var all []string
				for s := 0; s < nS; s++ {
					if m&(1<<uint(s)) != 0 {
						all = append(all, scopesOf(nm, pos, s)...)
					}
				}
				altScopes[nm][pos][m] = canonScopes(all)
			}
		}
	}
}

// ---- effective outcome of scheme s when consulted for the alternative at position pos ----

const (
	eNA = iota
	eOK
	eNIL
	eREJ   // tag tRej1+s
	eSCOPE // tag tScope1+s
)

// oksAccepted[naming][pos][s]: a scope-limited credential of scheme s is accepted when the scheme is asked for the
// scopes it has at list position pos (every required scope granted; vacuously so when none is required)
var oksAccepted [nNaming][3][nS]bool

func init() {
	for nm := uint8(0); nm < nNaming; nm++ {
		for pos := 0; pos < 3; pos++ {
			for s := 0; s < nS; s++ {
				ok := true
				for _, sc := range scopesOf(nm, pos, s) {
					if !granted(nm, s, sc) {
						ok = false
					}
				}
				oksAccepted[nm][pos][s] = ok
			}
		}
	}
}

func effective(naming uint8, s int, out uint8, pos int) int {
	switch out {
	case oNA:
		return eNA
	case oOK:
		return eOK
	case oNIL:
		return eNIL
	case oREJ:
		return eREJ
	case oOKS:
		if oksAccepted[naming][pos][s] {
			return eOK
		}
		return eSCOPE
	}
	return eNA
}

func azDenies(az uint8, princ int) (bool, int) {
	switch az {
	case azDeny:
		return true, tAzDeny
	case azDeny418:
		return true, tAz418
	case azDenyP1:
		if princ == 1 {
			return true, tAzDeny
		}
	case azDenyNil:
		if princ == 0 {
			return true, tAzDeny
		}
	}
	return false, 0
}

// ---- what the property text allows for a case ----

// allowed: run bit (alt*4 + principal) with principal 0 = nil, 1..3 = P1..P3;
// refuse bit = tag; other = a failure that is not a security refusal is acceptable
// (the request is admitted but something else is wrong with it).
type allowed struct {
	run    uint16
	refuse uint16
	other  bool
}

func (a *allowed) or(b allowed) {
	a.run |= b.run
	a.refuse |= b.refuse
	a.other = a.other || b.other
}

// reference is Appendix A.1. It depends on the evaluation order only through
// which rejections are certainly seen (first failing scheme of an alternative)
// and which may or may not be (schemes after a failure).
func reference(k kase) allowed {
	var al allowed
	anySat := false
	anon := -1
	var rejMust, rejMay uint16
	for i := 0; i < int(k.nalts); i++ {
		a := k.alts[i]
		if a.n == 0 {
			if anon < 0 {
				anon = i
			}
			continue
		}
		failed := false
		for j := 0; j < int(a.n); j++ {
			s := int(a.s[j])
			if k.reg&(1<<uint(s)) == 0 {
				failed = true // a scheme nobody can consult cannot accept anything
				continue
			}
			switch effective(k.naming, s, k.out[s], i) {
			case eOK:
			case eNA, eNIL:
				failed = true
			case eREJ:
				if failed {
					rejMay |= 1 << uint(tRej1+s)
				} else {
					rejMust |= 1 << uint(tRej1+s)
				}
				failed = true
			case eSCOPE:
				if failed {
					rejMay |= 1 << uint(tScope1+s)
				} else {
					rejMust |= 1 << uint(tScope1+s)
				}
				failed = true
			}
		}
		if failed {
			continue
		}
		// fully satisfied: every scheme registered, credentials found and accepted, non-nil principal
		anySat = true
		for j := 0; j < int(a.n); j++ {
			p := int(a.s[j]) + 1
			if deny, tag := azDenies(k.az, p); deny {
				al.refuse |= 1 << uint(tag)
			} else {
				al.run |= 1 << uint(i*4+p)
			}
		}
	}
	if anySat {
		// rejections elsewhere are irrelevant: "some requirement alternative is fully satisfied"
		return finishAllowed(k, al)
	}
	al = allowed{}
	if anon >= 0 && rejMust == 0 {
		// the empty alternative is (vacuously) fully satisfied; its principal is nil, and "the registered
		// authorizer, if any, accepts that principal" covers it too: an authorizer that denies the nil
		// principal must lead to a refusal with its error
		if deny, tag := azDenies(k.az, 0); deny {
			al.refuse |= 1 << uint(tag)
		} else {
			for i := 0; i < int(k.nalts); i++ {
				if k.alts[i].n == 0 {
					al.run |= 1 << uint(i*4)
				}
			}
		}
	}
	al.refuse |= rejMust | rejMay
	if anon < 0 && rejMust == 0 {
		al.refuse |= 1 << tDefault
	}
	return finishAllowed(k, al)
}

func finishAllowed(k kase, al allowed) allowed {
	if k.level == lvlHandler && k.rest != restFine && al.run != 0 {
		al.other = true
	}
	return al
}

// referenceAnyOrder: union over every evaluation order (used only when the harness could not own the order).
func referenceAnyOrder(k kase) allowed {
	var al allowed
	var rec func(i int, k kase)
	rec = func(i int, k kase) {
		if i == int(k.nalts) {
			al.or(reference(k))
			return
		}
		n := int(k.alts[i].n)
		if n < 2 {
			rec(i+1, k)
			return
		}
		orig := k.alts[i]
		for _, p := range permsOf(n) {
			var a altK
			a.n = orig.n
			for j := 0; j < n; j++ {
				a.s[j] = orig.s[p[j]]
			}
			k.alts[i] = a
			rec(i+1, k)
		}
	}
	rec(0, k)
	return al
}

var permTable = [4][][]int{
	{{}},
	{{0}},
	{{0, 1}, {1, 0}},
	{{0, 1, 2}, {0, 2, 1}, {1, 0, 2}, {1, 2, 0}, {2, 0, 1}, {2, 1, 0}},
}

func permsOf(n int) [][]int { return permTable[n] }

// ---- observation ----

const (
	obsRun     = iota // authorize: err == nil; handler: the operation handler ran
	obsRefused        // refused with one of the security errors (tag)
	obsOther          // handler level: some other failure status; authorize level: unrecognised error
	obsNoAuth         // authorize level: (nil, nil, nil) - the route has no requirements
	obsPanic
)

type obs struct {
	kind          int
	princ         int    // 0 nil, 1..3 P1..P3, -1 something else
	princCtx      int    // what SecurityPrincipalFrom gives (authorize level; equals princ at handler level)
	scopes        string // canonical
	tag           int
	status        int
	msg           string
	handlerCalls  int
	consumerCalls int
	bodyBytes     int64
	authCalls     int
	orderOwned    bool
}

func princName(p int) string {
	switch {
	case p == 0:
		return "nil"
	case p >= 1 && p <= 3:
		return fmt.Sprintf("P%d", p)
	}
	return "?"
}

func (o obs) String() string {
	switch o.kind {
	case obsRun:
		return fmt.Sprintf("RUN principal=%s (context %s) scopes=[%s] handler=%d", princName(o.princ), princName(o.princCtx), o.scopes, o.handlerCalls)
	case obsRefused:
		return fmt.Sprintf("REFUSED by %s status=%d handler=%d consumer=%d bodyBytes=%d", tagName[o.tag], o.status, o.handlerCalls, o.consumerCalls, o.bodyBytes)
	case obsOther:
		return fmt.Sprintf("OTHER status=%d %q handler=%d", o.status, o.msg, o.handlerCalls)
	case obsNoAuth:
		return "NO-AUTH (route has no requirements)"
	}
	return "PANIC " + o.msg
}

func (a allowed) describe(k kase) string {
	var parts []string
	for i := 0; i < 3; i++ {
		for p := 0; p < 4; p++ {
			if a.run&(1<<uint(i*4+p)) != 0 {
				parts = append(parts, fmt.Sprintf("RUN principal=%s scopes=[%s]", princName(p), altScopes[k.naming][i][k.alts[i].mask()]))
			}
		}
	}
	for t := 0; t < nTag; t++ {
		if a.refuse&(1<<uint(t)) != 0 {
			st := "any"
			if tagStatus[t] != 0 {
				st = fmt.Sprint(tagStatus[t])
			}
			parts = append(parts, fmt.Sprintf("REFUSED by %s status=%s", tagName[t], st))
		}
	}
	if a.other {
		parts = append(parts, "a non-security failure of the rest of the request")
	}
	return strings.Join(parts, " | ")
}

func runAllowed(k kase, al allowed, o obs) bool {
	if o.princ < 0 || o.princ > 3 {
		return false
	}
	for i := 0; i < int(k.nalts); i++ {
		if al.run&(1<<uint(i*4+o.princ)) != 0 && o.scopes == altScopes[k.naming][i][k.alts[i].mask()] {
			return true
		}
	}
	return false
}

// defectPredict is NOT part of the oracle. It predicts what the known defects
// of the pinned tree make of a case - the alternatives are tried in list order, the
// schemes of an alternative in evaluation order, where (allowUnreg) a scheme without
// authenticator is skipped and (allowNil) a nil principal is overwritten by the next
// scheme's - and is used only to give a violation that equals this prediction its
// narrow class. feature names what the deciding alternative needed.
func defectPredict(k kase, allowNil, allowUnreg bool) (feature string, pred obs, ok bool) {
	for i := 0; i < int(k.nalts); i++ {
		a := k.alts[i]
		if a.n == 0 {
			continue
		}
		last, failed, hasNil, hasUnreg, textSat := 0, false, false, false, true
		for j := 0; j < int(a.n) && !failed; j++ {
			s := int(a.s[j])
			if k.reg&(1<<uint(s)) == 0 {
				hasUnreg, textSat = true, false
				if !allowUnreg {
					failed = true
				}
				continue
			}
			switch effective(k.naming, s, k.out[s], i) {
			case eOK:
				last = s + 1
			case eNIL:
				hasNil, textSat = true, false
				last = 0
				if !allowNil {
					failed = true
				}
			default:
				failed = true
			}
		}
		if failed || last == 0 {
			continue
		}
		if textSat {
			return "", obs{}, false // the first alternative that decides is genuinely satisfied
		}
		switch {
		case hasNil && hasUnreg:
			feature = "nil-principal-and-unregistered-scheme-in-and"
		case hasNil:
			feature = "nil-principal-in-and"
		default:
			feature = "unregistered-scheme-in-and"
		}
		if deny, tag := azDenies(k.az, last); deny {
			return feature, obs{kind: obsRefused, tag: tag}, true
		}
		return feature, obs{kind: obsRun, princ: last, scopes: altScopes[k.naming][i][a.mask()]}, true
	}
	return "", obs{}, false
}

// Which of the two defects the tree under test has is established by two witness
// probes before the exploration (main.go: calibrate); a tree in which one is
// repaired is then classified against the model of the remaining one only.
var treeOverwritesNil, treeSkipsUnregistered bool

// matchesDefect: the observation is exactly what the defect model predicts.
func matchesDefect(k kase, o obs, pred obs) bool {
	switch {
	case pred.kind == obsRun && o.kind == obsOther:
		// admitted through the unsatisfied alternative, then binding/validation of the broken rest of the request answered
		return k.level == lvlHandler && k.rest != restFine && o.handlerCalls == 0
	case pred.kind != o.kind:
		return false
	case o.kind == obsRun:
		return pred.princ == o.princ && pred.scopes == o.scopes && o.princCtx == o.princ && (k.level != lvlHandler || o.handlerCalls == 1)
	case o.kind == obsRefused:
		return pred.tag == o.tag && o.status == tagStatus[o.tag] && o.handlerCalls == 0 && o.consumerCalls == 0 && o.bodyBytes == 0
	}
	return false
}

func allowedFor(k kase, o obs) allowed {
	if o.orderOwned {
		return reference(k)
	}
	return referenceAnyOrder(k)
}

// explain renders a failing case for the report.
func explain(k kase, o obs) string {
	switch {
	case o.kind == obsPanic:
		return o.msg
	case o.kind == obsNoAuth:
		return "the route reports no security requirements although the operation declares some"
	}
	if noRequirements(k.decl) {
		return fmt.Sprintf("observed %s; the operation declares no requirements: it must run with no principal and no scopes (Authorize: nil, nil, nil)", o)
	}
	return fmt.Sprintf("observed %s; the text allows: %s", o, allowedFor(k, o).describe(k))
}

// anonymousPastAuthorizer is the narrow predicate "the request was let through as anonymous
// although the registered authorizer denies the nil principal": no alternative is satisfied, an
// anonymous alternative is declared, no scheme certainly rejected (so the only thing that stands
// between the request and the handler is the authorizer's verdict on nil), the text demands a
// refusal, and the observation is an anonymous run (nil principal, no scopes) or, with a broken
// rest of the request, an answer from binding/validation.
func anonymousPastAuthorizer(k kase, o obs, al allowed) bool {
	if deny, tag := azDenies(k.az, 0); !deny || al.run != 0 || al.refuse&(1<<uint(tag)) == 0 {
		return false
	}
	hasAnon := false
	for i := 0; i < int(k.nalts); i++ {
		if k.alts[i].n == 0 {
			hasAnon = true
		}
	}
	if !hasAnon {
		return false
	}
	switch o.kind {
	case obsRun:
		return o.princ == 0 && o.princCtx == 0 && o.scopes == ""
	case obsOther:
		return k.level == lvlHandler && k.rest != restFine && o.handlerCalls == 0
	}
	return false
}

// judge compares one observation with the reference; "" = satisfied.
func judge(k kase, o obs) (class string) {
	if o.kind == obsPanic {
		return "panic"
	}
	if noRequirements(k.decl) {
		switch o.kind {
		case obsNoAuth:
			return ""
		case obsRun:
			if o.princ != 0 || o.princCtx != 0 || o.scopes != "" {
				return "no-requirements/principal-or-scopes-out-of-nowhere"
			}
			if k.level == lvlHandler && o.handlerCalls != 1 {
				return "handler-count"
			}
			return ""
		case obsRefused:
			return "no-requirements/refused-by-security"
		default: // obsOther
			if k.level == lvlHandler && k.rest != restFine && o.handlerCalls == 0 {
				return ""
			}
			return "no-requirements/unexpected-outcome"
		}
	}
	if o.kind == obsNoAuth {
		return "requirements-ignored"
	}
	al := allowedFor(k, o)
	class = ""
	switch o.kind {
	case obsRun:
		switch {
		case al.run == 0:
			class = "admitted-unsatisfied"
		case !runAllowed(k, al, o):
			class = "wrong-principal-or-scopes"
		case o.princCtx != o.princ:
			class = "principal-mismatch"
		case k.level == lvlHandler && o.handlerCalls != 1:
			class = "handler-count"
		}
	case obsRefused:
		okTag := al.refuse&(1<<uint(o.tag)) != 0
		switch {
		case !okTag && al.refuse == 0 && !al.other:
			class = "refused-though-satisfied"
		case !okTag:
			class = "wrong-refusal-error"
		case tagStatus[o.tag] != 0 && o.status != tagStatus[o.tag]:
			class = "wrong-refusal-status"
		case tagStatus[o.tag] == 0 && k.level == lvlHandler && o.status < 400:
			class = "wrong-refusal-status"
		case o.handlerCalls != 0 || o.consumerCalls != 0 || o.bodyBytes != 0:
			class = "refusal-side-effects"
		}
	case obsOther:
		if !al.other && al.run == 0 && k.level == lvlHandler {
			class = "not-refused" // the security layer let through a request that must be refused; something later answered
		} else if !al.other {
			class = "unexpected-outcome"
		} else if o.handlerCalls != 0 {
			class = "handler-count"
		}
	}
	if class == "" {
		return ""
	}
	if anonymousPastAuthorizer(k, o, al) {
		return "admitted-unsatisfied/authorizer-not-consulted-for-anonymous"
	}
	if o.orderOwned && (treeSkipsUnregistered || treeOverwritesNil) {
		if feature, pred, ok := defectPredict(k, treeOverwritesNil, treeSkipsUnregistered); ok && matchesDefect(k, o, pred) {
			return "unsatisfied-alternative-decides/" + feature
		}
	}
	return class
}
