// C02 - security requirements are an OR of ANDs; nothing runs unless one is
// satisfied. Small-scope exhaustive enumeration (E1) of requirement structures x
// evaluation orders x per-scheme outcome vectors x authorizers x registered
// authenticator sets on the real router / Context.Authorize / handler chain,
// compared with the reference of DESIGN.md Appendix A.1 (model.go).
package main

import (
	"encoding/json"
	"fmt"
	"os"
	"runtime/debug"
	"net/http"
	"sync"
	"sync/atomic"

	"github.com/go-openapi/runtime/middleware"

	"verif/engine/enum"
	"verif/engine/report"
)

// ---- one case, from scratch (replay and known-finding witnesses) ----

func check(c Case) (class, what string, o obs, err error) {
	k, err := c.toKase()
	if err != nil {
		return "", "", obs{}, err
	}
	if k.nalts == 0 {
		return "", "", obs{}, fmt.Errorf("no alternatives: the operation declares no requirements")
	}
	key := envKey{decl: k.decl, mode: k.mode, reg: k.reg, undef: k.undef, az: k.az != azAbsent, wiring: k.wiring, naming: k.naming}
	if k.wiring == wServe && k.level != lvlHandler {
		return "", "", obs{}, fmt.Errorf("wiring %s gives no Context: handler level only", wiringName[k.wiring])
	}
	if (k.level == lvlAuthenticators || k.level == lvlAuthenticator1) && k.az != azAbsent {
		return "", "", obs{}, fmt.Errorf("level %s involves no authorizer", lvlName[k.level])
	}
	func() {
		defer func() {
			if pv := recover(); pv != nil {
				o = obs{kind: obsPanic, msg: fmt.Sprintf("panic while building the API or executing the case: %v", pv)}
			}
		}()
		e := buildEnv(key, []structure{structureOf(k)})
		o = runCase(e, 0, k)
	}()
	if class = judge(k, o); class != "" {
		what = explain(k, o)
	}
	return class, what, o, nil
}

// runCase executes one case on a built environment whose operation op declares the structure of k.
func runCase(e *env, op int, k kase) obs {
	path, cnt := opPath(op), op
	if noRequirements(k.decl) {
		path, cnt = "/none", len(e.structs)
	}
	if e.ctx == nil { // middleware.Serve: nothing but the handler in hand
		return e.execHandler(cnt, path, k, noRequirements(k.decl))
	}
	base := e.bases[op]
	if noRequirements(k.decl) {
		base = e.noneBase
	}
	if k.level != lvlHandler {
		auths, owned := ordered(base.Authenticators, k)
		if noRequirements(k.decl) {
			auths, owned = base.Authenticators, true
		}
		if k.level == lvlAuthenticators || k.level == lvlAuthenticator1 {
			return e.execAuthenticators(base, auths, owned, parseRequest(rawRequest(path, k)), k.level == lvlAuthenticator1)
		}
		return e.execAuthorize(base, auths, owned, parseRequest(rawRequest(path, k)))
	}
	owned := true
	if !noRequirements(k.decl) {
		owned = e.setOrder(op, k)
	}
	return e.execHandler(cnt, path, k, owned)
}

// calibrate runs the two smallest witnesses of the known defects on the tree under
// test and records which of them it exhibits; this only selects the defect model
// that names the class of a violation, it never turns a violation into a pass.
func calibrate() {
	treeOverwritesNil, treeSkipsUnregistered = false, false
	probe := func(k kase) (yes bool) {
		defer func() {
			if recover() != nil {
				yes = false
			}
		}()
		e := buildEnv(envKey{decl: k.decl, mode: k.mode, reg: k.reg, az: false}, []structure{structureOf(k)})
		o := runCase(e, 0, k)
		return o.kind == obsRun && o.orderOwned
	}
	and12 := altK{n: 2, s: [nS]int8{0, 1}}
	nilW := kase{level: lvlAuthorize, nalts: 1, alts: [3]altK{and12}, reg: 7, out: [nS]uint8{oNIL, oOK, oNA}}
	unregW := kase{level: lvlAuthorize, nalts: 1, alts: [3]altK{and12}, reg: 6, out: [nS]uint8{oNA, oOK, oNA}}
	treeOverwritesNil = probe(nilW)
	treeSkipsUnregistered = probe(unregW)
}

// ---- the plan ----

type regCfg struct{ reg, undef uint8 }

// job: what is run for every (structure, order) of an environment
type job struct {
	level   uint8
	maxAlts int
	azs     []uint8 // authorizer kinds (filtered by the environment: absent <-> no authorizer registered)
	rests   []uint8
}

type envPlan struct {
	key     envKey
	structs []structure // decl op*: all; decl global: one
	jobs    []job
}

func regCfgs(full bool) []regCfg {
	var out []regCfg
	for missing := 0; missing < 8; missing++ {
		out = append(out, regCfg{reg: uint8(7 &^ missing)})
		if full && missing != 0 {
			out = append(out, regCfg{reg: uint8(7 &^ missing), undef: uint8(missing)})
		}
	}
	return out
}

func vectors(mode uint8) [][nS]uint8 {
	var out [][nS]uint8
	for a := 0; a < nOut; a++ {
		for b := 0; b < nOut; b++ {
			for c := 0; c < nOut; c++ {
				if (a == oOKS && !scopesReach(mode, 0)) || (b == oOKS && !scopesReach(mode, 1)) {
					continue // API-key and basic credentials carry no scopes; HttpAuthenticator does not pass them on
				}
				out = append(out, [nS]uint8{uint8(a), uint8(b), uint8(c)})
			}
		}
	}
	return out
}

func countStructs(maxAlts int) int {
	n, p := 0, 1
	for i := 1; i <= maxAlts; i++ {
		p *= 8
		n += p
	}
	return n
}

var allAz = []uint8{azAbsent, azAccept, azDeny, azDeny418, azDenyP1, azDenyNil}
var fine = []uint8{restFine}

func plan(thorough bool) []envPlan {
	var plans []envPlan
	add := func(key envKey, structs []structure, j job) {
		for i := range plans {
			if plans[i].key == key && (key.decl == declOp || key.decl == declOpOverAnon || plans[i].structs[0] == structs[0]) {
				plans[i].jobs = append(plans[i].jobs, j)
				return
			}
		}
		plans = append(plans, envPlan{key: key, structs: structs, jobs: []job{j}})
	}
	s3 := allStructures(3)
	s2 := s3[:countStructs(2)]
	// A1/H1/H2/H3: declared on the operation, scripted authenticators
	for _, rc := range regCfgs(thorough) { // quick: the 8 registered subsets; thorough: also the 7 with the missing schemes undefined
		for _, az := range []bool{false, true} {
			key := envKey{decl: declOp, mode: modeRaw, reg: rc.reg, undef: rc.undef, az: az}
			all := rc.reg == 7
			switch {
			case thorough:
				add(key, s3, job{level: lvlAuthorize, maxAlts: 3, azs: allAz})
			case all:
				add(key, s3, job{level: lvlAuthorize, maxAlts: 3, azs: []uint8{azAbsent, azDenyP1, azDenyNil}})
				add(key, s3, job{level: lvlAuthorize, maxAlts: 2, azs: []uint8{azAccept, azDeny, azDeny418}})
			default:
				add(key, s3, job{level: lvlAuthorize, maxAlts: 2, azs: allAz})
			}
			if all {
				if thorough {
					add(key, s3, job{level: lvlHandler, maxAlts: 3, azs: allAz, rests: fine})
				} else {
					add(key, s3, job{level: lvlHandler, maxAlts: 2, azs: allAz, rests: fine})
				}
				add(key, s3, job{level: lvlHandler, maxAlts: 2, azs: []uint8{azAbsent, azAccept, azDeny, azDenyNil}, rests: []uint8{restCType, restParam, restAccept}})
			} else {
				add(key, s3, job{level: lvlHandler, maxAlts: 2, azs: []uint8{azAbsent, azDenyP1, azDenyNil}, rests: fine})
			}
		}
	}
	// A2/H4: the real security.* authenticators find the credentials
	for _, rc := range regCfgs(false) {
		for _, az := range []bool{false, true} {
			key := envKey{decl: declOp, mode: modeReal, reg: rc.reg, az: az}
			if thorough {
				add(key, s2, job{level: lvlAuthorize, maxAlts: 2, azs: allAz})
			} else {
				add(key, s2, job{level: lvlAuthorize, maxAlts: 2, azs: []uint8{azAbsent, azDeny, azDenyP1, azDenyNil}})
			}
			if thorough || rc.reg == 7 {
				add(key, s2, job{level: lvlHandler, maxAlts: 2, azs: []uint8{azAbsent, azDenyP1, azDenyNil}, rests: fine})
			}
		}
	}
	// H6: operation-level structure overrides a global anonymous requirement
	for _, az := range []bool{false, true} {
		key := envKey{decl: declOpOverAnon, mode: modeRaw, reg: 7, az: az}
		add(key, s2, job{level: lvlAuthorize, maxAlts: 2, azs: []uint8{azAbsent, azDenyP1, azDenyNil}})
		add(key, s2, job{level: lvlHandler, maxAlts: 2, azs: []uint8{azAbsent, azDenyP1, azDenyNil}, rests: fine})
	}
	// A3/H5: declared globally and inherited; and overridden by an empty list (recorded only)
	gl := s2
	if !thorough {
		gl = s3[:countStructs(1)]
	}
	for _, st := range gl {
		for _, rc := range []regCfg{{reg: 7}, {reg: 6}} {
			for _, az := range []bool{false, true} {
				for _, decl := range []uint8{declGlobal, declNone} {
					if decl == declNone && rc.reg != 7 {
						continue
					}
					key := envKey{decl: decl, mode: modeRaw, reg: rc.reg, az: az}
					add(key, []structure{st}, job{level: lvlAuthorize, maxAlts: 2, azs: []uint8{azAbsent, azAccept, azDenyP1, azDenyNil}})
					add(key, []structure{st}, job{level: lvlHandler, maxAlts: 2, azs: []uint8{azAbsent, azAccept, azDenyP1, azDenyNil}, rests: fine})
				}
			}
		}
	}
	// S1: RouteAuthenticators.Authenticate called directly on the route (exported; no authorizer)
	for _, rc := range regCfgs(false) {
		key := envKey{decl: declOp, mode: modeRaw, reg: rc.reg}
		m := 2
		if thorough || rc.reg == 7 {
			m = 3
		}
		add(key, s3, job{level: lvlAuthenticators, maxAlts: m, azs: []uint8{azAbsent}})
		add(key, s3, job{level: lvlAuthenticator1, maxAlts: 1, azs: []uint8{azAbsent}})
	}
	// S2: the other ways an application wires API, context and handler (moment of RegisterAuth / RegisterAuthorizer
	// relative to NewContext and handler construction; Serve; the UI handler constructors; the typed flavour)
	surfAz := []uint8{azAbsent, azDenyP1, azDenyNil}
	// quick drives the surface variants through the handler chain with single-alternative structures only (the
	// Authorize level, which is cheap, keeps lists of <=2); middleware.Serve has no other level and keeps lists of <=2
	hAlts := 2
	if !thorough {
		hAlts = 1
	}
	for _, w := range []uint8{wLateRoutesHandler, wLateRapiDoc, wEarlySwaggerUI, wServe, wTyped, wTypedRouter} {
		regs := []uint8{7}
		if thorough {
			regs = []uint8{7, 6, 5}
		}
		for _, reg := range regs {
			for _, az := range []bool{false, true} {
				key := envKey{decl: declOp, mode: modeRaw, reg: reg, az: az, wiring: w}
				if w != wServe {
					add(key, s2, job{level: lvlAuthorize, maxAlts: 2, azs: surfAz})
				}
				if w == wServe {
					add(key, s2, job{level: lvlHandler, maxAlts: 2, azs: surfAz, rests: fine})
				} else {
					add(key, s2, job{level: lvlHandler, maxAlts: hAlts, azs: surfAz, rests: fine})
				}
				if (w == wTyped || w == wServe) && reg == 7 {
					add(key, s2, job{level: lvlHandler, maxAlts: hAlts, azs: []uint8{azAbsent, azDeny}, rests: []uint8{restCType, restParam, restAccept}})
				}
			}
		}
	}
	// late registration also with the structure declared globally (single alternatives)
	for _, st := range s3[:countStructs(1)] {
		for _, az := range []bool{false, true} {
			key := envKey{decl: declGlobal, mode: modeRaw, reg: 7, az: az, wiring: wLateRoutesHandler}
			add(key, []structure{st}, job{level: lvlHandler, maxAlts: 2, azs: surfAz, rests: fine})
		}
	}
	// security.Authorized() as the registered authorizer
	{
		key := envKey{decl: declOp, mode: modeRaw, reg: 7, az: true, wiring: wAuthorized}
		add(key, s2, job{level: lvlAuthorize, maxAlts: 2, azs: []uint8{azAccept}})
		add(key, s2, job{level: lvlHandler, maxAlts: 2, azs: []uint8{azAccept}, rests: fine})
	}
	// S3: every other authenticator constructor of package security
	for _, mode := range []uint8{modeRealPlain, modeRealAlt, modeRealAltPlain, modeWrapped} {
		regs := []uint8{7}
		if thorough {
			regs = []uint8{7, 6, 5, 3}
		}
		for _, reg := range regs {
			for _, az := range []bool{false, true} {
				key := envKey{decl: declOp, mode: mode, reg: reg, az: az}
				add(key, s2, job{level: lvlAuthorize, maxAlts: 2, azs: []uint8{azAbsent, azDeny, azDenyP1, azDenyNil}})
				add(key, s2, job{level: lvlHandler, maxAlts: hAlts, azs: surfAz, rests: fine})
			}
		}
	}
	// S5: operations WITHOUT requirements (operation-level empty list over a global structure; no security key at all)
	// next to a secured operation, through the wirings that differ in who calls Authorize: they must run, no principal
	{
		one := s3[:countStructs(1)]
		others := []structure{one[0], one[1], one[7]} // the API's other requirement: anonymous, k1, k1 AND k2 AND k3
		noAz := []uint8{azAbsent, azDeny, azDenyNil}
		for _, w := range []uint8{wEarlyAPIHandler, wLateRoutesHandler, wEarlySwaggerUI, wServe, wTyped, wTypedRouter} {
			for _, decl := range []uint8{declNone, declAbsent} {
				for _, st := range others {
					for _, az := range []bool{false, true} {
						key := envKey{decl: decl, mode: modeRaw, reg: 7, az: az, wiring: w}
						if w != wServe {
							add(key, []structure{st}, job{level: lvlAuthorize, maxAlts: 3, azs: noAz})
						}
						add(key, []structure{st}, job{level: lvlHandler, maxAlts: 3, azs: noAz, rests: []uint8{restFine, restCType, restParam, restAccept}})
					}
				}
			}
		}
	}
	// S4: edge values of the names - scheme and scope names in odd but legal shapes (case-only differences, prefixes,
	// punctuation, syntax look-alikes, Unicode folding pairs, very long, leading/trailing space), same reference
	for nm := uint8(1); nm < nNaming; nm++ {
		type mr struct{ mode, reg uint8 }
		cfgs := []mr{{modeRaw, 7}, {modeRaw, 6}, {modeReal, 7}}
		if thorough {
			cfgs = append(cfgs, mr{modeRaw, 5}, mr{modeRaw, 3}, mr{modeRealPlain, 7}, mr{modeWrapped, 7})
		}
		for _, c := range cfgs {
			for _, az := range []bool{false, true} {
				key := envKey{decl: declOp, mode: c.mode, reg: c.reg, az: az, naming: nm}
				add(key, s2, job{level: lvlAuthorize, maxAlts: 2, azs: surfAz})
				add(key, s2, job{level: lvlHandler, maxAlts: hAlts, azs: surfAz, rests: fine})
				if !az && c.mode == modeRaw {
					add(key, s2, job{level: lvlAuthenticators, maxAlts: 2, azs: []uint8{azAbsent}})
					add(key, s2, job{level: lvlAuthenticator1, maxAlts: 1, azs: []uint8{azAbsent}})
				}
			}
		}
		// declared globally, and through the typed flavour
		for _, st := range s3[:countStructs(1)] {
			add(envKey{decl: declGlobal, mode: modeRaw, reg: 7, naming: nm}, []structure{st}, job{level: lvlHandler, maxAlts: 2, azs: []uint8{azAbsent}, rests: fine})
		}
		add(envKey{decl: declOp, mode: modeRaw, reg: 7, wiring: wTyped, naming: nm}, s2, job{level: lvlHandler, maxAlts: hAlts, azs: []uint8{azAbsent}, rests: fine})
	}
	// an environment declares only as many structures as its jobs need
	for i := range plans {
		if plans[i].key.decl == declOp || plans[i].key.decl == declOpOverAnon {
			m := 1
			for _, j := range plans[i].jobs {
				if j.maxAlts > m {
					m = j.maxAlts
				}
			}
			plans[i].structs = s3[:countStructs(m)]
		}
	}
	return plans
}

// orders: every combination of evaluation orders of the alternatives of a structure
func orders(st structure) [][3]altK {
	var out [][3]altK
	var rec func(i int, cur [3]altK)
	rec = func(i int, cur [3]altK) {
		if i == int(st.n) {
			out = append(out, cur)
			return
		}
		var members []int8
		for s := 0; s < nS; s++ {
			if st.masks[i]&(1<<uint(s)) != 0 {
				members = append(members, int8(s))
			}
		}
		for _, p := range permsOf(len(members)) {
			var a altK
			a.n = int8(len(members))
			for j, pj := range p {
				a.s[j] = members[pj]
			}
			cur[i] = a
			rec(i+1, cur)
		}
	}
	rec(0, [3]altK{})
	return out
}

// knownClasses reads the classes of the committed known findings (read-only), only to
// keep them out of the early-stop count; attribution itself is done by engine/report.
func knownClasses() map[string]bool {
	out := map[string]bool{}
	var f struct {
		Findings []struct{ Property, Status, Class string }
	}
	if b, err := os.ReadFile("/verif/known_findings/C02.json"); err == nil && json.Unmarshal(b, &f) == nil {
		for _, x := range f.Findings {
			if x.Property == "C02" && x.Status == "known" {
				out[x.Class] = true
			}
		}
	}
	return out
}

// ---- main ----

type okey struct {
	level, none  uint8
	kind, tag    int8
	status       int16
	anonymousRun bool
}

func (l okey) String() string {
	pre := [nLvl]string{"a", "h", "r", "s"}[l.level] + ":"
	if l.none == 1 {
		pre += "no-requirement:"
	}
	switch l.kind {
	case obsRun:
		if l.anonymousRun {
			return pre + "run-anonymous"
		}
		return pre + "run-principal"
	case obsRefused:
		return fmt.Sprintf("%srefused:%s:%d", pre, tagName[l.tag], l.status)
	case obsOther:
		return fmt.Sprintf("%sother:%d", pre, l.status)
	case obsNoAuth:
		return pre + "no-auth"
	}
	return pre + "panic"
}

func label(k kase, o obs) okey {
	l := okey{level: k.level, kind: int8(o.kind)}
	if noRequirements(k.decl) {
		l.none = 1
	}
	switch o.kind {
	case obsRun:
		l.anonymousRun = o.princ == 0
	case obsRefused:
		l.tag, l.status = int8(o.tag), int16(o.status)
	case obsOther:
		l.status = int16(o.status)
	}
	return l
}

// failAgg batches the failing cases of one work item (a broken tree, and the known
// defects of the pinned one, fail many cases: the report is told once per item).
type failAgg struct {
	n        int64
	examples []failEx
}
type failEx struct {
	k kase
	o obs
}

type tally struct {
	evals, nontrivial int64
	outcomes          map[okey]int64
	fails             map[string]*failAgg
	unowned           int64
	// tuples whose outcome depends on the evaluation order while each order's outcome is allowed (MAY)
	orderDependentAllowed int64
}

func main() {
	r := report.Start("C02", "exploration")
	calibrate()
	r.Set("defects_exhibited_by_the_witness_probes", map[string]bool{"nil principal overwritten inside an AND": treeOverwritesNil, "scheme without authenticator skipped inside an AND": treeSkipsUnregistered})
	if r.Replay != "" {
		var c Case
		r.LoadReplay(&c)
		cl, what, o, err := check(c)
		if err != nil {
			fmt.Println("replay: bad case:", err)
			r.Finish("replay of one case (not executable)", false)
		}
		k, _ := c.toKase()
		fmt.Printf("replay %+v\n  observed: %s\n  allowed:  %s\n  class=%q %s\n", c, o, reference(k).describe(k), cl, what)
		if cl != "" {
			r.Fail(cl, what, c)
		}
		r.Eval(1)
		r.Nontrivial(2)
		r.Sample(c)
		r.Finish("replay of one case", false)
	}

	// the default of engine/report (2000%) lets the heap grow to gigabytes here: the live heap holds the built APIs
	debug.SetGCPercent(300)
	thorough := r.Thorough()
	plans := plan(thorough)
	var vecs [nMode][][nS]uint8
	// requests for the levels below the handler: one per (mode, vector, authorizer kind), shared read-only
	var authReq [nMode][][nAz]*http.Request
	for mode := uint8(0); mode < nMode; mode++ {
		vecs[mode] = vectors(mode)
		authReq[mode] = make([][nAz]*http.Request, len(vecs[mode]))
		for vi, v := range vecs[mode] {
			for az := uint8(0); az < nAz; az++ {
				authReq[mode][vi][az] = parseRequest(rawRequest(opPath(0), kase{mode: mode, out: v, az: az}))
			}
		}
	}

	var failures atomic.Int64
	knownClass := knownClasses()
	verbose := os.Getenv("C02_VERBOSE") != "" // print one failing case per class and work item (also for known findings)
	var abort atomic.Bool
	var incomplete atomic.Bool // part of the space could not be executed (the tree under test panicked outside a single case)
	stop := func() bool { return abort.Load() || r.OutOfTime() }
	var mu sync.Mutex
	total := tally{outcomes: map[okey]int64{}}
	var envsBuilt, ordersRun, structsRun int64
	axes := map[string]int64{}

	// environments are built in parallel in groups and dropped after use (a 584-operation API is a few MB)
	const group = 16
	for g := 0; g < len(plans) && !stop(); g += group {
		hi := g + group
		if hi > len(plans) {
			hi = len(plans)
		}
		batch := plans[g:hi]
		envs := make([]*env, len(batch))
		enum.Parallel(len(batch), nil, func(i int) {
			defer func() {
				if p := recover(); p != nil { // the tree under test cannot even build/route the API: report, do not crash
					k := kase{decl: batch[i].key.decl, mode: batch[i].key.mode, reg: batch[i].key.reg, undef: batch[i].key.undef, nalts: batch[i].structs[0].n}
					incomplete.Store(true)
					r.Fail("api-construction-failed", fmt.Sprint(p), k.toCase())
					envs[i] = nil
				}
			}()
			envs[i] = buildEnv(batch[i].key, batch[i].structs)
		})
		type item struct{ e, op int }
		var items []item
		for i, p := range batch {
			if envs[i] == nil {
				continue
			}
			for op := range p.structs {
				items = append(items, item{i, op})
			}
		}
		// VERIF_SEED only rotates the visiting order
		rot := 0
		if len(items) > 0 {
			rot = int(uint64(r.Seed) % uint64(len(items)))
		}
		enum.Parallel(len(items), stop, func(ii int) {
			it := items[(ii+rot)%len(items)]
			p, e := batch[it.e], envs[it.e]
			st := p.structs[it.op]
			t := tally{outcomes: map[okey]int64{}, fails: map[string]*failAgg{}}
			var cur kase // the case being executed, for the report if the code under test panics outside a driver's own recover
			defer func() {
				if pv := recover(); pv != nil {
					incomplete.Store(true)
					r.Fail("panic", fmt.Sprintf("panic while preparing or executing the case (route lookup, order set-up, driver): %v", pv), cur.toCase())
					failures.Add(1)
				}
			}()
			var nOrders int64
			// differential bookkeeping (evidence only): tuples (vector, authorizer, rest, level) of this structure whose
			// outcome differs between evaluation orders although every order's outcome is allowed by the text
			var firstCode []uint16
			var differs []bool
			for _, ord := range orders(st) {
				ti := 0
				if abort.Load() || ((noRequirements(p.key.decl) || e.ctx == nil) && nOrders > 0) {
					break // (an operation that declares nothing has no orders to vary; without a Context the order is the tree's own)
				}
				nOrders++
				k := kase{decl: p.key.decl, mode: p.key.mode, reg: p.key.reg, undef: p.key.undef, nalts: st.n, alts: ord, wiring: p.key.wiring, naming: p.key.naming}
				cur = k
				var auths middleware.RouteAuthenticators
				authOwned, handlerOwned, haveAuth, haveHandler := false, false, false, false
				for _, j := range p.jobs {
					if int(st.n) > j.maxAlts {
						continue
					}
					k.level = j.level
					if j.level != lvlHandler && e.ctx == nil {
						continue
					}
					if j.level != lvlHandler && !haveAuth {
						if noRequirements(k.decl) {
							auths, authOwned = e.noneBase.Authenticators, true
						} else {
							auths, authOwned = ordered(e.bases[it.op].Authenticators, k)
						}
						haveAuth = true
					}
					if j.level == lvlHandler && !haveHandler {
						handlerOwned = true
						if e.ctx == nil {
							handlerOwned = noRequirements(k.decl)
						} else if !noRequirements(k.decl) {
							handlerOwned = e.setOrder(it.op, k)
						}
						haveHandler = true
					}
					for vi, v := range vecs[k.mode] {
						k.out = v
						for _, az := range j.azs {
							if (az != azAbsent) != p.key.az {
								continue
							}
							k.az = az
							rests := j.rests
							if j.level != lvlHandler {
								rests = fine
							}
							for _, rest := range rests {
								k.rest = rest
								cur = k
								var o obs
								if j.level != lvlHandler {
									base := e.bases[it.op]
									if noRequirements(k.decl) {
										base = e.noneBase
									}
									if j.level == lvlAuthenticators || j.level == lvlAuthenticator1 {
										o = e.execAuthenticators(base, auths, authOwned, authReq[k.mode][vi][az], j.level == lvlAuthenticator1)
									} else {
										o = e.execAuthorize(base, auths, authOwned, authReq[k.mode][vi][az])
									}
								} else {
									path, cnt := opPath(it.op), it.op
									if noRequirements(k.decl) {
										path, cnt = "/none", len(e.structs)
									}
									o = e.execHandler(cnt, path, k, handlerOwned)
								}
								t.evals++
								if o.authCalls > 0 {
									t.nontrivial++
								}
								if !o.orderOwned {
									t.unowned++
								}
								t.outcomes[label(k, o)]++
								cl := judge(k, o)
								code := uint16(o.kind)<<8 | uint16(o.tag)<<4 | uint16(o.princ+1)
								if cl != "" {
									code = 0xffff
								}
								if nOrders == 1 {
									firstCode = append(firstCode, code)
									differs = append(differs, false)
								} else if ti < len(firstCode) && code != firstCode[ti] && code != 0xffff && firstCode[ti] != 0xffff {
									differs[ti] = true
								}
								ti++
								if cl != "" {
									fa := t.fails[cl]
									if fa == nil {
										fa = &failAgg{}
										t.fails[cl] = fa
									}
									fa.n++
									if len(fa.examples) < 5 {
										fa.examples = append(fa.examples, failEx{k, o})
									}
									// a broken tree fails millions of cases: stop once that is beyond doubt
									// (classes of known findings do not count)
									if !knownClass[cl] && failures.Add(1) > 20000 {
										abort.Store(true)
									}
								}
								if uint64(t.evals)%4099 == uint64(r.Seed)%4099 && r.WantSample() {
									r.Sample(map[string]any{"case": k.toCase(), "observed": o.String()})
								}
							}
						}
					}
				}
			}
			for _, d := range differs {
				if d {
					t.orderDependentAllowed++
				}
			}
			r.Eval(t.evals)
			r.Nontrivial(t.nontrivial)
			for cl, fa := range t.fails {
				whats := make([]string, len(fa.examples))
				cases := make([]Case, len(fa.examples))
				for i, ex := range fa.examples {
					whats[i], cases[i] = explain(ex.k, ex.o), ex.k.toCase()
				}
				if verbose {
					b, _ := json.Marshal(cases[0])
					fmt.Printf("FAIL class=%s n=%d case=%s\n  %s\n", cl, fa.n, b, whats[0])
				}
				for i := int64(0); i < fa.n; i++ {
					x := int(i) % len(cases)
					r.Fail(cl, whats[x], cases[x])
				}
			}
			mu.Lock()
			for l, n := range t.outcomes {
				total.outcomes[l] += n
			}
			total.unowned += t.unowned
			total.orderDependentAllowed += t.orderDependentAllowed
			ordersRun += nOrders
			structsRun++
			mu.Unlock()
		})
		mu.Lock()
		envsBuilt += int64(len(batch))
		mu.Unlock()
	}
	for l, n := range total.outcomes {
		r.Outcome(l.String(), n)
	}
	// the sweeps, as run: one line per (declaration, authenticator kind, level, bound, authorizers, rest), with the
	// number of environments (registered/undefined configuration x authorizer registered or not [x structure, when global])
	for _, p := range plans {
		for _, j := range p.jobs {
			var azs, rests []string
			for _, a := range j.azs {
				if (a != azAbsent) == p.key.az {
					azs = append(azs, azName[a])
				}
			}
			if len(azs) == 0 {
				continue
			}
			for _, x := range j.rests {
				rests = append(rests, restName[x])
			}
			nst := 0
			for _, st := range p.structs {
				if int(st.n) <= j.maxAlts {
					nst++
				}
			}
			axes[fmt.Sprintf("names=%s wiring=%s declared=%s authenticators=%s level=%s structures-per-environment=%d (lists of <=%d) authorizers=%v rest=%v", namingName[p.key.naming], wiringName[p.key.wiring], declName[p.key.decl], modeName[p.key.mode], lvlName[j.level], nst, j.maxAlts, azs, rests)]++
		}
	}
	r.Set("sweeps_environments", axes)
	r.Set("environments_built", envsBuilt)
	r.Set("structure_instances_run", structsRun)
	r.Set("structure_x_order_instances_run", ordersRun)
	r.Set("cases_whose_evaluation_order_could_not_be_owned", total.unowned)
	r.Set("tuples_whose_outcome_differs_between_orders_while_each_is_allowed_by_the_text", total.orderDependentAllowed)
	r.Set("axes", map[string]any{
		"alternatives":              "anonymous or a non-empty subset of {k1,k2,k3}: 8",
		"structures":                map[string]int{"lists_of_1": 8, "lists_of_1_to_2": countStructs(2), "lists_of_1_to_3": countStructs(3)},
		"structure_x_orders":        map[string]int{"lists_of_1_to_2": 16 + 256, "lists_of_1_to_3": 16 + 256 + 4096},
		"outcome_vectors_scripted":  len(vecs[modeRaw]),
		"outcome_vectors_real":      len(vecs[modeReal]),
		"per_scheme_outcomes":       outName,
		"authorizers":               azName,
		"registered_configurations": len(regCfgs(thorough)),
		"rest_of_request":           restName,
		"declarations":              declName,
		"levels":                    lvlName,
		"authenticator_flavours":    modeName,
		"wirings":                   wiringName,
		"namings":                   namingName,
		"scheme_names_per_naming":   schemeNames,
		"scope_stems_per_naming":    scopeStem,
		"common_scopes_per_naming":  commonScope,
	})
	r.Assume("reference model props/c02/model.go (Appendix A.1) is the reading of the property text",
		"scheme k at list position i requires the scopes {k.i} (k1) or {k.i, r} (k2, k3), so every alternative has distinguishable scopes",
		"the evaluation order inside an alternative is set through the exported Schemes slice (Authorize level: private copy; handler level: the router's own entry, confirmed by a second lookup)",
		"what the handler can read is observed on the request its result is answered on (api.ServeError), because an untyped handler does not receive the request")
	if abort.Load() {
		r.Set("stopped_early", "more than 20000 failing cases")
	}
	r.Finish("every requirement structure (ordered list of 1..3 alternatives over {anonymous, non-empty subsets of 3 schemes}; the bound of each sweep is in coverage.sweeps_environments) x every evaluation order of every alternative x every per-scheme outcome vector x authorizer kinds x registered/undefined authenticator configurations, at Context.Authorize, at RouteAuthenticators.Authenticate called directly, and through the handler chain (x rest-of-request variants); x the exported surface, each variant judged by the same reference on a reduced alphabet (coverage.sweeps_environments): 8 wirings of API/context/handler (RegisterAuth and RegisterAuthorizer before or after NewContext, RoutesHandler / APIHandler / APIHandlerSwaggerUI / APIHandlerRapiDoc / middleware.Serve, a typed RoutableAPI with a generated-style handler through NewRoutableContext and NewRoutableContextWithAnalyzedSpec with an explicit DefaultRouter, security.Authorized as authorizer) and 6 authenticator flavours (scripted AuthenticatorFunc; every constructor of package security: APIKeyAuth[Ctx] header and query, BasicAuth[Ctx], BasicAuthRealm[Ctx], BearerAuth[Ctx], HttpAuthenticator, ScopedAuthenticator); (*RouteAuthenticator).Authenticate called directly on one-alternative structures; operations WITHOUT requirements (operation-level empty list over a global structure, no security key at all) next to a secured one, at Authorize and through the untyped, Serve and typed handler chains with all four rest-of-request variants - they must run with no principal; x 10 namings / value classes of the names the description uses and the values the schemes yield (scheme and scope names differing only in ASCII case, prefixes of each other, with . - [ ], with space % / : # ? & = + * , ;, k vs KELVIN SIGN and non-ASCII case pairs and a rune beyond the BMP, 300-byte names, leading/trailing space; empty scope lists; non-nil zero-value principals (empty string, 0, false); a rejection that also returns a principal), the reference working on indices so that names only have to be distinct byte strings; one evaluation = one Authorize call or one request on the real code compared with the reference; non-trivial = at least one authenticator logged a call (the plain, context-less callbacks of package security cannot log and are not counted); the enumerator never repeats a (environment, structure, order, vector, authorizer, rest, level) tuple", !abort.Load() && !incomplete.Load())
}
