package main

// bufPipe is an in-memory full-duplex connection like net.Pipe, but with buffered
// (never blocking) writes, i.e. with the behaviour of a socket for the few kilobytes
// of a handshake. net.Pipe is synchronous: when a TLS client aborts with an alert
// while the server is still writing its flight, both sides sit in Write until a
// deadline - a property of the test pipe, not of the code under test.

import (
	"io"
	"net"
	"os"
	"sync"
	"time"
)

type halfPipe struct {
	mu      sync.Mutex
	cond    *sync.Cond
	buf     []byte
	wclosed bool // the writing end was closed: EOF after the buffer is drained
	rclosed bool // the reading end was closed
	rdl     time.Time
	timer   *time.Timer
}

func newHalf() *halfPipe { h := &halfPipe{}; h.cond = sync.NewCond(&h.mu); return h }

type bufConn struct {
	r, w *halfPipe
}

type pipeAddr struct{}

func (pipeAddr) Network() string { return "bufpipe" }
func (pipeAddr) String() string  { return "bufpipe" }

func bufPipe() (net.Conn, net.Conn) {
	a, b := newHalf(), newHalf()
	return &bufConn{r: a, w: b}, &bufConn{r: b, w: a}
}

func (c *bufConn) Read(p []byte) (int, error) {
	h := c.r
	h.mu.Lock()
	defer h.mu.Unlock()
	for {
		if h.rclosed {
			return 0, io.ErrClosedPipe
		}
		if len(h.buf) > 0 {
			n := copy(p, h.buf)
			h.buf = h.buf[n:]
			return n, nil
		}
		if h.wclosed {
			return 0, io.EOF
		}
		if !h.rdl.IsZero() && !time.Now().Before(h.rdl) {
			return 0, os.ErrDeadlineExceeded
		}
		if len(p) == 0 {
			return 0, nil
		}
		h.cond.Wait()
	}
}

func (c *bufConn) Write(p []byte) (int, error) {
	h := c.w
	h.mu.Lock()
	defer h.mu.Unlock()
	if h.wclosed {
		return 0, io.ErrClosedPipe
	}
	if h.rclosed {
		return 0, io.ErrClosedPipe // the peer is gone
	}
	h.buf = append(h.buf, p...)
	h.cond.Broadcast()
	return len(p), nil
}

func (c *bufConn) Close() error {
	c.r.mu.Lock()
	c.r.rclosed = true
	if c.r.timer != nil {
		c.r.timer.Stop()
	}
	c.r.cond.Broadcast()
	c.r.mu.Unlock()
	c.w.mu.Lock()
	c.w.wclosed = true
	c.w.cond.Broadcast()
	c.w.mu.Unlock()
	return nil
}

func (c *bufConn) LocalAddr() net.Addr  { return pipeAddr{} }
func (c *bufConn) RemoteAddr() net.Addr { return pipeAddr{} }

func (c *bufConn) SetDeadline(t time.Time) error { return c.SetReadDeadline(t) }
func (c *bufConn) SetReadDeadline(t time.Time) error {
	h := c.r
	h.mu.Lock()
	defer h.mu.Unlock()
	h.rdl = t
	if h.timer != nil {
		h.timer.Stop()
		h.timer = nil
	}
	if !t.IsZero() {
		h.timer = time.AfterFunc(time.Until(t), func() {
			h.mu.Lock()
			h.cond.Broadcast()
			h.mu.Unlock()
		})
	}
	h.cond.Broadcast()
	return nil
}
func (c *bufConn) SetWriteDeadline(time.Time) error { return nil } // writes never block
