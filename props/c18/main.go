// C18 - TLS client options never weaken verification or drop identity silently.
//
// Bounded exhaustive enumeration (E1) of the option lattice of
// client.TLSClientAuth / TLSTransport / TLSClient on the real code:
//
//	sweep A (fields)      full product of all option slots x entry point; every returned
//	                      *tls.Config (or error) is compared with the reference in oracle.go
//	sweep B1 (identity)   every identity combination x a few root/flag baselines x every server
//	                      scenario: real handshakes over net.Pipe against an in-process tls.Server
//	sweep B2 (verify)     a few identities x every root combination x every flag combination x
//	                      every server scenario, through tls.Client and through http.Client.Do
//
// All key material is generated in-process into /verif/.work/c18-* and removed at exit.
package main

import (
	"crypto/tls"
	"crypto/x509"
	"fmt"
	"os"
	"path/filepath"
	"strings"
	"sync"
	"sync/atomic"

	"verif/engine/enum"
	"verif/engine/report"
)

var M *material

// check executes one case on the real code: one call for the field oracle, then one
// fresh call per handshake scenario. Pure function of the case (material is addressed by name).
type stats struct {
	evals, nontrivial, handshakes, unreproduced int64
	outcomes                                    map[string]int64
	dir                                         string // directory for the private paths of histories ("" = the material directory)
}

func check(c Case, st *stats) (fs []fail) {
	rf := reference(c.Opts)
	o := build(c)
	st.evals++
	fs = judgeFields(c, rf, o)
	// outcome of the call, and did it reach a discriminating clause
	switch {
	case o.panicked != "":
		st.outcomes["panic"]++
	case o.err != nil:
		st.outcomes[errClass(o.err)]++
		if rf.certSupplied && len(rf.acceptable) == 0 {
			st.nontrivial++ // the negative space: an error is demanded
		}
	case o.opaque:
		st.outcomes["opaque-transport"]++
	case o.cfg != nil:
		st.nontrivial++
		l := "config"
		if len(o.cfg.Certificates) > 0 {
			l += "+cert"
		}
		switch {
		case o.cfg.RootCAs == nil:
			l += "/system-roots"
		default:
			l += "/own-roots"
		}
		if o.cfg.InsecureSkipVerify {
			l += "/skip-verify"
		}
		st.outcomes[l]++
		// readings the text leaves open and the oracle therefore accepts (MAY), made visible:
		if len(rf.rootMay) > 0 && o.cfg.RootCAs != nil && len(o.cfg.RootCAs.Subjects()) == len(rf.rootMust) { //nolint:staticcheck
			st.outcomes["may:ca-file-not-trusted-next-to-loaded-ca"]++
		}
		if len(rf.acceptable) == 2 {
			st.outcomes["may:file-pair-and-loaded-pair-both-usable-one-presented"]++
		}
		if !rf.certSupplied && (c.KeyFile != "" || c.LoadedKey != "") {
			st.outcomes["may:key-without-certificate-ignored-no-error"]++
		}
		if c.CAFile == "garbage" && c.LoadedCA == "" {
			st.outcomes["may:ca-file-without-certificates-gives-empty-pool-no-error"]++
		}
		if bundleCertAfterForeign(c.CAFile) {
			st.outcomes["config-from-ca-bundle-with-certificate-after-foreign-block"]++
		}
		if len(caFileMay(c.CAFile)) > 0 && len(rf.rootMay) > 0 && o.cfg.RootCAs != nil && len(o.cfg.RootCAs.Subjects()) == len(rf.rootMust) { //nolint:staticcheck
			st.outcomes["may:certificate-block-with-headers-not-trusted"]++
		}
		if c.Insecure && c.ServerName == "" && !o.cfg.InsecureSkipVerify {
			st.outcomes["may:requested-skip-not-applied"]++
		}
	}
	if o.err != nil || o.panicked != "" || o.opaque || o.cfg == nil {
		return fs
	}
	for _, scen := range c.Scenarios {
		if _, err := parseScenario(scen); err != nil {
			fs = append(fs, fail{"harness/bad-scenario", err.Error(), c})
			return fs
		}
		one := func() (string, string, hsResult) {
			oo := build(c) // fresh configuration, cache and counters for every connection
			st.evals++
			if oo.err != nil || oo.panicked != "" || oo.cfg == nil {
				return "nondeterministic-entry-point", fmt.Sprintf("a second identical call behaved differently: err=%v panic=%q", oo.err, oo.panicked), hsResult{}
			}
			if c.HTTP && oo.tr == nil {
				return "harness/http-without-transport", "HTTP mode needs via=transport|client", hsResult{}
			}
			h := handshake(c, oo, scen)
			st.handshakes++
			cl, what := judgeHandshake(c, rf, scen, h)
			return cl, what, h
		}
		cl, what, h := one()
		st.outcomes[h.label()]++
		if cl != "" {
			// a behavioural failure is reported only if it reproduces on 3 of 3 executions
			for i := 0; i < 2 && cl != ""; i++ {
				cl2, _, _ := one()
				if cl2 != cl {
					cl = ""
				}
			}
			if cl == "" {
				st.unreproduced++
				continue
			}
			fc := c
			fc.Scenarios = []string{scen}
			fs = append(fs, fail{cl, what, fc})
		}
	}
	return fs
}

// ---- harness self test: the scenarios discriminate (a vacuous server would pass everything) ---

func selfTest() error {
	pool := x509.NewCertPool()
	pool.AddCert(M.caCert["A"])
	try := func(scen string, cfg *tls.Config) hsResult {
		o := &obs{cfg: cfg, env: &caseEnv{}}
		return handshake(Case{}, o, scen)
	}
	if h := try("A/srv.test", &tls.Config{RootCAs: pool}); !h.ok || h.version != tls.VersionTLS13 {
		return fmt.Errorf("control handshake with a trusted server failed: %v / %v", h.err, h.srvErr)
	}
	if h := try("U/srv.test", &tls.Config{RootCAs: pool}); h.ok {
		return fmt.Errorf("control handshake with an untrusted server succeeded")
	}
	if h := try("A/other.test", &tls.Config{RootCAs: pool}); h.ok {
		return fmt.Errorf("control handshake with a wrongly named server succeeded")
	}
	if h := try("SYS/srv.test", &tls.Config{}); !h.ok {
		return fmt.Errorf("system pool is not {SYS}: %v", h.err)
	}
	if h := try("A/srv.test", &tls.Config{}); h.ok {
		return fmt.Errorf("system pool trusts A")
	}
	// the old-protocol server really completes a TLS 1.1 handshake with a client that allows it
	if h := try("A/srv.test/old", &tls.Config{RootCAs: pool, MinVersion: tls.VersionTLS10}); !h.ok || h.version != tls.VersionTLS11 {
		return fmt.Errorf("old-protocol control handshake failed: ok=%v version=%#x err=%v / %v", h.ok, h.version, h.err, h.srvErr)
	}
	if h := try("A/srv.test/old", &tls.Config{RootCAs: pool, MinVersion: tls.VersionTLS12}); h.ok {
		return fmt.Errorf("old-protocol server accepted by a TLS 1.2 client")
	}
	// client certificate is seen by the server
	kp := tls.Certificate{Certificate: [][]byte{M.clientCert["R1"].Raw}, PrivateKey: M.keys["R1"]}
	if h := try("A/srv.test", &tls.Config{RootCAs: pool, Certificates: []tls.Certificate{kp}}); !h.ok || !sameNames(chainNames(h.peer), []string{"R1"}) {
		return fmt.Errorf("client certificate control failed: %v %v", h.err, chainNames(h.peer))
	}
	return nil
}

// ---- axes ---------------------------------------------------------------------------------

type axes struct {
	certFile, keyFile, loadedCert, loadedKey []string
	caFile, loadedCA, pool                   []string
	serverName                               []string
	callback                                 []string
	tickets, cache, insecure                 []bool
	via                                      []string
}

type identity struct{ cf, kf, lc, lk string }
type roots struct{ ca, lca, pool string }
type flags struct {
	sn       string
	insecure bool
	cb       string
	tk, ch   bool
}

func (a axes) identities() (out []identity) {
	for _, cf := range a.certFile {
		for _, kf := range a.keyFile {
			for _, lc := range a.loadedCert {
				for _, lk := range a.loadedKey {
					out = append(out, identity{cf, kf, lc, lk})
				}
			}
		}
	}
	return
}
func (a axes) roots() (out []roots) {
	for _, ca := range a.caFile {
		for _, l := range a.loadedCA {
			for _, p := range a.pool {
				out = append(out, roots{ca, l, p})
			}
		}
	}
	return
}
func (a axes) flags() (out []flags) {
	for _, sn := range a.serverName {
		for _, in := range a.insecure {
			for _, cb := range a.callback {
				for _, tk := range a.tickets {
					for _, ch := range a.cache {
						out = append(out, flags{sn, in, cb, tk, ch})
					}
				}
			}
		}
	}
	return
}

func mk(via string, id identity, ro roots, fl flags) Case {
	return Case{Via: via, Opts: Opts{CertFile: id.cf, KeyFile: id.kf, LoadedCert: id.lc, LoadedKey: id.lk,
		CAFile: ro.ca, LoadedCA: ro.lca, Pool: ro.pool,
		ServerName: fl.sn, Insecure: fl.insecure, Callback: fl.cb, TicketsDisabled: fl.tk, Cache: fl.ch}}
}

var bools = []bool{false, true}

func main() {
	r := report.Start("C18", "exploration")
	var err error
	M, err = genMaterial()
	exit := func(code int, msg string) {
		M.cleanup()
		fmt.Fprintln(os.Stderr, msg)
		os.Exit(code)
	}
	if err != nil {
		exit(2, "c18: cannot generate material: "+err.Error())
	}
	if err := selfTest(); err != nil {
		exit(2, "c18: harness self test failed (internal error, not a verdict): "+err.Error())
	}

	if r.Replay != "" {
		var c Case
		r.LoadReplay(&c)
		st := &stats{outcomes: map[string]int64{}}
		if len(c.Steps) > 0 {
			fmt.Printf("replay of a history of %d steps (mirror=%v)\n", len(c.Steps), c.Mirror)
			for i, s := range c.Steps {
				e := effective(s)
				rf := reference(e.Opts)
				fmt.Printf("  step %d: disk=%+v via=%s opts=%+v\n    reference for what is on disk now: acceptable certificates=%v error allowed=%v roots must=%s may=%s\n", i+1, s.Disk, s.Via, s.Opts, rf.acceptable, rf.errAllowed, set(rf.rootMust), set(rf.rootMay))
			}
			fs := checkHistory(c, st)
			for _, f := range fs {
				fmt.Printf("  class=%q %s\n", f.class, f.what)
				r.Fail(f.class, f.what, f.c)
			}
			if len(fs) == 0 {
				fmt.Println("  oracle satisfied at every call")
			}
			for k, v := range st.outcomes {
				fmt.Printf("  outcome %s x%d\n", k, v)
				r.Outcome(k, v)
			}
			r.Eval(st.evals)
			r.Nontrivial(st.nontrivial)
			r.Sample(c)
			M.cleanup()
			r.Finish("replay of one history", false)
		}
		rf := reference(c.Opts)
		fmt.Printf("replay %+v\n  reference: certificate supplied=%v acceptable=%v error allowed=%v (%s) roots: slot=%v must=%s may=%s skip allowed=%v\n",
			c, rf.certSupplied, rf.acceptable, rf.errAllowed, rf.errWhy, rf.rootSlot, set(rf.rootMust), set(rf.rootMay), rf.skipAllowed)
		o := build(c)
		switch {
		case o.panicked != "":
			fmt.Printf("  observed: panic %s\n", o.panicked)
		case o.err != nil:
			fmt.Printf("  observed: error %v\n", o.err)
		case o.cfg != nil:
			var sub []string
			if o.cfg.RootCAs != nil {
				for _, s := range o.cfg.RootCAs.Subjects() { //nolint:staticcheck
					sub = append(sub, M.subject[string(s)])
				}
			}
			var certs [][]string
			for _, tc := range o.cfg.Certificates {
				certs = append(certs, chainNames(tc.Certificate))
			}
			fmt.Printf("  observed: MinVersion=%#04x InsecureSkipVerify=%v ServerName=%q RootCAs(nil=%v)=%v Certificates=%v callback set=%v tickets disabled=%v cache set=%v\n",
				o.cfg.MinVersion, o.cfg.InsecureSkipVerify, o.cfg.ServerName, o.cfg.RootCAs == nil, sub, certs, o.cfg.VerifyPeerCertificate != nil, o.cfg.SessionTicketsDisabled, o.cfg.ClientSessionCache != nil)
		default:
			fmt.Printf("  observed: no error, no inspectable configuration (opaque=%v)\n", o.opaque)
		}
		fs := check(c, st)
		for _, f := range fs {
			fmt.Printf("  class=%q %s\n", f.class, f.what)
			r.Fail(f.class, f.what, f.c)
		}
		if len(fs) == 0 {
			fmt.Println("  oracle satisfied")
		}
		for k, v := range st.outcomes {
			fmt.Printf("  outcome %s x%d\n", k, v)
			r.Outcome(k, v)
		}
		r.Eval(st.evals)
		r.Nontrivial(st.nontrivial)
		r.Sample(c)
		M.cleanup()
		r.Finish("replay of one case", false)
	}

	// ---- alphabets
	var full, hsIdent, hsVerify axes
	if r.Thorough() {
		full = axes{
			certFile:   []string{"", "R1", "E1", "D1", "chain", "missing", "garbage", "dir"},
			keyFile:    []string{"", "kR1", "kR1p8", "kR2", "kE1", "kE2", "kD1", "missing", "garbage"},
			loadedCert: []string{"", "R1", "E1", "D1"},
			loadedKey:  []string{"", "kR1", "kR2", "kE1", "kE2", "kD1", "wE1"},
			caFile:     []string{"", "A", "AB", "mixed", "garbage", "missing", "dir"},
			loadedCA:   []string{"", "C"},
			pool:       []string{"", "empty", "P", "PA"},
			serverName: []string{"", "srv.test", "other.test", " Srv.Test. "},
			callback:   []string{"", "accept", "reject"},
			insecure:   bools, tickets: bools, cache: bools,
			via: []string{"auth", "transport", "client"},
		}
		hsIdent = full
		hsVerify = full
		hsVerify.serverName = []string{"", "srv.test", "other.test"}
		hsVerify.tickets = []bool{false}
	} else {
		full = axes{
			certFile:   []string{"", "R1", "E1", "missing"},
			keyFile:    []string{"", "kR1", "kE1", "kE2", "missing"},
			loadedCert: []string{"", "R1", "E1"},
			loadedKey:  []string{"", "kR1", "kE1", "kE2", "kD1"},
			caFile:     []string{"", "A", "garbage", "missing"},
			loadedCA:   []string{"", "C"},
			pool:       []string{"", "empty", "P"},
			serverName: []string{"", "srv.test", "other.test"},
			callback:   []string{"", "accept", "reject"},
			insecure:   bools, tickets: bools, cache: bools,
			via: []string{"auth", "client"}, // TLSClient is built on TLSTransport
		}
		hsIdent = full
		hsVerify = full
		hsVerify.tickets, hsVerify.cache = []bool{false}, []bool{false}
	}
	scen := allScenarios()

	type shard struct {
		sweep string
		id    identity
		ro    roots
		fl    []flags
		modes []mode
	}
	var shards []shard
	// sweep A
	flA := full.flags()
	var modesA []mode
	for _, v := range full.via {
		modesA = append(modesA, mode{v, false, nil})
	}
	// thorough: TLSClientAuth over the full identity alphabet; the two wrappers over the full
	// product of the smaller (quick) identity alphabet x all roots x all flags
	in := func(x string, set ...string) bool {
		for _, y := range set {
			if x == y {
				return true
			}
		}
		return false
	}
	smallID := func(id identity) bool {
		return in(id.cf, "", "R1", "E1", "missing", "garbage") && in(id.kf, "", "kR1", "kE1", "kE2", "missing") &&
			in(id.lc, "", "R1", "E1") && in(id.lk, "", "kR1", "kE1", "kE2", "kD1")
	}
	wrapperIDs := 0
	for _, id := range full.identities() {
		modes := modesA
		if r.Thorough() {
			if smallID(id) {
				wrapperIDs++
			} else {
				modes = modesA[:1]
			}
		} else {
			wrapperIDs++
		}
		for _, ro := range full.roots() {
			shards = append(shards, shard{"A", id, ro, flA, modes})
		}
	}
	nA := len(shards)
	// sweep B1: every identity x baseline roots x baseline flags x all scenarios, TLSClientAuth + http.Client
	b1roots := []roots{{"A", "", ""}, {"", "C", "P"}, {"", "", ""}}
	b1flags := []flags{{"", false, "", false, false}, {"srv.test", true, "accept", false, true}, {"", true, "", true, false}}
	b1modes := []mode{{"auth", false, scen}, {"client", true, []string{"A/srv.test", "C/srv.test", "SYS/srv.test", "U/srv.test", "P/other.test"}}}
	for _, id := range hsIdent.identities() {
		for _, ro := range b1roots {
			shards = append(shards, shard{"B1", id, ro, b1flags, b1modes})
		}
	}
	nB1 := len(shards) - nA
	// sweep B2: few identities x every root combination x every flag combination x all scenarios
	b2ids := []identity{{"", "", "", ""}, {"", "", "E1", "kE1"}} // (RSA and file identities meet every scenario in B1)
	few := []string{"A/srv.test", "A/other.test", "C/srv.test", "P/srv.test", "SYS/srv.test", "U/srv.test", "A/srv.test/old", "A/srv.test/tls12"}
	some := append(append([]string{}, scen[:12]...), "A/srv.test/old", "A/srv.test/tls12") // every issuer x name, one old, one TLS 1.2 server
	b2modes := []mode{{"auth", false, scen}, {"client", true, some}, {"transport", true, few}}
	if !r.Thorough() {
		b2modes = []mode{{"auth", false, scen}, {"client", true, few}}
	}
	flB2 := hsVerify.flags()
	for _, id := range b2ids {
		for _, ro := range full.roots() {
			shards = append(shards, shard{"B2", id, ro, flB2, b2modes})
		}
	}
	nB2 := len(shards) - nA - nB1

	// sweep E: edge values of the server name, judged by the same reference (carried byte-exact,
	// verification never skipped next to it, handshake outcome three-valued in the name match)
	names := edgeServerNames(r.Thorough())
	var flE, flEh []flags
	for _, sn := range names {
		for _, in := range bools {
			for _, cb := range []string{"", "accept"} {
				for _, ch := range bools {
					flE = append(flE, flags{sn, in, cb, false, ch})
				}
			}
			flEh = append(flEh, flags{sn, in, "", false, false})
		}
	}
	eids := []identity{{"", "", "", ""}, {"", "", "E1", "kE1"}, {"R1", "kR1", "", ""}}
	for _, id := range eids {
		for _, ro := range full.roots() {
			shards = append(shards, shard{"E", id, ro, flE, modesA})
		}
	}
	escen := edgeScenarios()
	for _, id := range eids[:2] {
		for _, ro := range b1roots {
			shards = append(shards, shard{"E", id, ro, flEh, []mode{{"auth", false, escen}, {"client", true, escen}}})
		}
	}
	nE := len(shards) - nA - nB1 - nB2
	// sweep F: edge shapes of the files (several blocks in either order, text before the block,
	// CRLF, garbage after the block, empty file, odd paths) in every file slot, full product of the
	// stated variant alphabets x loaded CA x pool, fields through every entry point + handshakes
	fCert := []string{"E1", "E1lead", "E1crlf", "E1trail", "empty", "space", "nulpath"}
	fKey := []string{"kE1", "kE1lead", "kE1crlf", "kE1trail", "empty", "kE2"}
	fCA := []string{"A", "AB", "BA", "lead", "crlf", "trail", "empty", "space", "nulpath", "unipath"}
	flF := []flags{{"", false, "", false, false}, {"srv.test", true, "accept", false, true}}
	modesF := append(append([]mode{}, modesA...), mode{"auth", false, []string{"A/srv.test", "B/srv.test", "U/srv.test"}})
	fids := []identity{{"", "", "", ""}}
	for _, cf := range fCert {
		for _, kf := range fKey {
			fids = append(fids, identity{cf, kf, "", ""})
		}
	}
	for _, id := range fids {
		for _, ca := range fCA {
			for _, lca := range []string{"", "C"} {
				for _, pool := range []string{"", "P"} {
					shards = append(shards, shard{"F", id, roots{ca, lca, pool}, flF, modesF})
				}
			}
		}
	}
	nF := len(shards) - nA - nB1 - nB2 - nE
	// sweep G: shape and order of the CA bundle: every sequence with repetition of 1..3 blocks of
	// the block alphabet (two authorities, text, three kinds of foreign block, a certificate block
	// with headers, an unparsable certificate block) x loaded CA x pool x 2 flag sets, fields
	// through every entry point + handshakes with servers of both authorities and of an unsupplied one
	gNames := bundleNames()
	for _, ca := range gNames {
		for _, lca := range []string{"", "C"} {
			for _, pool := range []string{"", "P"} {
				shards = append(shards, shard{"G", identity{}, roots{ca, lca, pool}, flF, modesF})
			}
		}
	}
	nG := len(shards) - nA - nB1 - nB2 - nE - nF
	r.Set("sweep_G_ca_bundle_shape_and_order", map[string]any{"block_alphabet": bundleTokens, "block_alphabet_meaning": "A,B plain CERTIFICATE blocks of two authorities; T text that is not PEM; P EC PARAMETERS; L X509 CRL; K EC PRIVATE KEY; H CERTIFICATE block with PEM headers; Z CERTIFICATE block without a certificate inside",
		"max_blocks": bundleMaxBlocks, "bundles": len(gNames), "loaded_ca": 2, "pool": 2, "flags": len(flF), "modes": len(modesF), "handshake_scenarios": modesF[len(modesF)-1].scen})
	r.Set("sweep_E_edge_server_names", map[string]any{"names": names, "field_cases": len(flE) * len(eids) * len(full.roots()) * len(modesA), "handshake_configs": len(flEh) * 2 * len(b1roots) * 2, "scenarios": escen})
	r.Set("sweep_F_edge_file_shapes", map[string]any{"cert_file": fCert, "key_file": fKey, "ca_file": fCA, "identities": len(fids), "roots": len(fCA) * 4, "flags": len(flF), "modes": len(modesF)})

	r.Set("axis_cert_file", full.certFile)
	r.Set("axis_key_file", full.keyFile)
	r.Set("axis_loaded_cert", full.loadedCert)
	r.Set("axis_loaded_key", full.loadedKey)
	r.Set("axis_ca_file", full.caFile)
	r.Set("axis_loaded_ca", full.loadedCA)
	r.Set("axis_pool", full.pool)
	r.Set("axis_server_name", full.serverName)
	r.Set("axis_callback", full.callback)
	r.Set("axis_entry_point", full.via)
	r.Set("axis_scenarios", scen)
	r.Set("sweep_A_fields", map[string]int{"identities": len(full.identities()), "identities_also_through_wrappers": wrapperIDs, "roots": len(full.roots()), "flags": len(flA), "entry_points": len(modesA),
		"cases": (len(full.identities()) + wrapperIDs*(len(modesA)-1)) * len(full.roots()) * len(flA)})
	r.Set("sweep_B1_identity_handshakes", map[string]int{"identities": len(hsIdent.identities()), "roots": len(b1roots), "flags": len(b1flags), "modes": len(b1modes), "scenarios": len(scen)})
	r.Set("sweep_B2_verification_handshakes", map[string]int{"identities": len(b2ids), "roots": len(full.roots()), "flags": len(flB2), "modes": len(b2modes), "scenarios": len(scen)})
	r.Set("shards", map[string]int{"A": nA, "B1": nB1, "B2": nB2, "E": nE, "F": nF, "G": nG})

	// debugging aid (never set by registered commands): C18_SWEEPS=A,B1,B2 restricts the run; such a run is not exhaustive
	restricted := false
	if only := os.Getenv("C18_SWEEPS"); only != "" {
		restricted = true
		var keep []shard
		for _, sh := range shards {
			if strings.Contains(","+only+",", ","+sh.sweep+",") {
				keep = append(keep, sh)
			}
		}
		shards = keep
	}
	var mu sync.Mutex
	var handshakes, unreproduced int64
	n := len(shards)
	rot := int(r.Seed % 1000003)
	if rot < 0 {
		rot = -rot
	}
	// samples: about 5 field cases spread over sweep A and up to 5 handshake cases that returned a configuration
	stride := n/5 + 1
	var bSamples atomic.Int32
	enum.Parallel(n, r.OutOfTime, func(i int) {
		sh := shards[(i+rot%n)%n]
		st := &stats{outcomes: map[string]int64{}}
		for fi, fl := range sh.fl {
			for mi, md := range sh.modes {
				c := mk(md.via, sh.id, sh.ro, fl)
				c.HTTP = md.http
				c.Scenarios = md.scen
				hs0 := st.handshakes
				for _, f := range check(c, st) {
					r.Fail(f.class, f.what, f.c)
				}
				switch {
				case sh.sweep == "A" && i%stride == 0 && fi == (i/stride*29+41+int(r.Seed%7))%len(sh.fl) && mi == len(sh.modes)-1:
					r.Sample(c)
				case sh.sweep != "A" && st.handshakes > hs0 && (i+fi)%5 == 2 && bSamples.Add(1) <= 4:
					r.Sample(c)
				}
			}
		}
		r.Eval(st.evals)
		r.Nontrivial(st.nontrivial)
		for k, v := range st.outcomes {
			r.Outcome(k, v)
		}
		mu.Lock()
		handshakes += st.handshakes
		unreproduced += st.unreproduced
		mu.Unlock()
	})
	// ---- history dimension
	var histSeqs, histCalls int64
	if !restricted || strings.Contains(","+os.Getenv("C18_SWEEPS")+",", ",H,") {
		// (1) order reversal: one list of colliding cases forward and backward, sequentially
		ml := mirrorList(r.Thorough())
		{
			st := &stats{outcomes: map[string]int64{}}
			mc := Case{Steps: ml, Mirror: true}
			for _, f := range checkHistory(mc, st) {
				r.Fail(f.class, f.what, f.c)
			}
			r.Eval(st.evals)
			r.Nontrivial(st.nontrivial)
			for k, v := range st.outcomes {
				r.Outcome(k, v)
			}
			histSeqs++
			histCalls += st.evals
		}
		r.Set("history_order_reversal", map[string]int{"list_length": len(ml), "calls": 2 * len(ml)})
		// (2) every ordered tuple (with repetition) of 2..depth steps of each family's alphabet
		fams := histFamilies(r.Thorough())
		type hshard struct {
			f    *histFamily
			pre  []int // first len(pre) steps fixed, the last one varies inside the shard
			last bool
		}
		var hs []hshard
		famInfo := map[string]any{}
		for fi := range fams {
			f := &fams[fi]
			n := len(f.alphabet)
			total := 0
			for i := 0; i < n; i++ {
				hs = append(hs, hshard{f: f, pre: []int{i}})
				total += n
				if f.depth >= 3 {
					for j := 0; j < n; j++ {
						hs = append(hs, hshard{f: f, pre: []int{i, j}})
						total += n
					}
				}
			}
			famInfo[f.name] = map[string]any{"step_alphabet": n, "max_length": f.depth, "sequences": total, "scenarios_on_last_call_of_pairs": f.scenarios}
		}
		r.Set("history_families", famInfo)
		r.Set("history_step_alphabets", "H-CA: CA path content {A,B,(AB),garbage,absent} x options {CA=@, CA=@+pool P, CA=@+LoadedCA C, no roots} x entry point; H-ID: certificate path {R1,E1,garbage,absent} x key path {kR1,kE1,kE2,(garbage),absent} x options {Certificate=@,Key=@,CA=A} x entry point; H-X: CA {A,B,absent} x certificate {R1,E1,absent} x key {kR1,kE1,absent} x 2 option sets x entry point (pairs only); '@' = the sequence's own path, content rewritten in place or removed before each call")
		var hSamples atomic.Int32
		enum.Parallel(len(hs), r.OutOfTime, func(i int) {
			sh := hs[(i+rot)%len(hs)]
			st := &stats{outcomes: map[string]int64{}}
			// a directory per shard: workers do not contend for one directory lock
			st.dir = filepath.Join(M.dir, fmt.Sprintf("hd%d", i))
			if err := os.Mkdir(st.dir, 0o755); err != nil {
				st.dir = ""
			} else {
				defer os.Remove(st.dir)
			}
			var seqs int64
			for k := range sh.f.alphabet {
				steps := make([]Step, 0, len(sh.pre)+1)
				for _, p := range sh.pre {
					steps = append(steps, sh.f.alphabet[p])
				}
				lastStep := sh.f.alphabet[k]
				if len(sh.pre) == 1 {
					lastStep.Scenarios = sh.f.scenarios
				}
				steps = append(steps, lastStep)
				c := Case{Steps: steps}
				for _, f := range checkHistory(c, st) {
					r.Fail(f.class, f.what, f.c)
				}
				seqs++
				if (i*31+k)%997 == int(r.Seed%997+997)%997 && hSamples.Add(1) <= 3 {
					r.Sample(c)
				}
			}
			r.Eval(st.evals)
			r.Nontrivial(st.nontrivial)
			for k, v := range st.outcomes {
				r.Outcome(k, v)
			}
			mu.Lock()
			handshakes += st.handshakes
			histSeqs += seqs
			histCalls += st.evals
			mu.Unlock()
		})
	}
	r.Set("history_sequences", histSeqs)
	r.Set("history_calls", histCalls)
	r.Set("handshakes", handshakes)
	r.Set("behavioural_failures_not_reproduced_3_of_3", unreproduced)
	if unreproduced > 0 {
		fmt.Fprintf(os.Stderr, "c18: warning: %d behavioural failures did not reproduce and were dropped\n", unreproduced)
	}
	r.Assume(
		"the reference (props/c18/oracle.go: reference, judgeFields, judgeHandshake) is the reading of the property text; what the text leaves open is MAY",
		"crypto/tls and crypto/x509 of the toolchain behave as documented (they execute the handshakes and are not under test)",
		"the system pool of the check process is {SYS} (SSL_CERT_FILE/SSL_CERT_DIR set before first use; asserted by the start-up self test)",
		"http.Transport semantics are emulated for tls.Client handshakes by cloning the returned configuration and defaulting ServerName to the dialled host; the HTTP mode uses the returned transport itself",
	)
	M.cleanup()
	r.Finish("sweep A: full product certificate file x key file x loaded certificate x loaded key x CA file x loaded CA x pool x server name x insecure x callback x tickets x cache (x entry point: quick = TLSClientAuth and TLSClient over everything; thorough = TLSClientAuth over everything, TLSTransport and TLSClient over the full product restricted to a 375-identity sub-alphabet), one call of the real entry point each, every field clause judged; sweeps B1/B2: the stated sub-products x server scenarios, a fresh call of the entry point plus one real TLS handshake over a buffered in-memory pipe against an in-process tls.Server each (through tls.Client on the returned configuration, or through http.Client.Do / RoundTrip of the returned object). evaluations = calls of TLSClientAuth/TLSTransport/TLSClient. non-trivial = first call of a case that returned a configuration (all field clauses evaluated) or returned an error where the reference demands one (certificate supplied, no usable pair); cases are distinct by construction (the enumerators never repeat an (options, entry point, mode) tuple within a sweep). sweep E (edge values of the server name: IP literals v4/v6/v4-mapped/bracketed, trailing dot, case variants, punycode and raw IDN, runes beyond the BMP, space/NUL/CR LF/TAB/DEL, invalid UTF-8, BOM, U+2028, syntax look-alikes, prefixes, over-long names) x insecure x callback x cache x 3 identities x every root combination x entry point for the fields, and x 3 root baselines x 7 servers (DNS- and IP-named certificates of a supplied and of an unsupplied issuer) for handshakes, the name match being three-valued (byte-equal MUST, equal after case/trailing-dot/bracket/IPv4-mapped folding MAY, else MUST NOT); sweep F (edge shapes of files: bundles in either order, explanatory text before the block, CRLF, garbage after the block, empty file, single-space path, NUL in the path, valid bundle at a path with spaces and non-ASCII) full product certificate file x key file x CA file x loaded CA x pool x 2 flag sets x entry point + handshakes; sweep G (shape and order of the CA bundle: every sequence with repetition of 1..3 blocks out of {certificate A, certificate B, non-PEM text, EC PARAMETERS block, X509 CRL block, private-key block, CERTIFICATE block with headers, CERTIFICATE block without a certificate inside} = 584 bundle files) x loaded CA x pool x 2 flag sets x entry point + handshakes against servers of A, B and an unsupplied authority: every plain certificate block MUST be trusted wherever it stands, the block with headers MAY be, nothing else, an error is MAY as soon as a foreign block is present. history sweeps H-CA/H-ID/H-X: every ordered tuple with repetition of 2..3 (H-X: 2) steps of the stated step alphabets, executed as consecutive calls in one process on paths private to the sequence whose content is rewritten in place, made garbage or removed before each call; every call is judged with the per-call oracle for the material on disk at that moment, configurations returned earlier are re-judged after every later call, pairs additionally run handshakes on the last call; order reversal: one list of colliding cases over static files run forward and backward in one history, same result per case demanded", !restricted)
}

// edgeServerNames: representatives of the value classes a server name can take. The reference
// treats every one the same way: carried byte for byte, and verification is on next to it.
func edgeServerNames(thorough bool) []string {
	l := []string{
		"192.0.2.10", "2001:db8::1", // IP literals that certificates of the scenarios carry
		"127.0.0.1", "::1", "::ffff:192.0.2.10", "[2001:db8::1]", // loopback, IPv4-mapped IPv6, bracketed
		"srv.test.", "SRV.TEST", "Srv.Test", // trailing dot, case variants
		"xn--bcher-kva.test", "b\u00fccher.test", "\U0001F600.test", // punycode, raw IDN, beyond the BMP
		" ", "srv.test ", "srv.test\x00", "srv.test\r\nx: y", "srv\t.test", "\x7f", // space, NUL, CR LF, TAB, DEL
		"\xff\xfe.test", "\ufeffsrv.test", "srv\u2028.test", // invalid UTF-8, BOM, line separator
		"*.test", "*", "srv.test:443", "https://srv.test", "%s", "%", "..", "srv.tes", "srv.test.x", "#?&=;,\"\\{}/", // syntax look-alikes, prefixes
		strings.Repeat("a", 63) + ".test", strings.Repeat("a.", 150) + "test", // long label, name beyond 253 bytes
	}
	if thorough {
		l = append(l, "0.0.0.0", "192.0.2.010", "3221225994", "fe80::1%eth0", "::", "2001:DB8::1", "2001:0db8:0000:0000:0000:0000:0000:0001",
			"other.test.", "OTHER.TEST", "-srv.test", "srv_test", "srv..test", ".", ".srv.test", strings.Repeat("x", 70000))
	}
	return l
}

type mode struct {
	via  string
	http bool
	scen []string
}
