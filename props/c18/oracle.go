package main

// Reference model of C18, written from the property text (three-valued) and the
// field-level judge. Nothing here looks at how TLSClientAuth is written.

import (
	"bytes"
	"crypto"
	"crypto/tls"
	"errors"
	"fmt"
	"sort"
	"strings"
)

// Opts is the abstract option set: every slot holds a logical material name.
type Opts struct {
	CertFile        string `json:"cert_file"`        // "", R1, E1, D1, chain, missing, garbage, dir
	KeyFile         string `json:"key_file"`         // "", kR1, kR1p8, kR2, kE1, kE2, kD1, missing, garbage, dir
	LoadedCert      string `json:"loaded_cert"`      // "", R1, E1, D1
	LoadedKey       string `json:"loaded_key"`       // "", kR1, kR2, kE1, kE2, kD1 (ed25519), wE1 (foreign signer type)
	CAFile          string `json:"ca_file"`          // "", A, AB, mixed, garbage, missing, dir, bundle:<blocks> (material.go bundleTokens)
	LoadedCA        string `json:"loaded_ca"`        // "", C
	Pool            string `json:"pool"`             // "", empty, P, PA
	ServerName      string `json:"server_name"`      // byte-exact
	Insecure        bool   `json:"insecure"`         // InsecureSkipVerify requested
	Callback        string `json:"callback"`         // "", accept, reject
	TicketsDisabled bool   `json:"tickets_disabled"` // SessionTicketsDisabled
	Cache           bool   `json:"cache"`            // ClientSessionCache supplied
}

// Case is one replayable element of the explored space.
type Case struct {
	Via string `json:"via"` // auth = TLSClientAuth, transport = TLSTransport, client = TLSClient
	Opts
	// handshake scenarios to run against this configuration ("<CA>/<name>[/old]"); empty = field oracle only
	Scenarios []string `json:"scenarios,omitempty"`
	// HTTP: drive the handshake through http.Client.Do / RoundTrip of the returned object
	// (via transport|client only) instead of tls.Client on the returned configuration
	HTTP bool `json:"http,omitempty"`
	// Steps: a history. The calls are made one after the other in one process; before each call
	// the files at the sequence's own paths are brought to the step's disk state. When Steps is
	// set the top-level option fields are unused.
	Steps []Step `json:"steps,omitempty"`
	// Mirror: run Steps forward and then backward and demand the same result per step both times
	Mirror bool `json:"mirror,omitempty"`
}

type fail struct {
	class, what string
	c           Case
}

// ---- what the material names mean -------------------------------------------------

// certificate list held by a certificate file; nil = no usable certificate
func fileChain(name string) []string {
	switch name {
	case "E1lead", "E1crlf", "E1trail": // the same certificate in an odd but legal PEM shape
		return []string{"E1"}
	case "R1", "E1", "D1":
		return []string{name}
	case "chain":
		return []string{"E1", "CCA"}
	}
	return nil
}

// identity of the key in a key file / loaded key slot ("" = none usable)
func keyIdentity(name string) string {
	switch name {
	case "kR1", "kR1p8":
		return "R1"
	case "kR2":
		return "R2"
	case "kE1", "wE1", "kE1lead", "kE1crlf", "kE1trail":
		return "E1"
	case "kE2":
		return "E2"
	case "kD1":
		return "D1"
	}
	return ""
}

// certificates held by a CA file; ok=false: the file cannot be read at all
func caFileRoots(name string) (roots []string, readable bool) {
	if toks, ok := bundleToks(name); ok {
		// a bundle trusts every plain CERTIFICATE block it lists, wherever it stands in the file
		seen := map[string]bool{}
		for _, t := range toks {
			if (t == "A" || t == "B") && !seen[t] {
				seen[t] = true
				roots = append(roots, t)
			}
		}
		return roots, true
	}
	switch name {
	case "A", "mixed", "lead", "crlf", "trail", "unipath":
		return []string{"A"}, true
	case "BA":
		return []string{"A", "B"}, true
	case "empty":
		return nil, true
	case "B":
		return []string{"B"}, true
	case "AB":
		return []string{"A", "B"}, true
	case "garbage":
		return nil, true
	}
	return nil, false // missing, dir
}

// bundleToks splits the logical name of a generated CA bundle ("bundle:A,P,B") into its blocks.
func bundleToks(name string) ([]string, bool) {
	if !strings.HasPrefix(name, "bundle:") {
		return nil, false
	}
	return strings.Split(strings.TrimPrefix(name, "bundle:"), ","), true
}

// caFileMay: authorities a CA file MAY make trusted: a CERTIFICATE block that carries PEM
// headers is a certificate to some readers and a foreign block to others; the text is silent.
func caFileMay(name string) (out []string) {
	toks, _ := bundleToks(name)
	for _, t := range toks {
		if t == "H" {
			return []string{"B"}
		}
	}
	return nil
}

// bundleForeign: the bundle holds something besides plain certificate blocks (an error is MAY)
func bundleForeign(name string) bool {
	toks, _ := bundleToks(name)
	for _, t := range toks {
		if t != "A" && t != "B" {
			return true
		}
	}
	return false
}

// bundleCertAfterForeign: a plain certificate block stands after a block that is not one
func bundleCertAfterForeign(name string) bool {
	toks, _ := bundleToks(name)
	foreign := false
	for _, t := range toks {
		if t != "A" && t != "B" {
			foreign = true
		} else if foreign {
			return true
		}
	}
	return false
}

func poolRoots(name string) []string {
	switch name {
	case "P":
		return []string{"P"}
	case "PA":
		return []string{"P", "A"}
	}
	return nil
}

// ---- the reference ---------------------------------------------------------------

type ref struct {
	// client identity
	certSupplied bool       // some certificate slot is set
	acceptable   [][]string // certificate lists a returned configuration may present (with the matching key)
	// error
	errAllowed bool   // MAY fail
	errWhy     string // why an error is permitted
	// roots
	rootSlot bool            // some root slot is set
	rootMust map[string]bool // MUST be trusted
	rootMay  map[string]bool // MAY be trusted (CA file next to a LoadedCA: the text does not settle precedence)
	// verification
	skipAllowed bool
}

func reference(o Opts) ref {
	var r ref
	// --- identity. "presents exactly the supplied client certificate. Unusable certificate or
	// key material yields an error, never a configuration that silently lacks the client certificate."
	r.certSupplied = o.CertFile != "" || o.LoadedCert != ""
	fc := fileChain(o.CertFile)
	fileOK := fc != nil && keyIdentity(o.KeyFile) == fc[0]
	loadedOK := o.LoadedCert != "" && keyIdentity(o.LoadedKey) == o.LoadedCert
	if fileOK {
		r.acceptable = append(r.acceptable, fc)
	}
	if loadedOK {
		// when both a file pair and a loaded pair are usable the text does not say which wins
		r.acceptable = append(r.acceptable, []string{o.LoadedCert})
	}
	// An error MUST NOT come out of the documented, clean ways of supplying an identity:
	// nothing at all; a readable certificate file with its matching key file; a loaded
	// certificate with its matching RSA or EC key. Everything else (stray or mixed slots,
	// unusable material, key types the text calls unsupported) MAY fail.
	clean := false
	switch {
	case o.CertFile == "" && o.KeyFile == "" && o.LoadedCert == "" && o.LoadedKey == "":
		clean = true
	case fileOK && o.LoadedCert == "" && o.LoadedKey == "" && !oddShape(o.CertFile) && !oddShape(o.KeyFile):
		clean = true
	case loadedOK && o.CertFile == "" && o.KeyFile == "" && (strings.HasPrefix(o.LoadedKey, "kR") || strings.HasPrefix(o.LoadedKey, "kE")):
		clean = true
	}
	if !clean {
		r.errAllowed = true
		r.errWhy = "identity slots are not one clean documented pair"
	}
	// --- roots. "trusts exactly the supplied roots (the system pool only when none are supplied)"
	r.rootSlot = o.CAFile != "" || o.LoadedCA != "" || o.Pool != ""
	r.rootMust, r.rootMay = map[string]bool{}, map[string]bool{}
	for _, p := range poolRoots(o.Pool) {
		r.rootMust[p] = true
	}
	f, readable := caFileRoots(o.CAFile)
	if o.LoadedCA != "" {
		r.rootMust[o.LoadedCA] = true
		for _, x := range f {
			if !r.rootMust[x] {
				r.rootMay[x] = true
			}
		}
	} else {
		for _, x := range f {
			r.rootMust[x] = true
		}
	}
	for _, x := range caFileMay(o.CAFile) {
		if !r.rootMust[x] {
			r.rootMay[x] = true
		}
	}
	if bundleForeign(o.CAFile) {
		r.errAllowed = true
		if r.errWhy == "" {
			r.errWhy = "CA bundle holds blocks that are not plain certificates"
		}
	}
	if o.CAFile != "" && (!readable || o.CAFile == "garbage" || o.CAFile == "mixed" || o.CAFile == "empty" || oddShape(o.CAFile)) {
		r.errAllowed = true
		if r.errWhy == "" {
			r.errWhy = "CA file is unreadable or holds unusable material"
		}
	}
	// --- "skips server-certificate verification only when that was explicitly requested and
	// no server-name override is given"
	r.skipAllowed = o.Insecure && o.ServerName == ""
	return r
}

// oddShape: usable material in a legal but unusual PEM shape (text before the block, CRLF line
// ends, garbage after the block). A configuration built from it must carry the material; an
// implementation that refuses it with an error is not contradicted by the text (MAY).
func oddShape(name string) bool {
	return strings.HasSuffix(name, "lead") || strings.HasSuffix(name, "crlf") || strings.HasSuffix(name, "trail")
}

func set(m map[string]bool) string {
	var k []string
	for x := range m {
		k = append(k, x)
	}
	sort.Strings(k)
	return "{" + strings.Join(k, ",") + "}"
}

// ---- field-level judge --------------------------------------------------------------

func errClass(err error) string {
	s := err.Error()
	switch {
	case strings.HasPrefix(s, "tls client cert:"):
		return "err:client-cert"
	case strings.HasPrefix(s, "tls client priv key:"):
		return "err:client-key"
	case strings.HasPrefix(s, "tls client ca:"):
		return "err:ca"
	}
	return "err:other"
}

// chainNames maps a DER list to logical names ("?" for a certificate outside the universe).
func chainNames(der [][]byte) []string {
	out := make([]string, len(der))
	for i, d := range der {
		out[i] = "?"
		for n, c := range M.clientCert {
			if bytes.Equal(c.Raw, d) {
				out[i] = n
			}
		}
		for n, c := range M.caCert {
			if bytes.Equal(c.Raw, d) {
				out[i] = n
			}
		}
	}
	return out
}

func sameNames(a, b []string) bool {
	if len(a) != len(b) {
		return false
	}
	for i := range a {
		if a[i] != b[i] {
			return false
		}
	}
	return true
}

func inLists(ls [][]string, x []string) bool {
	for _, l := range ls {
		if sameNames(l, x) {
			return true
		}
	}
	return false
}

// judgeFields compares one observation (result of one call of the entry point) with
// the reference. Every clause has its own class.
func judgeFields(c Case, rf ref, o *obs) (fs []fail) {
	add := func(class, what string) {
		fc := c
		fc.Scenarios = nil
		fc.HTTP = false
		fs = append(fs, fail{class, what, fc})
	}
	if o.panicked != "" {
		add("panic", "entry point panicked: "+o.panicked)
		return
	}
	if o.err != nil {
		if !rf.errAllowed {
			add("error/spurious", fmt.Sprintf("usable, cleanly supplied material was rejected: %v", o.err))
		}
		return
	}
	if o.opaque {
		return // a RoundTripper we cannot look into: nothing is claimed
	}
	cfg := o.cfg
	if cfg == nil {
		add("nil-config-without-error", "no error, but no configuration either")
		return
	}
	// -- never negotiates below TLS 1.2: the configuration itself carries the floor
	switch {
	case cfg.MinVersion == 0:
		add("minversion/unset", "MinVersion is 0: the floor is left to the crypto/tls default of the toolchain and GODEBUG")
	case cfg.MinVersion < tls.VersionTLS12:
		add("minversion/below-tls12", fmt.Sprintf("MinVersion=%#04x < TLS 1.2", cfg.MinVersion))
	}
	// -- skips verification only when requested and no server name
	if cfg.InsecureSkipVerify && !rf.skipAllowed {
		if c.Insecure {
			add("verify/skip-despite-server-name", fmt.Sprintf("InsecureSkipVerify=true although ServerName %q is given", c.ServerName))
		} else {
			add("verify/skip-not-requested", "InsecureSkipVerify=true although it was not requested")
		}
	}
	// -- carried unchanged
	if cfg.ServerName != c.ServerName {
		add("carry/server-name", fmt.Sprintf("ServerName=%q, given %q", cfg.ServerName, c.ServerName))
	}
	if cfg.SessionTicketsDisabled != c.TicketsDisabled {
		add("carry/session-tickets", fmt.Sprintf("SessionTicketsDisabled=%v, given %v", cfg.SessionTicketsDisabled, c.TicketsDisabled))
	}
	if c.Cache {
		if cfg.ClientSessionCache != tls.ClientSessionCache(o.env.cache) {
			add("carry/session-cache", "ClientSessionCache is not the supplied cache")
		}
	} else if cfg.ClientSessionCache != nil {
		add("carry/session-cache", "ClientSessionCache set although none was given")
	}
	switch {
	case c.Callback == "" && cfg.VerifyPeerCertificate != nil:
		add("carry/verify-callback", "VerifyPeerCertificate set although none was given")
	case c.Callback != "" && cfg.VerifyPeerCertificate == nil:
		add("carry/verify-callback", "VerifyPeerCertificate dropped")
	case c.Callback != "":
		before := o.env.cbCalls.Load()
		e := cfg.VerifyPeerCertificate(nil, nil)
		if o.env.cbCalls.Load() != before+1 {
			add("carry/verify-callback", "VerifyPeerCertificate does not reach the supplied callback")
		} else if errors.Is(e, errRejected) != (c.Callback == "reject") {
			add("carry/verify-callback", fmt.Sprintf("the supplied callback's verdict is not returned (got %v)", e))
		}
	}
	// -- roots
	if rf.rootSlot {
		if cfg.RootCAs == nil {
			add("roots/system-pool-despite-supplied-roots", "RootCAs is nil (system pool) although roots were supplied")
		} else {
			got := map[string]bool{}
			for _, s := range cfg.RootCAs.Subjects() { //nolint:staticcheck // never a system pool on a correct tree
				n, ok := M.subject[string(s)]
				if !ok {
					n = "?"
				}
				got[n] = true
			}
			for n := range got {
				if !rf.rootMust[n] && !rf.rootMay[n] {
					add("roots/unsupplied-root-trusted", fmt.Sprintf("RootCAs holds %s; supplied: must %s may %s", set(got), set(rf.rootMust), set(rf.rootMay)))
					break
				}
			}
			for n := range rf.rootMust {
				if !got[n] {
					add("roots/supplied-root-missing", fmt.Sprintf("RootCAs holds %s; supplied: must %s may %s", set(got), set(rf.rootMust), set(rf.rootMay)))
					break
				}
			}
		}
	} else if cfg.RootCAs != nil {
		// nothing supplied: nil (= system pool) is the expected value; an explicit pool is
		// tolerated as long as it holds nothing but system roots
		for _, s := range cfg.RootCAs.Subjects() { //nolint:staticcheck
			if n, ok := M.subject[string(s)]; ok && n != "SYS" {
				add("roots/unsupplied-root-trusted", fmt.Sprintf("no roots supplied, yet RootCAs holds %q", n))
				break
			}
		}
	}
	// -- presents exactly the supplied client certificate
	switch {
	case !rf.certSupplied:
		if len(cfg.Certificates) != 0 {
			add("cert/unsupplied-certificate", fmt.Sprintf("no certificate supplied, yet Certificates has %d entries", len(cfg.Certificates)))
		}
	case len(cfg.Certificates) == 0:
		add("cert/silently-dropped", fmt.Sprintf("certificate supplied (file %q, loaded %q) with key (file %q, loaded %q): no error and a configuration without any client certificate",
			c.CertFile, c.LoadedCert, c.KeyFile, c.LoadedKey))
	case len(cfg.Certificates) > 1:
		add("cert/extra-certificates", fmt.Sprintf("Certificates has %d entries", len(cfg.Certificates)))
	default:
		tc := cfg.Certificates[0]
		names := chainNames(tc.Certificate)
		if !inLists(rf.acceptable, names) {
			supplied := sameNames(names, fileChain(c.CertFile)) || (c.LoadedCert != "" && sameNames(names, []string{c.LoadedCert}))
			if supplied {
				add("cert/unusable-pair-accepted", fmt.Sprintf("configuration carries %v although no supplied key matches it (key file %q, loaded key %q)", names, c.KeyFile, c.LoadedKey))
			} else {
				add("cert/wrong-certificate", fmt.Sprintf("configuration carries %v, acceptable: %v", names, rf.acceptable))
			}
		} else {
			// the private key must be the one of the leaf
			pub := M.clientCert[names[0]].PublicKey
			s, ok := tc.PrivateKey.(crypto.Signer)
			type eq interface{ Equal(crypto.PublicKey) bool }
			if !ok {
				add("cert/key-mismatch", fmt.Sprintf("PrivateKey of type %T is no signer", tc.PrivateKey))
			} else if p, ok := s.Public().(eq); !ok || !p.Equal(pub) {
				add("cert/key-mismatch", fmt.Sprintf("PrivateKey does not belong to certificate %v", names))
			}
		}
	}
	return fs
}
