package main

// The history dimension of C18: sequences of calls of the entry points in ONE process in
// which file-backed material at the SAME path is replaced by other material, made garbage
// or removed between the calls. Every call must satisfy the per-call oracle (oracle.go)
// for what is on disk at the time of that call; configurations returned earlier must keep
// satisfying theirs after later calls (no aliasing); and a list of cases run forward and
// then backward must give the same result per case both times (process-wide state).

import (
	"fmt"
	"os"
	"path/filepath"
	"sort"
	"strings"
	"sync/atomic"
)

// Disk is the content of the sequence's three private paths before a step
// ("" or "absent" = no file at that path; otherwise a content name of the slot's alphabet).
type Disk struct {
	CA   string `json:"ca,omitempty"`   // A, B, AB, garbage, absent
	Cert string `json:"cert,omitempty"` // R1, E1, garbage, absent
	Key  string `json:"key,omitempty"`  // kR1, kE1, kE2, garbage, absent
}

// Step is one call. A file slot of Opts that holds "@" names the sequence's private path of that kind.
type Step struct {
	Disk Disk   `json:"disk"`
	Via  string `json:"via"`
	Opts
	Scenarios []string `json:"scenarios,omitempty"`
}

// ---- private paths of one sequence -----------------------------------------------------

var seqCounter atomic.Int64

// seqPaths: three paths never used before in this process, so that state keyed by path
// cannot leak from one sequence into another and a replay in a new process sees the same history.
type seqPaths struct {
	base string
	has  map[string]bool
	cur  map[string]string // content name now at the path of each slot
}

func newSeqPaths(dir string) *seqPaths {
	if dir == "" {
		dir = M.dir
	}
	return &seqPaths{base: filepath.Join(dir, fmt.Sprintf("h%d", seqCounter.Add(1))), has: map[string]bool{}, cur: map[string]string{}}
}

func (sp *seqPaths) path(slot string) string { return sp.base + "-" + slot + ".pem" }

func (sp *seqPaths) resolve(slot, name string) string {
	if name == "@" {
		if sp == nil {
			panic("harness: \"@\" outside a sequence")
		}
		return sp.path(slot)
	}
	return M.path(slot, name)
}

// set brings one path to the named content: rewritten in place, or removed.
func (sp *seqPaths) set(slot, name string) error {
	p := sp.path(slot)
	if name == "" || name == "absent" {
		if sp.has[slot] {
			sp.has[slot] = false
			sp.cur[slot] = ""
			return os.Remove(p)
		}
		return nil
	}
	if sp.has[slot] && sp.cur[slot] == name {
		return nil // the file stays as it is
	}
	sp.cur[slot] = name
	b, ok := M.content[slot+"-"+name]
	if !ok {
		return fmt.Errorf("no content %q for slot %s", name, slot)
	}
	sp.has[slot] = true
	return os.WriteFile(p, b, 0o600)
}

func (sp *seqPaths) apply(d Disk) error {
	if err := sp.set("ca", d.CA); err != nil {
		return err
	}
	if err := sp.set("cert", d.Cert); err != nil {
		return err
	}
	return sp.set("key", d.Key)
}

func (sp *seqPaths) remove() {
	for slot, h := range sp.has {
		if h {
			os.Remove(sp.path(slot))
		}
	}
}

// effective: the step as the per-call reference sees it - "@" replaced by what is on disk now.
func effective(s Step) Case {
	e := Case{Via: s.Via, Opts: s.Opts}
	sub := func(slotVal, disk string) string {
		if slotVal != "@" {
			return slotVal
		}
		if disk == "" || disk == "absent" {
			return "missing"
		}
		return disk
	}
	e.CertFile = sub(s.CertFile, s.Disk.Cert)
	e.KeyFile = sub(s.KeyFile, s.Disk.Key)
	e.CAFile = sub(s.CAFile, s.Disk.CA)
	return e
}

// fingerprint of an observation, for the differential clauses
func fingerprint(o *obs) string {
	switch {
	case o.panicked != "":
		return "panic"
	case o.err != nil:
		return "error: " + o.err.Error()
	case o.opaque:
		return "opaque"
	case o.cfg == nil:
		return "nil"
	}
	c := o.cfg
	roots := "system"
	if c.RootCAs != nil {
		var n []string
		for _, s := range c.RootCAs.Subjects() { //nolint:staticcheck
			x, ok := M.subject[string(s)]
			if !ok {
				x = "?"
			}
			n = append(n, x)
		}
		sort.Strings(n)
		roots = "{" + strings.Join(n, ",") + "}"
	}
	var certs []string
	for _, tc := range c.Certificates {
		certs = append(certs, strings.Join(chainNames(tc.Certificate), "+"))
	}
	return fmt.Sprintf("min=%#04x skip=%v name=%q roots=%s certs=%v cb=%v tickets=%v cache=%v",
		c.MinVersion, c.InsecureSkipVerify, c.ServerName, roots, certs, c.VerifyPeerCertificate != nil, c.SessionTicketsDisabled, c.ClientSessionCache != nil)
}

// checkHistory executes one history on the real code.
func checkHistory(c Case, st *stats) (fs []fail) {
	sp := newSeqPaths(st.dir)
	defer sp.remove()
	type rec struct {
		eff Case
		rf  ref
		o   *obs
		bad bool
	}
	n := len(c.Steps)
	order := make([]int, 0, 2*n)
	for i := 0; i < n; i++ {
		order = append(order, i)
	}
	if c.Mirror {
		for i := n - 1; i >= 0; i-- {
			order = append(order, i)
		}
	}
	var done []rec
	first := map[int]string{} // mirror: fingerprint of the first execution of a step
	report := func(k int, class, what string) {
		fc := Case{Steps: c.Steps, Mirror: c.Mirror}
		if !c.Mirror {
			fc.Steps = c.Steps[:k+1] // the history up to the failing call
		}
		fs = append(fs, fail{"history/" + class, fmt.Sprintf("call %d of %d: %s", k+1, len(order), what), fc})
	}
	for k, idx := range order {
		s := c.Steps[idx]
		if err := sp.apply(s.Disk); err != nil {
			fs = append(fs, fail{"harness/disk", err.Error(), c})
			return fs
		}
		eff := effective(s)
		rf := reference(eff.Opts)
		raw := Case{Via: s.Via, Opts: s.Opts}
		o := buildAt(raw, sp)
		st.evals++
		st.outcomes["history:"+outcomeLabel(o)]++
		r := rec{eff: eff, rf: rf, o: o}
		disk := fmt.Sprintf("disk now ca=%q cert=%q key=%q; ", s.Disk.CA, s.Disk.Cert, s.Disk.Key)
		for _, f := range judgeFields(eff, rf, o) {
			r.bad = true
			report(k, f.class, disk+f.what)
		}
		if o.err == nil && o.cfg != nil {
			st.nontrivial++
		} else if o.err != nil && rf.certSupplied && len(rf.acceptable) == 0 {
			st.nontrivial++
		}
		// behaviour of the configuration obtained at this point of the history
		if o.err == nil && o.panicked == "" && !o.opaque && o.cfg != nil {
			for _, scen := range s.Scenarios {
				oo := buildAt(raw, sp)
				st.evals++
				if oo.err != nil || oo.cfg == nil {
					report(k, "nondeterministic-entry-point", fmt.Sprintf("an identical second call behaved differently: err=%v", oo.err))
					break
				}
				h := handshake(raw, oo, scen)
				st.handshakes++
				st.outcomes["history:"+h.label()]++
				if cl, what := judgeHandshake(eff, rf, scen, h); cl != "" {
					report(k, cl, disk+what)
				}
			}
		}
		// configurations returned earlier still satisfy THEIR oracle (nothing shared with later calls)
		for j := range done {
			if done[j].bad || done[j].o.cfg == nil || done[j].o.err != nil {
				continue
			}
			for _, f := range judgeFields(done[j].eff, done[j].rf, done[j].o) {
				done[j].bad = true
				report(k, "aliased/"+f.class, fmt.Sprintf("the configuration returned by call %d changed after call %d: %s", j+1, k+1, f.what))
			}
		}
		// process-wide state: the same step gives the same result on the way back
		if c.Mirror {
			fp := fingerprint(o)
			if prev, seen := first[idx]; seen {
				if prev != fp {
					report(k, "order-dependent-result", fmt.Sprintf("step %d gave %q in the forward pass and %q in the backward pass", idx, prev, fp))
				}
			} else {
				first[idx] = fp
			}
		}
		done = append(done, r)
	}
	return fs
}

func outcomeLabel(o *obs) string {
	switch {
	case o.panicked != "":
		return "panic"
	case o.err != nil:
		return errClass(o.err)
	case o.opaque:
		return "opaque-transport"
	case o.cfg == nil:
		return "nil"
	}
	l := "config"
	if len(o.cfg.Certificates) > 0 {
		l += "+cert"
	}
	if o.cfg.RootCAs == nil {
		l += "/system-roots"
	} else {
		l += "/own-roots"
	}
	return l
}

// ---- the enumerated histories -----------------------------------------------------------

type histFamily struct {
	name      string
	alphabet  []Step
	depth     int      // sequences of exactly 2..depth steps, all ordered tuples with repetition
	scenarios []string // run on the last call of pairs
}

func histFamilies(thorough bool) []histFamily {
	vias := []string{"auth", "client"}
	if thorough {
		vias = []string{"auth", "transport", "client"}
	}
	// H-CA: one CA path whose content changes
	caDisk := []string{"A", "B", "garbage", "absent"}
	if thorough {
		caDisk = []string{"A", "B", "AB", "garbage", "absent"}
	}
	caOpts := []Opts{
		{CAFile: "@"},
		{CAFile: "@", Pool: "P"},
		{CAFile: "@", LoadedCA: "C"},
		{}, // no roots at all: the system pool, whatever was read before
	}
	var ca []Step
	for _, d := range caDisk {
		for _, o := range caOpts {
			for _, v := range vias {
				ca = append(ca, Step{Disk: Disk{CA: d}, Via: v, Opts: o})
			}
		}
	}
	// H-ID: one certificate path and one key path whose contents change
	certDisk := []string{"R1", "E1", "garbage", "absent"}
	keyDisk := []string{"kR1", "kE1", "kE2", "absent"}
	if thorough {
		keyDisk = []string{"kR1", "kE1", "kE2", "garbage", "absent"}
	}
	var id []Step
	for _, cd := range certDisk {
		for _, kd := range keyDisk {
			for _, v := range vias {
				id = append(id, Step{Disk: Disk{Cert: cd, Key: kd}, Via: v, Opts: Opts{CertFile: "@", KeyFile: "@", CAFile: "A"}})
			}
		}
	}
	// H-X: all three paths at once, pairs only
	var x []Step
	for _, d := range []string{"A", "B", "absent"} {
		for _, cd := range []string{"R1", "E1", "absent"} {
			for _, kd := range []string{"kR1", "kE1", "absent"} {
				for _, o := range []Opts{{CertFile: "@", KeyFile: "@", CAFile: "@"}, {CertFile: "@", KeyFile: "@", CAFile: "@", Pool: "P", ServerName: "srv.test", Insecure: true}} {
					for _, v := range vias {
						x = append(x, Step{Disk: Disk{CA: d, Cert: cd, Key: kd}, Via: v, Opts: o})
					}
				}
			}
		}
	}
	idDepth := 2
	if thorough {
		idDepth = 3
	}
	return []histFamily{
		{"H-CA", ca, 3, []string{"A/srv.test", "B/srv.test"}},
		{"H-ID", id, idDepth, []string{"A/srv.test"}},
		{"H-X", x, 2, nil},
	}
}

// mirrorList: cases over the static files chosen to collide (same path / same loaded object /
// same option value next to a different neighbour), run forward and backward in one history.
func mirrorList(thorough bool) []Step {
	var l []Step
	cas := []string{"", "A", "AB", "garbage", "missing"}
	ids := []Opts{{}, {CertFile: "R1", KeyFile: "kR1"}, {CertFile: "E1", KeyFile: "kE1"}, {CertFile: "E1", KeyFile: "kE2"}, {LoadedCert: "R1", LoadedKey: "kR1"}, {LoadedCert: "E1", LoadedKey: "kE1"}, {LoadedCert: "E1", LoadedKey: "kE2"}}
	flags := []Opts{{}, {ServerName: "srv.test", Insecure: true, Callback: "accept", Cache: true}, {Insecure: true, TicketsDisabled: true}}
	vias := []string{"auth", "client"}
	if thorough {
		vias = []string{"auth", "transport", "client"}
		cas = append(cas, "mixed", "dir")
	}
	i := 0
	for _, ca := range cas {
		for _, lca := range []string{"", "C"} {
			for _, pool := range []string{"", "P"} {
				for _, id := range ids {
					o := id
					o.CAFile, o.LoadedCA, o.Pool = ca, lca, pool
					f := flags[i%len(flags)]
					o.ServerName, o.Insecure, o.Callback, o.Cache, o.TicketsDisabled = f.ServerName, f.Insecure, f.Callback, f.Cache, f.TicketsDisabled
					l = append(l, Step{Via: vias[i%len(vias)], Opts: o})
					i++
				}
			}
		}
	}
	return l
}
