package main

// Key, certificate and file material for C18. Everything is generated in-process
// once per run into a private directory under /verif/.work and addressed by
// *logical names* ("R1", "kE2", "AB", ...), so a Case is replayable in another
// process although the key bits differ from run to run.

import (
	"bytes"
	"crypto"
	"crypto/ecdsa"
	"crypto/ed25519"
	"crypto/elliptic"
	"crypto/rand"
	"crypto/rsa"
	"crypto/tls"
	"crypto/x509"
	"crypto/x509/pkix"
	"encoding/pem"
	"fmt"
	"io"
	"math/big"
	"net"
	"os"
	"path/filepath"
	"strings"
	"time"
)

// certificate authorities of the universe (all ECDSA P-256, self-signed, distinct subjects)
//
//	A, B  - the certificates found in CA files ("A" = a.pem, "AB" = both, "mixed" = junk + A)
//	C     - the LoadedCA certificate
//	P     - member of the LoadedCAPool ("PA" = pool holding P and A)
//	SYS   - the only member of the system pool of this process (SSL_CERT_FILE)
//	U     - supplied nowhere, trusted by nobody
//	CCA   - issuer of the client certificates (second element of the "chain" certificate file)
var caNames = []string{"A", "B", "C", "P", "SYS", "U", "CCA"}

// server identities are issued by these, for these names
var serverCAs = []string{"A", "B", "C", "P", "SYS", "U"}
var serverNames = []string{"srv.test", "other.test"}

// servers identified by an IP subjectAltName instead of a DNS one (issuers A and U only;
// used by the edge-value sweep, not part of allScenarios)
var ipServerNames = []string{"192.0.2.10", "2001:db8::1"}

const dialHost = "srv.test" // the host every connection is "dialled" to

type material struct {
	dir     string
	caCert  map[string]*x509.Certificate
	caKey   map[string]crypto.Signer
	subject map[string]string // string(RawSubject) -> CA name

	keys       map[string]crypto.Signer     // identity: R1 R2 E1 E2 D1
	clientCert map[string]*x509.Certificate // R1 E1 D1

	srv     map[string]*tls.Certificate // "A/srv.test"
	srvConf map[string]*tls.Config      // scenario name -> server configuration
	content map[string][]byte           // "<slot>-<name>" -> file content (history sweeps rewrite files in place)
}

// wrappedSigner is a private key of a type TLSClientAuth has never heard of
// (LoadedKey "wE1"); it is a perfectly usable crypto.Signer for certificate E1.
type wrappedSigner struct{ inner crypto.Signer }

func (w *wrappedSigner) Public() crypto.PublicKey { return w.inner.Public() }
func (w *wrappedSigner) Sign(r io.Reader, digest []byte, o crypto.SignerOpts) ([]byte, error) {
	return w.inner.Sign(r, digest, o)
}

var serial int64 = 1000

func nextSerial() *big.Int { serial++; return big.NewInt(serial) }

func newCA(name string) (*x509.Certificate, crypto.Signer, error) {
	k, err := ecdsa.GenerateKey(elliptic.P256(), rand.Reader)
	if err != nil {
		return nil, nil, err
	}
	t := &x509.Certificate{
		SerialNumber:          nextSerial(),
		Subject:               pkix.Name{CommonName: "c18 authority " + name, Organization: []string{"verif-c18"}},
		NotBefore:             time.Now().Add(-24 * time.Hour),
		NotAfter:              time.Now().Add(10 * 365 * 24 * time.Hour),
		IsCA:                  true,
		BasicConstraintsValid: true,
		KeyUsage:              x509.KeyUsageCertSign | x509.KeyUsageDigitalSignature,
	}
	der, err := x509.CreateCertificate(rand.Reader, t, t, k.Public(), k)
	if err != nil {
		return nil, nil, err
	}
	c, err := x509.ParseCertificate(der)
	return c, k, err
}

func (m *material) issue(ca string, cn string, dns []string, pub crypto.PublicKey, usage x509.ExtKeyUsage, ips ...net.IP) (*x509.Certificate, error) {
	t := &x509.Certificate{
		SerialNumber: nextSerial(),
		Subject:      pkix.Name{CommonName: cn, Organization: []string{"verif-c18"}},
		NotBefore:    time.Now().Add(-24 * time.Hour),
		NotAfter:     time.Now().Add(10 * 365 * 24 * time.Hour),
		KeyUsage:     x509.KeyUsageDigitalSignature | x509.KeyUsageKeyEncipherment,
		ExtKeyUsage:  []x509.ExtKeyUsage{usage},
		DNSNames:     dns,
		IPAddresses:  ips,
	}
	der, err := x509.CreateCertificate(rand.Reader, t, m.caCert[ca], pub, m.caKey[ca])
	if err != nil {
		return nil, err
	}
	return x509.ParseCertificate(der)
}

func pemCert(cs ...*x509.Certificate) []byte {
	var out []byte
	for _, c := range cs {
		out = append(out, pem.EncodeToMemory(&pem.Block{Type: "CERTIFICATE", Bytes: c.Raw})...)
	}
	return out
}

func genMaterial() (*material, error) {
	if err := os.MkdirAll("/verif/.work", 0o755); err != nil {
		return nil, err
	}
	dir, err := os.MkdirTemp("/verif/.work", "c18-")
	if err != nil {
		return nil, err
	}
	m := &material{dir: dir, caCert: map[string]*x509.Certificate{}, caKey: map[string]crypto.Signer{}, subject: map[string]string{},
		keys: map[string]crypto.Signer{}, clientCert: map[string]*x509.Certificate{}, srv: map[string]*tls.Certificate{}, srvConf: map[string]*tls.Config{}}
	for _, n := range caNames {
		c, k, err := newCA(n)
		if err != nil {
			return m, err
		}
		m.caCert[n], m.caKey[n] = c, k
		m.subject[string(c.RawSubject)] = n
	}
	// the system pool of this process is exactly {SYS}: the variables are read when the
	// pool is first needed, which is after this point
	if err := os.WriteFile(filepath.Join(dir, "sys.pem"), pemCert(m.caCert["SYS"]), 0o644); err != nil {
		return m, err
	}
	if err := os.Mkdir(filepath.Join(dir, "nocerts"), 0o755); err != nil {
		return m, err
	}
	os.Setenv("SSL_CERT_FILE", filepath.Join(dir, "sys.pem"))
	os.Setenv("SSL_CERT_DIR", filepath.Join(dir, "nocerts"))

	// client keys
	for _, n := range []string{"R1", "R2"} {
		k, err := rsa.GenerateKey(rand.Reader, 2048)
		if err != nil {
			return m, err
		}
		m.keys[n] = k
	}
	for _, n := range []string{"E1", "E2"} {
		k, err := ecdsa.GenerateKey(elliptic.P256(), rand.Reader)
		if err != nil {
			return m, err
		}
		m.keys[n] = k
	}
	_, dk, err := ed25519.GenerateKey(rand.Reader)
	if err != nil {
		return m, err
	}
	m.keys["D1"] = dk
	for _, n := range []string{"R1", "E1", "D1"} {
		c, err := m.issue("CCA", "c18 client "+n, nil, m.keys[n].Public(), x509.ExtKeyUsageClientAuth)
		if err != nil {
			return m, err
		}
		m.clientCert[n] = c
	}
	// server identities
	for _, ca := range serverCAs {
		for _, name := range serverNames {
			k, err := ecdsa.GenerateKey(elliptic.P256(), rand.Reader)
			if err != nil {
				return m, err
			}
			c, err := m.issue(ca, name, []string{name}, k.Public(), x509.ExtKeyUsageServerAuth)
			if err != nil {
				return m, err
			}
			m.srv[ca+"/"+name] = &tls.Certificate{Certificate: [][]byte{c.Raw}, PrivateKey: k, Leaf: c}
		}
	}
	for _, ca := range []string{"A", "U"} {
		for _, ip := range ipServerNames {
			k, err := ecdsa.GenerateKey(elliptic.P256(), rand.Reader)
			if err != nil {
				return m, err
			}
			c, err := m.issue(ca, "c18 ip server", nil, k.Public(), x509.ExtKeyUsageServerAuth, net.ParseIP(ip))
			if err != nil {
				return m, err
			}
			m.srv[ca+"/"+ip] = &tls.Certificate{Certificate: [][]byte{c.Raw}, PrivateKey: k, Leaf: c}
		}
	}
	for _, s := range append(allScenarios(), edgeScenarios()...) {
		if m.srvConf[s] != nil {
			continue
		}
		sc, err := parseScenario(s)
		if err != nil {
			return m, err
		}
		conf := &tls.Config{
			Certificates: []tls.Certificate{*m.srv[sc.ca+"/"+sc.name]},
			ClientAuth:   tls.RequestClientCert, // ask for a certificate, accept none, verify possession only
			MinVersion:   tls.VersionTLS12,
		}
		if sc.old {
			conf.MinVersion = tls.VersionTLS10
			conf.MaxVersion = tls.VersionTLS11
		}
		if sc.tls12 {
			conf.MaxVersion = tls.VersionTLS12
		}
		m.srvConf[s] = conf
	}

	// files
	w := func(name string, b []byte) error { return os.WriteFile(filepath.Join(dir, name), b, 0o600) }
	p8 := func(k crypto.Signer) []byte {
		b, err := x509.MarshalPKCS8PrivateKey(k)
		if err != nil {
			panic(err)
		}
		return pem.EncodeToMemory(&pem.Block{Type: "PRIVATE KEY", Bytes: b})
	}
	p1 := func(k crypto.Signer) []byte {
		return pem.EncodeToMemory(&pem.Block{Type: "RSA PRIVATE KEY", Bytes: x509.MarshalPKCS1PrivateKey(k.(*rsa.PrivateKey))})
	}
	ec := func(k crypto.Signer) []byte {
		b, err := x509.MarshalECPrivateKey(k.(*ecdsa.PrivateKey))
		if err != nil {
			panic(err)
		}
		return pem.EncodeToMemory(&pem.Block{Type: "EC PRIVATE KEY", Bytes: b})
	}
	junk := []byte("this is not PEM material\n\x00\x01\x02 at all\n")
	badBlock := pem.EncodeToMemory(&pem.Block{Type: "CERTIFICATE", Bytes: []byte{0x30, 0x03, 0x02, 0x01, 0x01}})
	otherBlock := pem.EncodeToMemory(&pem.Block{Type: "X509 CRL", Bytes: []byte{1, 2, 3}})
	mixed := append(append(append(append([]byte{}, junk...), badBlock...), otherBlock...), pemCert(m.caCert["A"])...)
	crlf := func(b []byte) []byte { return bytes.ReplaceAll(b, []byte("\n"), []byte("\r\n")) }
	lead := func(b []byte) []byte {
		return append([]byte("Bag Attributes\n    friendlyName: c18 \xc3\xa9 \xf0\x9f\x98\x80\nsubject=/CN=explanatory text before the block\n\n"), b...)
	}
	trail := func(b []byte) []byte { return append(append([]byte{}, b...), junk...) }
	files := map[string][]byte{
		// edge shapes of PEM files: several blocks in the other order, explanatory text before the
		// block (RFC 7468 section 2), CRLF line ends, garbage after the block, an empty file, and a
		// valid bundle at a path with spaces and non-ASCII characters
		"ca-BA.pem":        pemCert(m.caCert["B"], m.caCert["A"]),
		"ca-lead.pem":      lead(pemCert(m.caCert["A"])),
		"ca-crlf.pem":      crlf(pemCert(m.caCert["A"])),
		"ca-trail.pem":     trail(pemCert(m.caCert["A"])),
		"ca-empty.pem":     {},
		"ca-uni pa th \xc3\xbc\xf0\x9f\x98\x80.pem": pemCert(m.caCert["A"]),
		"cert-E1lead.pem":  lead(pemCert(m.clientCert["E1"])),
		"cert-E1crlf.pem":  crlf(pemCert(m.clientCert["E1"])),
		"cert-E1trail.pem": trail(pemCert(m.clientCert["E1"])),
		"cert-empty.pem":   {},
		"key-kE1lead.pem":  lead(ec(m.keys["E1"])),
		"key-kE1crlf.pem":  crlf(ec(m.keys["E1"])),
		"key-kE1trail.pem": trail(ec(m.keys["E1"])),
		"key-empty.pem":    {},
		"cert-R1.pem":      pemCert(m.clientCert["R1"]),
		"cert-E1.pem":      pemCert(m.clientCert["E1"]),
		"cert-D1.pem":      pemCert(m.clientCert["D1"]),
		"cert-chain.pem":   pemCert(m.clientCert["E1"], m.caCert["CCA"]),
		"cert-garbage.pem": junk,
		"key-kR1.pem":      p1(m.keys["R1"]),
		"key-kR1p8.pem":    p8(m.keys["R1"]),
		"key-kR2.pem":      p1(m.keys["R2"]),
		"key-kE1.pem":      ec(m.keys["E1"]),
		"key-kE2.pem":      ec(m.keys["E2"]),
		"key-kD1.pem":      p8(m.keys["D1"]),
		"key-garbage.pem":  junk,
		"ca-A.pem":         pemCert(m.caCert["A"]),
		"ca-B.pem":         pemCert(m.caCert["B"]),
		"ca-AB.pem":        pemCert(m.caCert["A"], m.caCert["B"]),
		"ca-garbage.pem":   junk,
		"ca-mixed.pem":     mixed,
	}
	// sweep G: CA bundles of every shape and order (see bundleNames)
	tok := map[string][]byte{
		"A": pemCert(m.caCert["A"]),
		"B": pemCert(m.caCert["B"]),
		"T": []byte("# explanatory text between blocks \xc3\xa9\nsubject=/CN=c18 text, not PEM\n\n"),
		"P": pem.EncodeToMemory(&pem.Block{Type: "EC PARAMETERS", Bytes: []byte{0x06, 0x08, 0x2a, 0x86, 0x48, 0xce, 0x3d, 0x03, 0x01, 0x07}}),
		"L": otherBlock,
		"K": ec(m.keys["E2"]),
		"H": pem.EncodeToMemory(&pem.Block{Type: "CERTIFICATE", Headers: map[string]string{"Comment": "c18 block with headers"}, Bytes: m.caCert["B"].Raw}),
		"Z": badBlock,
	}
	for _, n := range bundleNames() {
		var b []byte
		for _, t := range strings.Split(strings.TrimPrefix(n, "bundle:"), ",") {
			b = append(b, tok[t]...)
		}
		files["ca-"+n+".pem"] = b
	}
	m.content = map[string][]byte{}
	for n, b := range files {
		if err := w(n, b); err != nil {
			return m, err
		}
		m.content[strings.TrimSuffix(n, ".pem")] = b
	}
	for _, d := range []string{"cert-dir.pem", "key-dir.pem", "ca-dir.pem"} {
		if err := os.Mkdir(filepath.Join(dir, d), 0o755); err != nil {
			return m, err
		}
	}
	return m, nil
}

// bundleTokens is the block alphabet of the generated CA bundles: A, B = plain CERTIFICATE
// blocks of two authorities; T = text that is not PEM; P = EC PARAMETERS block; L = X509 CRL
// block; K = EC PRIVATE KEY block; H = CERTIFICATE block with PEM headers (holding B);
// Z = CERTIFICATE block whose content is no certificate.
var bundleTokens = []string{"A", "B", "T", "P", "L", "K", "H", "Z"}

const bundleMaxBlocks = 3

// bundleNames: every sequence (with repetition) of 1..bundleMaxBlocks tokens, "bundle:A,P,B".
func bundleNames() (out []string) {
	level := []string{""}
	for d := 0; d < bundleMaxBlocks; d++ {
		var next []string
		for _, p := range level {
			for _, t := range bundleTokens {
				n := t
				if p != "" {
					n = p + "," + t
				}
				next = append(next, n)
				out = append(out, "bundle:"+n)
			}
		}
		level = next
	}
	return out
}

func (m *material) cleanup() {
	if m != nil && m.dir != "" {
		os.RemoveAll(m.dir)
	}
}

// path of the file behind a logical name of a file slot ("" = option unset).
// "missing" names a path that does not exist, "dir" a directory (unreadable as a file).
func (m *material) path(slot, name string) string {
	switch name {
	case "":
		return ""
	case "space":
		return " " // a path that is a single space: no such file
	case "nulpath":
		return filepath.Join(m.dir, slot+"-A\x00.pem") // NUL inside the path: the OS refuses it
	case "unipath":
		return filepath.Join(m.dir, slot+"-uni pa th \xc3\xbc\xf0\x9f\x98\x80.pem")
	}
	return filepath.Join(m.dir, slot+"-"+name+".pem")
}

func (m *material) loadedKey(name string) (crypto.PrivateKey, error) {
	switch name {
	case "":
		return nil, nil
	case "kR1", "kR2", "kE1", "kE2", "kD1":
		return m.keys[name[1:]], nil
	case "wE1":
		return &wrappedSigner{m.keys["E1"]}, nil
	}
	return nil, fmt.Errorf("unknown loaded key %q", name)
}

// pool builds a FRESH pool for one call (TLSClientAuth mutates the supplied pool).
func (m *material) pool(name string) (*x509.CertPool, error) {
	switch name {
	case "":
		return nil, nil
	case "empty":
		return x509.NewCertPool(), nil
	case "P":
		p := x509.NewCertPool()
		p.AddCert(m.caCert["P"])
		return p, nil
	case "PA":
		p := x509.NewCertPool()
		p.AddCert(m.caCert["P"])
		p.AddCert(m.caCert["A"])
		return p, nil
	}
	return nil, fmt.Errorf("unknown pool %q", name)
}
