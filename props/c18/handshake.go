package main

// Driving the real entry points and real TLS handshakes over net.Pipe against an
// in-process tls.Server, and the behavioural judge.

import (
	"bufio"
	"bytes"
	"context"
	"crypto/tls"
	"crypto/x509"
	"errors"
	"fmt"
	"io"
	"net"
	"net/http"
	"strings"
	"sync/atomic"
	"time"

	"github.com/go-openapi/runtime/client"
)

// a hang is turned into an outcome after this long (a handshake takes about a millisecond)
const horizon = 120 * time.Second

var errRejected = errors.New("c18: the supplied callback rejects the peer")

type caseEnv struct {
	cbCalls atomic.Int32
	cache   *recCache
}

// recCache is the supplied ClientSessionCache: a distinct object per call.
type recCache struct {
	inner tls.ClientSessionCache
	puts  atomic.Int32
}

func (r *recCache) Get(k string) (*tls.ClientSessionState, bool) { return r.inner.Get(k) }
func (r *recCache) Put(k string, s *tls.ClientSessionState)      { r.puts.Add(1); r.inner.Put(k, s) }

// obs is what one call of the entry point under test returned.
type obs struct {
	cfg      *tls.Config
	err      error
	panicked string
	opaque   bool // RoundTripper / Client that is not built on *http.Transport: cannot be inspected
	tr       *http.Transport
	hc       *http.Client
	env      *caseEnv
}

// build translates the abstract options into real ones (fresh objects) and calls the real code once.
func build(c Case) (o *obs) { return buildAt(c, nil) }

// buildAt: a slot holding "@" names the private path of the running sequence (history sweeps).
func buildAt(c Case, sp *seqPaths) (o *obs) {
	o = &obs{env: &caseEnv{}}
	env := o.env
	var opts client.TLSClientOptions
	opts.Certificate = sp.resolve("cert", c.CertFile)
	opts.Key = sp.resolve("key", c.KeyFile)
	if c.LoadedCert != "" {
		opts.LoadedCertificate = M.clientCert[c.LoadedCert]
		if opts.LoadedCertificate == nil {
			o.panicked = "harness: unknown loaded certificate " + c.LoadedCert
			return o
		}
	}
	k, err := M.loadedKey(c.LoadedKey)
	if err != nil {
		o.panicked = "harness: " + err.Error()
		return o
	}
	opts.LoadedKey = k
	opts.CA = sp.resolve("ca", c.CAFile)
	if c.LoadedCA != "" {
		opts.LoadedCA = M.caCert[c.LoadedCA]
		if opts.LoadedCA == nil {
			o.panicked = "harness: unknown loaded CA " + c.LoadedCA
			return o
		}
	}
	p, err := M.pool(c.Pool)
	if err != nil {
		o.panicked = "harness: " + err.Error()
		return o
	}
	opts.LoadedCAPool = p
	opts.ServerName = c.ServerName
	opts.InsecureSkipVerify = c.Insecure
	switch c.Callback {
	case "accept":
		opts.VerifyPeerCertificate = func([][]byte, [][]*x509.Certificate) error { env.cbCalls.Add(1); return nil }
	case "reject":
		opts.VerifyPeerCertificate = func([][]byte, [][]*x509.Certificate) error { env.cbCalls.Add(1); return errRejected }
	}
	opts.SessionTicketsDisabled = c.TicketsDisabled
	if c.Cache {
		env.cache = &recCache{inner: tls.NewLRUClientSessionCache(4)}
		opts.ClientSessionCache = env.cache
	}
	defer func() {
		if e := recover(); e != nil {
			o.panicked = fmt.Sprint(e)
		}
	}()
	switch c.Via {
	case "auth", "":
		o.cfg, o.err = client.TLSClientAuth(opts)
	case "transport":
		rt, err := client.TLSTransport(opts)
		o.err = err
		if err == nil {
			if tr, ok := rt.(*http.Transport); ok && tr != nil {
				o.tr, o.cfg = tr, tr.TLSClientConfig
			} else if rt != nil {
				o.opaque = true
			}
		}
	case "client":
		hc, err := client.TLSClient(opts)
		o.err = err
		if err == nil && hc != nil {
			o.hc = hc
			if tr, ok := hc.Transport.(*http.Transport); ok && tr != nil {
				o.tr, o.cfg = tr, tr.TLSClientConfig
			} else if hc.Transport != nil {
				o.opaque = true
			}
		}
	default:
		o.panicked = "harness: unknown entry point " + c.Via
	}
	return o
}

// ---- scenarios --------------------------------------------------------------------------

type scenario struct {
	ca, name string
	old      bool // the server speaks TLS 1.0 and 1.1 only
	tls12    bool // the server speaks TLS 1.2 at most
}

func parseScenario(s string) (scenario, error) {
	p := strings.Split(s, "/")
	if len(p) < 2 || len(p) > 3 || (len(p) == 3 && p[2] != "old" && p[2] != "tls12") {
		return scenario{}, fmt.Errorf("bad scenario %q", s)
	}
	sc := scenario{ca: p[0], name: p[1], old: len(p) == 3 && p[2] == "old", tls12: len(p) == 3 && p[2] == "tls12"}
	okCA, okName := false, false
	for _, x := range serverCAs {
		okCA = okCA || x == sc.ca
	}
	for _, x := range serverNames {
		okName = okName || x == sc.name
	}
	for _, x := range ipServerNames {
		okName = okName || (x == sc.name && (sc.ca == "A" || sc.ca == "U"))
	}
	if !okCA || !okName {
		return scenario{}, fmt.Errorf("bad scenario %q", s)
	}
	return sc, nil
}

func allScenarios() []string {
	var out []string
	for _, old := range []string{"", "/old"} {
		for _, ca := range serverCAs {
			for _, n := range serverNames {
				out = append(out, ca+"/"+n+old)
			}
		}
	}
	// servers limited to TLS 1.2: the floor itself (accepting it is MAY, the refusals are the same MUSTs)
	for _, s := range []string{"A/srv.test", "A/other.test", "C/srv.test", "P/srv.test", "SYS/srv.test", "U/srv.test"} {
		out = append(out, s+"/tls12")
	}
	return out
}

// edgeScenarios: servers for the edge-value sweep - DNS-named and IP-named certificates of a
// suppliable issuer (A) and of the untrusted one (U).
func edgeScenarios() []string {
	return []string{"A/srv.test", "A/other.test", "A/192.0.2.10", "A/2001:db8::1", "U/srv.test", "U/192.0.2.10", "U/2001:db8::1"}
}

// nameMatch is three-valued: "must" when the verified name is byte-equal to the name in the
// certificate; "may" when the two are equal only after the foldings host-name comparison is
// allowed to apply (ASCII case, one trailing dot, brackets around an IP literal, IPv4 vs
// IPv4-mapped IPv6) - the property text does not speak about those; "mustnot" otherwise.
func nameMatch(verified, certName string) string {
	if verified == certName {
		return "must"
	}
	fold := func(x string) string {
		x = strings.ToLower(x)
		x = strings.TrimSuffix(x, ".")
		if strings.HasPrefix(x, "[") && strings.HasSuffix(x, "]") {
			x = x[1 : len(x)-1]
		}
		return x
	}
	a, b := fold(verified), fold(certName)
	if a == b {
		return "may"
	}
	if ia, ib := net.ParseIP(a), net.ParseIP(b); ia != nil && ib != nil && ia.Equal(ib) {
		return "may"
	}
	return "mustnot"
}

type hsResult struct {
	ok       bool
	err      error    // client side
	version  uint16   // negotiated (client view)
	cbCalls  int32    // calls of the supplied callback during this handshake
	peer     [][]byte // client certificate list as the server received it
	srvErr   error
	srvDone  bool
	hang     bool
	resumed  bool
	cachePut int32
}

func (h hsResult) label() string {
	if h.hang {
		return "hs:hang"
	}
	if h.ok {
		v := map[uint16]string{tls.VersionTLS10: "1.0", tls.VersionTLS11: "1.1", tls.VersionTLS12: "1.2", tls.VersionTLS13: "1.3"}[h.version]
		cc := "no-client-cert"
		if len(h.peer) > 0 {
			cc = "client-cert"
		}
		return "hs:ok/tls" + v + "/" + cc
	}
	var ua x509.UnknownAuthorityError
	var hn x509.HostnameError
	switch {
	case errors.Is(h.err, errRejected):
		return "hs:refused/callback"
	case errors.As(h.err, &ua):
		return "hs:refused/unknown-authority"
	case errors.As(h.err, &hn):
		return "hs:refused/hostname"
	case h.err != nil && strings.Contains(h.err.Error(), "protocol version"):
		return "hs:refused/protocol-version"
	}
	return "hs:refused/other"
}

type srvOut struct {
	err  error
	peer [][]byte
}

// serve runs the server side of one connection: handshake, then either one byte or one HTTP response.
func serve(sc net.Conn, conf *tls.Config, httpMode bool, out chan<- srvOut) {
	var so srvOut
	defer func() { sc.Close(); out <- so }()
	s := tls.Server(sc, conf)
	if so.err = s.Handshake(); so.err != nil {
		return
	}
	for _, c := range s.ConnectionState().PeerCertificates {
		so.peer = append(so.peer, c.Raw)
	}
	if httpMode {
		br := bufio.NewReader(s)
		if _, err := http.ReadRequest(br); err != nil {
			so.err = err
			return
		}
		if _, err := io.WriteString(s, "HTTP/1.1 200 OK\r\nContent-Length: 1\r\nConnection: close\r\n\r\nk"); err != nil {
			so.err = err
			return
		}
	} else if _, err := s.Write([]byte{'k'}); err != nil {
		so.err = err
		return
	}
	// wait until the client is done (it closes the pipe or says close_notify)
	var b [16]byte
	for {
		if _, err := s.Read(b[:]); err != nil {
			return
		}
	}
}

// handshake performs one connection attempt with the object obtained from the entry point.
func handshake(c Case, o *obs, scen string) (h hsResult) {
	conf := M.srvConf[scen]
	cc, sc := bufPipe()
	dl := time.Now().Add(horizon)
	cc.SetDeadline(dl)
	sc.SetDeadline(dl)
	out := make(chan srvOut, 1)
	go serve(sc, conf, c.HTTP, out)
	before := o.env.cbCalls.Load()
	defer func() {
		cc.Close()
		so := <-out
		h.srvErr, h.peer, h.srvDone = so.err, so.peer, true
		h.cbCalls = o.env.cbCalls.Load() - before
		if o.env.cache != nil {
			h.cachePut = o.env.cache.puts.Load()
		}
		if !h.ok && !time.Now().Before(dl) {
			h.hang = true // the horizon passed: a hang turned into an outcome
		}
	}()
	defer func() {
		if e := recover(); e != nil {
			h.ok = false
			h.err = fmt.Errorf("panic: %v", e)
		}
	}()
	if c.HTTP {
		// the way a program uses the wrappers: hand the transport a connection, let it do TLS
		tr := o.tr
		var dialled atomic.Int32
		tr.Proxy = nil
		tr.DialContext = func(context.Context, string, string) (net.Conn, error) {
			if dialled.Add(1) > 1 {
				return nil, errors.New("c18: second dial")
			}
			return cc, nil
		}
		ctx, cancel := context.WithDeadline(context.Background(), dl)
		defer cancel()
		req, err := http.NewRequestWithContext(ctx, http.MethodGet, "https://"+dialHost+"/", nil)
		if err != nil {
			h.err = err
			return h
		}
		var resp *http.Response
		if o.hc != nil {
			resp, err = o.hc.Do(req)
		} else {
			resp, err = tr.RoundTrip(req)
		}
		if err != nil {
			h.err = err
			tr.CloseIdleConnections()
			return h
		}
		body, err := io.ReadAll(resp.Body)
		resp.Body.Close()
		tr.CloseIdleConnections()
		if err != nil || resp.StatusCode != 200 || !bytes.Equal(body, []byte("k")) || resp.TLS == nil {
			h.err = fmt.Errorf("bad response: status %d body %q err %v", resp.StatusCode, body, err)
			return h
		}
		h.ok, h.version, h.resumed = true, resp.TLS.Version, resp.TLS.DidResume
		return h
	}
	// what http.Transport does with a TLSClientConfig: clone, default the server name to the dialled host
	cfg := o.cfg.Clone()
	if cfg.ServerName == "" {
		cfg.ServerName = dialHost
	}
	t := tls.Client(cc, cfg)
	if h.err = t.Handshake(); h.err != nil {
		return h
	}
	var b [1]byte
	if _, h.err = io.ReadFull(t, b[:]); h.err != nil {
		return h
	}
	st := t.ConnectionState()
	h.ok, h.version, h.resumed = true, st.Version, st.DidResume
	return h
}

// judgeHandshake: the behavioural clauses. trust is three-valued.
func judgeHandshake(c Case, rf ref, scen string, h hsResult) (class, what string) {
	sc, _ := parseScenario(scen)
	eff := c.ServerName
	if eff == "" {
		eff = dialHost
	}
	nm := nameMatch(eff, sc.name)
	trust := "mustnot"
	switch {
	case rf.rootSlot && rf.rootMust[sc.ca]:
		trust = "must"
	case rf.rootSlot && rf.rootMay[sc.ca]:
		trust = "may"
	case !rf.rootSlot && sc.ca == "SYS":
		trust = "may" // nothing supplied: the system pool is what the text expects, an empty trust set would not weaken anything
	}
	desc := fmt.Sprintf("server %s (issuer %s, name %s%s), client verifies name %q, roots must %s may %s, skip allowed %v, callback %q: %s (client error: %v, server error: %v)",
		scen, sc.ca, sc.name, map[bool]string{true: ", TLS<=1.1 only"}[sc.old]+map[bool]string{true: ", TLS<=1.2"}[sc.tls12], eff, set(rf.rootMust), set(rf.rootMay), rf.skipAllowed, c.Callback, h.label(), h.err, h.srvErr)
	if h.hang {
		return "handshake/hang", desc
	}
	if h.ok {
		if h.version < tls.VersionTLS12 {
			return "handshake/negotiated-below-tls12", desc
		}
		if sc.old {
			return "handshake/negotiated-below-tls12", desc
		}
		if c.Callback == "reject" {
			return "handshake/callback-verdict-ignored", desc
		}
		if c.Callback == "accept" && h.cbCalls == 0 {
			return "handshake/callback-not-consulted", desc
		}
		if !rf.skipAllowed {
			if trust == "mustnot" {
				return "handshake/accepted-unsupplied-root", desc
			}
			if nm == "mustnot" {
				return "handshake/accepted-wrong-name", desc
			}
		}
		// the certificate the server saw
		names := chainNames(h.peer)
		switch {
		case !rf.certSupplied && len(h.peer) > 0:
			return "handshake/unsupplied-client-certificate-presented", desc + fmt.Sprintf("; server received %v", names)
		case rf.certSupplied && len(h.peer) == 0:
			return "handshake/client-certificate-not-presented", desc
		case rf.certSupplied && !inLists(rf.acceptable, names):
			return "handshake/wrong-client-certificate-presented", desc + fmt.Sprintf("; server received %v, acceptable %v", names, rf.acceptable)
		}
		return "", ""
	}
	// refused
	// (a server limited to TLS 1.2 may be refused: the text sets a floor, not the floor's value)
	if !sc.old && !sc.tls12 && c.Callback != "reject" && trust == "must" && nm == "must" {
		return "handshake/rejected-supplied-root", desc
	}
	return "", ""
}
