package main

import (
	"bufio"
	"bytes"
	"context"
	"encoding/json"
	"fmt"
	"io"
	"mime"
	"net/http"
	"net/http/httptest"
	"os"
	"regexp"
	"strconv"

	"github.com/go-openapi/errors"
	"github.com/go-openapi/runtime"
	"github.com/go-openapi/runtime/client"
	"github.com/go-openapi/runtime/middleware"
	"github.com/go-openapi/runtime/middleware/untyped"
	"github.com/go-openapi/strfmt"
	"github.com/go-openapi/swag"

	"verif/engine/apib"
)

// ---- the case ----

// BS is a byte string. Its JSON form is the Go-escaped ASCII spelling (without
// the outer quotes), so replay files carry arbitrary bytes exactly and readably.
type BS string

func (b BS) MarshalJSON() ([]byte, error) {
	q := strconv.QuoteToASCII(string(b))
	return json.Marshal(q[1 : len(q)-1])
}

func (b *BS) UnmarshalJSON(d []byte) error {
	var s string
	if err := json.Unmarshal(d, &s); err != nil {
		return err
	}
	u, err := strconv.Unquote(`"` + s + `"`)
	if err != nil {
		return fmt.Errorf("byte string %q: %v", s, err)
	}
	*b = BS(u)
	return nil
}

// F is one member of a JSON value the caller (request body) or the handler
// (response body) supplies: key, kind and the literal of the value.
//
//	s  string V                  i  integer with decimal literal V (int64)
//	f  float64 with literal V    b  boolean V ("true"/"false")     z  null
//	as array [V, "x", 1]         os nested object {"x": V, "n": 1}
type F struct {
	K BS     `json:"k"`
	T string `json:"t"`
	V BS     `json:"v"`
}

// P is one declared parameter together with the value the caller supplies.
type P struct {
	Name   string `json:"name"`
	In     string `json:"in"`               // path | query | header | form | file | body
	Type   string `json:"type"`             // string | integer | number | boolean | array | file | object | jarray | text | bytes
	Format string `json:"format,omitempty"` // int32 int64 float double ...
	CF     string `json:"cf,omitempty"`     // collectionFormat of an array
	Items  string `json:"items,omitempty"`  // item type of an array: string | integer | number | boolean (+ ItemsFormat)
	IFmt   string `json:"ifmt,omitempty"`
	V      []BS   `json:"v,omitempty"`     // supplied value: one literal for a scalar, the items for an array
	Unset  bool   `json:"unset,omitempty"` // declared but not supplied by the caller (not judged)
	Fname  BS     `json:"fname,omitempty"` // file: the name of the NamedReadCloser
	Flen   int    `json:"flen,omitempty"`  // file: content length
	Fpat   int    `json:"fpat,omitempty"`  // file: content pattern
	Body   []F    `json:"body,omitempty"`  // body (object / jarray): the members
}

// H is one response header the handler sets.
type H struct {
	K string `json:"k"`
	V []BS   `json:"v"`
}

// Resp is what the handler returns through its Responder.
type Resp struct {
	// Mode: "" the handler returns a Responder that writes status, headers and body itself;
	// "plain" it returns the payload and the status is the success code of the description;
	// "error" it returns an error carrying the status and the message (Text).
	Mode   string `json:"mode,omitempty"`
	Status int    `json:"status"`
	H      []H    `json:"h,omitempty"`
	Kind   string `json:"kind"` // none | json | jarray | text | bytes
	Body   []F    `json:"body,omitempty"`
	Text   BS     `json:"text,omitempty"`
	// Dest: what the caller's reader hands to the consumer for a bytes body: "" an io.Writer
	// (what generated readers pass), "slice" a *[]byte, "string" a *string.
	Dest string `json:"dest,omitempty"`
}

// Case is one round trip: an API description with one operation, the values the
// caller sets, and the outcome the handler returns.
type Case struct {
	Base     string `json:"base"`     // basePath of the description (also given to client.New)
	Method   string `json:"method"`   //
	Template string `json:"template"` // path template of the operation
	Consumes string `json:"consumes"` // media type the operation consumes
	// ConsumesList, when given, is the consumes LIST of the operation, in the description and (verbatim,
	// empty entries included) in the client operation; Consumes is then its first non-empty entry, the
	// one the client is documented to use.
	ConsumesList []string `json:"consumeslist,omitempty"`
	Produces     string   `json:"produces"` // media type the operation produces
	Params       []P      `json:"params"`
	Auth         bool     `json:"auth,omitempty"` // a client auth writer is installed; it sets a credential header
	// AuthMode says what the writer does besides setting the header: "" or "body1" it calls GetBody once,
	// "header" never, "body2" / "body3" two / three times, "compose" it is client.Compose of two writers
	// that each call GetBody once.
	AuthMode string `json:"authmode,omitempty"`
	// Siblings: other operations of the same description (their handlers must not run):
	// "method" the same template under another method, any other string a template under the same method.
	Siblings []string `json:"siblings,omitempty"`
	Resp     Resp     `json:"resp"`
}

// ---- rendering the supplied JSON members into Go values ----

func fieldValue(f F) (any, error) {
	switch f.T {
	case "s":
		return string(f.V), nil
	case "i":
		return strconv.ParseInt(string(f.V), 10, 64)
	case "f":
		return strconv.ParseFloat(string(f.V), 64)
	case "b":
		return f.V == "true", nil
	case "z":
		return nil, nil
	case "as":
		return []any{string(f.V), "x", int64(1)}, nil
	case "os":
		return map[string]any{"x": string(f.V), "n": int64(1)}, nil
	}
	return nil, fmt.Errorf("unknown member kind %q", f.T)
}

func jsonValue(fs []F, asArray bool) (any, error) {
	if asArray {
		out := make([]any, 0, len(fs))
		for _, f := range fs {
			v, err := fieldValue(f)
			if err != nil {
				return nil, err
			}
			out = append(out, v)
		}
		return out, nil
	}
	out := make(map[string]any, len(fs))
	for _, f := range fs {
		v, err := fieldValue(f)
		if err != nil {
			return nil, err
		}
		out[string(f.K)] = v
	}
	return out, nil
}

// fileContent is the deterministic content of an uploaded file.
func fileContent(n, pat int) []byte {
	b := make([]byte, n)
	switch pat {
	case 0: // every byte value, in a rolling order
		for i := range b {
			b[i] = byte(i*7 + 3)
		}
	case 1: // text with line ends and boundary look-alikes
		const s = "line one\r\n--boundary\r\nContent-Disposition: form-data; name=\"x\"\r\n\r\n--\n"
		for i := range b {
			b[i] = s[i%len(s)]
		}
	case 2: // zeros
	}
	return b
}

// ---- the server side ----

var mediaTypes = map[string]string{
	"json":       runtime.JSONMime,
	"text":       runtime.TextMime,
	"bytes":      runtime.DefaultMime,
	"urlencoded": runtime.URLencodedFormMime,
	"multipart":  runtime.MultipartFormMime,
}

func mediaType(k string) string {
	if m, ok := mediaTypes[k]; ok {
		return m
	}
	return k
}

// bareType is the media type without parameters, lower case.
func bareType(k string) string {
	mt, _, err := mime.ParseMediaType(mediaType(k))
	if err != nil {
		return mediaType(k)
	}
	return mt
}

// capture is what the operation handler saw.
type capture struct {
	calls  int
	wrong  []string // sibling operations whose handler ran
	params map[string]any
	files  map[string]gotFile // file parameters are read inside the handler (the form is removed afterwards)
}

type gotFile struct {
	name    string
	content []byte
	err     string
}

// server is one instance of the real middleware stack for one description.
// It serves one request at a time (instances are pooled per description).
type server struct {
	cur  *Case // the case being served
	h    http.Handler
	cap  capture
	resp *Resp
	perr error // error while rendering resp
}

func paramSpec(p P) map[string]any {
	m := map[string]any{"name": p.Name}
	switch p.In {
	case "path":
		m["in"] = "path"
		m["required"] = true
	case "query", "header":
		m["in"] = p.In
	case "form":
		m["in"] = "formData"
	case "file":
		m["in"] = "formData"
		m["type"] = "file"
		return m
	case "body":
		m["in"] = "body"
		switch p.Type {
		case "jarray":
			m["schema"] = map[string]any{"type": "array", "items": map[string]any{"type": "string"}}
		case "text", "bytes", "jstring":
			// one declaration for the three ways to send a string, so that one operation can consume them all
			m["schema"] = map[string]any{"type": "string"}
		default:
			m["schema"] = map[string]any{"type": "object", "additionalProperties": true}
		}
		return m
	}
	m["type"] = p.Type
	if p.Format != "" {
		m["format"] = p.Format
	}
	if p.Type == "array" {
		it := map[string]any{"type": p.Items}
		if p.IFmt != "" {
			it["format"] = p.IFmt
		}
		m["items"] = it
		if p.CF != "" {
			m["collectionFormat"] = p.CF
		}
	}
	return m
}

// opDecl is one operation of a description, merged from the cases that call it.
type opDecl struct {
	method, template   string
	consumes, produces []string
	params             []map[string]any
	declared           map[string]string // name|in -> rendered declaration
	responses          map[string]any
}

// mergeOps builds the operations of the description shared by the cases: one
// operation per (method, template); its consumes / produces are the media types
// of all the cases that call it (in order of first use), its parameters the
// union of their declarations (the same name and location must be declared the
// same way), plus the sibling operations of every case.
func mergeOps(cases []*Case) ([]apib.Op, error) {
	var decls []*opDecl
	byKey := map[string]*opDecl{}
	addTo := func(l []string, v string) []string {
		for _, x := range l {
			if x == v {
				return l
			}
		}
		return append(l, v)
	}
	for _, c := range cases {
		if c.Base != cases[0].Base {
			return nil, fmt.Errorf("cases of one description must share the base path")
		}
		key := c.Method + " " + c.Template
		d := byKey[key]
		if d == nil {
			d = &opDecl{method: c.Method, template: c.Template, declared: map[string]string{}}
			byKey[key] = d
			decls = append(decls, d)
		}
		if len(c.ConsumesList) > 0 {
			if first := firstNonEmpty(c.ConsumesList); first != c.Consumes {
				return nil, fmt.Errorf("consumes %q is not the first non-empty entry of %q", c.Consumes, c.ConsumesList)
			}
			for _, m := range c.ConsumesList {
				if m != "" {
					d.consumes = addTo(d.consumes, mediaType(m))
				}
			}
		}
		d.consumes = addTo(d.consumes, mediaType(c.Consumes))
		d.produces = addTo(d.produces, mediaType(c.Produces))
		ps := make([]map[string]any, 0, len(c.Params)+1)
		for _, p := range c.Params {
			ps = append(ps, paramSpec(p))
		}
		if c.Auth {
			// the credential the auth writer adds is declared too, so the handler sees it
			ps = append(ps, map[string]any{"name": authHeader, "in": "header", "type": "string"})
		}
		for _, m := range ps {
			k := fmt.Sprint(m["name"], "|", m["in"])
			txt, _ := json.Marshal(m)
			if old, ok := d.declared[k]; ok {
				if old != string(txt) {
					return nil, fmt.Errorf("operation %s: parameter %s declared in two ways: %s / %s", key, k, old, txt)
				}
				continue
			}
			d.declared[k] = string(txt)
			d.params = append(d.params, m)
		}
		if c.Resp.Mode == "plain" {
			if d.responses == nil {
				d.responses = map[string]any{}
			}
			d.responses[strconv.Itoa(c.Resp.Status)] = map[string]any{"description": "ok"}
		}
	}
	var ops []apib.Op
	for i, d := range decls {
		id := "op"
		if len(decls) > 1 {
			id = fmt.Sprintf("op%d", i)
		}
		o := apib.Op{Method: d.method, Path: d.template, ID: id, Consumes: d.consumes, Produces: d.produces, Params: d.params, Responses: d.responses}
		if o.Params == nil {
			o.Params = []map[string]any{}
		}
		ops = append(ops, o)
	}
	n := 0
	for _, c := range cases {
		for i, sib := range c.Siblings {
			o := siblingOp(c, i, sib)
			if byKey[o.Method+" "+o.Path] != nil {
				continue
			}
			byKey[o.Method+" "+o.Path] = &opDecl{}
			o.ID = fmt.Sprintf("sibling%d", n)
			n++
			ops = append(ops, o)
		}
	}
	return ops, nil
}

// specOfCases is the description shared by the cases.
func specOfCases(cases []*Case) (apib.Spec, error) {
	ops, err := mergeOps(cases)
	return apib.Spec{BasePath: cases[0].Base, Ops: ops}, err
}

// specOf is the description of one case.
func specOf(c *Case) apib.Spec {
	sp, _ := specOfCases([]*Case{c})
	return sp
}

func otherMethod(m string) string {
	if m == "PUT" {
		return "POST"
	}
	return "PUT"
}

var placeholderName = regexp.MustCompile(`\{([^}/]*)\}`)

func siblingOp(c *Case, i int, sib string) apib.Op {
	o := apib.Op{Method: c.Method, Path: sib, ID: fmt.Sprintf("sibling%d", i),
		Consumes: []string{mediaType(c.Consumes)}, Produces: []string{mediaType(c.Produces)}, Params: []map[string]any{}}
	if sib == "method" {
		o.Method, o.Path = otherMethod(c.Method), c.Template
	}
	for _, m := range placeholderName.FindAllStringSubmatch(o.Path, -1) {
		o.Params = append(o.Params, map[string]any{"name": m[1], "in": "path", "required": true, "type": "string"})
	}
	return o
}

// specKey identifies the description of a case.
func specKey(c *Case) string { return string(specOf(c).JSON()) }

func newServer(c *Case) (*server, error) { return buildServer([]*Case{c}) }

// buildServer builds one instance of the real middleware stack for the
// description shared by the cases (see mergeOps).
func buildServer(cases []*Case) (*server, error) {
	sp, err := specOfCases(cases)
	if err != nil {
		return nil, err
	}
	doc, err := apib.Load(sp)
	if err != nil {
		return nil, fmt.Errorf("description does not load: %v\n%s", err, sp.JSON())
	}
	s := &server{}
	api := untyped.NewAPI(doc)
	// register what a generated server registers: the codecs of the media types the description names
	// (JSON is there by default and stays the default for error bodies)
	for _, c := range cases {
		for _, m := range append([]string{c.Consumes}, c.ConsumesList...) {
			switch bareType(m) {
			case runtime.TextMime:
				api.RegisterConsumer(runtime.TextMime, runtime.TextConsumer())
			case runtime.DefaultMime:
				api.RegisterConsumer(runtime.DefaultMime, runtime.ByteStreamConsumer())
			case runtime.URLencodedFormMime:
				api.RegisterConsumer(runtime.URLencodedFormMime, runtime.DiscardConsumer)
			case runtime.MultipartFormMime:
				api.RegisterConsumer(runtime.MultipartFormMime, runtime.DiscardConsumer)
			}
		}
		switch bareType(c.Produces) {
		case runtime.TextMime:
			api.RegisterProducer(runtime.TextMime, runtime.TextProducer())
		case runtime.DefaultMime:
			api.RegisterProducer(runtime.DefaultMime, runtime.ByteStreamProducer())
		}
	}
	for _, o := range sp.Ops {
		key := o.Method + " " + o.Path
		api.RegisterOperation(o.Method, o.Path, runtime.OperationHandlerFunc(func(params interface{}) (interface{}, error) {
			return s.handle(key, params)
		}))
	}
	ctx := middleware.NewContext(doc, api, nil)
	s.h = ctx.APIHandler(nil)
	return s, nil
}

// handle is the operation handler of every operation of the description: it
// records what it was given when it is the operation the current case calls,
// and that it ran when it is another one.
func (s *server) handle(key string, params interface{}) (interface{}, error) {
	if s.cur == nil || key != s.cur.Method+" "+s.cur.Template {
		s.cap.wrong = append(s.cap.wrong, key)
		return map[string]any{"wrong": key}, nil
	}
	s.cap.calls++
	m, _ := params.(map[string]interface{})
	s.cap.params = m
	for _, p := range s.cur.Params {
		if p.In != "file" {
			continue
		}
		n := p.Name
		gf := gotFile{}
		if f, ok := m[n].(runtime.File); ok && f.Data != nil {
			b, err := io.ReadAll(f.Data)
			if err != nil {
				gf.err = err.Error()
			}
			gf.content = b
			if f.Header != nil {
				gf.name = f.Header.Filename
			}
		} else {
			gf.err = fmt.Sprintf("not a file: %T", m[n])
		}
		if s.cap.files == nil {
			s.cap.files = map[string]gotFile{}
		}
		s.cap.files[n] = gf
	}
	switch s.resp.Mode {
	case "plain":
		payload, _, err := respPayload(s.resp)
		if err != nil {
			s.perr = err
		}
		return payload, nil
	case "error":
		return nil, errors.New(int32(s.resp.Status), "%s", string(s.resp.Text))
	}
	return middleware.ResponderFunc(s.respond), nil
}

// respond is the handler's Responder: status, headers and body of the case.
func (s *server) respond(rw http.ResponseWriter, prod runtime.Producer) {
	r := s.resp
	for _, h := range r.H {
		vs := make([]string, len(h.V))
		for i, v := range h.V {
			vs[i] = string(v)
		}
		rw.Header()[http.CanonicalHeaderKey(h.K)] = vs
	}
	rw.WriteHeader(r.Status)
	payload, has, err := respPayload(r)
	if err != nil {
		s.perr = err
		return
	}
	if has {
		if err := prod.Produce(rw, payload); err != nil {
			s.perr = fmt.Errorf("server producer: %v", err)
		}
	}
}

func respPayload(r *Resp) (any, bool, error) {
	switch r.Kind {
	case "none":
		return nil, false, nil
	case "json":
		v, err := jsonValue(r.Body, false)
		return v, true, err
	case "jarray":
		v, err := jsonValue(r.Body, true)
		return v, true, err
	case "text":
		return string(r.Text), true, nil
	case "bytes":
		return []byte(r.Text), true, nil
	}
	return nil, false, fmt.Errorf("unknown response kind %q", r.Kind)
}

// ---- the wire ----

// wire is the RoundTripper between the two halves: the request is serialised
// with Request.Write, parsed again with http.ReadRequest (what a net/http
// server hands to its handler), served by the API handler into a recorder, the
// recorded response is serialised with Response.Write and parsed again with
// http.ReadResponse (what a net/http client hands back).
type wire struct {
	s         *server
	reqText   []byte
	serverErr string // panic in the handler chain
	wireErr   string // the request text did not parse
	status    int
}

func (w *wire) RoundTrip(req *http.Request) (*http.Response, error) {
	var buf bytes.Buffer
	if err := req.Write(&buf); err != nil {
		return nil, fmt.Errorf("request write: %w", err)
	}
	w.reqText = append([]byte(nil), buf.Bytes()...)
	sreq, err := http.ReadRequest(bufio.NewReader(&buf))
	rec := httptest.NewRecorder()
	if err != nil {
		// a net/http server answers an unparsable request itself
		w.wireErr = err.Error()
		rec.WriteHeader(http.StatusBadRequest)
	} else {
		sreq.RemoteAddr = "192.0.2.1:1234"
		func() {
			defer func() {
				if e := recover(); e != nil {
					w.serverErr = fmt.Sprint(e)
					rec = httptest.NewRecorder()
					rec.WriteHeader(http.StatusInternalServerError)
				}
			}()
			w.s.h.ServeHTTP(rec, sreq)
		}()
		// (a form spilled to disk lives in the process's own TMPDIR, see ownTempDir: the middleware parses
		// the form on a copy of the request, so it cannot be removed from here)
	}
	res := rec.Result()
	w.status = res.StatusCode
	var out bytes.Buffer
	if err := res.Write(&out); err != nil {
		return nil, fmt.Errorf("response write: %w", err)
	}
	cres, err := http.ReadResponse(bufio.NewReader(&out), req)
	if err != nil {
		return nil, fmt.Errorf("response read: %w", err)
	}
	return cres, nil
}

// ---- the client side ----

// seen is what the caller's response reader received.
type seen struct {
	called  bool
	code    int
	headers map[string][]string
	raw     []byte
	body    any // decoded with the consumer the runtime selected
	bodyErr string
}

func paramStrings(p P) []string {
	out := make([]string, len(p.V))
	for i, v := range p.V {
		out[i] = string(v)
	}
	return out
}

// renderScalar is the text a generated client produces for a typed value
// (swag.FormatXxx); the literal in the case is the value itself.
func renderScalar(tpe, format string, lit string) (string, error) {
	switch tpe {
	case "string":
		return lit, nil
	case "integer":
		if format == "int32" {
			v, err := strconv.ParseInt(lit, 10, 32)
			return swag.FormatInt32(int32(v)), err
		}
		v, err := strconv.ParseInt(lit, 10, 64)
		return swag.FormatInt64(v), err
	case "number":
		if format == "float" {
			v, err := strconv.ParseFloat(lit, 32)
			return swag.FormatFloat32(float32(v)), err
		}
		v, err := strconv.ParseFloat(lit, 64)
		return swag.FormatFloat64(v), err
	case "boolean":
		v, err := strconv.ParseBool(lit)
		return swag.FormatBool(v), err
	}
	return "", fmt.Errorf("unknown scalar type %q", tpe)
}

// rendered returns the strings handed to the ClientRequest for a non-file,
// non-body parameter, the way generated client code does it.
func rendered(p P) ([]string, error) {
	if p.Type != "array" {
		if len(p.V) != 1 {
			return nil, fmt.Errorf("parameter %s: a scalar takes one value", p.Name)
		}
		s, err := renderScalar(p.Type, p.Format, string(p.V[0]))
		return []string{s}, err
	}
	items := make([]string, len(p.V))
	for i, v := range p.V {
		s, err := renderScalar(p.Items, p.IFmt, string(v))
		if err != nil {
			return nil, err
		}
		items[i] = s
	}
	return swag.JoinByFormat(items, p.CF), nil
}

type namedBytes struct {
	*bytes.Reader
	name   string
	closed *int
}

func (n namedBytes) Name() string { return n.name }
func (n namedBytes) Close() error { *n.closed++; return nil }

func bodyPayload(p P) (any, error) {
	switch p.Type {
	case "object":
		return jsonValue(p.Body, false)
	case "jarray":
		return jsonValue(p.Body, true)
	case "text", "jstring":
		return string(p.V[0]), nil
	case "bytes":
		return io.NopCloser(bytes.NewReader([]byte(p.V[0]))), nil
	}
	return nil, fmt.Errorf("unknown body type %q", p.Type)
}

const authHeader = "X-Auth-Token"
const authValue = "token 123"

type result struct {
	submitErr error
	w         *wire
	cap       capture
	seen      seen
	closes    int
	perr      error
	getBody   []byte
	panicked  string
}

func firstNonEmpty(l []string) string {
	for _, m := range l {
		if m != "" {
			return m
		}
	}
	return ""
}

// clientConsumes is the ConsumesMediaTypes of the client operation: the list of the description.
func clientConsumes(c *Case) []string {
	if len(c.ConsumesList) == 0 {
		return []string{mediaType(c.Consumes)}
	}
	out := make([]string, len(c.ConsumesList))
	for i, m := range c.ConsumesList {
		if m != "" {
			out[i] = mediaType(m)
		}
	}
	return out
}

// clientSide is one client.Runtime; its transport hands every request to the
// wire of the round trip in progress.
type clientSide struct {
	rt *client.Runtime
	tr *relay
}

type relay struct{ w *wire }

func (r *relay) RoundTrip(req *http.Request) (*http.Response, error) { return r.w.RoundTrip(req) }

func newClientSide(base string) *clientSide {
	cl := &clientSide{rt: client.New("verif.test", base, []string{"http"}), tr: &relay{}}
	cl.rt.Transport = cl.tr
	cl.rt.Debug = false // whatever SWAGGER_DEBUG / DEBUG say in the environment
	return cl
}

// execute performs the round trip of the case on the real code: client side cl
// (nil: a new Runtime) against server s, whose description contains the
// operation of the case (s serves one request at a time).
func execute(s *server, cl *clientSide, c *Case) (res result, herr error) {
	s.cap = capture{}
	s.perr = nil
	s.cur = c
	s.resp = &c.Resp
	w := &wire{s: s}
	res.w = w
	if cl == nil {
		cl = newClientSide(c.Base)
	}
	cl.tr.w = w
	rt := cl.rt
	writer := runtime.ClientRequestWriterFunc(func(req runtime.ClientRequest, _ strfmt.Registry) error {
		// generated code sets the operation's timeout here; 0 = none, so that no verdict depends on the clock
		if err := req.SetTimeout(0); err != nil {
			return err
		}
		for _, p := range c.Params {
			if p.Unset {
				continue
			}
			switch p.In {
			case "path":
				vs, err := rendered(p)
				if err != nil {
					return harnessErr{err}
				}
				if err := req.SetPathParam(p.Name, vs[0]); err != nil {
					return err
				}
			case "query":
				vs, err := rendered(p)
				if err != nil {
					return harnessErr{err}
				}
				if err := req.SetQueryParam(p.Name, vs...); err != nil {
					return err
				}
			case "header":
				vs, err := rendered(p)
				if err != nil {
					return harnessErr{err}
				}
				if len(vs) == 0 {
					continue // generated code sets a header only when there is something to send
				}
				if err := req.SetHeaderParam(p.Name, vs[0]); err != nil {
					return err
				}
			case "form":
				vs, err := rendered(p)
				if err != nil {
					return harnessErr{err}
				}
				if err := req.SetFormParam(p.Name, vs...); err != nil {
					return err
				}
			case "file":
				f := namedBytes{bytes.NewReader(fileContent(p.Flen, p.Fpat)), string(p.Fname), &res.closes}
				if err := req.SetFileParam(p.Name, f); err != nil {
					return err
				}
			case "body":
				pl, err := bodyPayload(p)
				if err != nil {
					return harnessErr{err}
				}
				if err := req.SetBodyParam(pl); err != nil {
					return err
				}
			}
		}
		return nil
	})
	reader := runtime.ClientResponseReaderFunc(func(resp runtime.ClientResponse, cons runtime.Consumer) (interface{}, error) {
		sn := &res.seen
		sn.called = true
		sn.code = resp.Code()
		sn.headers = map[string][]string{}
		for _, h := range c.Resp.H {
			sn.headers[h.K] = resp.GetHeaders(h.K)
		}
		sn.headers["Content-Type"] = resp.GetHeaders("Content-Type")
		// the body is read once; the consumer the runtime selected then decodes those bytes
		raw, err := io.ReadAll(resp.Body())
		if err != nil {
			sn.bodyErr = "reading the body: " + err.Error()
		}
		sn.raw = raw
		body := bytes.NewReader(raw)
		switch c.Resp.Kind {
		case "none":
			sn.body = raw
		case "json", "jarray":
			var v interface{}
			if err := cons.Consume(body, &v); err != nil {
				sn.bodyErr = err.Error()
			}
			sn.body = v
		case "text":
			var v string
			if err := cons.Consume(body, &v); err != nil {
				sn.bodyErr = err.Error()
			}
			sn.body = v
		case "bytes":
			switch c.Resp.Dest {
			case "slice":
				var v []byte
				if err := cons.Consume(body, &v); err != nil {
					sn.bodyErr = err.Error()
				}
				sn.body = v
			case "string":
				var v string
				if err := cons.Consume(body, &v); err != nil {
					sn.bodyErr = err.Error()
				}
				sn.body = v
			default:
				var v bytes.Buffer
				if err := cons.Consume(body, &v); err != nil {
					sn.bodyErr = err.Error()
				}
				sn.body = v.Bytes()
			}
		}
		return nil, nil
	})
	op := &runtime.ClientOperation{
		ID:                 "op",
		Method:             c.Method,
		PathPattern:        c.Template,
		ConsumesMediaTypes: clientConsumes(c),
		ProducesMediaTypes: []string{mediaType(c.Produces)},
		Schemes:            []string{"http"},
		Params:             writer,
		Reader:             reader,
		Context:            context.Background(),
	}
	if c.Auth {
		reads := func(n int) runtime.ClientAuthInfoWriter {
			return runtime.ClientAuthInfoWriterFunc(func(req runtime.ClientRequest, _ strfmt.Registry) error {
				for i := 0; i < n; i++ {
					res.getBody = append([]byte(nil), req.GetBody()...) // a signing writer reads the body
				}
				return req.SetHeaderParam(authHeader, authValue)
			})
		}
		switch c.AuthMode {
		case "", "body1":
			op.AuthInfo = reads(1)
		case "header":
			op.AuthInfo = reads(0)
		case "body2":
			op.AuthInfo = reads(2)
		case "body3":
			op.AuthInfo = reads(3)
		case "compose":
			op.AuthInfo = client.Compose(reads(1), reads(1))
		default:
			return res, fmt.Errorf("unknown auth mode %q", c.AuthMode)
		}
	}
	func() {
		defer func() {
			if e := recover(); e != nil {
				res.panicked = fmt.Sprint(e)
			}
		}()
		_, res.submitErr = rt.Submit(op)
	}()
	res.cap = s.cap
	res.perr = s.perr
	if he, ok := res.submitErr.(harnessErr); ok {
		return res, he.error
	}
	return res, nil
}

type harnessErr struct{ error }

func (c *Case) String() string {
	b, _ := json.Marshal(c)
	return string(b)
}

func firstLine(b []byte) string {
	if i := bytes.IndexByte(b, '\r'); i >= 0 {
		return string(b[:i])
	}
	return string(b)
}

// ownTempDir makes the process keep its temporary files (multipart spill) in a
// directory of its own under /verif/.work; the returned function removes it.
func ownTempDir() func() {
	dir, err := os.MkdirTemp("/verif/.work", "c04-")
	if err != nil {
		if err2 := os.MkdirAll("/verif/.work", 0o755); err2 == nil {
			dir, err = os.MkdirTemp("/verif/.work", "c04-")
		}
	}
	if err != nil {
		return func() {}
	}
	os.Setenv("TMPDIR", dir)
	return func() { os.RemoveAll(dir) }
}
