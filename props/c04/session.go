package main

import (
	"encoding/json"
	"fmt"
	"sort"
	"strings"
)

// A Session is a history on ONE instance of each half: one server (router,
// Context, API, handlers) built from the description shared by Steps and Also,
// and one client.Runtime. The steps are round trips made one after the other.
// Every step is judged by the identity oracle exactly as when it is alone, and
// its observation (what the handler got, what the reader saw) must equal the
// observation of the same step made alone on a fresh instance of the same
// description.
type Session struct {
	Steps []Case `json:"steps"`
	Also  []Case `json:"also,omitempty"` // declare operations / media types of the description; not executed
	// Fresh: every step gets a new server instance and a new client.Runtime (only the process is
	// shared); what is checked then is that values delivered by earlier steps stay what they were.
	Fresh bool `json:"fresh,omitempty"`
}

func (s *Session) all() []*Case {
	out := make([]*Case, 0, len(s.Steps)+len(s.Also))
	for i := range s.Steps {
		out = append(out, &s.Steps[i])
	}
	for i := range s.Also {
		out = append(out, &s.Also[i])
	}
	return out
}

// observation renders everything the two ends saw in one round trip, in a
// form that is equal for equal observations (maps sorted; the random multipart
// boundary and the request text are not part of it).
func observation(c *Case, res *result) string {
	var b strings.Builder
	fmt.Fprintf(&b, "calls=%d wrong=%v", res.cap.calls, res.cap.wrong)
	if res.panicked != "" {
		fmt.Fprintf(&b, " client-panic")
	}
	if res.w != nil {
		// (whether, not how: the wording of errors is not part of an observation)
		fmt.Fprintf(&b, " status=%d server-panic=%v wire-error=%v", res.w.status, res.w.serverErr != "", res.w.wireErr != "")
	}
	if res.submitErr != nil {
		fmt.Fprintf(&b, " submit-error")
	}
	names := make([]string, 0, len(res.cap.params))
	for k := range res.cap.params {
		names = append(names, k)
	}
	sort.Strings(names)
	for _, k := range names {
		if _, isFile := res.cap.files[k]; isFile {
			continue
		}
		fmt.Fprintf(&b, " param[%s]=%s", quote(k), show(res.cap.params[k]))
	}
	fnames := make([]string, 0, len(res.cap.files))
	for k := range res.cap.files {
		fnames = append(fnames, k)
	}
	sort.Strings(fnames)
	for _, k := range fnames {
		f := res.cap.files[k]
		fmt.Fprintf(&b, " file[%s]=(%s,%d bytes,%x,%q)", quote(k), quote(f.name), len(f.content), digest(f.content), f.err)
	}
	if res.perr != nil {
		fmt.Fprintf(&b, " produce-error")
	}
	fmt.Fprintf(&b, " reader=%v code=%d", res.seen.called, res.seen.code)
	hs := make([]string, 0, len(res.seen.headers))
	for k := range res.seen.headers {
		hs = append(hs, k)
	}
	sort.Strings(hs)
	for _, k := range hs {
		fmt.Fprintf(&b, " header[%s]=%s", k, show(res.seen.headers[k]))
	}
	if res.cap.calls == 1 && c.Resp.Mode != "error" {
		// the body is the handler's; a body the middleware or the error responder words is not compared
		fmt.Fprintf(&b, " body=(%d bytes,%x) decoded=%s decode-error=%v", len(res.seen.raw), digest(res.seen.raw), show(res.seen.body), res.seen.bodyErr != "")
	}
	return b.String()
}

func digest(b []byte) uint64 {
	// FNV-1a, enough to tell two byte strings of one comparison apart
	h := uint64(14695981039346656037)
	for _, c := range b {
		h ^= uint64(c)
		h *= 1099511628211
	}
	return h
}

// alone executes one step on a fresh instance of the session's description.
func (s *Session) alone(i int) (verdict, string) {
	srv, err := buildServer(s.all())
	if err != nil {
		return verdict{class: "harness-error", what: err.Error(), outcome: "harness-error"}, ""
	}
	c := &s.Steps[i]
	res, herr := execute(srv, nil, c)
	if herr != nil {
		return verdict{class: "harness-error", what: herr.Error(), outcome: "harness-error"}, ""
	}
	return judge(c, &res), observation(c, &res)
}

// stepResult is the verdict of one step of a session.
type stepResult struct {
	v   verdict
	obs string
}

// checkSession is the pure function of a session. baseline(i), when given,
// returns the verdict and observation of step i alone on a fresh instance
// (computed once per distinct step by the enumerator); otherwise they are
// computed here. It returns the verdict of the first step that fails (class ""
// when none does), the index of that step, and the per-step results.
func checkSession(s *Session, baseline func(i int) (verdict, string)) (verdict, int, []stepResult) {
	if baseline == nil {
		baseline = s.alone
	}
	var srv *server
	var cl *clientSide
	var err error
	if !s.Fresh {
		srv, err = buildServer(s.all())
		if err != nil {
			return verdict{class: "harness-error", what: err.Error(), outcome: "harness-error"}, 0, nil
		}
		cl = newClientSide(s.Steps[0].Base)
	}
	var out []stepResult
	keep := &keeper{}
	for i := range s.Steps {
		c := &s.Steps[i]
		if s.Fresh {
			if len(s.Also) > 0 {
				srv, err = buildServer(s.all())
			} else {
				srv, err = buildServer([]*Case{c})
			}
			if err != nil {
				return verdict{class: "harness-error", what: err.Error(), outcome: "harness-error"}, i, out
			}
			cl = nil
		}
		res, herr := execute(srv, cl, c)
		if herr != nil {
			return verdict{class: "harness-error", what: herr.Error(), outcome: "harness-error"}, i, out
		}
		v := judge(c, &res)
		obs := observation(c, &res)
		out = append(out, stepResult{v, obs})
		if v.class == "" && len(v.outcome) >= 17 && v.outcome[:17] == "outside-guarantee" {
			continue
		}
		av, aobs := verdict{}, obs
		if !s.Fresh {
			av, aobs = baseline(i)
		} else if v.class != "" {
			av = v // every step of a fresh-instance session is alone already
		}
		switch {
		case v.class != "" && av.class == v.class:
			// the step fails in the same way on a fresh instance: not a matter of the history
			v.what = fmt.Sprintf("step %d of %d (fails alone too): %s", i+1, len(s.Steps), v.what)
			return v, i, out
		case v.class != "":
			v.class = "in-sequence/" + v.class
			v.what = fmt.Sprintf("step %d of %d, after %s: %s; alone on a fresh instance: %s", i+1, len(s.Steps), history(s, i), v.what, orOK(av))
			v.outcome = "in-sequence-" + v.outcome
			return v, i, out
		case av.class == "" && obs != aobs:
			v.class = "in-sequence/observation-differs-from-fresh-instance"
			v.what = fmt.Sprintf("step %d of %d, after %s: observed %s; alone on a fresh instance: %s", i+1, len(s.Steps), history(s, i), obs, aobs)
			v.outcome = "in-sequence-observation-differs"
			return v, i, out
		}
		// values delivered by this and by earlier steps must stay what they were at delivery
		keep.keepResult(i, &res)
		if kv := keep.changed(); kv != nil {
			v.class = "in-sequence/kept-value-changed-later"
			v.what = fmt.Sprintf("the %s in step %d [%s] was %s when it was delivered and is %s after step %d [%s]",
				kv.label, kv.step+1, stepLabel(&s.Steps[kv.step]), show(kv.snap), show(kv.live), i+1, stepLabel(c))
			v.outcome = "in-sequence-kept-value-changed"
			return v, i, out
		}
	}
	return verdict{}, -1, out
}

func orOK(v verdict) string {
	if v.class == "" {
		return "satisfied (" + v.outcome + ")"
	}
	return v.class + ": " + v.what
}

func stepLabel(c *Case) string {
	l := c.Method + " " + c.Template + " " + c.Consumes + "->" + c.Produces
	if c.Resp.Dest != "" {
		l += "(" + c.Resp.Dest + ")"
	}
	if c.Auth {
		m := c.AuthMode
		if m == "" {
			m = "body1"
		}
		l += " +auth(" + m + ")"
	}
	return l
}

func history(s *Session, i int) string {
	var hs []string
	for k := 0; k < i; k++ {
		hs = append(hs, "["+stepLabel(&s.Steps[k])+"]")
	}
	if len(hs) == 0 {
		return "nothing"
	}
	return strings.Join(hs, " ")
}

func (s *Session) String() string {
	b, _ := json.Marshal(s)
	return string(b)
}
