package main

import (
	"fmt"
	"net/http"
)

// A group is a list of cases that (normally) share one description, so that one
// server is built per group. Groups are the unit of parallel work.
type group struct {
	family string
	n      int
	at     func(i int) Case
}

// ---- value alphabet ----

// atoms: the "nasty atoms" of DESIGN.md section 3 (simplest first) plus quote,
// backslash, apostrophe, '<', '|', HTAB, CR LF, NUL and a mixed-case word.
var atoms = []BS{"a", "", "Ab", " ", "+", "%", "%2F", "%25", "/", "?", "#", ":", "*", "=", ";v=1", "{q}", "}", ".", "..",
	"a b", "a+b", "a&b=c", "a,b", "é", "日本", "\x80", `"`, `\`, "'", "<", "|", "\t", "\r\n", "\x00"}

// core: the atoms whose pairs are swept in the quick tier.
var core = []BS{"a", "", " ", "+", "%", "%2F", "/", "?", "#", ":", "=", ".", "a,b", "é", "\x80", `"`, "\r\n"}

var valuesFull []BS

func pairsOf(a []BS) []BS {
	seen := map[BS]bool{}
	var out []BS
	add := func(v BS) {
		if !seen[v] {
			seen[v] = true
			out = append(out, v)
		}
	}
	for _, x := range atoms {
		add(x)
	}
	for _, x := range a {
		for _, y := range a {
			add(x + y)
		}
	}
	return out
}

// values: every atom and every concatenation of two atoms (both tiers);
// duplicates removed.
func values(full bool) []BS {
	if valuesFull == nil {
		valuesFull = pairsOf(atoms)
	}
	return valuesFull
}

// triples: every concatenation of three atoms that is not already a value (thorough only).
func triples() []BS {
	seen := map[BS]bool{}
	for _, v := range values(true) {
		seen[v] = true
	}
	var out []BS
	for _, x := range atoms {
		for _, y := range atoms {
			for _, z := range atoms {
				if v := x + y + z; !seen[v] {
					seen[v] = true
					out = append(out, v)
				}
			}
		}
	}
	return out
}

func filter(vs []BS, keep func(string) bool) []BS {
	var out []BS
	for _, v := range vs {
		if keep(string(v)) {
			out = append(out, v)
		}
	}
	return out
}

func containsStr(s, sub string) bool {
	for i := 0; i+len(sub) <= len(s); i++ {
		if s[i:i+len(sub)] == sub {
			return true
		}
	}
	return false
}

// setAuth puts the case on one point of the auth writer axis.
func setAuth(c *Case, mode string) {
	switch mode {
	case "none":
		c.Auth, c.AuthMode = false, ""
	case "body1":
		c.Auth, c.AuthMode = true, ""
	default:
		c.Auth, c.AuthMode = true, mode
	}
}

func inList(l []string, v string) bool {
	for _, x := range l {
		if x == v {
			return true
		}
	}
	return false
}

func okResp() Resp {
	return Resp{Status: 200, Kind: "json", Body: []F{{K: "ok", T: "b", V: "true"}}, H: []H{{K: "X-Resp", V: []BS{"r1"}}}}
}

// with returns a copy of the case whose parameter list can be modified.
func with(c Case) Case {
	c.Params = append([]P(nil), c.Params...)
	return c
}

// sweep: the base case with parameter k taking each value.
func sweep(family string, base Case, k int, vs []BS) group {
	return group{family, len(vs), func(i int) Case {
		c := with(base)
		c.Params[k].V = []BS{vs[i]}
		return c
	}}
}

// lists of items for array parameters: the empty list, every 1-list, every
// 2-list over the alphabet, and every 3-list over a small alphabet.
func lists(a []BS, small []BS) [][]BS {
	out := [][]BS{{}}
	for _, x := range a {
		out = append(out, []BS{x})
	}
	for _, x := range a {
		for _, y := range a {
			out = append(out, []BS{x, y})
		}
	}
	for _, x := range small {
		for _, y := range small {
			for _, z := range small {
				out = append(out, []BS{x, y, z})
			}
		}
	}
	return out
}

func listSweep(family string, base Case, k int, ls [][]BS) group {
	return group{family, len(ls), func(i int) Case {
		c := with(base)
		c.Params[k].V = ls[i]
		return c
	}}
}

type typed struct {
	tpe, format string
	lits        []BS
}

var typedValues = []typed{
	{"integer", "int64", []BS{"0", "1", "-1", "9223372036854775807", "-9223372036854775808", "2147483648", "-2147483649"}},
	{"integer", "int32", []BS{"0", "1", "-1", "2147483647", "-2147483648"}},
	{"integer", "", []BS{"0", "-1", "9223372036854775807", "-9223372036854775808"}},
	{"number", "double", []BS{"0", "1.5", "-1.5", "0.1", "1e21", "1e-7", "123456789.125", "1.7976931348623157e308", "-1.7976931348623157e308", "5e-324", "9007199254740993"}},
	{"number", "float", []BS{"0", "1.5", "-1.5", "0.1", "16777216", "1e-45", "3.4028233e38", "3.4028235e38", "-3.4028235e38"}},
	{"number", "", []BS{"1.5"}},
	{"boolean", "", []BS{"true", "false"}},
}

// families lists every group of the tier.
func families(full bool) []group {
	var gs []group
	vals := values(full)
	add := func(g group) {
		if g.n > 0 {
			gs = append(gs, g)
		}
	}
	pick := func(quick, thorough []string) []string {
		if full {
			return thorough
		}
		return quick
	}
	base := Case{Base: "/api", Method: "GET", Template: "/items", Consumes: "json", Produces: "json", Resp: okResp()}
	bases := pick([]string{"/api", "/"}, []string{"/api", "/", "/api/v1", "/api/", ""})
	methods := pick([]string{"GET", "POST"}, []string{"GET", "POST", "PUT", "DELETE", "PATCH", "HEAD", "OPTIONS"})
	bodyMethods := pick([]string{"POST", "DELETE"}, []string{"POST", "PUT", "PATCH", "DELETE"})
	// the auth writer axis: none, header only, GetBody once / twice / three times, Compose of two body readers.
	// Families whose body is streamed (multipart forms, files, reader payloads) take the whole axis in both
	// tiers; families whose body is produced into the request buffer take {none, once, twice} in quick.
	authsStreamed := []string{"none", "header", "body1", "body2", "body3", "compose"}
	authsBuffered := authsStreamed
	if !full {
		authsBuffered = []string{"none", "body1", "body2"}
	}

	// 1. one path placeholder: templates x base paths x methods x every value
	for _, tmpl := range pick([]string{"/items/{id}", "/{id}", "/items/{id}/sub"}, []string{"/items/{id}", "/{id}", "/items/{id}/sub", "/items/{id}.json", "/a/b/c/{id}"}) {
		for _, bp := range bases {
			for _, m := range methods {
				c := base
				c.Base, c.Method, c.Template = bp, m, tmpl
				c.Params = []P{{Name: "id", In: "path", Type: "string"}}
				add(sweep("path-one-placeholder", c, 0, vals))
			}
		}
	}
	// 2. two placeholders: atoms x atoms in both positions
	for _, tmpl := range pick([]string{"/items/{a}/{b}"}, []string{"/items/{a}/{b}", "/{a}/{b}", "/items/{a}/x/{b}"}) {
		for _, bp := range pick([]string{"/api"}, []string{"/api", "/"}) {
			for ai := range atoms {
				ai := ai
				c := base
				c.Base, c.Template = bp, tmpl
				c.Params = []P{{Name: "a", In: "path", Type: "string", V: []BS{atoms[ai]}}, {Name: "b", In: "path", Type: "string"}}
				add(sweep("path-two-placeholders", c, 1, atoms))
			}
		}
	}
	// 3. query scalar: names x every value
	for _, name := range pick([]string{"q", "filter[a]"}, []string{"q", "$top", "filter[a]", "a b", "é", "a&b=c", "%41"}) {
		for _, bp := range pick([]string{"/api"}, []string{"/api", "/"}) {
			c := base
			c.Base = bp
			c.Params = []P{{Name: name, In: "query", Type: "string"}}
			add(sweep("query-scalar", c, 0, vals))
		}
	}
	// a path placeholder and a query value together
	{
		c := base
		c.Template = "/items/{id}"
		c.Params = []P{{Name: "id", In: "path", Type: "string", V: []BS{"a?b#c"}}, {Name: "q", In: "query", Type: "string"}}
		add(sweep("query-scalar", c, 1, vals))
	}
	// 4. query arrays: collection formats x lists
	small := []BS{"a", "", " a", "b ", "é"}
	arrAtoms := atoms
	if !full {
		arrAtoms = core
	}
	ls := lists(arrAtoms, small)
	for _, cf := range pick([]string{"csv", "pipes", "multi"}, []string{"", "csv", "ssv", "tsv", "pipes", "multi"}) {
		c := base
		c.Params = []P{{Name: "q", In: "query", Type: "array", Items: "string", CF: cf}}
		add(listSweep("query-array", c, 0, ls))
	}
	// 5. header scalar: canonical and non-canonical declared names x every value HTTP can carry
	hvals := filter(vals, validHeaderValue)
	for _, name := range pick([]string{"X-Val", "x-val"}, []string{"X-Val", "X-Request-Id", "Etag", "x-val", "X-VAL", "X-Request-ID", "X_Val"}) {
		c := base
		c.Params = []P{{Name: name, In: "header", Type: "string"}}
		add(sweep("header-scalar", c, 0, hvals))
	}
	{ // values HTTP cannot carry: outside the guarantee, executed and counted as such
		c := base
		c.Params = []P{{Name: "X-Val", In: "header", Type: "string"}}
		add(sweep("header-scalar", c, 0, filter(atoms, func(s string) bool { return !validHeaderValue(s) })))
	}
	// 6. header arrays (one comma separated field)
	hatoms := filter(arrAtoms, validHeaderValue)
	for _, cf := range pick([]string{"csv"}, []string{"", "csv", "pipes"}) {
		c := base
		c.Params = []P{{Name: "X-List", In: "header", Type: "array", Items: "string", CF: cf}}
		add(listSweep("header-array", c, 0, lists(hatoms, []BS{"a", "", "é"})))
	}
	// 7. urlencoded form fields
	for _, m := range bodyMethods {
		for _, auth := range authsBuffered {
			c := base
			c.Method, c.Consumes = m, "urlencoded"
			setAuth(&c, auth)
			c.Params = []P{{Name: "f", In: "form", Type: "string"}}
			add(sweep("form-urlencoded", c, 0, vals))
		}
	}
	for _, name := range pick([]string{"filter[a]"}, []string{"$top", "filter[a]", "a b", "é", "a&b=c"}) {
		c := base
		c.Method, c.Consumes = "POST", "urlencoded"
		c.Params = []P{{Name: name, In: "form", Type: "string"}}
		add(sweep("form-urlencoded", c, 0, atoms))
	}
	for _, cf := range pick([]string{"csv", "multi"}, []string{"", "csv", "ssv", "tsv", "pipes", "multi"}) {
		c := base
		c.Method, c.Consumes = "POST", "urlencoded"
		c.Params = []P{{Name: "f", In: "form", Type: "array", Items: "string", CF: cf}}
		add(listSweep("form-urlencoded-array", c, 0, ls))
	}
	// 7b. consumes LISTS of form operations (the client operation carries the list of the description)
	{
		lists := [][]string{{"urlencoded"}, {"urlencoded", "json"}, {"multipart", "json"}, {"urlencoded", "multipart"}, {"multipart", "urlencoded"},
			{"json", "urlencoded"}, {"", "urlencoded", "json"}, {"", "multipart", "text"}, {"urlencoded", "application/x-unregistered"}, {"multipart", "bytes", "json"}}
		for _, l := range lists {
			for _, m := range pick([]string{"POST"}, []string{"POST", "PUT"}) {
				c := base
				c.Method, c.ConsumesList, c.Consumes = m, l, firstNonEmpty(l)
				c.Params = []P{{Name: "f", In: "form", Type: "string"}}
				add(sweep("form-consumes-list", c, 0, vals))
			}
			for _, auth := range []string{"body1", "compose"} {
				c := base
				c.Method, c.ConsumesList, c.Consumes = "POST", l, firstNonEmpty(l)
				setAuth(&c, auth)
				c.Params = []P{{Name: "f", In: "form", Type: "string"}, {Name: "g", In: "form", Type: "array", Items: "string", CF: "multi", V: []BS{"1", "", "a b"}}, {Name: "q", In: "query", Type: "string", V: []BS{"q&f=x"}}}
				add(sweep("form-consumes-list", c, 0, atoms))
			}
			// with a file the request is multipart whatever the list says
			c := base
			c.Method, c.ConsumesList, c.Consumes = "POST", l, firstNonEmpty(l)
			c.Params = []P{{Name: "up", In: "file", Type: "file", Fname: "a.txt", Flen: 513, Fpat: 1}, {Name: "f", In: "form", Type: "string"}}
			add(sweep("form-consumes-list", c, 1, atoms))
		}
	}
	// 8. multipart form fields
	for _, m := range bodyMethods {
		for _, auth := range authsStreamed {
			c := base
			c.Method, c.Consumes = m, "multipart"
			setAuth(&c, auth)
			c.Params = []P{{Name: "f", In: "form", Type: "string"}}
			add(sweep("form-multipart", c, 0, vals))
		}
	}
	for _, name := range pick([]string{`a"b`}, []string{"$top", "filter[a]", "a b", "é", `a"b`, `a\b`, "a;b"}) {
		c := base
		c.Method, c.Consumes = "POST", "multipart"
		c.Params = []P{{Name: name, In: "form", Type: "string"}}
		add(sweep("form-multipart", c, 0, atoms))
	}
	for _, cf := range pick([]string{"multi"}, []string{"csv", "pipes", "multi"}) {
		c := base
		c.Method, c.Consumes = "POST", "multipart"
		c.Params = []P{{Name: "f", In: "form", Type: "array", Items: "string", CF: cf}}
		add(listSweep("form-multipart-array", c, 0, ls))
	}
	// 9. files: lengths x names x content patterns x with/without a field x auth
	flens := []int{0, 1, 2, 511, 512, 513, 5000, 70000}
	fnames := []BS{"a.txt", "dir/a.txt", `C:\dir\a.txt`, `a"b.txt`, `a\b.txt`, `a\\b.txt`, `a\"b.txt`, "a b.txt", "é.txt", "a;b=c.txt", "a%41.txt", "", "日本.bin", "\x80.txt", "a\r\nb.txt", "..", "x.tar.gz", "'a'.txt"}
	if !full {
		flens = []int{0, 1, 511, 512, 513, 5000}
		fnames = fnames[:12]
	}
	for _, withField := range []bool{false, true} {
		for _, auth := range authsStreamed {
			for _, pat := range []int{0, 1} {
				c := base
				c.Method, c.Consumes = "POST", "multipart"
				setAuth(&c, auth)
				c.Params = []P{{Name: "up", In: "file", Type: "file", Fpat: pat}}
				if withField {
					c.Params = append(c.Params, P{Name: "note", In: "form", Type: "string", V: []BS{"a b&c\r\n"}})
				}
				add(group{"file", len(flens) * len(fnames), func(i int) Case {
					d := with(c)
					d.Params[0].Flen = flens[i/len(fnames)]
					d.Params[0].Fname = fnames[i%len(fnames)]
					return d
				}})
			}
		}
	}
	for _, pname := range pick([]string{`a"b`}, []string{"a b", `a"b`, "é", `a\b`, "a;b"}) {
		c := base
		c.Method, c.Consumes = "PUT", "multipart"
		c.Params = []P{{Name: pname, In: "file", Type: "file", Fname: "a.txt", Fpat: 1}}
		add(group{"file", len(flens), func(i int) Case {
			d := with(c)
			d.Params[0].Flen = flens[i]
			return d
		}})
	}
	{ // two file parameters and two fields
		c := base
		c.Method, c.Consumes = "POST", "multipart"
		c.Params = []P{{Name: "one", In: "file", Type: "file", Fname: "1.bin", Fpat: 0}, {Name: "two", In: "file", Type: "file", Fname: "2.txt", Fpat: 1},
			{Name: "f", In: "form", Type: "string", V: []BS{"x"}}, {Name: "g", In: "form", Type: "array", Items: "string", CF: "multi", V: []BS{"1", "", "1"}}}
		add(group{"file", len(flens) * len(flens), func(i int) Case {
			d := with(c)
			d.Params[0].Flen = flens[i/len(flens)]
			d.Params[1].Flen = flens[i%len(flens)]
			return d
		}})
	}
	if full { // long files (still below the 32 MiB at which net/http spills a form to disk)
		sizes := []int{1 << 20, 5<<20 + 1}
		for _, auth := range authsStreamed {
			c := base
			c.Method, c.Consumes = "POST", "multipart"
			setAuth(&c, auth)
			c.Params = []P{{Name: "up", In: "file", Type: "file", Fname: "big.bin", Fpat: 0}}
			add(group{"file", len(sizes), func(i int) Case {
				d := with(c)
				d.Params[0].Flen = sizes[i]
				return d
			}})
		}
	}
	// 10. JSON bodies
	for _, m := range bodyMethods {
		for _, auth := range authsBuffered {
			c := base
			c.Method = m
			setAuth(&c, auth)
			c.Params = []P{{Name: "body", In: "body", Type: "object"}}
			add(group{"body-json", len(vals), func(i int) Case {
				d := with(c)
				v := vals[i]
				d.Params[0].Body = []F{{K: "s", T: "s", V: v}, {K: "k" + v, T: "i", V: "1"}, {K: "a", T: "as", V: v}, {K: "o", T: "os", V: v}, {K: "z", T: "z"}}
				return d
			}})
		}
	}
	{
		nums := []F{{T: "i", V: "0"}, {T: "i", V: "-1"}, {T: "i", V: "9223372036854775807"}, {T: "i", V: "-9223372036854775808"}, {T: "i", V: "9007199254740993"},
			{T: "f", V: "1.5"}, {T: "f", V: "0.1"}, {T: "f", V: "1e21"}, {T: "f", V: "1e-7"}, {T: "f", V: "1.7976931348623157e308"}, {T: "f", V: "5e-324"}, {T: "f", V: "-0.000001"},
			{T: "b", V: "true"}, {T: "b", V: "false"}, {T: "z"}}
		c := base
		c.Method = "POST"
		c.Params = []P{{Name: "body", In: "body", Type: "object"}}
		add(group{"body-json", len(nums) * len(nums), func(i int) Case {
			d := with(c)
			x, y := nums[i/len(nums)], nums[i%len(nums)]
			x.K, y.K = "x", "y"
			d.Params[0].Body = []F{x, y}
			return d
		}})
		e := base
		e.Method = "PUT"
		e.Params = []P{{Name: "body", In: "body", Type: "jarray"}}
		jl := lists(arrAtoms, small)
		add(group{"body-json", len(jl), func(i int) Case {
			d := with(e)
			for _, v := range jl[i] {
				d.Params[0].Body = append(d.Params[0].Body, F{T: "s", V: v})
			}
			return d
		}})
	}
	{ // body together with path, query and header values
		c := base
		c.Method, c.Template = "POST", "/items/{id}"
		c.Params = []P{{Name: "id", In: "path", Type: "string", V: []BS{"a/b"}}, {Name: "q", In: "query", Type: "string", V: []BS{"a b"}}, {Name: "X-Val", In: "header", Type: "string", V: []BS{"h"}},
			{Name: "body", In: "body", Type: "object"}}
		add(group{"body-json", len(atoms), func(i int) Case {
			d := with(c)
			d.Params[3].Body = []F{{K: "s", T: "s", V: atoms[i]}}
			return d
		}})
	}
	// 11. bodies whose schema is a string: text/plain, application/octet-stream, JSON string
	for _, bt := range [][2]string{{"text", "text"}, {"bytes", "bytes"}, {"jstring", "json"}} {
		for _, auth := range authsStreamed {
			c := base
			c.Method, c.Consumes = "POST", bt[1]
			setAuth(&c, auth)
			c.Params = []P{{Name: "body", In: "body", Type: bt[0]}}
			add(sweep("body-string-schema", c, 0, atoms))
		}
	}
	// 12. typed scalars in every location, typed arrays
	type loc struct{ in, consumes, tmpl string }
	for _, l := range []loc{{"path", "json", "/items/{p}"}, {"query", "json", "/items"}, {"header", "json", "/items"}, {"form", "urlencoded", "/items"}, {"form", "multipart", "/items"}} {
		for _, t := range typedValues {
			c := base
			c.Method, c.Consumes, c.Template = "POST", l.consumes, l.tmpl
			name := "p"
			if l.in == "header" {
				name = "X-P"
			}
			c.Params = []P{{Name: name, In: l.in, Type: t.tpe, Format: t.format}}
			add(sweep("typed-scalar", c, 0, t.lits))
		}
	}
	for _, l := range []loc{{"query", "json", "/items"}, {"form", "urlencoded", "/items"}, {"header", "json", "/items"}} {
		for _, t := range typedValues {
			if t.tpe == "number" && t.format == "" {
				continue
			}
			for _, cf := range []string{"csv", "multi"} {
				if l.in == "header" && cf == "multi" {
					continue
				}
				t := t
				c := base
				c.Method, c.Consumes = "POST", l.consumes
				name := "p"
				if l.in == "header" {
					name = "X-P"
				}
				c.Params = []P{{Name: name, In: l.in, Type: "array", Items: t.tpe, IFmt: t.format, CF: cf}}
				n := len(t.lits)
				add(group{"typed-array", 1 + n + n*n, func(i int) Case {
					d := with(c)
					switch {
					case i == 0:
						d.Params[0].V = []BS{}
					case i <= n:
						d.Params[0].V = []BS{t.lits[i-1]}
					default:
						j := i - n - 1
						d.Params[0].V = []BS{t.lits[j/n], t.lits[j%n]}
					}
					return d
				}})
			}
		}
	}
	// 13. the way back: statuses x body kinds; header values; body values
	statuses := []int{200, 201, 202, 204, 400, 401, 403, 404, 409, 422, 500, 503}
	kinds := [][2]string{{"none", "json"}, {"json", "json"}, {"jarray", "json"}, {"text", "text"}, {"bytes", "bytes"}, {"none", "text"}}
	rbase := base
	rbase.Template = "/items/{id}"
	rbase.Params = []P{{Name: "id", In: "path", Type: "string", V: []BS{"a"}}}
	for _, m := range pick([]string{"GET", "POST"}, []string{"GET", "POST", "PUT", "DELETE", "HEAD"}) {
		for _, k := range kinds {
			if m == "HEAD" && k[0] != "none" {
				continue
			}
			c := rbase
			c.Method, c.Produces = m, k[1]
			kind := k[0]
			add(group{"response-status", len(statuses), func(i int) Case {
				d := with(c)
				st := statuses[i]
				d.Resp = Resp{Status: st, Kind: kind, H: []H{{K: "X-Rate", V: []BS{"10"}}, {K: "x-lower-case", V: []BS{"a", "b c"}}}}
				if st == http.StatusNoContent {
					d.Resp.Kind = "none"
				}
				switch d.Resp.Kind {
				case "json", "jarray":
					d.Resp.Body = []F{{K: "s", T: "s", V: "é<&> \u2028"}, {K: "i", T: "i", V: "-9223372036854775808"}, {K: "f", T: "f", V: "1e21"}}
					if d.Resp.Kind == "jarray" {
						d.Resp.Body = append(d.Resp.Body, F{T: "os", V: "x"})
					}
				case "text", "bytes":
					d.Resp.Text = "héllo\r\n\x80\x00 "
				}
				return d
			}})
		}
	}
	rvals := vals
	for _, st := range pick([]string{"200"}, []string{"200", "404"}) {
		status := 200
		if st == "404" {
			status = 404
		}
		{ // a header value
			c := rbase
			hv := filter(rvals, validHeaderValue)
			add(group{"response-header", len(hv), func(i int) Case {
				d := with(c)
				d.Resp = Resp{Status: status, Kind: "none", H: []H{{K: "X-Out", V: []BS{hv[i]}}, {K: "X-Two", V: []BS{hv[i], "second"}}}}
				return d
			}})
		}
		for _, k := range [][3]string{{"text", "text", ""}, {"bytes", "bytes", ""}, {"bytes", "bytes", "slice"}, {"bytes", "bytes", "string"}, {"json", "json", ""}} {
			c := rbase
			c.Produces = k[1]
			kind, dest := k[0], k[2]
			add(group{"response-body", len(rvals), func(i int) Case {
				d := with(c)
				d.Resp = Resp{Status: status, Kind: kind, Text: rvals[i], Dest: dest}
				if kind == "json" {
					d.Resp.Text = ""
					d.Resp.Body = []F{{K: "s", T: "s", V: rvals[i]}, {K: "k" + rvals[i], T: "as", V: rvals[i]}}
				}
				return d
			}})
		}
	}
	{ // JSON numbers on the way back; a large body
		nums := []F{{T: "i", V: "0"}, {T: "i", V: "9223372036854775807"}, {T: "i", V: "-9223372036854775808"}, {T: "i", V: "9007199254740993"},
			{T: "f", V: "1.5"}, {T: "f", V: "0.1"}, {T: "f", V: "1e21"}, {T: "f", V: "1.7976931348623157e308"}, {T: "f", V: "5e-324"}, {T: "b", V: "false"}, {T: "z"}}
		c := rbase
		add(group{"response-body", len(nums), func(i int) Case {
			d := with(c)
			f := nums[i]
			f.K = "n"
			d.Resp = Resp{Status: 200, Kind: "json", Body: []F{f}}
			return d
		}})
		sizes := []int{1, 4095, 4096, 4097, 70000, 1 << 20}
		for _, k := range []string{"text", "bytes"} {
			e := rbase
			e.Produces = k
			kind := k
			add(group{"response-body", len(sizes), func(i int) Case {
				d := with(e)
				d.Resp = Resp{Status: 200, Kind: kind, Text: BS(fileContent(sizes[i], 1))}
				return d
			}})
		}
	}
	// 14. everything at once: the same value in path, query, header, and a form field or the body
	cvals := filter(vals, func(s string) bool { return validHeaderValue(s) && s != "" && s != "." && s != ".." })
	for _, bp := range pick([]string{"/api"}, []string{"/api", "/"}) {
		for _, auth := range authsStreamed {
			for _, kind := range []string{"json", "urlencoded", "multipart"} {
				if kind != "multipart" && !inList(authsBuffered, auth) {
					continue
				}
				c := base
				c.Base, c.Method, c.Template, c.Consumes = bp, "POST", "/items/{id}/sub", kind
				setAuth(&c, auth)
				c.Params = []P{{Name: "id", In: "path", Type: "string"}, {Name: "q", In: "query", Type: "string"}, {Name: "X-Val", In: "header", Type: "string"}}
				switch kind {
				case "json":
					c.Params = append(c.Params, P{Name: "body", In: "body", Type: "object"})
				default:
					c.Params = append(c.Params, P{Name: "f", In: "form", Type: "string"})
				}
				kind := kind
				add(group{"combined", len(cvals), func(i int) Case {
					d := with(c)
					v := cvals[i]
					for k := 0; k < 3; k++ {
						d.Params[k].V = []BS{v}
					}
					if kind == "json" {
						d.Params[3].Body = []F{{K: "s", T: "s", V: v}}
					} else {
						d.Params[3].V = []BS{v}
					}
					d.Resp = Resp{Status: 201, Kind: "json", Body: []F{{K: "echo", T: "s", V: v}}, H: []H{{K: "X-Echo", V: []BS{v}}}}
					return d
				}})
			}
		}
	}
	// 14b. descriptions with sibling operations: the request must reach the operation it was built for
	for _, bp := range pick([]string{"/api"}, []string{"/api", "/"}) {
		for _, m := range pick([]string{"GET"}, []string{"GET", "PUT"}) {
			c := base
			c.Base, c.Method, c.Template = bp, m, "/items/{id}"
			c.Siblings = []string{"method", "/items/{id}/sub", "/items", "/{a}/{b}/{c}"}
			c.Params = []P{{Name: "id", In: "path", Type: "string"}}
			add(sweep("sibling-operations", c, 0, vals))
			d := base
			d.Base, d.Method, d.Template = bp, m, "/items/{id}/sub"
			d.Siblings = []string{"method", "/items/{id}", "/items/{id}/sub/more", "/items"}
			d.Params = []P{{Name: "id", In: "path", Type: "string"}}
			add(sweep("sibling-operations", d, 0, vals))
			for ai := range atoms {
				e := base
				e.Base, e.Method, e.Template = bp, m, "/{a}/{b}"
				e.Siblings = []string{"method", "/{a}", "/{a}/{b}/sub"}
				e.Params = []P{{Name: "a", In: "path", Type: "string", V: []BS{atoms[ai]}}, {Name: "b", In: "path", Type: "string"}}
				add(sweep("sibling-operations", e, 1, atoms))
			}
		}
	}
	// 14c. the other two ways a handler answers: a plain payload (status = the description's success code), an error
	for _, st := range []int{200, 201, 202, 204} {
		for _, k := range [][2]string{{"json", "json"}, {"jarray", "json"}, {"text", "text"}, {"bytes", "bytes"}} {
			c := rbase
			c.Produces = k[1]
			kind := k[0]
			status := st
			pv := atoms
			if status == 204 {
				pv = atoms[:1]
			}
			add(group{"response-plain-payload", len(pv), func(i int) Case {
				d := with(c)
				d.Resp = Resp{Mode: "plain", Status: status, Kind: kind, Text: pv[i]}
				if kind == "json" || kind == "jarray" {
					d.Resp.Text = ""
					d.Resp.Body = []F{{K: "s", T: "s", V: pv[i]}, {K: "n", T: "i", V: "-9223372036854775808"}}
				}
				if status == 204 {
					d.Resp.Kind, d.Resp.Body, d.Resp.Text = "none", nil, ""
				}
				return d
			}})
		}
	}
	for _, st := range []int{400, 401, 403, 404, 409, 422, 500, 503} {
		for _, prod := range []string{"json", "text"} {
			c := rbase
			c.Produces = prod
			status := st
			add(group{"response-error", len(atoms), func(i int) Case {
				d := with(c)
				d.Resp = Resp{Mode: "error", Status: status, Kind: "json", Text: atoms[i]}
				return d
			}})
		}
	}
	// 14d. thorough: every concatenation of three atoms in the positions that are escaped or split
	if full {
		tr := triples()
		chunk := 4096
		for lo := 0; lo < len(tr); lo += chunk {
			hi := lo + chunk
			if hi > len(tr) {
				hi = len(tr)
			}
			part := tr[lo:hi]
			c := base
			c.Template = "/items/{id}"
			c.Params = []P{{Name: "id", In: "path", Type: "string"}}
			add(sweep("triples-path", c, 0, part))
			d := base
			d.Params = []P{{Name: "q", In: "query", Type: "string"}}
			add(sweep("triples-query", d, 0, part))
			e := base
			e.Params = []P{{Name: "X-Val", In: "header", Type: "string"}}
			add(sweep("triples-header", e, 0, filter(part, validHeaderValue)))
			f := base
			f.Method, f.Consumes = "POST", "multipart"
			f.Params = []P{{Name: "f", In: "form", Type: "string"}}
			add(sweep("triples-form-multipart", f, 0, part))
			g := base
			g.Method, g.Consumes = "POST", "urlencoded"
			g.Params = []P{{Name: "f", In: "form", Type: "string"}}
			add(sweep("triples-form-urlencoded", g, 0, part))
		}
	}
	// 14e. long values in every position
	{
		var long []BS
		for _, n := range []int{255, 256, 4096, 65536} {
			for _, unit := range []string{"a", "é/ ", "%+"} {
				b := make([]byte, 0, n+4)
				for len(b) < n {
					b = append(b, unit...)
				}
				long = append(long, BS(b[:n]))
			}
		}
		long = filter(long, func(s string) bool { return validHeaderValue(s) })
		for _, kind := range []string{"json", "urlencoded", "multipart"} {
			c := base
			c.Method, c.Template, c.Consumes = "POST", "/items/{id}", kind
			c.Params = []P{{Name: "id", In: "path", Type: "string"}, {Name: "q", In: "query", Type: "string"}, {Name: "X-Val", In: "header", Type: "string"}}
			if kind == "json" {
				c.Params = append(c.Params, P{Name: "body", In: "body", Type: "object"})
			} else {
				c.Params = append(c.Params, P{Name: "f", In: "form", Type: "string"})
			}
			kind := kind
			add(group{"long-values", len(long), func(i int) Case {
				d := with(c)
				v := long[i]
				for k := 0; k < 3; k++ {
					d.Params[k].V = []BS{v}
				}
				if kind == "json" {
					d.Params[3].Body = []F{{K: "s", T: "s", V: v}}
				} else {
					d.Params[3].V = []BS{v}
				}
				d.Resp = Resp{Status: 200, Kind: "text", Text: v, H: []H{{K: "X-Echo", V: []BS{v}}}}
				d.Produces = "text"
				return d
			}})
		}
	}
	// 15. media types spelled with parameters or in another case
	spell := []string{"application/json; charset=utf-8", "application/json;charset=UTF-8"}
	for _, sp := range spell {
		c := base
		c.Method, c.Consumes = "POST", sp
		c.Params = []P{{Name: "body", In: "body", Type: "object", Body: []F{{K: "s", T: "s", V: "é"}}}}
		add(group{"media-type-spelling", 1, func(int) Case { return with(c) }})
		d := c
		d.Consumes, d.Produces = "json", sp
		add(group{"media-type-spelling", 1, func(int) Case { return with(d) }})
	}
	for _, sp := range []string{"text/plain; charset=utf-8", "text/plain;charset=utf-8"} {
		c := rbase
		c.Produces = sp
		c.Resp = Resp{Status: 200, Kind: "text", Text: "héllo"}
		add(group{"media-type-spelling", 1, func(int) Case { return with(c) }})
	}
	// 16. templates: root, trailing slash, literals that need escaping
	for _, bp := range []string{"/api", "/"} {
		for _, tmpl := range []string{"/", "/items/", "/items/{id}/", "/it ems/{id}", "/café/{id}", "/a+b/{id}", "/a:b/{id}", "/items;v=1/{id}"} {
			for _, m := range pick([]string{"GET"}, []string{"GET", "POST"}) {
				c := base
				c.Base, c.Template, c.Method = bp, tmpl, m
				c.Params = nil
				if len(tmpl) > 4 && tmpl[len(tmpl)-4:] == "{id}" || tmpl == "/items/{id}/" {
					c.Params = []P{{Name: "id", In: "path", Type: "string", V: []BS{"a b"}}}
				}
				add(group{"template-shape", 1, func(int) Case { return with(c) }})
			}
		}
	}
	// 16b. placeholders that share a segment with literal text or with another placeholder
	comp := filter(atoms, func(s string) bool {
		for _, sep := range []string{"-", ".", "v", "x"} {
			if len(s) == 0 || containsStr(s, sep) {
				return false
			}
		}
		return true
	})
	for _, bp := range pick([]string{"/api"}, []string{"/api", "/"}) {
		for _, tmpl := range []string{"/files/{id}-x", "/files/{id}.json/meta", "/files/v{id}", "/files/v{id}.json"} {
			c := base
			c.Base, c.Template = bp, tmpl
			c.Params = []P{{Name: "id", In: "path", Type: "string"}}
			add(sweep("template-composite-segment", c, 0, comp))
		}
		for _, tmpl := range []string{"/files/{a}-{b}", "/files/{a}.{b}/z"} {
			for ai := range comp {
				c := base
				c.Base, c.Template = bp, tmpl
				c.Params = []P{{Name: "a", In: "path", Type: "string", V: []BS{comp[ai]}}, {Name: "b", In: "path", Type: "string"}}
				add(sweep("template-composite-segment", c, 1, comp))
			}
		}
	}
	for _, bp := range []string{"/a b", "/café", "/api;v=1"} {
		c := base
		c.Base = bp
		add(group{"template-shape", 1, func(int) Case { return with(c) }})
	}
	_ = fmt.Sprint
	return gs
}

// familyAxes states, for the evidence file, what each family multiplies.
// "values" = every atom and every concatenation of two atoms (value_alphabet_size);
// quick uses the first entries of each configuration axis, thorough all of them.
var familyAxes = map[string]string{
	"path-one-placeholder":       "templates {/items/{id}, /{id}, /items/{id}/sub, /items/{id}.json, /a/b/c/{id}} x base paths {/api, /, /api/v1, /api/, \"\"} x methods {GET POST PUT DELETE PATCH HEAD OPTIONS} x values",
	"path-two-placeholders":      "templates {/items/{a}/{b}, /{a}/{b}, /items/{a}/x/{b}} x base paths {/api, /} x atoms x atoms",
	"query-scalar":               "parameter names {q, $top, filter[a], 'a b', é, a&b=c, %41} x base paths {/api, /} x values; plus a path value with ?# next to a query value x values",
	"query-array":                "collectionFormat {none csv ssv tsv pipes multi} x item lists (empty, every 1-list and 2-list over the atoms, every 3-list over 5 items)",
	"header-scalar":              "declared names {X-Val, X-Request-Id, Etag, x-val, X-VAL, X-Request-ID, X_Val} x every value that is a valid HTTP field value; plus the atoms that are not (outside the guarantee)",
	"header-array":               "collectionFormat {none csv pipes} x item lists over the valid atoms",
	"form-urlencoded":            "methods {POST PUT PATCH DELETE} x auth writer axis x values; field names {$top, filter[a], 'a b', é, a&b=c} x atoms",
	"form-urlencoded-array":      "collectionFormat {none csv ssv tsv pipes multi} x item lists",
	"form-consumes-list":         "consumes lists {[urlencoded], [urlencoded json], [multipart json], [urlencoded multipart], [multipart urlencoded], [json urlencoded] (first entry cannot carry a form: executed, not judged), [\"\" urlencoded json], [\"\" multipart text], [urlencoded unregistered-type], [multipart bytes json]} given to the description and verbatim to the client operation x methods {POST PUT} x values for one field; x auth {GetBody once, Compose} x atoms with a field, a multi array and a query value; x atoms with a file and a field",
	"form-multipart":             "methods {POST PUT PATCH DELETE} x auth writer x values; field names {$top, filter[a], 'a b', é, a\"b, a\\b, a;b} x atoms",
	"form-multipart-array":       "collectionFormat {csv pipes multi} x item lists",
	"file":                       "lengths {0 1 2 511 512 513 5000 70000} x 18 file names (quotes, backslashes, directories, non-ASCII, empty, dot-dot, control bytes) x 2 content patterns x with/without a form field x auth writer; file parameter names x lengths; two files x lengths x lengths; 1 MiB and 5 MiB files",
	"body-json":                  "methods {POST PUT PATCH DELETE} x auth writer x values (as string member, key suffix, array element, nested member); pairs of 15 numeric/boolean/null members (int64 and float64 boundaries); array-of-string bodies x item lists; body next to path, query and header values x atoms",
	"body-string-schema":         "{text/plain, application/octet-stream, JSON string} x auth writer x atoms",
	"typed-scalar":               "location {path query header urlencoded-form multipart-form} x {integer int64/int32/none, number double/float/none, boolean} x boundary literals",
	"typed-array":                "location {query form header} x item type x {csv multi} x (empty, every 1-list, every 2-list of the boundary literals)",
	"response-status":            "methods {GET POST PUT DELETE HEAD} x body kind {none json json-array text bytes} x statuses {200 201 202 204 400 401 403 404 409 422 500 503}, two response headers (one multi-valued, one with a lower-case name)",
	"response-header":            "status {200 404} x every valid field value, once alone and once in a two-valued header",
	"response-body":              "status {200 404} x {text, bytes into an io.Writer, bytes into a *[]byte, bytes into a *string, json} x values; JSON numbers at the boundaries; bodies of 1..1 MiB",
	"response-plain-payload":     "handler returns the payload itself: success code of the description {200 201 202 204} x {json json-array text bytes} x atoms",
	"response-error":             "handler returns an error: statuses {400 401 403 404 409 422 500 503} x produces {json text} x atoms as message",
	"combined":                   "base paths {/api, /} x auth writer x {json body, urlencoded field, multipart field} x every value valid in all positions, the same value in path, query, header and body/field, echoed in a response header and body with status 201",
	"sibling-operations":         "descriptions with 3-4 other operations (same template under another method, longer and shorter templates): base paths {/api, /} x methods {GET PUT} x values (one placeholder) and atoms x atoms (two placeholders)",
	"long-values":                "lengths {255 256 4096 65536} x 3 repeating units, the same value in path, query, header, body/field and echoed back",
	"media-type-spelling":        "consumes / produces spelled with a charset parameter (application/json, text/plain)",
	"template-composite-segment": "base paths {/api, /} x templates {/files/{id}-x, /files/{id}.json/meta, /files/v{id}, /files/v{id}.json} x atoms without the literal characters; templates {/files/{a}-{b}, /files/{a}.{b}/z} x those atoms x those atoms",
	"sequences-on-one-instance":  "per world (base path /api; thorough also /): one description with 7 operations (POST /things with a string body in json/text/bytes and json/text responses; POST /things/{id}; PUT /things with an object body; POST /forms in urlencoded and multipart; GET /things producing json/text/bytes; POST /upload; GET /things/{id}/sub), an alphabet of 49 round trips over them (different media types, values, statuses, the whole auth writer axis on the streamed bodies); EVERY ordered pair of the alphabet (2401), thorough: every ordered triple of 20 core steps (8000), and the whole alphabet forward then backward (98 steps) - each sequence on ONE server instance and ONE client.Runtime, every step judged by the identity oracle and compared with the observation of the same step alone on a fresh instance; kept values: every decoded response body handed to the reader and every bound value handed to the handler is deep-copied at delivery and re-compared after every later step (class in-sequence/kept-value-changed-later); plus, with a NEW server and Runtime for every step (only the process shared): the long history and every ordered pair of the steps with a binary body",
	"auth-writer-axis":           "wherever a family says auth writer: {none, header-only writer, GetBody once, twice, three times, client.Compose of two writers that each call GetBody}; families with a streamed body (multipart forms, files, reader payloads, string-schema bodies) take all six in both tiers, families with a buffered body (urlencoded, JSON) take {none, once, twice} in quick and all six in thorough",
	"kept-values-single-cases":   "in every single-round-trip family the values delivered by a case are re-compared after each of the next 4 cases of its group (new Runtime per case, same process): class kept-value-changed-later",
	"sequences-baseline-alone":   "each step of the alphabet alone on a fresh instance of the world's description",
	"template-shape":             "base paths {/api, /} x templates {/, /items/, /items/{id}/, literals with space, non-ASCII, '+', ':', ';'} x methods {GET POST}; base paths with space, non-ASCII, ';'",
	"triples-path":               "thorough: every concatenation of three atoms as a path value",
	"triples-query":              "thorough: every concatenation of three atoms as a query value",
	"triples-header":             "thorough: every concatenation of three atoms that is a valid field value as a header value",
	"triples-form-multipart":     "thorough: every concatenation of three atoms as a multipart field value",
	"triples-form-urlencoded":    "thorough: every concatenation of three atoms as an urlencoded field value",
}
