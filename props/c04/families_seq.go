package main

import "fmt"

// world is one description with several operations and the alphabet of round
// trips made against it. The alphabet is chosen to collide: the same operation
// with different request and response media types and values, operations that
// share a template under different methods, operations with and without path
// parameters, with and without body, with and without the auth writer.
type world struct {
	name     string
	alphabet []Case
	core     []int // indices of the steps used for the sequences of three
}

func respOf(status int, kind string, tag BS) Resp {
	r := Resp{Status: status, Kind: kind, H: []H{{K: "X-Step", V: []BS{tag}}}}
	switch kind {
	case "json":
		r.Body = []F{{K: "tag", T: "s", V: tag}, {K: "n", T: "i", V: "9223372036854775807"}}
	case "text", "bytes":
		r.Text = "reply to " + tag + " \r\n"
	}
	return r
}

func buildWorld(base string) world {
	w := world{name: "base=" + base}
	add := func(core bool, c Case) {
		c.Base = base
		if core {
			w.core = append(w.core, len(w.alphabet))
		}
		w.alphabet = append(w.alphabet, c)
	}
	str := func(kind string, v BS) P { return P{Name: "body", In: "body", Type: kind, V: []BS{v}} }
	q := func(v BS) P { return P{Name: "q", In: "query", Type: "string", V: []BS{v}} }
	// the same parameter name declared differently by another operation
	qi := func(v BS) P { return P{Name: "q", In: "query", Type: "integer", Format: "int64", V: []BS{v}} }
	id := func(v BS) P { return P{Name: "id", In: "path", Type: "string", V: []BS{v}} }
	hv := func(v BS) P { return P{Name: "X-Val", In: "header", Type: "string", V: []BS{v}} }
	bodyKind := map[string]string{"json": "jstring", "text": "text", "bytes": "bytes"}

	// A: POST /things - a string body in three media types, two response media types; no path parameter
	for i, m := range []string{"json", "text", "bytes"} {
		add(true, Case{Method: "POST", Template: "/things", Consumes: m, Produces: "json",
			Params: []P{str(bodyKind[m], BS("one "+m)), q("a b")}, Resp: respOf(200, "json", BS("A-"+m))})
		add(i == 1, Case{Method: "POST", Template: "/things", Consumes: m, Produces: "text",
			Params: []P{str(bodyKind[m], BS("\"two\" words\n"+m)), q("")}, Resp: respOf(201, "text", BS("A2-"+m))})
		add(i == 2, Case{Method: "POST", Template: "/things", Consumes: m, Produces: "json", Auth: true,
			Params: []P{str(bodyKind[m], BS("signed "+m)), q("x")}, Resp: respOf(202, "json", BS("A3-"+m))})
	}
	// B: POST /things/{id} - the same with a path parameter
	for i, m := range []string{"json", "text", "bytes"} {
		add(i < 2, Case{Method: "POST", Template: "/things/{id}", Consumes: m, Produces: "text",
			Params: []P{id(BS("a/b " + m)), str(bodyKind[m], BS("body of "+m))}, Resp: respOf(200, "text", BS("B-"+m))})
	}
	add(false, Case{Method: "POST", Template: "/things/{id}", Consumes: "bytes", Produces: "text", Auth: true,
		Params: []P{id("things"), str("bytes", "signed \x00\xff")}, Resp: respOf(404, "text", "B-auth")})
	// C: PUT /things - same template, other method, an object body
	add(true, Case{Method: "PUT", Template: "/things", Consumes: "json", Produces: "json",
		Params: []P{{Name: "body", In: "body", Type: "object", Body: []F{{K: "s", T: "s", V: "é"}, {K: "i", T: "i", V: "-9223372036854775808"}}}}, Resp: respOf(200, "json", "C-1")})
	add(false, Case{Method: "PUT", Template: "/things", Consumes: "json", Produces: "json",
		Params: []P{{Name: "body", In: "body", Type: "object", Body: []F{{K: "other", T: "as", V: "x"}}}}, Resp: Resp{Mode: "error", Status: 409, Kind: "json", Text: "conflict C-2"}})
	add(false, Case{Method: "PUT", Template: "/things", Consumes: "json", Produces: "json", Auth: true,
		Params: []P{{Name: "body", In: "body", Type: "object", Body: []F{{K: "s", T: "s", V: "signed"}}}}, Resp: respOf(500, "json", "C-auth")})
	// D: POST /forms - one operation, two form encodings
	form := func(f BS, g ...BS) []P {
		return []P{{Name: "f", In: "form", Type: "string", V: []BS{f}}, {Name: "g", In: "form", Type: "array", Items: "string", CF: "multi", V: g}}
	}
	add(true, Case{Method: "POST", Template: "/forms", Consumes: "urlencoded", Produces: "json", Params: form("a&b=c", "1", "", "1"), Resp: respOf(200, "json", "D-url")})
	add(true, Case{Method: "POST", Template: "/forms", Consumes: "multipart", Produces: "json", Params: form("multi\r\npart", "2"), Resp: respOf(201, "json", "D-mp")})
	add(false, Case{Method: "POST", Template: "/forms", Consumes: "urlencoded", Produces: "json", Params: form("", "x y"), Resp: respOf(422, "json", "D-url2")})
	add(false, Case{Method: "POST", Template: "/forms", Consumes: "multipart", Produces: "json", Auth: true, Params: form("signed"), Resp: respOf(200, "json", "D-mp-auth")})
	add(false, Case{Method: "POST", Template: "/forms", Consumes: "urlencoded", Produces: "json", Auth: true, Params: form("signed url", "z"), Resp: respOf(200, "json", "D-url-auth")})
	// D again through consumes lists that also name a media type with a producer
	add(true, Case{Method: "POST", Template: "/forms", Consumes: "urlencoded", ConsumesList: []string{"urlencoded", "json"}, Produces: "json", Params: form("listed url", "l"), Resp: respOf(200, "json", "D-list-url")})
	add(false, Case{Method: "POST", Template: "/forms", Consumes: "multipart", ConsumesList: []string{"", "multipart", "json"}, Produces: "json", Params: form("listed mp"), Resp: respOf(200, "json", "D-list-mp")})
	// E: GET /things - no body; three response media types
	for i, m := range []string{"json", "text", "bytes"} {
		add(i < 2, Case{Method: "GET", Template: "/things", Consumes: "json", Produces: m,
			Params: []P{q(BS("q " + m)), hv(BS("h;" + m))}, Resp: respOf(200, m, BS("E-"+m))})
	}
	// binary responses of different content and length, received into a *[]byte (and a *string for contrast)
	for i, b := range []struct {
		dest string
		n    int
		pat  int
	}{{"slice", 40, 0}, {"slice", 25, 1}, {"slice", 40, 1}, {"string", 33, 0}, {"slice", 5000, 1}} {
		r := Resp{Status: 200 + i%2, Kind: "bytes", Dest: b.dest, Text: BS(fileContent(b.n, b.pat)), H: []H{{K: "X-Step", V: []BS{BS(fmt.Sprint("E-bin-", i))}}}}
		add(i < 3, Case{Method: "GET", Template: "/things", Consumes: "json", Produces: "bytes",
			Params: []P{q(BS(fmt.Sprint("bin ", i))), hv("b")}, Resp: r})
	}
	add(false, Case{Method: "GET", Template: "/things", Consumes: "json", Produces: "json", Auth: true,
		Params: []P{q("+"), hv("")}, Resp: Resp{Status: 204, Kind: "none", H: []H{{K: "X-Step", V: []BS{"E-auth", "second"}}}}})
	// F: POST /upload - a file and a field
	add(true, Case{Method: "POST", Template: "/upload", Consumes: "multipart", Produces: "json",
		Params: []P{{Name: "up", In: "file", Type: "file", Fname: "a.txt", Flen: 513, Fpat: 1}, {Name: "note", In: "form", Type: "string", V: []BS{"n1"}}}, Resp: respOf(201, "json", "F-1")})
	add(false, Case{Method: "POST", Template: "/upload", Consumes: "multipart", Produces: "json",
		Params: []P{{Name: "up", In: "file", Type: "file", Fname: `b"c.bin`, Flen: 5000, Fpat: 0}, {Name: "note", In: "form", Type: "string", V: []BS{""}}}, Resp: respOf(200, "json", "F-2")})
	add(false, Case{Method: "POST", Template: "/upload", Consumes: "multipart", Produces: "json", Auth: true,
		Params: []P{{Name: "up", In: "file", Type: "file", Fname: "signed.bin", Flen: 70000, Fpat: 0}, {Name: "note", In: "form", Type: "string", V: []BS{"signed"}}}, Resp: respOf(200, "json", "F-auth")})
	// the rest of the auth writer axis on the streamed bodies: reader payload (A), multipart form (D), file (F)
	for i, mode := range []string{"header", "body2", "body3", "compose"} {
		add(i == 1, Case{Method: "POST", Template: "/things", Consumes: "bytes", Produces: "json", Auth: true, AuthMode: mode,
			Params: []P{str("bytes", BS("signed bytes "+mode)), q("x")}, Resp: respOf(200, "json", BS("A4-"+mode))})
		add(i == 3, Case{Method: "POST", Template: "/forms", Consumes: "multipart", Produces: "json", Auth: true, AuthMode: mode,
			Params: form(BS("signed "+mode), "s"), Resp: respOf(200, "json", BS("D4-"+mode))})
		add(false, Case{Method: "POST", Template: "/upload", Consumes: "multipart", Produces: "json", Auth: true, AuthMode: mode,
			Params: []P{{Name: "up", In: "file", Type: "file", Fname: "s.bin", Flen: 600, Fpat: 0}, {Name: "note", In: "form", Type: "string", V: []BS{BS(mode)}}}, Resp: respOf(200, "json", BS("F4-"+mode))})
	}
	// G: GET /things/{id}/sub - path parameter, no body
	add(true, Case{Method: "GET", Template: "/things/{id}/sub", Consumes: "json", Produces: "json", Params: []P{id("x%2Fy"), qi("-9223372036854775808")}, Resp: respOf(200, "json", "G-1")})
	add(false, Case{Method: "GET", Template: "/things/{id}/sub", Consumes: "json", Produces: "text", Params: []P{id("日本"), qi("42")}, Resp: respOf(503, "text", "G-2")})
	return w
}

// sessionsOf lists the sessions of one world: every ordered pair of steps
// (including a step with itself), every ordered triple of core steps
// (thorough), one long history: the whole alphabet forward then backward on
// one instance, and the across-instances sequences described below.
func sessionsOf(w *world, triples bool) []plan {
	n := len(w.alphabet)
	var out []plan
	for a := 0; a < n; a++ {
		for b := 0; b < n; b++ {
			out = append(out, plan{idx: []int{a, b}})
		}
	}
	if triples {
		for _, a := range w.core {
			for _, b := range w.core {
				for _, c := range w.core {
					out = append(out, plan{idx: []int{a, b, c}})
				}
			}
		}
	}
	long := make([]int, 0, 2*n)
	for a := 0; a < n; a++ {
		long = append(long, a)
	}
	for a := n - 1; a >= 0; a-- {
		long = append(long, a)
	}
	out = append(out, plan{idx: long})
	// across instances: a new server and a new Runtime for every step, only the process is shared -
	// the long history, and every ordered pair of the steps that carry a binary body either way
	out = append(out, plan{idx: long, fresh: true})
	var bin []int
	for i := range w.alphabet {
		if w.alphabet[i].Consumes == "bytes" || w.alphabet[i].Resp.Kind == "bytes" {
			bin = append(bin, i)
		}
	}
	for _, a := range bin {
		for _, b := range bin {
			out = append(out, plan{idx: []int{a, b}, fresh: true})
		}
	}
	return out
}

// plan is one sequence: the steps by alphabet index; fresh = new instances for every step.
type plan struct {
	idx   []int
	fresh bool
}

func worlds(full bool) []world {
	ws := []world{buildWorld("/api")}
	if full {
		ws = append(ws, buildWorld("/"))
	}
	return ws
}

func (w *world) session(p plan) Session {
	s := Session{Also: w.alphabet, Fresh: p.fresh}
	for _, i := range p.idx {
		s.Steps = append(s.Steps, w.alphabet[i])
	}
	return s
}

func (w *world) describe() string {
	ops := map[string]bool{}
	for i := range w.alphabet {
		ops[w.alphabet[i].Method+" "+w.alphabet[i].Template] = true
	}
	return fmt.Sprintf("%s: %d operations, %d steps, %d core steps", w.name, len(ops), len(w.alphabet), len(w.core))
}
