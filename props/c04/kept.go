package main

import (
	"fmt"
	"reflect"

	"github.com/go-openapi/runtime"
)

// Kept values. Every value that a round trip hands to one of the two users of
// the library - the decoded response body the caller's reader received, and
// every bound parameter value the server handler received - belongs to that
// user from then on: a later call (on the same instances or on any other
// instance in the process) must not change it. A keeper holds the live value
// together with a deep copy taken at delivery and re-compares them later.

type keptValue struct {
	step  int    // index of the round trip that delivered it
	label string // who got it
	live  any
	snap  any
}

type keeper struct{ items []keptValue }

// deepCopy copies slices, maps and what they hold; strings, numbers and
// booleans are values already. ok is false for things that are not plain data
// (an uploaded file is a handle, not a value).
func deepCopy(v any) (cp any, ok bool) {
	if v == nil {
		return nil, true
	}
	if _, isFile := v.(runtime.File); isFile {
		return nil, false
	}
	rv := reflect.ValueOf(v)
	out, ok := deepCopyValue(rv)
	if !ok {
		return nil, false
	}
	return out.Interface(), true
}

func deepCopyValue(rv reflect.Value) (reflect.Value, bool) {
	switch rv.Kind() {
	case reflect.Bool, reflect.Int, reflect.Int8, reflect.Int16, reflect.Int32, reflect.Int64,
		reflect.Uint, reflect.Uint8, reflect.Uint16, reflect.Uint32, reflect.Uint64,
		reflect.Float32, reflect.Float64, reflect.String:
		return rv, true
	case reflect.Slice:
		if rv.IsNil() {
			return rv, true
		}
		out := reflect.MakeSlice(rv.Type(), rv.Len(), rv.Len())
		for i := 0; i < rv.Len(); i++ {
			e, ok := deepCopyValue(rv.Index(i))
			if !ok {
				return rv, false
			}
			out.Index(i).Set(e)
		}
		return out, true
	case reflect.Map:
		if rv.IsNil() {
			return rv, true
		}
		out := reflect.MakeMapWithSize(rv.Type(), rv.Len())
		it := rv.MapRange()
		for it.Next() {
			e, ok := deepCopyValue(it.Value())
			if !ok {
				return rv, false
			}
			out.SetMapIndex(it.Key(), e)
		}
		return out, true
	case reflect.Interface:
		if rv.IsNil() {
			return rv, true
		}
		e, ok := deepCopyValue(rv.Elem())
		if !ok {
			return rv, false
		}
		out := reflect.New(rv.Type()).Elem()
		out.Set(e)
		return out, true
	}
	return rv, false
}

func (k *keeper) keep(step int, label string, v any) {
	cp, ok := deepCopy(v)
	if !ok {
		return
	}
	k.items = append(k.items, keptValue{step, label, v, cp})
}

// keepResult keeps what the round trip handed to the caller's reader and to the handler.
func (k *keeper) keepResult(step int, res *result) {
	if res.seen.called {
		k.keep(step, "response body decoded for the caller's reader", res.seen.body)
	}
	for name, v := range res.cap.params {
		k.keep(step, fmt.Sprintf("value of parameter %q bound for the handler", name), v)
	}
}

// changed returns the first kept value that no longer equals its copy.
func (k *keeper) changed() *keptValue {
	for i := range k.items {
		if !reflect.DeepEqual(k.items[i].live, k.items[i].snap) {
			return &k.items[i]
		}
	}
	return nil
}

// window drops the values of round trips before step lo.
func (k *keeper) window(lo int) {
	n := 0
	for _, it := range k.items {
		if it.step >= lo {
			k.items[n] = it
			n++
		}
	}
	for i := n; i < len(k.items); i++ {
		k.items[i] = keptValue{}
	}
	k.items = k.items[:n]
}
