// C04 - client and server agree: what the caller sets is what the handler gets,
// and what the handler returns is what the caller's reader sees.
//
// Small-scope exhaustive enumeration (E1). A case is an API description with one
// operation, the values a caller supplies for its parameters, and the outcome
// the handler returns. Each case is executed on the real code: client.Runtime
// builds the request, a wire-level RoundTripper serialises it (Request.Write),
// re-parses it (http.ReadRequest), serves it through Context.APIHandler built
// from the same description, serialises the recorded response (Response.Write)
// and re-parses it (http.ReadResponse) for the client's response reader. The
// oracle is the identity (oracle.go). The enumerated families are in families.go.
package main

import (
	"crypto/sha256"
	"fmt"
	"os"
	"sort"
	"sync"
	"time"

	"verif/engine/enum"
	"verif/engine/report"
)

// check is the pure function of a case: build the server from the case's
// description, perform the round trip, judge.
func check(c Case) verdict {
	s, err := newServer(&c)
	if err != nil {
		return verdict{class: "harness-error", what: err.Error(), outcome: "harness-error"}
	}
	return checkOn(s, &c)
}

func checkOn(s *server, c *Case) verdict { return checkOnKeep(s, c, nil, 0) }

// checkOnKeep also hands what the round trip delivered to a keeper (see kept.go).
func checkOnKeep(s *server, c *Case, k *keeper, step int) verdict {
	res, herr := execute(s, nil, c)
	if herr != nil {
		return verdict{class: "harness-error", what: herr.Error(), outcome: "harness-error"}
	}
	v := judge(c, &res)
	if k != nil && v.class == "" {
		k.keepResult(step, &res)
	}
	return v
}

// keptWindow: in the single round trips, the values delivered by a case are re-compared after each of
// the next keptWindow cases of its group (other Runtime, possibly other server, same process).
const keptWindow = 4

func main() {
	r := report.Start("C04", "exploration")
	cleanup := ownTempDir()
	if r.Replay != "" {
		var rc struct {
			Case
			Steps []Case `json:"steps"`
			Also  []Case `json:"also"`
			Fresh bool   `json:"fresh"`
		}
		r.LoadReplay(&rc)
		if len(rc.Steps) > 0 {
			// a history on one instance
			s := Session{Steps: rc.Steps, Also: rc.Also, Fresh: rc.Fresh}
			v, at, steps := checkSession(&s, nil)
			fmt.Printf("replay of a session of %d round trips on one server instance and one client.Runtime\n", len(s.Steps))
			for i, st := range steps {
				fmt.Printf("  step %d [%s]: outcome=%s class=%q\n", i+1, stepLabel(&s.Steps[i]), st.v.outcome, st.v.class)
			}
			if v.class != "" {
				fmt.Printf("  first failing step %d: class=%q %s\n", at+1, v.class, v.what)
				r.Fail(v.class, v.what, s)
			}
			r.Eval(int64(len(steps)))
			r.Nontrivial(2)
			r.Sample(map[string]any{"steps": len(s.Steps)})
			cleanup()
			r.Finish("replay of one session", false)
		}
		c := rc.Case
		v := check(c)
		fmt.Printf("replay %s\n  outcome=%s class=%q %s\n", c.String(), v.outcome, v.class, v.what)
		if v.class != "" {
			r.Fail(v.class, v.what, c)
		}
		r.Eval(1)
		r.Nontrivial(2)
		r.Sample(c)
		cleanup()
		r.Finish("replay of one case", false)
	}

	groups := families(r.Thorough())
	// VERIF_SEED rotates the order in which the groups are visited; the set is the same
	rot := 0
	if len(groups) > 0 {
		rot = int(((r.Seed % int64(len(groups))) + int64(len(groups))) % int64(len(groups)))
	}
	var mu sync.Mutex
	perFamily := map[string]int64{}
	famTime := map[string]float64{}
	descriptions := 0
	var mayTotal, duplicates int64
	var seenCases sync.Map // digest of every case executed: no case is executed (or counted) twice
	enum.Parallel(len(groups), r.OutOfTime, func(gi int) {
		g := groups[(gi+rot)%len(groups)]
		t0 := time.Now()
		defer func() {
			mu.Lock()
			famTime[g.family] += time.Since(t0).Seconds()
			mu.Unlock()
		}()
		cache := map[string]*server{}
		keep := &keeper{}
		recent := make([]Case, keptWindow+1)
		var evals, nontrivial, may, dups int64
		outcomes := map[string]int64{}
		for i := 0; i < g.n; i++ {
			c := g.at(i)
			h := sha256.Sum256([]byte(c.String()))
			var dk [16]byte
			copy(dk[:], h[:16])
			if _, dup := seenCases.LoadOrStore(dk, struct{}{}); dup {
				dups++
				continue
			}
			key := specKey(&c)
			s := cache[key]
			var v verdict
			if s == nil {
				var err error
				s, err = newServer(&c)
				if err != nil {
					v = verdict{class: "harness-error", what: err.Error(), outcome: "harness-error"}
				} else {
					cache[key] = s
				}
			}
			if s != nil {
				v = checkOnKeep(s, &c, keep, i)
				recent[i%(keptWindow+1)] = c
				if kv := keep.changed(); kv != nil && v.class == "" {
					sess := Session{Fresh: true}
					for j := kv.step; j <= i; j++ {
						sess.Steps = append(sess.Steps, recent[j%(keptWindow+1)])
					}
					r.Fail("kept-value-changed-later", fmt.Sprintf("the %s of case %d of the group was %s when it was delivered and is %s after case %d (new Runtime for every case, same process)",
						kv.label, kv.step, show(kv.snap), show(kv.live), i), sess)
					outcomes["kept-value-changed-later"]++
					keep.window(i + 1)
				}
				keep.window(i + 1 - keptWindow)
			}
			evals++
			if v.nontrivial {
				nontrivial++
			}
			may += int64(v.may)
			outcomes[v.outcome]++
			if v.class != "" {
				r.Fail(v.class, v.what, c)
			}
			if i == int(uint64(r.Seed+int64(gi)*7)%uint64(g.n)) && gi%23 == int(uint64(r.Seed)%23) && r.WantSample() {
				r.Sample(map[string]any{"family": g.family, "case": c, "outcome": v.outcome, "class": v.class})
			}
		}
		r.Eval(evals)
		r.Nontrivial(nontrivial)
		for k, n := range outcomes {
			r.Outcome(k, n)
		}
		mu.Lock()
		perFamily[g.family] += evals
		descriptions += len(cache)
		mayTotal += may
		duplicates += dups
		mu.Unlock()
	})
	// ---- histories: sequences of round trips on ONE server instance and ONE client.Runtime ----
	seqInfo := map[string]any{}
	var seqSessions, seqSteps int64
	for _, w := range worlds(r.Thorough()) {
		w := w
		n := len(w.alphabet)
		type base struct {
			v   verdict
			obs string
		}
		bases := make([]base, n)
		enum.Parallel(n, r.OutOfTime, func(i int) {
			s := w.session(plan{idx: []int{i}})
			v, obs := s.alone(0)
			bases[i] = base{v, obs}
			r.Eval(1)
			if v.nontrivial {
				r.Nontrivial(1)
			}
			r.Outcome(v.outcome, 1)
			if v.class != "" {
				r.Fail(v.class, v.what, s.Steps[0])
			}
		})
		if r.Cut() {
			break
		}
		sess := sessionsOf(&w, r.Thorough())
		rot := int(uint64(r.Seed) % uint64(len(sess)))
		enum.Parallel(len(sess), r.OutOfTime, func(k int) {
			pl := sess[(k+rot)%len(sess)]
			idx := pl.idx
			s := w.session(pl)
			v, at, steps := checkSession(&s, func(i int) (verdict, string) { return bases[idx[i]].v, bases[idx[i]].obs })
			var nt int64
			outcomes := map[string]int64{}
			for i, st := range steps {
				if st.v.nontrivial && (at < 0 || i < at) {
					nt++
				}
				if at < 0 || i < at {
					outcomes["in-sequence-"+st.v.outcome]++
				}
			}
			if v.class != "" {
				outcomes[v.outcome]++
				s.Steps = s.Steps[:at+1]
				r.Fail(v.class, v.what, s)
			}
			r.Eval(int64(len(steps)))
			r.Nontrivial(nt)
			for o, c := range outcomes {
				r.Outcome(o, c)
			}
			mu.Lock()
			seqSessions++
			seqSteps += int64(len(steps))
			perFamily["sequences-on-one-instance"] += int64(len(steps))
			perFamily["sequences-baseline-alone"] += 0
			mu.Unlock()
			if k%97 == int(uint64(r.Seed)%97) && len(idx) <= 3 && r.WantSample() {
				var labels []string
				for i := range s.Steps {
					labels = append(labels, stepLabel(&s.Steps[i]))
				}
				r.Sample(map[string]any{"family": "sequences-on-one-instance", "world": w.name, "steps": labels, "class": v.class})
			}
		})
		perFamily["sequences-baseline-alone"] += int64(n)
		seqInfo[w.name] = map[string]any{"description": w.describe(), "alphabet": n, "core": len(w.core), "sessions": len(sess)}
	}
	r.Set("sequence_worlds", seqInfo)
	r.Set("sequence_sessions", seqSessions)
	r.Set("sequence_round_trips", seqSteps)
	fams := make([]string, 0, len(perFamily))
	for k := range perFamily {
		fams = append(fams, k)
	}
	sort.Strings(fams)
	if os.Getenv("C04_TIMES") != "" {
		fmt.Println("cpu-seconds per family:", famTime)
	}
	r.Set("cases_per_family", perFamily)
	r.Set("families", fams)
	r.Set("groups", len(groups))
	r.Set("descriptions_built", descriptions)
	r.Set("values_not_judged_MAY", mayTotal)
	r.Set("duplicate_cases_skipped", duplicates)
	r.Set("value_atoms", atoms)
	r.Set("value_alphabet_size", len(values(r.Thorough())))
	cleanup()
	r.Assume(
		"the wire is Request.Write -> http.ReadRequest -> handler -> ResponseRecorder.Result -> Response.Write -> http.ReadResponse; checks that only a real net/http server or Transport performs (header value validation, Host handling, redirects) are not in the loop",
		"supplied typed values are rendered the way generated clients do (swag.FormatXxx, swag.JoinByFormat)",
		"the server registers the codecs a generated server registers for the media types the description names",
		"the oracle never depends on Go map iteration order inside the client (multipart part order, path substitution order) - it compares decoded values only",
	)
	r.Set("axes_per_family", familyAxes)
	r.Finish("every case of every family listed in cases_per_family (each family is the full product of the axes stated in axes_per_family; a case = one description + supplied values + handler outcome, executed as one full round trip client.Runtime.Submit -> wire -> Context.APIHandler -> wire -> response reader on the real code = one evaluation); plus the histories of family sequences-on-one-instance: every ordered pair (thorough: also every ordered triple of the core steps, and the alphabet forward then backward) of a stated alphabet of round trips executed on ONE server instance and ONE client.Runtime, each step judged by the same identity oracle and its observation compared with that of the same step alone on a fresh instance (one evaluation per round trip); non-trivial = the case is inside the guarantee and the operation's handler was invoked; distinct: a digest of every executed case is kept and a case met a second time is skipped, not counted (duplicate_cases_skipped)", true)
}
