package main

import (
	"bytes"
	"encoding/json"
	"fmt"
	"math"
	"net/http"
	"net/url"
	"path/filepath"
	"regexp"
	"sort"
	"strconv"
	"strings"
	"unicode/utf8"
)

// The oracle is the identity, read off the property text:
//
//	MUST  the operation's handler runs exactly once
//	MUST  every supplied value arrives equal (same Go type the description declares, same content)
//	MUST  the response reader is called and sees the handler's status, headers and body
//	MAY   anything the encoding cannot carry by definition (see mayParam / mayJSON)
//
// It never looks at how the client spelled the request.

// verdict of one case.
type verdict struct {
	class string // "" = satisfied
	what  string
	// evidence
	status     int
	invoked    bool
	outcome    string
	nontrivial bool
	may        int // number of supplied values not judged (MAY)
}

func quote(s string) string { return strconv.QuoteToASCII(s) }

func sepOf(cf string) string {
	switch cf {
	case "ssv":
		return " "
	case "tsv":
		return "\t"
	case "pipes":
		return "|"
	case "multi":
		return ""
	}
	return ","
}

// mayParam: the supplied value cannot be carried by the declared encoding by
// definition, so the text forces nothing about it.
func mayParam(p P) (bool, string) {
	switch p.In {
	case "path":
		for _, v := range p.V {
			if v == "" || v == "." || v == ".." {
				return true, "path value empty or a dot segment (excluded by the property)"
			}
		}
	case "header":
		for _, v := range p.V {
			if !validHeaderValue(string(v)) {
				return true, "not a header field value that HTTP can carry unchanged"
			}
		}
	case "file":
		// the name travels in a MIME header of the part
		for i := 0; i < len(p.Fname); i++ {
			if p.Fname[i] < 0x20 || p.Fname[i] == 0x7f {
				return true, "file name with a control byte cannot be carried in a MIME header"
			}
		}
	}
	if p.Type == "array" && p.CF != "multi" {
		sep := sepOf(p.CF)
		for _, v := range p.V {
			if strings.Contains(string(v), sep) {
				return true, "an item contains the separator of its collection format"
			}
		}
		if len(p.V) == 1 && p.V[0] == "" {
			return true, "a single empty item and no item have the same separated spelling"
		}
	}
	if p.Type == "array" && p.In == "header" {
		// a header array is one field value holding a separated list: HTTP does not carry white space
		// around the value, and its list syntax (RFC 9110 5.6.1) lets a recipient ignore white space
		// around items and empty items
		for _, v := range p.V {
			if v == "" || strings.TrimSpace(string(v)) != string(v) {
				return true, "an empty item or white space around an item is not significant in an HTTP list field"
			}
		}
	}
	return false, ""
}

func hasOuterSpace(s string) bool {
	return s != "" && (s[0] == ' ' || s[0] == '\t' || s[len(s)-1] == ' ' || s[len(s)-1] == '\t')
}

// validHeaderValue: a field value HTTP/1.1 carries unchanged - no control byte
// other than HTAB, no DEL, no leading or trailing SP / HTAB.
func validHeaderValue(s string) bool {
	for i := 0; i < len(s); i++ {
		c := s[i]
		if (c < 0x20 && c != '\t') || c == 0x7f {
			return false
		}
	}
	return !hasOuterSpace(s)
}

// mayJSON: JSON strings are Unicode; a byte string that is not UTF-8 cannot be carried.
func mayJSON(fs []F) bool {
	for _, f := range fs {
		if !utf8.ValidString(string(f.K)) {
			return true
		}
		switch f.T {
		case "s", "as", "os":
			if !utf8.ValidString(string(f.V)) {
				return true
			}
		}
	}
	// duplicate keys: an object has one member per key
	seen := map[BS]bool{}
	for _, f := range fs {
		if seen[f.K] {
			return true
		}
		seen[f.K] = true
	}
	return false
}

// ---- equality of what was supplied and what arrived ----

// sameJSON compares a supplied tree (string, int64, float64, bool, nil, []any,
// map[string]any) with a decoded one (string, json.Number / float64, bool, nil,
// []interface{}, map[string]interface{}).
func sameJSON(want, got any) bool {
	switch w := want.(type) {
	case nil:
		return got == nil
	case string:
		g, ok := got.(string)
		return ok && g == w
	case bool:
		g, ok := got.(bool)
		return ok && g == w
	case int64:
		switch g := got.(type) {
		case json.Number:
			i, err := strconv.ParseInt(string(g), 10, 64)
			return err == nil && i == w
		case float64:
			return float64(w) == g && int64(g) == w
		case int64:
			return g == w
		}
		return false
	case float64:
		switch g := got.(type) {
		case json.Number:
			f, err := strconv.ParseFloat(string(g), 64)
			return err == nil && f == w
		case float64:
			return g == w
		}
		return false
	case []any:
		g, ok := got.([]interface{})
		if !ok || len(g) != len(w) {
			return false
		}
		for i := range w {
			if !sameJSON(w[i], g[i]) {
				return false
			}
		}
		return true
	case map[string]any:
		g, ok := got.(map[string]interface{})
		if !ok || len(g) != len(w) {
			return false
		}
		for k, v := range w {
			gv, ok := g[k]
			if !ok || !sameJSON(v, gv) {
				return false
			}
		}
		return true
	}
	return false
}

func show(v any) string {
	switch x := v.(type) {
	case string:
		return quote(x)
	case []byte:
		if len(x) > 64 {
			return fmt.Sprintf("%d bytes %s...", len(x), quote(string(x[:48])))
		}
		return quote(string(x))
	case []string:
		q := make([]string, len(x))
		for i := range x {
			q[i] = quote(x[i])
		}
		return "[" + strings.Join(q, " ") + "]"
	case map[string]interface{}:
		ks := make([]string, 0, len(x))
		for k := range x {
			ks = append(ks, k)
		}
		sort.Strings(ks)
		var b strings.Builder
		b.WriteString("{")
		for i, k := range ks {
			if i > 0 {
				b.WriteString(" ")
			}
			b.WriteString(quote(k) + ":" + show(x[k]))
		}
		b.WriteString("}")
		return b.String()
	case []interface{}:
		q := make([]string, len(x))
		for i := range x {
			q[i] = show(x[i])
		}
		return "[" + strings.Join(q, " ") + "]"
	}
	return fmt.Sprintf("%T(%v)", v, v)
}

// scalarEqual: got has the Go type the declaration denotes and the value of the literal.
func scalarEqual(tpe, format, lit string, got any) bool {
	switch tpe {
	case "string":
		g, ok := got.(string)
		return ok && g == lit
	case "integer":
		if format == "int32" {
			w, _ := strconv.ParseInt(lit, 10, 32)
			g, ok := got.(int32)
			return ok && int64(g) == w
		}
		w, _ := strconv.ParseInt(lit, 10, 64)
		g, ok := got.(int64)
		return ok && g == w
	case "number":
		if format == "float" {
			w, _ := strconv.ParseFloat(lit, 32)
			g, ok := got.(float32)
			return ok && g == float32(w)
		}
		w, _ := strconv.ParseFloat(lit, 64)
		g, ok := got.(float64)
		return ok && (g == w || (math.IsNaN(g) && math.IsNaN(w)))
	case "boolean":
		w, _ := strconv.ParseBool(lit)
		g, ok := got.(bool)
		return ok && g == w
	}
	return false
}

// arrayEqual: the items arrive in order, each equal.
func arrayEqual(p P, got any) bool {
	n := len(p.V)
	item := func(i int, g any) bool { return scalarEqual(p.Items, p.IFmt, string(p.V[i]), g) }
	switch g := got.(type) {
	case nil:
		return n == 0
	case []string:
		if len(g) != n {
			return false
		}
		for i := range g {
			if !item(i, g[i]) {
				return false
			}
		}
	case []int64:
		if len(g) != n {
			return false
		}
		for i := range g {
			if !item(i, g[i]) {
				return false
			}
		}
	case []int32:
		if len(g) != n {
			return false
		}
		for i := range g {
			if !item(i, g[i]) {
				return false
			}
		}
	case []float64:
		if len(g) != n {
			return false
		}
		for i := range g {
			if !item(i, g[i]) {
				return false
			}
		}
	case []float32:
		if len(g) != n {
			return false
		}
		for i := range g {
			if !item(i, g[i]) {
				return false
			}
		}
	case []bool:
		if len(g) != n {
			return false
		}
		for i := range g {
			if !item(i, g[i]) {
				return false
			}
		}
	default:
		return false
	}
	return true
}

func isSpaceTrimmedDrop(p P, got any) bool {
	// the received items are the supplied ones with Unicode white space trimmed and empty items dropped
	g, ok := got.([]string)
	if !ok && got != nil {
		return false
	}
	var want []string
	for _, v := range p.V {
		if t := strings.TrimSpace(string(v)); t != "" {
			want = append(want, t)
		}
	}
	if len(want) != len(g) {
		return false
	}
	for i := range g {
		if g[i] != want[i] {
			return false
		}
	}
	return true
}

func hasTrimmable(p P) bool {
	for _, v := range p.V {
		s := string(v)
		if s == "" || strings.TrimSpace(s) != s {
			return true
		}
	}
	return false
}

// fileNameOK: the name is a MUST for plain names. A name with a directory part
// may arrive whole or as its last element (multipart carries base names), and
// an empty or dot name, a name with a control byte or a name that is not UTF-8
// has no agreed spelling in a Content-Disposition header: those are MAY.
func fileNameOK(supplied, got string) bool {
	if got == supplied {
		return true
	}
	if supplied == "" || supplied == "." || supplied == ".." || !utf8.ValidString(supplied) {
		return true
	}
	for i := 0; i < len(supplied); i++ {
		if supplied[i] < 0x20 || supplied[i] == 0x7f {
			return true
		}
	}
	if strings.ContainsAny(supplied, `/\`) {
		if got == filepath.Base(supplied) {
			return true
		}
		if i := strings.LastIndexAny(supplied, `/\`); i >= 0 && got == supplied[i+1:] {
			return true
		}
	}
	return false
}

func hasFile(c *Case) bool {
	for _, p := range c.Params {
		if p.In == "file" && !p.Unset {
			return true
		}
	}
	return false
}

func find(c *Case, in string) *P {
	for i := range c.Params {
		if c.Params[i].In == in && !c.Params[i].Unset {
			return &c.Params[i]
		}
	}
	return nil
}

// judge compares the observation with the identity.
func judge(c *Case, res *result) (v verdict) {
	v.status = 0
	if res.w != nil {
		v.status = res.w.status
	}
	v.invoked = res.cap.calls > 0
	v.nontrivial = v.invoked
	v.outcome = fmt.Sprintf("round-trip-intact-%d", v.status)
	var culprit *P // the parameter whose value differs, when the failure is about one
	var culpritGot any
	fail := func(class, format string, a ...any) verdict {
		v.class = class + knownSuffix(c, res, class, culprit, culpritGot)
		v.what = fmt.Sprintf(format, a...)
		if v.invoked {
			v.outcome = "invoked-but-" + class
		}
		return v
	}
	// a case wholly outside the guarantee: a path value that is normalised away re-routes
	// the request, a header value HTTP cannot carry makes the request text something else
	for _, p := range c.Params {
		if (p.In == "path" || p.In == "header" || p.In == "file") && !p.Unset {
			if may, _ := mayParam(p); may {
				v.outcome = "outside-guarantee"
				v.nontrivial = false
				v.may++
				return v
			}
		}
	}
	// a form operation whose consumes list starts with a media type that cannot carry form fields: the
	// client is documented to use the first non-empty entry, and the text does not say which entry of an
	// inconsistent list a client has to prefer
	// (with a file parameter the body is multipart whatever the list says: only a list that starts with
	// multipart/form-data describes that request)
	if len(c.ConsumesList) > 0 && (find(c, "form") != nil || find(c, "file") != nil) {
		bt := bareType(c.Consumes)
		if (find(c, "file") == nil && bt != "application/x-www-form-urlencoded" && bt != "multipart/form-data") ||
			(find(c, "file") != nil && bt != "multipart/form-data") {
			v.outcome = "outside-guarantee"
			v.nontrivial = false
			v.may++
			return v
		}
	}
	if res.panicked != "" {
		v.outcome = "client-panic"
		return fail("panic-client", "the client panicked: %s", res.panicked)
	}
	if res.w != nil && res.w.serverErr != "" {
		v.outcome = "server-panic"
		return fail("panic-server", "the server handler chain panicked: %s", res.w.serverErr)
	}
	if res.w != nil && res.w.wireErr != "" {
		v.outcome = "wire-unparsable"
		return fail("request-unparsable", "the request the client wrote does not parse as HTTP: %s (request line %q)", res.w.wireErr, firstLine(res.w.reqText))
	}
	if len(res.cap.wrong) > 0 {
		v.outcome = "wrong-operation"
		return fail("wrong-operation", "the handler of another operation ran: %v (request line %q)", res.cap.wrong, firstLine(res.w.reqText))
	}
	if res.cap.calls == 0 {
		if res.submitErr != nil && (res.w == nil || res.w.reqText == nil) {
			v.outcome = "client-refused"
			return fail("client-error", "Submit failed before sending: %v", res.submitErr)
		}
		v.outcome = fmt.Sprintf("not-invoked-%d", v.status)
		return fail(fmt.Sprintf("not-invoked-%d", v.status), "handler not invoked, status %d, request line %q, response body seen by reader: %s", v.status, firstLine(res.w.reqText), show(res.seen.raw))
	}
	if res.cap.calls > 1 {
		return fail("invoked-more-than-once", "handler invoked %d times", res.cap.calls)
	}
	// values
	for _, p := range c.Params {
		if p.Unset {
			continue
		}
		if may, _ := mayParam(p); may {
			v.may++
			continue
		}
		got, present := res.cap.params[p.Name]
		switch p.In {
		case "file":
			gf := res.cap.files[p.Name]
			if gf.err != "" {
				return fail("file-not-received", "file %q: %s", p.Name, gf.err)
			}
			want := fileContent(p.Flen, p.Fpat)
			if !bytes.Equal(want, gf.content) {
				return fail("file-content-differs", "file %q: supplied %d bytes, handler read %d bytes (first difference at %d)", p.Name, len(want), len(gf.content), firstDiff(want, gf.content))
			}
			if !fileNameOK(string(p.Fname), gf.name) {
				return fail("file-name-differs", "file %q: supplied name %s, handler got %s", p.Name, quote(string(p.Fname)), quote(gf.name))
			}
		case "body":
			switch p.Type {
			case "object", "jarray":
				if mayJSON(p.Body) {
					v.may++
					continue
				}
				want, _ := jsonValue(p.Body, p.Type == "jarray")
				if !present || !sameJSON(want, got) {
					return fail("body-differs", "body: supplied %s, handler got %s", show(want), show(got))
				}
			case "text", "jstring":
				if p.Type == "jstring" && !utf8.ValidString(string(p.V[0])) {
					v.may++ // a JSON string is Unicode
					continue
				}
				if g, ok := got.(string); !ok || g != string(p.V[0]) {
					return fail("body-differs", "text body: supplied %s, handler got %s", quote(string(p.V[0])), show(got))
				}
			case "bytes":
				ok := false
				switch g := got.(type) {
				case []byte:
					ok = bytes.Equal(g, []byte(p.V[0]))
				case string:
					ok = g == string(p.V[0])
				}
				if !ok {
					return fail("body-differs", "bytes body: supplied %s, handler got %s", quote(string(p.V[0])), show(got))
				}
			}
		default:
			ok := false
			if p.Type == "array" {
				ok = arrayEqual(p, got)
			} else {
				ok = present && scalarEqual(p.Type, p.Format, string(p.V[0]), got)
			}
			if !ok {
				pp := p
				culprit, culpritGot = &pp, got
				cl := p.In + "-value-differs"
				if p.Type == "array" {
					cl = p.In + "-array-differs"
				}
				return fail(cl, "%s parameter %q (%s): supplied %s, handler got %s", p.In, p.Name, declText(p), show(paramStrings(p)), show(got))
			}
		}
	}
	if c.Auth {
		if g, _ := res.cap.params[authHeader].(string); g != authValue {
			return fail("auth-header-differs", "the auth writer set %s: %s, handler got %s", authHeader, quote(authValue), show(res.cap.params[authHeader]))
		}
	}
	// the way back
	if res.submitErr != nil {
		return fail("client-error-after-handler", "handler ran, Submit returned an error: %v", res.submitErr)
	}
	if !res.seen.called {
		return fail("reader-not-called", "handler ran, the response reader was not called")
	}
	if res.perr != nil {
		return fail("server-produce-error", "the handler's body could not be produced: %v", res.perr)
	}
	if res.seen.code != c.Resp.Status {
		return fail("resp-status-differs", "handler returned %d, reader saw %d", c.Resp.Status, res.seen.code)
	}
	if c.Resp.Mode == "error" {
		// the error's message reaches the reader in the body the error responder writes ({"code","message"})
		if c.Method == "HEAD" || !utf8.ValidString(string(c.Resp.Text)) {
			return v
		}
		if res.seen.bodyErr != "" {
			return fail("resp-body-unreadable", "the reader could not decode the error body with the consumer it was given: %s", res.seen.bodyErr)
		}
		if !carriesText(res.seen.raw, string(c.Resp.Text)) {
			return fail("resp-error-message-differs", "handler returned error message %s, reader decoded %s", quote(string(c.Resp.Text)), show(res.seen.body))
		}
		return v
	}
	for _, h := range c.Resp.H {
		got := res.seen.headers[h.K]
		same := len(got) == len(h.V)
		for i := 0; same && i < len(got); i++ {
			same = got[i] == string(h.V[i])
		}
		if !same {
			want := make([]string, len(h.V))
			for i := range h.V {
				want[i] = string(h.V[i])
			}
			return fail("resp-header-differs", "handler set %s: %s, reader saw %s", h.K, show(want), show(got))
		}
	}
	if c.Method == "HEAD" {
		return v // a HEAD response carries no body by definition
	}
	if res.seen.bodyErr != "" {
		return fail("resp-body-unreadable", "the reader could not decode the body with the consumer it was given: %s", res.seen.bodyErr)
	}
	switch c.Resp.Kind {
	case "none":
		if b, _ := res.seen.body.([]byte); len(b) != 0 {
			return fail("resp-body-differs", "handler wrote no body, reader saw %s", show(b))
		}
	case "json", "jarray":
		if mayJSON(c.Resp.Body) {
			v.may++
			break
		}
		want, _ := jsonValue(c.Resp.Body, c.Resp.Kind == "jarray")
		if !sameJSON(want, res.seen.body) {
			return fail("resp-body-differs", "handler returned %s, reader decoded %s", show(want), show(res.seen.body))
		}
	case "text":
		if g, _ := res.seen.body.(string); g != string(c.Resp.Text) {
			return fail("resp-body-differs", "handler returned text %s, reader decoded %s", quote(string(c.Resp.Text)), show(res.seen.body))
		}
	case "bytes":
		g, isBytes := res.seen.body.([]byte)
		if gs, isString := res.seen.body.(string); isString {
			g, isBytes = []byte(gs), true
		}
		if !isBytes || !bytes.Equal(g, []byte(c.Resp.Text)) {
			return fail("resp-body-differs", "handler returned bytes %s, reader got %s", quote(string(c.Resp.Text)), show(res.seen.body))
		}
	}
	return v
}

func declText(p P) string {
	s := p.Type
	if p.Format != "" {
		s += "/" + p.Format
	}
	if p.Type == "array" {
		s += " of " + p.Items
		if p.IFmt != "" {
			s += "/" + p.IFmt
		}
		s += " " + p.CF
	}
	return s
}

func firstDiff(a, b []byte) int {
	n := len(a)
	if len(b) < n {
		n = len(b)
	}
	for i := 0; i < n; i++ {
		if a[i] != b[i] {
			return i
		}
	}
	return n
}

// knownSuffix names the triggering input of a defect of the pinned tree that
// has been analysed (see known_findings/C04.json). A failure gets a suffix only
// when the input predicate (the shape of the case: template, declaration,
// value, method, media type) AND the symptom predicate hold, so a different
// failure of the same kind keeps its plain class and is reported. The symptom
// is what fails - which value differs and how, whether the handler ran, the
// status code - never the wording of an error body or error string, which the
// property does not fix.
func knownSuffix(c *Case, res *result, class string, p *P, got any) string {
	switch class {
	case "header-value-differs", "header-array-differs":
		// declared header name that is not in canonical form is looked up verbatim in http.Header
		if p != nil && http.CanonicalHeaderKey(p.Name) != p.Name && isZero(got) {
			return "/declared-name-not-canonical"
		}
	case "query-array-differs", "form-array-differs":
		if p != nil && class == "form-array-differs" && bareType(c.Consumes) == "application/x-www-form-urlencoded" && c.Method != "POST" && c.Method != "PUT" && c.Method != "PATCH" && isZero(got) && len(p.V) > 0 {
			return "/urlencoded-body-on-" + strings.ToLower(c.Method)
		}
		// swag.SplitByFormat trims white space around every item and drops empty items
		if p != nil && p.CF != "multi" && p.Items == "string" && hasTrimmable(*p) && isSpaceTrimmedDrop(*p, got) {
			return "/separated-items-trimmed-or-dropped"
		}
	case "not-invoked-422":
		// the shortest float32 literal of a value near MaxFloat32 is above MaxFloat32 when read at 64 bits
		for _, q := range c.Params {
			if q.Unset || q.In == "body" || q.In == "file" {
				continue
			}
			tpe, format := q.Type, q.Format
			if q.Type == "array" {
				tpe, format = q.Items, q.IFmt
			}
			if tpe != "number" || format != "float" {
				continue
			}
			for _, lit := range q.V {
				if float32LiteralOverflows(string(lit)) {
					return "/float32-shortest-literal-overflows"
				}
			}
		}
		// (see also form-value-differs below)
		// the untyped binder decodes every body that is not an array into a map
		if b := find(c, "body"); b != nil && (b.Type == "text" || b.Type == "bytes" || b.Type == "jstring") {
			return "/body-schema-string"
		}
	case "form-value-differs":
		// net/http parses an urlencoded body only for POST, PUT and PATCH
		if p != nil && bareType(c.Consumes) == "application/x-www-form-urlencoded" && c.Method != "POST" && c.Method != "PUT" && c.Method != "PATCH" && isZero(got) {
			return "/urlencoded-body-on-" + strings.ToLower(c.Method)
		}
	case "panic-server":
		for _, q := range c.Params {
			if q.In == "body" || q.In == "file" {
				continue
			}
			noFormat := (q.Type == "number" && q.Format == "") || (q.Type == "array" && q.Items == "number" && q.IFmt == "")
			if noFormat {
				return "/number-without-format"
			}
		}
	case "not-invoked-404":
		full := strings.TrimSuffix(c.Base, "/") + c.Template
		if placeholderAfterLiteral.MatchString(c.Template) {
			return "/placeholder-after-literal-in-segment"
		}
		if literalNeedsEscaping(c.Base) || literalNeedsEscaping(c.Template) {
			return "/literal-needs-escaping"
		}
		if len(full) > 1 && strings.HasSuffix(full, "/") {
			return "/template-trailing-slash"
		}
	case "client-error":
		if mediaType(c.Consumes) != bareType(c.Consumes) && res.submitErr != nil && (res.w == nil || res.w.reqText == nil) {
			return "/consumes-with-parameters"
		}
	}
	return ""
}

// carriesText: the body carries the text - verbatim, or as a string value
// anywhere in a JSON document. How the error responder lays the body out is
// not the property's business.
func carriesText(raw []byte, text string) bool {
	if bytes.Contains(raw, []byte(text)) && text != "" {
		return true
	}
	var doc any
	if json.Unmarshal(raw, &doc) != nil {
		return text == "" && len(raw) == 0
	}
	var has func(v any) bool
	has = func(v any) bool {
		switch x := v.(type) {
		case string:
			return x == text
		case []any:
			for _, e := range x {
				if has(e) {
					return true
				}
			}
		case map[string]any:
			for _, e := range x {
				if has(e) {
					return true
				}
			}
		}
		return false
	}
	return has(doc)
}

func isZero(got any) bool {
	switch g := got.(type) {
	case nil:
		return true
	case string:
		return g == ""
	case int64:
		return g == 0
	case int32:
		return g == 0
	case float64:
		return g == 0
	case float32:
		return g == 0
	case bool:
		return !g
	case []string:
		return len(g) == 0
	case []int64:
		return len(g) == 0
	case []int32:
		return len(g) == 0
	case []float64:
		return len(g) == 0
	case []float32:
		return len(g) == 0
	case []bool:
		return len(g) == 0
	}
	return false
}

// float32LiteralOverflows: the literal denotes a float32 whose shortest decimal
// spelling, read as a float64, is larger in magnitude than MaxFloat32.
func float32LiteralOverflows(lit string) bool {
	v, err := strconv.ParseFloat(lit, 32)
	if err != nil {
		return false
	}
	w, err := strconv.ParseFloat(strconv.FormatFloat(v, 'f', -1, 32), 64)
	return err == nil && math.Abs(w) > math.MaxFloat32
}

// literalNeedsEscaping: the literal text of a base path or template (outside
// the placeholders) contains a byte that is percent-encoded in a request path.
func literalNeedsEscaping(tmpl string) bool {
	lit := placeholder.ReplaceAllString(tmpl, "x")
	return (&url.URL{Path: lit}).EscapedPath() != lit
}

// a placeholder that does not start its path segment
var placeholderAfterLiteral = regexp.MustCompile(`[^/{}]\{[^}/]*\}`)

var placeholder = regexp.MustCompile(`\{[^}/]*\}`)
