// C10 - client URLs: escaped substitution, preserved shape, stated query
// precedence, https preference. Small-scope exhaustive enumeration (E1) of
// base paths x path patterns x path-parameter maps x caller query sets x scheme
// lists, every case executed on the real client (client.New +
// Runtime.CreateHttpRequest) and compared with a reference written from the
// property text (model.go).
package main

import (
	"fmt"
	"os"
	"sort"
	"strings"
	"time"

	"verif/engine/enum"
	"verif/engine/report"
)

// ---- alphabets ----

func q(ss ...string) []qs {
	out := make([]qs, len(ss))
	for i, s := range ss {
		out[i] = qs(s)
	}
	return out
}

func kv(pairs ...string) []KV {
	var out []KV
	for i := 0; i+1 < len(pairs); i += 2 {
		out = append(out, KV{qs(pairs[i]), qs(pairs[i+1])})
	}
	return out
}

var bases = []PathSpec{
	{},                           // ""
	{Lead: true},                 // "/"
	{Lead: true, Segs: q("api")}, // "/api"
	{Segs: q("api")},             // "api"
	{Lead: true, Segs: q("api"), Trail: true},                                   // "/api/"
	{Segs: q("api"), Trail: true},                                               // "api/"
	{Lead: true, Segs: q("api", "v1")},                                          // "/api/v1"
	{Lead: true, Segs: q("api"), Query: kv("x", "1")},                           // "/api?x=1"
	{Lead: true, Segs: q("api"), Trail: true, Query: kv("x", "1", "y", "2")},    // "/api/?x=1&y=2"
	{Query: kv("x", "1")},                                                       // "?x=1"
	{Lead: true, Segs: q("api"), Query: kv("x", "1", "x", "0", "u", "a b&c=d")}, // "/api?x=1&x=0&u=a+b%26c%3Dd"
	{Lead: true, Segs: q("é b")},                                                // "/é b": static text that needs escaping
}

// extraBases (sweep B): base paths whose static query is written by hand with '/', ':', '.'
// unescaped in the values (values holding "//", "/./", "/../", a trailing '/'), and base paths
// whose own segments are empty, "." or ".." (for those the reference accepts both the literal
// and the resolved shape - the text does not choose).
var extraBases = []PathSpec{
	{Lead: true, Segs: q("api"), Loose: true, Query: kv("cb", "http://h/p")},                         // "/api?cb=http://h/p"
	{Lead: true, Segs: q("api"), Loose: true, Query: kv("dir", "a/b/")},                              // "/api?dir=a/b/"
	{Lead: true, Segs: q("api"), Loose: true, Query: kv("rel", "x/../y")},                            // "/api?rel=x/../y"
	{Lead: true, Segs: q("api"), Loose: true, Query: kv("d", "./z", "e", "a//b")},                    // "/api?d=./z&e=a//b"
	{Lead: true, Segs: q("api"), Trail: true, Loose: true, Query: kv("x", "1", "cb", "http://h/p/")}, // "/api/?x=1&cb=http://h/p/"
	{Loose: true, Query: kv("cb", "http://h/p")},                                                     // "?cb=http://h/p"
	{Segs: q("api"), Loose: true, Query: kv("rel", "../../y", "x", "1")},                             // "api?rel=../../y&x=1"
	{Lead: true, Segs: q("a", "", "b")},                                                              // "/a//b"
	{Lead: true, Segs: q("a", ".", "b")},                                                             // "/a/./b"
	{Lead: true, Segs: q("a", "..", "b")},                                                            // "/a/../b"
	{Lead: true, Segs: q("a", "b"), Trail: true},                                                     // "/a/b/"
	{Lead: true, Segs: q("a", "..", "b"), Trail: true, Loose: true, Query: kv("rel", "x/../y")},      // "/a/../b/?rel=x/../y"
}

// extraPatterns (sweep B only): a pattern whose static query is written the same loose way
var extraPatterns = []patternDef{
	{PathSpec{Lead: true, Segs: q("a", "{p}"), Loose: true, Query: kv("cb", "http://h/p//", "x", "2")}, []string{"p"}}, // "/a/{p}?cb=http://h/p//&x=2"
}

// sweep T: the scheme table over a wider alphabet, one fixed request
var schemeAlphabetT = []string{"http", "https", "ws", "wss", "HTTP", "", "gopher"}

const hostB, hostT, hostF = "b.example.net", "t.example.net", "f.example.net"

type patternDef struct {
	spec  PathSpec
	names []string
}

var patterns = []patternDef{
	{PathSpec{}, nil},                                      // ""
	{PathSpec{Lead: true}, nil},                            // "/"
	{PathSpec{Lead: true, Segs: q("a")}, nil},              // "/a"
	{PathSpec{Lead: true, Segs: q("a"), Trail: true}, nil}, // "/a/"
	{PathSpec{Query: kv("x", "2")}, nil},                   // "?x=2"
	{PathSpec{Lead: true, Segs: q("{p}")}, []string{"p"}},
	{PathSpec{Lead: true, Segs: q("{p}"), Trail: true}, []string{"p"}},
	{PathSpec{Lead: true, Segs: q("a", "{p}")}, []string{"p"}},
	{PathSpec{Lead: true, Segs: q("a", "{p}"), Trail: true}, []string{"p"}},
	{PathSpec{Lead: true, Segs: q("a{p}b")}, []string{"p"}},
	{PathSpec{Segs: q("a", "{p}")}, []string{"p"}}, // "a/{p}"
	{PathSpec{Lead: true, Segs: q("{p}", "x", "{p}")}, []string{"p"}},
	{PathSpec{Lead: true, Segs: q("a", "{p}"), Query: kv("x", "2")}, []string{"p"}},
	{PathSpec{Lead: true, Segs: q("a", "{p}"), Trail: true, Query: kv("x", "2")}, []string{"p"}},
	{PathSpec{Lead: true, Segs: q("a", "{p}"), Query: kv("x", "2", "x", "3", "y", "")}, []string{"p"}},
	{PathSpec{Lead: true, Segs: q("é", "{p}")}, []string{"p"}}, // static text that needs escaping
	{PathSpec{Lead: true, Segs: q("{p}", "{q}")}, []string{"p", "q"}},
	{PathSpec{Lead: true, Segs: q("{p}{q}")}, []string{"p", "q"}},
	{PathSpec{Lead: true, Segs: q("{p}", "{q}"), Trail: true}, []string{"p", "q"}},
	{PathSpec{Lead: true, Segs: q("a", "{p}", "b", "{q}")}, []string{"p", "q"}},
	{PathSpec{Lead: true, Segs: q("{p}", "{pq}")}, []string{"p", "pq"}},
	{PathSpec{Lead: true, Segs: q("a", "{p}", "b", "{q}"), Query: kv("z", "3", "x", "4")}, []string{"p", "q"}},
	{PathSpec{Lead: true, Segs: q("a b", "{p}", "{q}")}, []string{"p", "q"}}, // static text that needs escaping
	{PathSpec{Lead: true, Segs: q("{p}", "{q}", "{r}")}, []string{"p", "q", "r"}},
}

var atoms = []string{"", "a", " ", "+", "%", "%2F", "%25", "/", "?", "#", ":", "*", "=", ";v=1", "{q}", "{p}", "}", "{",
	".", "..", "a b", "a+b", "a&b=c", "a,b", "é", "日本", "\x80", "\\", "\n"}

var coreAtoms = []string{"", "a", "/", "?", "#", "%", "..", "{q}", "{p}", " ", "é", "%2F", "."}

func dedupe(ss []string) []string {
	seen := map[string]bool{}
	var out []string
	for _, s := range ss {
		if !seen[s] {
			seen[s] = true
			out = append(out, s)
		}
	}
	return out
}

func concat2(a, b []string) []string {
	var out []string
	for _, x := range a {
		for _, y := range b {
			out = append(out, x+y)
		}
	}
	return out
}

type alphabet struct {
	single []string    // values for a lone placeholder
	pairs  [][2]string // value pairs for two placeholders
	triple []string    // per-placeholder alphabet for three placeholders
	extra  bool        // also: a parameter that names no placeholder
	repeat int
}

func alphabets(thorough bool) alphabet {
	var a alphabet
	a.single = dedupe(append(append([]string{}, atoms...), concat2(atoms, atoms)...))
	a.extra = true
	seen := map[[2]string]bool{}
	add := func(x, y string) {
		if !seen[[2]string{x, y}] {
			seen[[2]string{x, y}] = true
			a.pairs = append(a.pairs, [2]string{x, y})
		}
	}
	for _, x := range atoms {
		for _, y := range atoms {
			add(x, y)
		}
	}
	if thorough {
		// one value from the full single-value list, the other a core atom, both ways round
		for _, x := range a.single {
			for _, y := range coreAtoms {
				add(x, y)
				add(y, x)
			}
		}
		a.triple = []string{"a", "", "/", "?", "{q}", "{r}", "%", "é"}
		a.repeat = 3
		return a
	}
	a.triple = []string{"a", "", "/", "{q}", "{r}"}
	a.repeat = 2
	return a
}

// valueMaps lists the parameter maps tried for a pattern (sweep P).
func valueMaps(p patternDef, a alphabet) [][]KV {
	var out [][]KV
	switch len(p.names) {
	case 0:
		out = append(out, nil)
		if a.extra {
			out = append(out, kv("zz", "/"))
		}
	case 1:
		out = append(out, nil) // placeholder left unset
		for _, v := range a.single {
			out = append(out, kv(p.names[0], v))
		}
		if a.extra {
			for _, v := range atoms {
				out = append(out, kv(p.names[0], v, "zz", "/{"+p.names[0]+"}"))
			}
		}
	case 2:
		for _, v := range atoms { // second placeholder left unset
			out = append(out, kv(p.names[0], v))
		}
		for _, pr := range a.pairs {
			out = append(out, kv(p.names[0], pr[0], p.names[1], pr[1]))
		}
	case 3:
		for _, x := range a.triple {
			for _, y := range a.triple {
				for _, z := range a.triple {
					out = append(out, kv(p.names[0], x, p.names[1], y, p.names[2], z))
				}
			}
		}
	}
	return out
}

// smallValueMaps: the few parameter maps used in the query sweep (values that
// try to inject or cut a query) and in the scheme sweep.
func smallValueMaps(p patternDef) [][]KV {
	switch len(p.names) {
	case 0:
		return [][]KV{nil}
	case 1:
		n := p.names[0]
		return [][]KV{kv(n, "a"), kv(n, "a/b?x=7#f"), kv(n, "?x=7&y=8"), kv(n, "")}
	case 2:
		n, m := p.names[0], p.names[1]
		return [][]KV{kv(n, "a", m, "b"), kv(n, "?x=7", m, "#"), kv(n, "a/b", m, "&x=7")}
	}
	return [][]KV{kv(p.names[0], "a", p.names[1], "?x=7", p.names[2], "#f")}
}

var queriesP = [][]QP{nil, {{Name: "x", Vals: q("9")}}}

func queriesQ() [][]QP {
	names := []string{"x", "y", "z", "w"}
	lists := [][]qs{{}, q("9"), q("9", "8"), q(""), q("a&b=c#?")}
	var out [][]QP
	for _, n := range names {
		for _, l := range lists {
			if n == "x" && len(l) == 1 && l[0] == "9" {
				continue // x=[9] belongs to sweep P
			}
			out = append(out, []QP{{qs(n), l}})
		}
	}
	for i := 0; i < len(names); i++ {
		for j := i + 1; j < len(names); j++ {
			for _, l1 := range lists {
				for _, l2 := range lists {
					out = append(out, []QP{{qs(names[i]), l1}, {qs(names[j]), l2}})
				}
			}
		}
	}
	for _, n := range []string{"X", "a b", "", "é", "x=1&y"} {
		for _, l := range [][]qs{q("9"), q("a b"), {}} {
			out = append(out, []QP{{qs(n), l}})
		}
	}
	return out
}

// sweep X: a full cross of reduced axes, on a host of its own (so that it shares no case with the other sweeps)
var hostX = "api.example.org"
var queriesX = [][]QP{nil, {{Name: "x", Vals: q("9")}}, {{Name: "x", Vals: q()}}, {{Name: "w", Vals: q("1")}},
	{{Name: "x", Vals: q("9", "8")}, {Name: "y", Vals: q("")}}, {{Name: "z", Vals: q("a&b=c#?")}}}
var schemesX = [][]string{nil, {"http"}, {"https"}, {"http", "https"}, {"https", "http"}, {"ws", "https"}, {"ws", "wss"}}

var hostP = "localhost"
var rtP, opP = []string(nil), []string{"https"}

func schemeLists(maxLen int) [][]string {
	al := []string{"http", "https", "ws", "wss"}
	var out [][]string
	for _, s := range enum.Seqs(len(al), 0, maxLen) {
		var l []string
		for _, i := range s {
			l = append(l, al[i])
		}
		out = append(out, l)
	}
	return out
}

func findBase(rendered string) int {
	for i, b := range bases {
		if b.Render() == rendered {
			return i
		}
	}
	panic("no base path " + rendered)
}

func findPattern(rendered string) int {
	for i, p := range patterns {
		if p.spec.Render() == rendered {
			return i
		}
	}
	panic("no pattern " + rendered)
}

// ---- shards ----

type shard struct {
	sweep   string
	base    int
	pattern int
	lo, hi  int // slice of the sweep's innermost list
}

type tally struct {
	evals, cases, nontrivial int64
	outcomes                 map[string]int64
}

func newTally() *tally { return &tally{outcomes: map[string]int64{}} }

func unreservedOnly(s string) bool {
	for i := 0; i < len(s); i++ {
		c := s[i]
		if !(c >= 'a' && c <= 'z' || c >= 'A' && c <= 'Z' || c >= '0' && c <= '9' || c == '-' || c == '_' || c == '.' || c == '~') {
			return false
		}
	}
	return true
}

// nontrivial: the case reaches a mechanism under test.
func nontrivial(c *Case) bool {
	for _, p := range c.Params {
		used := false
		for _, s := range c.Pattern.Segs {
			if strings.Contains(string(s), "{"+string(p.K)+"}") {
				used = true
			}
		}
		if used && (!unreservedOnly(string(p.V)) || p.V == "" || p.V == "." || p.V == "..") {
			return true
		}
	}
	levels := map[string]int{}
	seen := map[string]bool{}
	for _, kv := range c.Base.Query {
		if !seen["b"+string(kv.K)] {
			seen["b"+string(kv.K)] = true
			levels[string(kv.K)]++
		}
	}
	for _, kv := range c.Pattern.Query {
		if !seen["p"+string(kv.K)] {
			seen["p"+string(kv.K)] = true
			levels[string(kv.K)]++
		}
	}
	for _, qp := range c.Query {
		levels[string(qp.Name)]++
	}
	for _, n := range levels {
		if n >= 2 {
			return true
		}
	}
	return len(c.Rt) >= 2 || len(c.Op) >= 2
}

func outcomeLabels(c *Case, o observation, fails []failure, into map[string]int64) {
	for _, f := range fails {
		into["deviation:"+f.Class]++
	}
	switch {
	case o.Panic != "":
		into["panic"]++
		return
	case o.Err != "":
		into["error"]++
		return
	}
	into["scheme="+o.Scheme]++
	switch {
	case o.Escaped == "" || o.Escaped == "/":
		into["path=root"]++
	case strings.Contains(o.Escaped, "%2F") || strings.Contains(o.Escaped, "%3F") || strings.Contains(o.Escaped, "%23"):
		into["path=separator-escaped"]++
	case strings.Contains(o.Escaped, "%"):
		into["path=escaped"]++
	default:
		into["path=plain"]++
	}
	if strings.HasSuffix(o.Escaped, "/") && len(o.Escaped) > 1 {
		into["path=trailing-slash"]++
	}
	static := len(c.Base.Query)+len(c.Pattern.Query) > 0
	switch {
	case o.RawQ == "":
		into["query=none"]++
	case len(c.Query) > 0 && static:
		into["query=caller+static"]++
	case len(c.Query) > 0:
		into["query=caller-only"]++
	case len(c.Base.Query) > 0 && len(c.Pattern.Query) > 0:
		into["query=pattern+base"]++
	default:
		into["query=static-one-level"]++
	}
}

// plan is everything the sweeps enumerate; it is a pure function of the tier, so
// the parent and every worker process build the same one.
type plan struct {
	al        alphabet
	vmaps     [][][]KV
	small     [][][]KV
	qQ        [][]QP
	lists     [][]string
	hosts     []string
	sBases    []int
	sPatterns []int
	sQueries  [][]QP
	shards    []shard
	patternsB []patternDef
	smallB    [][][]KV
	listsT    [][]string
}

func buildPlan(thorough bool) *plan {
	pl := &plan{al: alphabets(thorough)}
	pl.vmaps = make([][][]KV, len(patterns))
	pl.small = make([][][]KV, len(patterns))
	for i, p := range patterns {
		pl.vmaps[i] = valueMaps(p, pl.al)
		pl.small[i] = smallValueMaps(p)
	}
	pl.qQ = queriesQ()
	pl.lists = schemeLists(3)
	pl.hosts = []string{"localhost", "example.com:8080", "[::1]:8443"}
	pl.sBases = []int{findBase("/"), findBase("/api/?x=1&y=2")}
	pl.sPatterns = []int{findPattern("/a"), findPattern("/a/{p}/b/{q}?z=3&x=4")}
	pl.sQueries = [][]QP{nil, {{Name: "x", Vals: q("9", "8")}}}
	const chunk = 1500
	for b := range bases {
		for p := range patterns {
			for lo := 0; lo < len(pl.vmaps[p]); lo += chunk {
				hi := lo + chunk
				if hi > len(pl.vmaps[p]) {
					hi = len(pl.vmaps[p])
				}
				pl.shards = append(pl.shards, shard{"P", b, p, lo, hi})
			}
			pl.shards = append(pl.shards, shard{"Q", b, p, 0, len(pl.qQ)})
			pl.shards = append(pl.shards, shard{"X", b, p, 0, len(queriesX)})
		}
	}
	pl.patternsB = append(append([]patternDef{}, patterns...), extraPatterns...)
	for _, p := range pl.patternsB {
		pl.smallB = append(pl.smallB, smallValueMaps(p))
	}
	for b := range extraBases {
		for p := range pl.patternsB {
			pl.shards = append(pl.shards, shard{"B", b, p, 0, len(queriesX)})
		}
	}
	// sweep F: the other entry points. lo = index of the variant; "field" also takes the extra base paths
	for vi, v := range variants {
		nb := len(bases)
		if v == "field" {
			nb += len(extraBases)
		}
		for b := 0; b < nb; b++ {
			for p := range patterns {
				pl.shards = append(pl.shards, shard{"F", b, p, vi, vi + 1})
			}
		}
	}
	for _, sq := range enum.Seqs(len(schemeAlphabetT), 0, 3) {
		var l []string
		for _, i := range sq {
			l = append(l, schemeAlphabetT[i])
		}
		pl.listsT = append(pl.listsT, l)
	}
	for lo := 0; lo < len(pl.listsT); lo += 8 {
		hi := lo + 8
		if hi > len(pl.listsT) {
			hi = len(pl.listsT)
		}
		pl.shards = append(pl.shards, shard{"T", 0, 0, lo, hi})
	}
	for _, b := range pl.sBases {
		for _, p := range pl.sPatterns {
			for lo := 0; lo < len(pl.lists); lo += 8 {
				hi := lo + 8
				if hi > len(pl.lists) {
					hi = len(pl.lists)
				}
				pl.shards = append(pl.shards, shard{"S", b, p, lo, hi})
			}
		}
	}
	return pl
}

// runShard enumerates one shard, calling run for every case of it.
func (pl *plan) runShard(sh shard, run func(c *Case)) {
	pd := pl.patternsB[sh.pattern]
	switch sh.sweep {
	case "B":
		for _, vm := range pl.smallB[sh.pattern] {
			for _, qq := range queriesX {
				run(&Case{Host: hostB, Base: extraBases[sh.base], Pattern: pd.spec, Names: pd.names, Params: vm, Query: qq, Rt: rtP, Op: opP, Repeat: 1})
			}
		}
	case "F":
		base := PathSpec{}
		if sh.base < len(bases) {
			base = bases[sh.base]
		} else {
			base = extraBases[sh.base-len(bases)]
		}
		for _, vm := range pl.smallB[sh.pattern] {
			for _, qq := range queriesX {
				run(&Case{Host: hostF, Base: base, Pattern: pd.spec, Names: pd.names, Params: vm, Query: qq, Rt: rtP, Op: opP, Repeat: 1, Via: variants[sh.lo]})
			}
		}
	case "T":
		tb, tp := bases[findBase("/")], patterns[findPattern("/a")]
		for _, rt := range pl.listsT[sh.lo:sh.hi] {
			for _, op := range pl.listsT {
				run(&Case{Host: hostT, Base: tb, Pattern: tp.spec, Names: tp.names, Rt: rt, Op: op, Repeat: 1})
			}
		}
	case "P":
		for _, vm := range pl.vmaps[sh.pattern][sh.lo:sh.hi] {
			for _, qq := range queriesP {
				run(&Case{Host: hostP, Base: bases[sh.base], Pattern: pd.spec, Names: pd.names, Params: vm, Query: qq, Rt: rtP, Op: opP, Repeat: pl.al.repeat})
			}
		}
	case "Q":
		for _, vm := range pl.small[sh.pattern] {
			for _, qq := range pl.qQ[sh.lo:sh.hi] {
				run(&Case{Host: hostP, Base: bases[sh.base], Pattern: pd.spec, Names: pd.names, Params: vm, Query: qq, Rt: rtP, Op: opP, Repeat: 1})
			}
		}
	case "X":
		for _, vm := range pl.small[sh.pattern] {
			for _, qq := range queriesX {
				for _, rt := range schemesX {
					for _, op := range schemesX {
						run(&Case{Host: hostX, Base: bases[sh.base], Pattern: pd.spec, Names: pd.names, Params: vm, Query: qq, Rt: rt, Op: op, Repeat: 1})
					}
				}
			}
		}
	case "S":
		vm := pl.small[sh.pattern][0]
		for _, rt := range pl.lists[sh.lo:sh.hi] {
			for _, op := range pl.lists {
				for _, h := range pl.hosts {
					if h == hostP && len(rt) == 0 && len(op) == 1 && op[0] == "https" {
						continue // this scheme pair on this host is the one sweeps P and Q use
					}
					for _, qq := range pl.sQueries {
						run(&Case{Host: h, Base: bases[sh.base], Pattern: pd.spec, Names: pd.names, Params: vm, Query: qq, Rt: rt, Op: op, Repeat: 1})
					}
				}
			}
		}
	}
}

func main() {
	if len(os.Args) > 1 && os.Args[1] == "--child" {
		childMain(os.Args[2:])
		return
	}
	r := report.Start("C10", "exploration")
	if r.Replay != "" {
		replay(r)
	}
	started := time.Now()
	// own time limit inside the tier budgets (quick 60 s, thorough 10 min including the build):
	// when it trips the run ends as exhaustive:false, never as a failure
	limit := 180 * time.Second // quick: generous, so that a loaded machine does not cut the sweep short (the run budget is 4 min)
	if r.Thorough() {
		limit = 9 * time.Minute
	}
	deadline := started.Add(limit)

	// Phase H first (this process has built no request yet): histories of calls in ONE process.
	hist := runHistories(r, deadline)

	// Phase E: the per-case sweeps, sharded over single-threaded worker processes (no two
	// requests are ever built concurrently in one process, every worker has a deterministic history).
	pl := buildPlan(r.Thorough())
	sw := runSweeps(r, pl, deadline)

	r.Set("shards", map[string]int64{"total": int64(len(pl.shards)), "completed": sw.shardsDone})
	all := map[string]int64{}
	for name, t := range sw.total {
		r.Set("sweep_"+name, map[string]int64{"cases": t.cases, "executions": t.evals, "nontrivial": t.nontrivial})
		for k, v := range t.outcomes {
			all[k] += v
		}
	}
	for k, v := range hist.outcomes {
		all[k] += v
	}
	keys := make([]string, 0, len(all))
	for k := range all {
		keys = append(keys, k)
	}
	sort.Strings(keys)
	for _, k := range keys {
		r.Outcome(k, all[k])
	}
	var bs, ps []string
	for _, b := range bases {
		bs = append(bs, b.Render())
	}
	for _, p := range patterns {
		ps = append(ps, p.spec.Render())
	}
	nvm := map[string]int{}
	for i, p := range patterns {
		nvm[p.spec.Render()] = len(pl.vmaps[i])
	}
	r.Set("base_paths", bs)
	r.Set("patterns", ps)
	r.Set("value_atoms", fmt.Sprintf("%q", atoms))
	r.Set("value_maps_per_pattern_sweepP", nvm)
	r.Set("single_values", len(pl.al.single))
	r.Set("value_pairs", len(pl.al.pairs))
	r.Set("caller_query_sets", map[string]int{"sweepP": len(queriesP), "sweepQ": len(pl.qQ), "sweepS": len(pl.sQueries), "sweepX": len(queriesX)})
	r.Set("scheme_lists", len(pl.lists))
	var eb []string
	for _, b := range extraBases {
		eb = append(eb, b.Render())
	}
	r.Set("sweepB_base_paths", eb)
	r.Set("sweepB_extra_pattern", extraPatterns[0].spec.Render())
	r.Set("sweepF_variants", variants)
	r.Set("sweepT_scheme_alphabet", fmt.Sprintf("%q", schemeAlphabetT))
	r.Set("sweepT_scheme_lists", len(pl.listsT))
	r.Set("hosts", pl.hosts)
	r.Set("executions_per_case", fmt.Sprintf("every order of setting the path parameters x %d repeats (map iteration order is sampled, not owned)", pl.al.repeat))
	r.Set("worker_processes", sw.workers)
	r.Assume(
		"the URL is read off the *http.Request returned by Runtime.CreateHttpRequest; nothing is sent",
		"segments of the observed URL are the pieces of URL.EscapedPath() between '/', decoded with url.PathUnescape; the observed query is decoded with url.ParseQuery (standard library trusted)",
		"Go's map iteration order over the path parameters is not owned: each multi-parameter case is executed in every setting order and repeated, and the expectation is order independent (simultaneous substitution)",
		"static text of base paths and patterns contains no '%', no '.'/'..' segments, no empty segments and no fragment",
		"histories: the solo result of a case is its result as the only request ever built in a fresh process; Runtime fields are not reassigned between calls",
	)
	r.Finish("phase H (histories in one process, serial): "+hist.rule+" Phase E (single cases, in single-threaded worker processes that reuse one Runtime per (host, base path, schemes)): sweep P: every base path x every pattern x every listed parameter map x 2 caller query sets; sweep Q: every base path x every pattern x 1-4 injection-minded parameter maps x every other caller query set; sweep S: every ordered pair of scheme lists (sequences of length 0-3 over http, https, ws, wss) x 3 hosts x 2 base paths x 2 patterns x 2 query sets; sweep X: every base path x every pattern x the same few parameter maps x 6 caller query sets x 7x7 scheme lists on a fourth host; sweep B: 12 more base paths (static query values written with '/', ':' and '.' unescaped: http://h/p, a/b/, x/../y, ./z, a//b, ../../y; base path segments that are empty, '.' or '..', trailing slash) x every pattern and one pattern with such a query x the same few parameter maps x 6 caller query sets; sweep T: every ordered pair (transport, operation) of the 400 scheme lists of length 0-3 over http, https, ws, wss, HTTP, the empty string and gopher, one fixed request; sweep F (the exported surface): 9 other entry points/variants (Host and BasePath assigned to the exported fields of a Runtime built with decoys and shared by all cases, NewWithClient, Submit, WithOpenTracing().Submit, WithOpenTelemetry().Submit with the URL read at the transport, parameters set by op.AuthInfo or by Runtime.DefaultAuthentication, getters called and their results mutated, method POST) x every base path (the field variant also the 12 of sweep B) x every pattern x the same few parameter maps x 6 caller query sets, each judged by the same reference and compared with the common path. The sweeps are disjoint by construction and no sweep repeats a case, so cases are distinct; an evaluation is one CreateHttpRequest call on the real client (a case with k>=2 parameters is executed k! x repeat times). Non-trivial = a placeholder of the pattern received a value that needs escaping (or is empty, '.' or '..'), or a query name is set at two or more of the three levels, or a scheme list with several entries is offered; a history is non-trivial when two of its steps set the same query name at different levels or with different values, or use the same pattern with different values", !sw.cut && !hist.cut)
}
