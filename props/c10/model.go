package main

// The case, its rendering, the reference model written from the property text,
// the execution on the real client and the classifier. Nothing in the reference
// looks at how client/request.go builds the URL: the expectation is computed from
// the ABSTRACT case (segment lists, placeholder names, decoded query pairs); the
// concrete base path and pattern strings handed to the client are rendered from it.

import (
	"context"
	"encoding/hex"
	"encoding/json"
	"fmt"
	"io"
	"net/http"
	"net/url"
	"sort"
	"strings"
	"unicode/utf8"

	"github.com/go-openapi/runtime"
	"github.com/go-openapi/runtime/client"
	"github.com/go-openapi/strfmt"
)

// qs is a byte string that survives JSON even when it is not valid UTF-8.
type qs string

func (q qs) MarshalJSON() ([]byte, error) {
	if utf8.ValidString(string(q)) {
		return json.Marshal(string(q))
	}
	return json.Marshal(map[string]string{"hex": hex.EncodeToString([]byte(q))})
}

func (q *qs) UnmarshalJSON(b []byte) error {
	if len(b) > 0 && b[0] == '{' {
		var m map[string]string
		if err := json.Unmarshal(b, &m); err != nil {
			return err
		}
		raw, err := hex.DecodeString(m["hex"])
		if err != nil {
			return err
		}
		*q = qs(raw)
		return nil
	}
	var s string
	if err := json.Unmarshal(b, &s); err != nil {
		return err
	}
	*q = qs(s)
	return nil
}

// KV is a decoded name/value pair (path parameter or static query pair).
type KV struct {
	K qs `json:"k"`
	V qs `json:"v"`
}

// QP is a query parameter set by the caller: SetQueryParam(Name, Vals...).
type QP struct {
	Name qs   `json:"name"`
	Vals []qs `json:"vals"`
}

// PathSpec is the abstract form of a base path or of a path pattern: segments
// (pattern segments may contain {name} placeholders), optional leading and
// trailing slash, static query pairs in written order (decoded values).
type PathSpec struct {
	Lead  bool `json:"lead"`
	Segs  []qs `json:"segs"`
	Trail bool `json:"trail"`
	Query []KV `json:"query,omitempty"`
	// Loose: the static query is written the way people write it by hand, with '/', ':' and
	// '.' left unescaped in the values (legal in a query string): ?cb=http://h/p
	Loose bool `json:"loose,omitempty"`
}

// looseEscape escapes a query value except for the characters users leave as they are.
func looseEscape(v string) string {
	var sb strings.Builder
	for i := 0; i < len(v); i++ {
		switch c := v[i]; c {
		case '/', ':', '.', '@':
			sb.WriteByte(c)
		default:
			sb.WriteString(url.QueryEscape(v[i : i+1]))
		}
	}
	return sb.String()
}

// Render writes the spec the way a user writes a base path / path pattern.
func (p PathSpec) Render() string {
	var sb strings.Builder
	if p.Lead {
		sb.WriteByte('/')
	}
	for i, s := range p.Segs {
		if i > 0 {
			sb.WriteByte('/')
		}
		sb.WriteString(string(s))
	}
	if p.Trail && len(p.Segs) > 0 {
		sb.WriteByte('/')
	}
	for i, kv := range p.Query {
		if i == 0 {
			sb.WriteByte('?')
		} else {
			sb.WriteByte('&')
		}
		sb.WriteString(url.QueryEscape(string(kv.K)))
		sb.WriteByte('=')
		if p.Loose {
			sb.WriteString(looseEscape(string(kv.V)))
		} else {
			sb.WriteString(url.QueryEscape(string(kv.V)))
		}
	}
	return sb.String()
}

// Case is one element of the enumerated space.
type Case struct {
	Host    string   `json:"host"`
	Base    PathSpec `json:"base"`
	Pattern PathSpec `json:"pattern"`
	Names   []string `json:"names"`  // placeholder names that occur in the pattern
	Params  []KV     `json:"params"` // path parameters the caller sets (every order of setting them is executed)
	Query   []QP     `json:"query"`  // query parameters the caller sets
	Rt      []string `json:"rt_schemes"`
	Op      []string `json:"op_schemes"`
	Repeat  int      `json:"repeat"`        // executions per setting order (samples Go's map iteration order); 0 = 1
	Via     string   `json:"via,omitempty"` // entry point / variant, see "the exported surface" below; "" = common path
}

type failure struct{ Class, What string }

// observation is what one CreateHttpRequest call produced.
type observation struct {
	Panic   string
	Err     string
	Scheme  string
	Host    string
	Path    string // decoded
	Escaped string
	RawQ    string
	Extra   string // fragment / opaque / user, "" when none
	Full    string
}

// key identifies what the property calls "the result": two observations with the same
// key are the same URL (the order of query pairs of different names is not part of it).
// observations travel between processes as JSON; every field goes through qs so that
// bytes that are not valid UTF-8 (a decoded path can hold them) survive the trip.
type observationWire struct {
	Panic, Err, Scheme, Host, Path, Escaped, RawQ, Extra, Full qs
}

func (o observation) MarshalJSON() ([]byte, error) {
	return json.Marshal(observationWire{qs(o.Panic), qs(o.Err), qs(o.Scheme), qs(o.Host), qs(o.Path), qs(o.Escaped), qs(o.RawQ), qs(o.Extra), qs(o.Full)})
}

func (o *observation) UnmarshalJSON(b []byte) error {
	var w observationWire
	if err := json.Unmarshal(b, &w); err != nil {
		return err
	}
	*o = observation{string(w.Panic), string(w.Err), string(w.Scheme), string(w.Host), string(w.Path), string(w.Escaped), string(w.RawQ), string(w.Extra), string(w.Full)}
	return nil
}

func (o observation) key() string {
	cq := o.RawQ
	if vals, err := url.ParseQuery(o.RawQ); err == nil {
		names := make([]string, 0, len(vals))
		for k := range vals {
			names = append(names, k)
		}
		sort.Strings(names)
		var sb strings.Builder
		for _, k := range names {
			fmt.Fprintf(&sb, "%q=%q;", k, vals[k])
		}
		cq = sb.String()
	}
	return strings.Join([]string{o.Panic, o.Err, o.Scheme, o.Host, o.Escaped, cq, o.Extra}, "\x00")
}

func (o observation) String() string {
	switch {
	case o.Panic != "":
		return "panic: " + o.Panic
	case o.Err != "":
		return "error: " + o.Err
	}
	return fmt.Sprintf("url=%q (escaped path %q, raw query %q)", o.Full, o.Escaped, o.RawQ)
}

// ---- how a case reaches the client: the exported surface ----
//
// Via (a field of Case) names the entry point / variant; "" is the common path.
//
//	""             client.New(host, basePath, schemes); Runtime.CreateHttpRequest; parameters set by op.Params
//	"field"        client.New(decoy host, decoy base path, schemes), then the EXPORTED fields Host and BasePath are
//	               assigned before the call (every call: a Runtime shared by cases is re-targeted between calls)
//	"withclient"   client.NewWithClient(host, basePath, schemes, &http.Client{...})
//	"submit"       Runtime.Submit; the URL is read off the request the transport receives
//	"opentracing"  Runtime.WithOpenTracing().Submit with a context (the wrapper wraps op.Params)
//	"otel"         Runtime.WithOpenTelemetry().Submit with a context
//	"auth"         parameters set by op.AuthInfo (a ClientAuthInfoWriter) instead of op.Params
//	"default-auth" parameters set by Runtime.DefaultAuthentication
//	"getters"      op.Params also calls GetQueryParams (and mutates the returned copy), GetPath, GetMethod, GetHeaderParams
//	"post"         method POST instead of GET
var variants = []string{"field", "withclient", "submit", "opentracing", "otel", "auth", "default-auth", "getters", "post"}

const decoyHost, decoyBase = "decoy.invalid", "/decoy?dq=1"

// captureRT is the transport double of every Runtime: it records the URL it is asked to fetch.
type captureRT struct{ last *url.URL }

func (t *captureRT) RoundTrip(req *http.Request) (*http.Response, error) {
	u := *req.URL
	t.last = &u
	return &http.Response{StatusCode: 200, Status: "200 OK", Proto: "HTTP/1.1", ProtoMajor: 1, ProtoMinor: 1,
		Header: http.Header{"Content-Type": []string{"application/json"}}, Body: io.NopCloser(strings.NewReader("")), Request: req}, nil
}

type rtHandle struct {
	rt  *client.Runtime
	cap *captureRT
}

// newHandle constructs the Runtime the way the case's variant says.
func newHandle(c *Case) *rtHandle {
	h := &rtHandle{cap: &captureRT{}}
	switch c.Via {
	case "field":
		h.rt = client.New(decoyHost, decoyBase, c.Rt)
	case "withclient":
		h.rt = client.NewWithClient(c.Host, c.Base.Render(), c.Rt, &http.Client{Transport: h.cap})
	default:
		h.rt = client.New(c.Host, c.Base.Render(), c.Rt)
	}
	h.rt.Transport = h.cap
	return h
}

// rtCache keeps one Runtime per (variant, host, base path, transport schemes); a Runtime is
// meant to be shared by all operations of a client. Variant "field" shares one Runtime per
// scheme list and re-targets it before every call.
type rtCache map[string]*rtHandle

func (rc rtCache) get(c *Case) *rtHandle {
	k := c.Via + "\x00" + strings.Join(c.Rt, ",")
	if c.Via != "field" {
		k += "\x00" + c.Host + "\x00" + c.Base.Render()
	}
	if h, ok := rc[k]; ok {
		return h
	}
	if len(rc) > 256 {
		for kk := range rc {
			delete(rc, kk)
		}
	}
	h := newHandle(c)
	rc[k] = h
	return h
}

// execute drives the real client through the case's entry point.
func execute(rc rtCache, c *Case, order []int) (o observation) {
	defer func() {
		if e := recover(); e != nil {
			o = observation{Panic: fmt.Sprint(e)}
		}
	}()
	return executeOn(rc.get(c), c, order)
}

func observe(u *url.URL) observation {
	o := observation{Scheme: u.Scheme, Host: u.Host, Path: u.Path, Escaped: u.EscapedPath(), RawQ: u.RawQuery, Full: u.String()}
	var extra []string
	if u.Fragment != "" || u.RawFragment != "" {
		extra = append(extra, "fragment="+u.Fragment)
	}
	if u.Opaque != "" {
		extra = append(extra, "opaque="+u.Opaque)
	}
	if u.User != nil {
		extra = append(extra, "user="+u.User.String())
	}
	o.Extra = strings.Join(extra, " ")
	return o
}

// executeOn builds the request of the case on the given Runtime.
func executeOn(h *rtHandle, c *Case, order []int) (o observation) {
	defer func() {
		if e := recover(); e != nil {
			o = observation{Panic: fmt.Sprint(e)}
		}
	}()
	rt := h.rt
	setParams := func(req runtime.ClientRequest, _ strfmt.Registry) error {
		for _, i := range order {
			if err := req.SetPathParam(string(c.Params[i].K), string(c.Params[i].V)); err != nil {
				return err
			}
		}
		for _, q := range c.Query {
			vals := make([]string, len(q.Vals))
			for i, v := range q.Vals {
				vals[i] = string(v)
			}
			if err := req.SetQueryParam(string(q.Name), vals...); err != nil {
				return err
			}
		}
		if c.Via == "getters" {
			cp := req.GetQueryParams() // documented as a copy: changing it must not reach the URL
			for k, v := range cp {
				for i := range v {
					v[i] = "mutated"
				}
				cp[k] = append(v, "appended")
			}
			cp["junk"] = []string{"1"}
			_, _, _ = req.GetPath(), req.GetMethod(), req.GetHeaderParams()
		}
		return nil
	}
	noop := func(runtime.ClientRequest, strfmt.Registry) error { return nil }
	op := &runtime.ClientOperation{
		ID:          "c10",
		Method:      "GET",
		PathPattern: c.Pattern.Render(),
		Schemes:     c.Op,
		Params:      runtime.ClientRequestWriterFunc(setParams),
		Reader: runtime.ClientResponseReaderFunc(func(runtime.ClientResponse, runtime.Consumer) (interface{}, error) {
			return nil, nil
		}),
	}
	rt.DefaultAuthentication = nil
	switch c.Via {
	case "field":
		rt.Host, rt.BasePath = c.Host, c.Base.Render()
	case "auth":
		op.Params = runtime.ClientRequestWriterFunc(noop)
		op.AuthInfo = runtime.ClientAuthInfoWriterFunc(setParams)
	case "default-auth":
		op.Params = runtime.ClientRequestWriterFunc(noop)
		rt.DefaultAuthentication = runtime.ClientAuthInfoWriterFunc(setParams)
	case "post":
		op.Method = "POST"
	}
	switch c.Via {
	case "submit", "opentracing", "otel":
		h.cap.last = nil
		var tr runtime.ClientTransport = rt
		if c.Via == "opentracing" {
			op.Context = context.Background()
			tr = rt.WithOpenTracing()
		} else if c.Via == "otel" {
			op.Context = context.Background()
			tr = rt.WithOpenTelemetry()
		}
		if _, err := tr.Submit(op); err != nil {
			return observation{Err: err.Error()}
		}
		if h.cap.last == nil {
			return observation{Err: "Submit returned without asking the transport for anything"}
		}
		return observe(h.cap.last)
	}
	req, err := rt.CreateHttpRequest(op)
	if err != nil {
		return observation{Err: err.Error()}
	}
	return observe(req.URL)
}

// ---- reference model ----

type expSeg struct {
	text string // decoded text the segment must have
	open bool   // contains a placeholder the caller did not set: content not judged
}

// substitute replaces every {name} of a set parameter SIMULTANEOUSLY (single
// left-to-right scan of the pattern text; substituted text is never rescanned).
func substitute(seg string, params []KV, names []string) expSeg {
	var sb strings.Builder
	open := false
	for i := 0; i < len(seg); {
		matched := false
		if seg[i] == '{' {
			for _, p := range params {
				tok := "{" + string(p.K) + "}"
				if strings.HasPrefix(seg[i:], tok) {
					sb.WriteString(string(p.V))
					i += len(tok)
					matched = true
					break
				}
			}
			if !matched {
				for _, n := range names {
					if strings.HasPrefix(seg[i:], "{"+n+"}") {
						open = true
					}
				}
			}
		}
		if !matched {
			sb.WriteByte(seg[i])
			i++
		}
	}
	return expSeg{sb.String(), open}
}

// expectedPaths returns the acceptable segment lists (after the root slash).
// More than one only where the text leaves the shape open: a pattern without any
// segment ("" or "/") may or may not leave a trailing slash.
func expectedPaths(c *Case) [][]expSeg {
	// a base path written with empty, '.' or '..' segments: the text does not say whether
	// they are kept or resolved - both shapes are accepted
	baseAlts := [][]string{nil}
	for _, s := range c.Base.Segs {
		baseAlts[0] = append(baseAlts[0], string(s))
	}
	var cleaned []string
	dotty := false
	for _, s := range baseAlts[0] {
		switch s {
		case "", ".":
			dotty = true
		case "..":
			dotty = true
			if len(cleaned) > 0 {
				cleaned = cleaned[:len(cleaned)-1]
			}
		default:
			cleaned = append(cleaned, s)
		}
	}
	if dotty {
		baseAlts = append(baseAlts, cleaned)
	}
	var out [][]expSeg
	for _, b := range baseAlts {
		var segs []expSeg
		for _, s := range b {
			segs = append(segs, expSeg{text: s})
		}
		for _, s := range c.Pattern.Segs {
			segs = append(segs, substitute(string(s), c.Params, c.Names))
		}
		if len(c.Pattern.Segs) > 0 {
			if c.Pattern.Trail {
				segs = append(segs, expSeg{})
			}
			out = append(out, segs)
			continue
		}
		with := append(append([]expSeg{}, segs...), expSeg{})
		out = append(out, segs, with)
	}
	return out
}

func renderSegs(s []expSeg) string {
	parts := make([]string, len(s))
	for i, e := range s {
		parts[i] = e.text
		if e.open {
			parts[i] += "(unset placeholder: any)"
		}
	}
	return fmt.Sprintf("%q", parts)
}

// observedSegs splits the escaped path at '/', and decodes each segment.
func observedSegs(esc string, allowUnrooted bool) ([]string, string) {
	if esc == "" {
		return nil, ""
	}
	if esc[0] != '/' {
		if !allowUnrooted {
			return nil, "escaped path is not rooted"
		}
		esc = "/" + esc
	}
	parts := strings.Split(esc[1:], "/")
	for i, p := range parts {
		d, err := url.PathUnescape(p)
		if err != nil {
			return nil, "segment " + p + " does not decode: " + err.Error()
		}
		parts[i] = d
	}
	return parts, ""
}

func segsMatch(exp []expSeg, obs []string) bool {
	if len(exp) != len(obs) {
		return false
	}
	for i := range exp {
		if !exp[i].open && exp[i].text != obs[i] {
			return false
		}
	}
	return true
}

func pathHasSlash(vals []KV) bool {
	for _, p := range vals {
		if strings.Contains(string(p.V), "/") {
			return true
		}
	}
	return false
}

// needsEscaping: s holds a byte that may not stand unescaped in a URL path
// (classifier only, not part of the expectation).
func needsEscaping(s string) bool {
	if strings.Contains(s, "%") {
		return true
	}
	return (&url.URL{Path: s, RawPath: s}).EscapedPath() != s
}

// staticNeedsEscaping: what remains of base path and pattern after the set
// placeholders are taken out (static text, unset placeholders) needs escaping.
func staticNeedsEscaping(c *Case) bool {
	for _, s := range c.Base.Segs {
		if needsEscaping(string(s)) {
			return true
		}
	}
	for _, s := range c.Pattern.Segs {
		rest := string(s)
		for _, p := range c.Params {
			rest = strings.ReplaceAll(rest, "{"+string(p.K)+"}", "")
		}
		if needsEscaping(rest) {
			return true
		}
	}
	return false
}

// sequential is what successive (non-simultaneous) replacement in the given
// order would produce; used only to name the symptom "resubstituted".
func sequential(c *Case, order []int) []string {
	var out []string
	for _, s := range c.Base.Segs {
		out = append(out, string(s))
	}
	for _, s := range c.Pattern.Segs {
		t := string(s)
		for _, i := range order {
			t = strings.ReplaceAll(t, "{"+string(c.Params[i].K)+"}", string(c.Params[i].V))
		}
		out = append(out, t)
	}
	if c.Pattern.Trail && len(c.Pattern.Segs) > 0 {
		out = append(out, "")
	}
	return out
}

// leadingEmpty: the expected path starts with "//" - an empty first segment
// (no base path segment, first pattern segment made of empty values only)
// followed by at least one more segment or the trailing slash.
func leadingEmpty(exp []expSeg) bool {
	return len(exp) > 1 && !exp[0].open && exp[0].text == ""
}

func judgePath(c *Case, o observation) *failure {
	alts := expectedPaths(c)
	// a base path assigned to the exported field is used as it is: without a leading slash the
	// path may come out unrooted, which the text does not speak about
	obs, bad := observedSegs(o.Escaped, c.Via == "field" && !c.Base.Lead)
	if bad != "" {
		return &failure{"path-malformed", fmt.Sprintf("%s: %s", o, bad)}
	}
	for _, a := range alts {
		if segsMatch(a, obs) {
			return nil
		}
	}
	// no acceptable shape matches: classify against each of them and report the narrowest verdict
	// (a known-defect class, which carries a predicate after '/', before a generic one)
	var first *failure
	for _, a := range alts {
		f := classifyPath(c, o, obs, a)
		if first == nil {
			first = f
		}
		if strings.Contains(f.Class, "/") {
			return f
		}
	}
	return first
}

func classifyPath(c *Case, o observation, obs []string, exp []expSeg) *failure {
	what := fmt.Sprintf("%s: decoded segments %q, expected %s", o, obs, renderSegs(exp))
	// known-defect predicates first (input predicate AND symptom)
	if leadingEmpty(exp) {
		return &failure{"path-shape/leading-empty-segment", what}
	}
	kind := "segment-content"
	switch {
	case len(obs) == len(exp)+1 && obs[len(obs)-1] == "" && segsMatch(exp, obs[:len(exp)]):
		kind = "trailing-slash-added"
	case len(obs)+1 == len(exp) && exp[len(exp)-1].text == "" && c.Pattern.Trail && segsMatch(exp[:len(obs)], obs):
		kind = "trailing-slash-lost"
	case len(obs) > len(exp):
		kind = "separator-added"
		var texts []string
		for _, e := range exp {
			texts = append(texts, e.text)
		}
		// same decoded path, only the segmentation differs
		sameDecoded := strings.TrimPrefix(o.Path, "/") == strings.Join(texts, "/")
		if staticNeedsEscaping(c) && pathHasSlash(c.Params) && sameDecoded {
			return &failure{"separator-added/static-text-needs-escaping", what}
		}
	case len(obs) < len(exp):
		kind = "segment-lost"
	default:
		// same count, different content: re-substitution or wrong escaping
		if len(c.Params) > 1 {
			for _, ord := range perms(len(c.Params)) {
				if seq := sequential(c, ord); strings.Join(seq, "\x00") == strings.Join(obs, "\x00") {
					kind = "resubstituted"
				}
			}
		}
		if kind == "segment-content" {
			kind = "value-mangled"
		}
	}
	return &failure{kind, what}
}

// expected query: caller over pattern over base path.
func judgeQuery(c *Case, o observation) *failure {
	got, err := url.ParseQuery(o.RawQ)
	if err != nil {
		return &failure{"query-malformed", fmt.Sprintf("%s: %v", o, err)}
	}
	level := func(kvs []KV) map[string][]string {
		m := map[string][]string{}
		for _, kv := range kvs {
			m[string(kv.K)] = append(m[string(kv.K)], string(kv.V))
		}
		return m
	}
	base, pat := level(c.Base.Query), level(c.Pattern.Query)
	caller := map[string][]string{}
	for _, q := range c.Query {
		vals := []string{}
		for _, v := range q.Vals {
			vals = append(vals, string(v))
		}
		caller[string(q.Name)] = vals
	}
	names := map[string]bool{}
	for _, m := range []map[string][]string{base, pat, caller} {
		for k := range m {
			names[k] = true
		}
	}
	sorted := make([]string, 0, len(names))
	for k := range names {
		sorted = append(sorted, k)
	}
	sort.Strings(sorted)
	same := func(a, b []string) bool {
		if len(a) != len(b) {
			return false
		}
		for i := range a {
			if a[i] != b[i] {
				return false
			}
		}
		return true
	}
	for k := range got {
		if !names[k] {
			return &failure{"query-added", fmt.Sprintf("%s: query parameter %q was set at no level", o, k)}
		}
	}
	for _, k := range sorted {
		static, hasStatic := pat[k]
		lower, hasLower := []string(nil), false
		if !hasStatic {
			static, hasStatic = base[k]
		} else if b, ok := base[k]; ok {
			lower, hasLower = b, true
		}
		g, present := got[k]
		if cv, ok := caller[k]; ok {
			if len(cv) == 0 {
				// the caller set the name with no value: the text does not say whether that
				// overrides a static value; absent, or the static value, are both accepted
				if !present || (hasStatic && same(g, static)) {
					continue
				}
				return &failure{"query-values", fmt.Sprintf("%s: %q=%q, caller set it without values (static %q)", o, k, g, static)}
			}
			if same(g, cv) {
				continue
			}
			if !present {
				return &failure{"query-lost", fmt.Sprintf("%s: caller's %q=%q is missing", o, k, cv)}
			}
			if hasStatic {
				return &failure{"query-precedence", fmt.Sprintf("%s: %q=%q, expected the caller's %q (static %q)", o, k, g, cv, static)}
			}
			return &failure{"query-values", fmt.Sprintf("%s: %q=%q, expected the caller's %q", o, k, g, cv)}
		}
		if same(g, static) {
			continue
		}
		if !present {
			return &failure{"query-lost", fmt.Sprintf("%s: static %q=%q is missing", o, k, static)}
		}
		if hasLower {
			return &failure{"query-precedence", fmt.Sprintf("%s: %q=%q, expected the pattern's %q (base path has %q)", o, k, g, static, lower)}
		}
		return &failure{"query-values", fmt.Sprintf("%s: %q=%q, expected the static %q", o, k, g, static)}
	}
	return nil
}

// acceptable schemes. The text: "https is chosen whenever it is among several offered
// schemes". The transport's (Runtime's) list is an offer under every reading in which it
// means anything, so when IT holds several schemes including https, https is forced whatever
// the operation declares (an operation that declares a subset must not downgrade the URL).
// Otherwise, whether the transport's or the operation's list is "the offer" is left open:
// each non-empty list is a candidate and what either allows is accepted (https if that list
// has several entries including https, else any of its members). Nothing offered: not judged.
// Empty-string entries are dropped; when a list holds one, only the forced-https clause is judged.
func acceptableSchemes(c *Case) map[string]bool {
	hasEmpty := false
	eff := func(l []string) []string {
		var out []string
		for _, s := range l {
			if s == "" {
				hasEmpty = true
				continue
			}
			out = append(out, s)
		}
		return out
	}
	forced := func(l []string) bool {
		if len(l) < 2 {
			return false
		}
		for _, s := range l {
			if s == "https" {
				return true
			}
		}
		return false
	}
	rt, op := eff(c.Rt), eff(c.Op)
	acc := map[string]bool{}
	switch {
	case forced(rt) || (len(rt) == 0 && forced(op)):
		acc["https"] = true
		return acc
	case hasEmpty:
		return nil
	}
	for _, s := range rt {
		acc[s] = true
	}
	if forced(op) {
		acc["https"] = true
	} else {
		for _, s := range op {
			acc[s] = true
		}
	}
	return acc
}

func judgeScheme(c *Case, o observation) *failure {
	acc := acceptableSchemes(c)
	if len(acc) == 0 || acc[o.Scheme] {
		return nil
	}
	// URI schemes are case-insensitive and the text does not fix a spelling
	for a := range acc {
		if strings.EqualFold(a, o.Scheme) {
			return nil
		}
	}
	if len(acc) == 1 && acc["https"] {
		return &failure{"scheme/https-not-preferred", fmt.Sprintf("%s: scheme %q, but https is among several offered (transport %q, operation %q)", o, o.Scheme, c.Rt, c.Op)}
	}
	return &failure{"scheme/not-acceptable", fmt.Sprintf("%s: scheme %q is not acceptable for transport %q, operation %q", o, o.Scheme, c.Rt, c.Op)}
}

func judge(c *Case, o observation) []failure {
	if o.Panic != "" {
		return []failure{{"panic", o.String()}}
	}
	if o.Err != "" {
		if exp := expectedPaths(c)[0]; leadingEmpty(exp) {
			return []failure{{"error/leading-empty-segment", fmt.Sprintf("%s; expected a URL whose path has the segments %s", o, renderSegs(exp))}}
		}
		return []failure{{"error", o.String()}}
	}
	var out []failure
	for _, f := range []*failure{judgePath(c, o), judgeQuery(c, o), judgeScheme(c, o)} {
		if f != nil {
			out = append(out, *f)
		}
	}
	if o.Host != c.Host {
		out = append(out, failure{"host", fmt.Sprintf("%s: host %q, expected %q", o, o.Host, c.Host)})
	}
	if o.Extra != "" {
		out = append(out, failure{"url-extra-component", fmt.Sprintf("%s: %s", o, o.Extra)})
	}
	return out
}

func perms(n int) [][]int {
	switch n {
	case 0:
		return [][]int{{}}
	case 1:
		return [][]int{{0}}
	case 2:
		return [][]int{{0, 1}, {1, 0}}
	}
	var out [][]int
	used := make([]bool, n)
	var rec func(cur []int)
	rec = func(cur []int) {
		if len(cur) == n {
			out = append(out, append([]int(nil), cur...))
			return
		}
		for i := 0; i < n; i++ {
			if !used[i] {
				used[i] = true
				rec(append(cur, i))
				used[i] = false
			}
		}
	}
	rec(nil)
	return out
}

// stats of one checked case.
type stats struct {
	execs    int64
	first    observation
	distinct int
}

// check executes the case under every order of setting the path parameters
// (times Repeat) and judges every distinct observation; all observations must
// be identical.
func check(rc rtCache, c *Case) ([]failure, stats) {
	var st stats
	rep := c.Repeat
	if rep < 1 || len(c.Params) < 2 {
		rep = 1
	}
	var seen []observation
	var seenOrder [][]int
	for _, ord := range perms(len(c.Params)) {
		for k := 0; k < rep; k++ {
			o := execute(rc, c, ord)
			st.execs++
			dup := false
			for _, s := range seen {
				if s.key() == o.key() {
					dup = true
					break
				}
			}
			if !dup {
				seen = append(seen, o)
				seenOrder = append(seenOrder, ord)
			}
		}
	}
	st.first = seen[0]
	st.distinct = len(seen)
	var fails []failure
	have := map[string]bool{}
	for _, o := range seen {
		for _, f := range judge(c, o) {
			if !have[f.Class] {
				have[f.Class] = true
				fails = append(fails, f)
			}
		}
	}
	if c.Via != "" && (c.Via != "field" || c.Base.Lead) {
		// the variant must build what the common path builds
		c0 := *c
		c0.Via = ""
		ord := perms(len(c.Params))[0]
		o0 := execute(rc, &c0, ord)
		st.execs++
		if o0.key() != seen[0].key() {
			fails = append(fails, failure{"variant-differs/" + c.Via, fmt.Sprintf("through %q: %s; through client.New + CreateHttpRequest: %s", c.Via, seen[0], o0)})
		}
	}
	if len(seen) > 1 {
		fails = append(fails, failure{"order-dependent", fmt.Sprintf("parameters set in order %v: %s; in order %v: %s", seenOrder[0], seen[0], seenOrder[1], seen[1])})
	}
	return fails, st
}
