package main

// Histories and process sharding.
//
// Phase H: the URL of a request must be a function of (base path, pattern, values,
// caller query, scheme lists, host) only - never of the requests built before it.
// Sequences of CreateHttpRequest calls are executed in ONE process (serially), on one
// shared Runtime or on several Runtimes that share the base path string, and every
// step must give exactly the "solo" result of its case: the result obtained when the
// case is the only request ever built in a fresh process (computed by child processes
// of this same binary). A deviation is minimised (ddmin over the executed history,
// each trial in a fresh child process) into a short history that reproduces from a
// fresh process; that history is the replayable case.
//
// Phase E workers: the per-case sweeps run in single-threaded child processes.

import (
	"bytes"
	"encoding/json"
	"fmt"
	"os"
	"os/exec"
	"runtime"
	"runtime/debug"
	"strings"
	"sync"
	"time"

	"verif/engine/report"
)

// ---- replayable cases of every kind ----

// HStep is one call of a history: the case, and the Runtime instance it is built on
// (steps with the same RT share one client.Runtime created at the first of them).
type HStep struct {
	Case Case `json:"case"`
	RT   int  `json:"rt"`
}

// AnyCase is what a replay file holds. Kind "" (a bare Case): one case on a fresh
// Runtime. Kind "history": a sequence of calls in one process. Kind "worker": the
// shards of one sweep worker (only written when a worker process died).
type AnyCase struct {
	Kind string `json:"kind,omitempty"`
	Case
	Steps  []HStep `json:"steps,omitempty"`
	Tier   string  `json:"tier,omitempty"`
	Worker int     `json:"worker,omitempty"`
	Of     int     `json:"of,omitempty"`
	Seed   int64   `json:"seed,omitempty"`
}

// ---- history alphabet ----

type hpat struct {
	spec  PathSpec
	names []string
}

var histBases = []PathSpec{
	{Lead: true, Segs: q("api"), Query: kv("x", "1", "y", "2")}, // "/api?x=1&y=2"
	{Lead: true, Segs: q("api")},                                // "/api"
}

var histPatterns = []hpat{
	{PathSpec{Lead: true, Segs: q("a", "{p}")}, []string{"p"}},                                                      // "/a/{p}"
	{PathSpec{Lead: true, Segs: q("a", "{p}"), Query: kv("x", "2")}, []string{"p"}},                                 // "/a/{p}?x=2"   same name as the base path's
	{PathSpec{Lead: true, Segs: q("a", "{p}"), Query: kv("z", "3")}, []string{"p"}},                                 // "/a/{p}?z=3"   another name
	{PathSpec{Lead: true, Segs: q("b", "{p}"), Trail: true, Query: kv("x", "4", "x", "5", "y", "")}, []string{"p"}}, // "/b/{p}/?x=4&x=5&y="
	{PathSpec{Lead: true, Segs: q("b")}, nil},                                                                       // "/b"
}

var histQueries = [][]QP{nil, {{Name: "x", Vals: q("9")}}, {{Name: "z", Vals: q("7", "8")}}, {{Name: "y", Vals: q()}}}
var histValues = []string{"v", "a/b"}
var histOpSchemes = [][]string{nil, {"http", "https"}}

const histHost = "h0.test"

// histAlphabet returns the cases, grouped by base path (a sequence on one Runtime
// stays inside a group). reduced: the smaller alphabet used for triples.
func histAlphabet(reduced bool) [][]Case {
	var groups [][]Case
	for _, b := range histBases {
		var g []Case
		for pi, p := range histPatterns {
			if reduced && pi == 4 {
				continue
			}
			for qi, qq := range histQueries {
				if reduced && qi == 3 {
					continue
				}
				for _, v := range histValues {
					for si, op := range histOpSchemes {
						if reduced && si == 1 {
							continue
						}
						c := Case{Host: histHost, Base: b, Pattern: p.spec, Names: p.names, Query: qq, Op: op, Repeat: 1}
						if len(p.names) > 0 {
							c.Params = kv(p.names[0], v)
						} else if v != histValues[0] {
							continue
						}
						g = append(g, c)
					}
				}
			}
		}
		groups = append(groups, g)
	}
	return groups
}

func caseKey(c *Case) string {
	b, _ := json.Marshal(c)
	return string(b)
}

// ---- executing a history ----

// runSteps executes the steps in order in this process. A Runtime is created at the
// first step that names its id, from that step's host, base path and transport schemes.
func runSteps(steps []HStep) []observation {
	rts := map[int]*rtHandle{}
	out := make([]observation, len(steps))
	for i := range steps {
		c := &steps[i].Case
		rt, ok := rts[steps[i].RT]
		if !ok {
			rt = newHandle(c)
			rts[steps[i].RT] = rt
		}
		ord := make([]int, len(c.Params))
		for k := range ord {
			ord[k] = k
		}
		out[i] = executeOn(rt, c, ord)
	}
	return out
}

// ---- child processes ----

func selfExe() string {
	exe, err := os.Executable()
	if err != nil {
		fmt.Fprintln(os.Stderr, "cannot find own executable:", err)
		os.Exit(2)
	}
	return exe
}

// child runs this binary as `--child <mode>` with in as JSON on stdin and decodes its stdout into out.
func child(mode string, in, out any) (stderr string, err error) {
	b, err := json.Marshal(in)
	if err != nil {
		return "", err
	}
	cmd := exec.Command(selfExe(), "--child", mode)
	cmd.Stdin = bytes.NewReader(b)
	var so, se bytes.Buffer
	cmd.Stdout, cmd.Stderr = &so, &se
	cmd.Env = append(os.Environ(), "GOMAXPROCS=2")
	if err := cmd.Run(); err != nil {
		return se.String(), fmt.Errorf("%s child: %v", mode, err)
	}
	if err := json.Unmarshal(so.Bytes(), out); err != nil {
		return se.String(), fmt.Errorf("%s child: bad output: %v", mode, err)
	}
	return se.String(), nil
}

type histIn struct {
	Cases []Case   `json:"cases"`
	Steps [][2]int `json:"steps"` // (case index, runtime id)
}

type sweepIn struct {
	Tier     string `json:"tier"`
	Worker   int    `json:"worker"`
	Of       int    `json:"of"`
	Seed     int64  `json:"seed"`
	Deadline int64  `json:"deadline_unix_ms"`
}

type failOut struct {
	What string `json:"what"`
	Case Case   `json:"case"`
	// SoloOK: the same case, alone in a fresh process, does not fail in this class - the
	// failure comes from what the worker process built before (history dependence)
	SoloOK bool `json:"solo_ok"`
}

// soloSatisfies re-executes the case as the only request of a fresh process and tells
// whether the failure class is absent there.
func soloSatisfies(c *Case, class string) bool {
	if class == "order-dependent" || strings.HasPrefix(class, "variant-differs/") || len(c.Params) >= 2 {
		// a differential over several executions, or a case whose result may hinge on Go's map
		// iteration order over the parameters: one solo execution decides nothing
		return false
	}
	var o observation
	if _, err := child("solo", c, &o); err != nil {
		return false
	}
	for _, f := range judge(c, o) {
		if f.Class == class {
			return false
		}
	}
	return true
}

type classOut struct {
	N     int       `json:"n"`
	First []failOut `json:"first"`
}

type tallyOut struct {
	Evals, Cases, Nontrivial int64
	Outcomes                 map[string]int64
}

type sweepOut struct {
	Total      map[string]*tallyOut `json:"total"`
	ShardsDone int64                `json:"shards_done"`
	Cut        bool                 `json:"cut"`
	Fails      map[string]*classOut `json:"fails"`
	Samples    []any                `json:"samples"`
}

func childMain(args []string) {
	debug.SetGCPercent(200)
	debug.SetMemoryLimit(512 << 20)
	if len(args) < 1 {
		os.Exit(2)
	}
	dec := json.NewDecoder(os.Stdin)
	enc := json.NewEncoder(os.Stdout)
	switch args[0] {
	case "solo": // one case, the only request this process ever builds
		var c Case
		if err := dec.Decode(&c); err != nil {
			fmt.Fprintln(os.Stderr, err)
			os.Exit(2)
		}
		_ = enc.Encode(runSteps([]HStep{{Case: c, RT: 0}})[0])
	case "hist": // a history from a fresh process
		var in histIn
		if err := dec.Decode(&in); err != nil {
			fmt.Fprintln(os.Stderr, err)
			os.Exit(2)
		}
		steps := make([]HStep, len(in.Steps))
		for i, s := range in.Steps {
			steps[i] = HStep{Case: in.Cases[s[0]], RT: s[1]}
		}
		_ = enc.Encode(runSteps(steps))
	case "sweep":
		var in sweepIn
		if err := dec.Decode(&in); err != nil {
			fmt.Fprintln(os.Stderr, err)
			os.Exit(2)
		}
		_ = enc.Encode(sweepWorker(in))
	default:
		os.Exit(2)
	}
}

// sweepWorker runs the shards i with i % Of == Worker (after the seed's rotation), serially.
func sweepWorker(in sweepIn) *sweepOut {
	pl := buildPlan(in.Tier == "thorough")
	out := &sweepOut{Total: map[string]*tallyOut{}, Fails: map[string]*classOut{}}
	for _, n := range []string{"P", "Q", "S", "X", "B", "T", "F"} {
		out.Total[n] = &tallyOut{Outcomes: map[string]int64{}}
	}
	n := len(pl.shards)
	rot := int(((in.Seed % int64(n)) + int64(n)) % int64(n))
	rc := rtCache{}
	count := 0
	for i := in.Worker; i < n; i += in.Of {
		if in.Deadline > 0 && time.Now().UnixMilli() > in.Deadline {
			out.Cut = true
			break
		}
		sh := pl.shards[(i+rot)%n]
		t := out.Total[sh.sweep]
		pl.runShard(sh, func(c *Case) {
			fails, st := check(rc, c)
			t.Evals += st.execs
			t.Cases++
			if nontrivial(c) {
				t.Nontrivial++
			}
			outcomeLabels(c, st.first, fails, t.Outcomes)
			for _, f := range fails {
				co := out.Fails[f.Class]
				if co == nil {
					co = &classOut{}
					out.Fails[f.Class] = co
				}
				co.N++
				if len(co.First) < 3 {
					co.First = append(co.First, failOut{f.What, *c, soloSatisfies(c, f.Class)})
				}
			}
			count++
			if (count+int(in.Seed))%9973 == 3 && len(c.Params) > 0 && len(out.Samples) < 2 {
				out.Samples = append(out.Samples, map[string]any{"case": *c, "base_path": c.Base.Render(), "pattern": c.Pattern.Render(), "url": st.first.Full})
			}
		})
		out.ShardsDone++
	}
	return out
}

// ---- phase E in the parent ----

type sweepResult struct {
	total      map[string]*tally
	shardsDone int64
	cut        bool
	workers    int
}

func runSweeps(r *report.R, pl *plan, deadline time.Time) *sweepResult {
	w := runtime.NumCPU()
	if w < 1 {
		w = 1
	}
	res := &sweepResult{total: map[string]*tally{}, workers: w}
	for _, n := range []string{"P", "Q", "S", "X", "B", "T", "F"} {
		res.total[n] = newTally()
	}
	outs := make([]*sweepOut, w)
	errs := make([]string, w)
	var wg sync.WaitGroup
	for k := 0; k < w; k++ {
		wg.Add(1)
		go func(k int) {
			defer wg.Done()
			var out sweepOut
			stderr, err := child("sweep", sweepIn{Tier: r.Tier, Worker: k, Of: w, Seed: r.Seed, Deadline: deadline.UnixMilli()}, &out)
			if err != nil {
				errs[k] = err.Error() + ": " + tail(stderr, 600)
				return
			}
			outs[k] = &out
		}(k)
	}
	wg.Wait()
	for k := 0; k < w; k++ {
		if outs[k] == nil {
			// a worker that dies (fatal error, os.Exit inside the library, ...) is a failure of its own
			r.Fail("crash/sweep-worker", fmt.Sprintf("worker %d of %d died while building requests one after the other: %s", k, w, errs[k]),
				AnyCase{Kind: "worker", Tier: r.Tier, Worker: k, Of: w, Seed: r.Seed})
			res.cut = true
			continue
		}
		o := outs[k]
		res.shardsDone += o.ShardsDone
		res.cut = res.cut || o.Cut
		for name, t := range o.Total {
			tt := res.total[name]
			tt.evals += t.Evals
			tt.cases += t.Cases
			tt.nontrivial += t.Nontrivial
			for kk, v := range t.Outcomes {
				tt.outcomes[kk] += v
			}
			r.Eval(t.Evals)
			r.Nontrivial(t.Nontrivial)
		}
		for class, co := range o.Fails {
			if allSoloOK(co) {
				// the recorded cases satisfy the reference when built alone in a fresh process: what the
				// worker saw depends on the requests it built before; the replayable case is the worker's run
				for i := 0; i < co.N; i++ {
					r.Fail("history-dependent/"+class, fmt.Sprintf("in sweep worker %d of %d: %s - alone in a fresh process the same case does not fail", k, w, co.First[0].What),
						AnyCase{Kind: "worker", Tier: r.Tier, Worker: k, Of: w, Seed: r.Seed})
				}
				continue
			}
			var rep []failOut
			for _, f := range co.First {
				if !f.SoloOK {
					rep = append(rep, f)
				}
			}
			for i := 0; i < co.N; i++ {
				f := rep[i%len(rep)]
				r.Fail(class, f.What, f.Case)
			}
		}
		for _, s := range o.Samples {
			r.Sample(s)
		}
	}
	return res
}

func allSoloOK(co *classOut) bool {
	for _, f := range co.First {
		if !f.SoloOK {
			return false
		}
	}
	return len(co.First) > 0
}

func tail(s string, n int) string {
	s = strings.TrimSpace(s)
	if len(s) > n {
		s = s[:n] + " ..."
	}
	return strings.ReplaceAll(s, "\n", " | ")
}

// ---- phase H in the parent ----

type histResult struct {
	outcomes map[string]int64
	rule     string
	cut      bool
}

// soloAll computes the solo observation of every case, one fresh process per case.
func soloAll(cases []Case) ([]observation, error) {
	out := make([]observation, len(cases))
	var mu sync.Mutex
	var firstErr error
	sem := make(chan struct{}, runtime.NumCPU())
	var wg sync.WaitGroup
	for i := range cases {
		wg.Add(1)
		sem <- struct{}{}
		go func(i int) {
			defer wg.Done()
			defer func() { <-sem }()
			stderr, err := child("solo", cases[i], &out[i])
			if err != nil {
				mu.Lock()
				if firstErr == nil {
					firstErr = fmt.Errorf("%v: %s", err, tail(stderr, 400))
				}
				mu.Unlock()
			}
		}(i)
	}
	wg.Wait()
	return out, firstErr
}

type gstep struct {
	ci, rt int
	phase  string
}

// historyPlan lists every step of phase H in execution order.
func historyPlan(thorough bool) (cases []Case, steps []gstep, sizes map[string]int) {
	groups := histAlphabet(false)
	index := map[string]int{}
	var gi [][]int
	for _, g := range groups {
		var idx []int
		for i := range g {
			index[caseKey(&g[i])] = len(cases)
			idx = append(idx, len(cases))
			cases = append(cases, g[i])
		}
		gi = append(gi, idx)
	}
	sizes = map[string]int{"base_paths": len(groups), "cases_per_base_path": len(groups[0]), "cases": len(cases)}
	rt := 0
	fresh := func() int { rt++; return rt }
	// (b) order reversal: the whole case list forward, then backward, a fresh Runtime per call
	for i := range cases {
		steps = append(steps, gstep{i, fresh(), "reversal"})
	}
	for i := len(cases) - 1; i >= 0; i-- {
		steps = append(steps, gstep{i, fresh(), "reversal"})
	}
	// (a) all ordered pairs inside a base path group: on ONE Runtime, and on a Runtime per call
	npairs := 0
	for _, idx := range gi {
		for _, a := range idx {
			for _, b := range idx {
				one := fresh()
				steps = append(steps, gstep{a, one, "pair/one-runtime"}, gstep{b, one, "pair/one-runtime"})
				steps = append(steps, gstep{a, fresh(), "pair/runtime-per-call"}, gstep{b, fresh(), "pair/runtime-per-call"})
				npairs++
			}
		}
	}
	sizes["ordered_pairs"] = npairs
	// (c) the exported fields: ONE Runtime built with a decoy host and base path, its Host and BasePath
	// fields assigned before every call; all ordered pairs over both base paths (and two hosts), so the
	// second call re-targets the Runtime the first call used
	var fidx []int
	for g, grp := range histAlphabet(true) {
		for i := range grp {
			c := grp[i]
			c.Via = "field"
			if g == 1 {
				c.Host = "h1.test"
			}
			index[caseKey(&c)] = len(cases)
			fidx = append(fidx, len(cases))
			cases = append(cases, c)
		}
	}
	for _, a := range fidx {
		for _, b := range fidx {
			one := fresh()
			steps = append(steps, gstep{a, one, "pair/one-runtime-fields-reassigned"}, gstep{b, one, "pair/one-runtime-fields-reassigned"})
		}
	}
	sizes["field_cases"] = len(fidx)
	sizes["ordered_pairs_fields_reassigned"] = len(fidx) * len(fidx)
	sizes["cases"] = len(cases)
	if thorough {
		red := histAlphabet(true)
		ntr := 0
		for _, g := range red {
			var idx []int
			for i := range g {
				idx = append(idx, index[caseKey(&g[i])])
			}
			for _, a := range idx {
				for _, b := range idx {
					for _, c := range idx {
						one := fresh()
						steps = append(steps, gstep{a, one, "triple/one-runtime"}, gstep{b, one, "triple/one-runtime"}, gstep{c, one, "triple/one-runtime"})
						steps = append(steps, gstep{a, fresh(), "triple/runtime-per-call"}, gstep{b, fresh(), "triple/runtime-per-call"}, gstep{c, fresh(), "triple/runtime-per-call"})
						ntr++
					}
				}
			}
		}
		sizes["triple_alphabet_per_base_path"] = len(red[0])
		sizes["ordered_triples"] = ntr
	}
	return cases, steps, sizes
}

// deviates runs the given steps in a fresh child process and tells whether the LAST step differs from want.
func deviates(cases []Case, steps []gstep, want observation) (bool, observation, error) {
	in := histIn{Cases: cases}
	for _, s := range steps {
		in.Steps = append(in.Steps, [2]int{s.ci, s.rt})
	}
	var obs []observation
	stderr, err := child("hist", in, &obs)
	if err != nil {
		return false, observation{}, fmt.Errorf("%v: %s", err, tail(stderr, 400))
	}
	last := obs[len(obs)-1]
	return last.key() != want.key(), last, nil
}

// minimise is ddmin over the history before the deviating step: it returns a short list of earlier
// steps after which (from a fresh process) the final step still deviates from its solo result.
// ok=false: the deviation did not reproduce from a fresh process even with the full history.
func minimise(cases []Case, prefix []gstep, final gstep, want observation) (min []gstep, got observation, trials int, ok bool, err error) {
	test := func(sub []gstep) bool {
		if err != nil {
			return false
		}
		trials++
		d, g, e := deviates(cases, append(append([]gstep{}, sub...), final), want)
		if e != nil {
			err = e
			return false
		}
		if d {
			got = g
		}
		return d
	}
	if !test(prefix) {
		return nil, got, trials, false, err
	}
	if test(nil) {
		return nil, got, trials, true, err // the case deviates from its own solo result: not a function of its inputs at all
	}
	items := prefix
	n := 2
	for len(items) >= 2 && err == nil {
		if n > len(items) {
			n = len(items)
		}
		size := (len(items) + n - 1) / n
		var chunks [][2]int
		for lo := 0; lo < len(items); lo += size {
			hi := lo + size
			if hi > len(items) {
				hi = len(items)
			}
			chunks = append(chunks, [2]int{lo, hi})
		}
		reduced := false
		for _, ch := range chunks {
			if test(items[ch[0]:ch[1]]) {
				items = append([]gstep{}, items[ch[0]:ch[1]]...)
				n = 2
				reduced = true
				break
			}
		}
		if !reduced && len(chunks) > 2 {
			for _, ch := range chunks {
				comp := append(append([]gstep{}, items[:ch[0]]...), items[ch[1]:]...)
				if test(comp) {
					items = comp
					if n > 2 {
						n--
					}
					reduced = true
					break
				}
			}
		}
		if !reduced {
			if n >= len(items) {
				break
			}
			n *= 2
		}
	}
	// leave got = the observation of the minimal history
	if err == nil {
		_, got, err = deviates(cases, append(append([]gstep{}, items...), final), want)
		trials++
	}
	return items, got, trials, true, err
}

func toHSteps(cases []Case, steps []gstep) []HStep {
	// renumber the runtimes 0,1,2.. in order of appearance
	ren := map[int]int{}
	out := make([]HStep, len(steps))
	for i, s := range steps {
		id, ok := ren[s.rt]
		if !ok {
			id = len(ren)
			ren[s.rt] = id
		}
		out[i] = HStep{Case: cases[s.ci], RT: id}
	}
	return out
}

func describe(steps []HStep) string {
	var parts []string
	for _, s := range steps {
		parts = append(parts, fmt.Sprintf("[rt%d %s + %s params=%v query=%v op=%q]", s.RT, s.Case.Base.Render(), s.Case.Pattern.Render(), s.Case.Params, s.Case.Query, s.Case.Op))
	}
	return strings.Join(parts, " then ")
}

func runHistories(r *report.R, deadline time.Time) *histResult {
	res := &histResult{outcomes: map[string]int64{}}
	cases, steps, sizes := historyPlan(r.Thorough())
	r.Set("history_alphabet", map[string]any{
		"base_paths": []string{histBases[0].Render(), histBases[1].Render()},
		"patterns": func() (o []string) {
			for _, p := range histPatterns {
				o = append(o, p.spec.Render())
			}
			return
		}(),
		"caller_query_sets": len(histQueries), "values": histValues, "operation_scheme_lists": histOpSchemes, "host": histHost,
	})
	r.Set("history_sizes", sizes)
	res.rule = fmt.Sprintf("(b) the list of all %d history cases (144 = 2 base paths x 5 patterns with/without static query of the same/another name x 4 caller query sets x 2 values x 2 operation scheme lists) built forward and then backward, a fresh Runtime per call; (a) all %d ordered pairs of cases with the same base path, each pair on ONE Runtime and on one Runtime per call", sizes["cases"], sizes["ordered_pairs"])
	if r.Thorough() {
		res.rule += fmt.Sprintf("; all %d ordered triples over a reduced alphabet of %d cases per base path, same two ways", sizes["ordered_triples"], sizes["triple_alphabet_per_base_path"])
	}
	res.rule += fmt.Sprintf("; (c) all %d ordered pairs of %d cases (both base paths, two hosts) on ONE Runtime constructed with a decoy host and base path whose exported Host and BasePath fields are assigned before each call", sizes["ordered_pairs_fields_reassigned"], sizes["field_cases"])
	res.rule += "; every step must equal the solo result of its case (the case as the only request of a fresh process) and the solo results are judged by the reference."

	solo, err := soloAll(cases)
	if err != nil {
		fmt.Fprintln(os.Stderr, "C10: cannot compute solo results:", err)
		os.Exit(2)
	}
	r.Eval(int64(len(cases)))
	// the solo results are ordinary single cases: judge them with the reference
	for i := range cases {
		fails := judge(&cases[i], solo[i])
		outcomeLabels(&cases[i], solo[i], fails, res.outcomes)
		for _, f := range fails {
			r.Fail(f.Class, f.What, cases[i])
		}
	}

	// execute the whole plan serially in THIS process (which has built no request so far);
	// steps that share a Runtime are consecutive
	var cur *rtHandle
	curID := -1
	var evals, seqs, nontriv int64
	ord1 := []int{0}
	for i := 0; i < len(steps); i++ {
		if i%4096 == 0 && time.Now().After(deadline) {
			res.cut = true
			break
		}
		s := steps[i]
		c := &cases[s.ci]
		if s.rt != curID {
			cur, curID = newHandle(c), s.rt
		}
		o := executeOn(cur, c, ord1[:len(c.Params)])
		evals++
		if o.key() == solo[s.ci].key() {
			continue
		}
		// deviation: minimise the history that leads to it, from fresh processes
		res.outcomes["deviation:history-dependent"]++
		min, got, trials, ok, err := minimise(cases, steps[:i], s, solo[s.ci])
		if err != nil {
			fmt.Fprintln(os.Stderr, "C10: minimisation failed:", err)
			os.Exit(2)
		}
		r.Eval(int64(trials))
		if !ok {
			lo := i - 2
			if lo < 0 {
				lo = 0
			}
			hs := toHSteps(cases, steps[lo:i+1])
			r.Fail("history-dependent/not-reproduced-from-a-fresh-process",
				fmt.Sprintf("phase %s, step %d of the run gave %s, alone in a fresh process the case gives %s; the %d earlier steps replayed in a fresh process do not reproduce it (the case holds the last steps only)", s.phase, i, o, solo[s.ci], i), AnyCase{Kind: "history", Steps: hs})
			res.cut = true
			break
		}
		all := append(append([]gstep{}, min...), s)
		hs := toHSteps(cases, all)
		class := "history-dependent/state-kept-in-the-runtime"
		// does it survive when every step gets a Runtime of its own? then the state is process wide
		sep := make([]gstep, 0, len(all))
		for k, m := range all {
			sep = append(sep, gstep{m.ci, 1000000 + k, m.phase})
		}
		if d, _, err := deviates(cases, sep, solo[s.ci]); err == nil && d {
			class = "history-dependent/process-wide-state"
		}
		what := fmt.Sprintf("phase %s, step %d of the run: after %s the request %s gives %s; alone in a fresh process it gives %s (history minimised to %d steps in %d fresh-process trials)",
			s.phase, i, describe(hs[:len(hs)-1]), describe(hs[len(hs)-1:]), got, solo[s.ci], len(hs), trials)
		r.Fail(class, what, AnyCase{Kind: "history", Steps: hs})
		// what follows in this process is contaminated by the same state: stop phase H here
		res.cut = true
		break
	}
	// count sequences and the non-trivial ones (not all steps the same case)
	for i := 0; i < len(steps); {
		j := i + 1
		if steps[i].phase == "reversal" {
			for j < len(steps) && steps[j].phase == "reversal" {
				j++
			}
		} else {
			n := 2
			if strings.HasPrefix(steps[i].phase, "triple") {
				n = 3
			}
			j = i + n
		}
		seqs++
		for k := i + 1; k < j; k++ {
			if steps[k].ci != steps[i].ci {
				nontriv++
				break
			}
		}
		i = j
	}
	r.Eval(evals)
	r.Nontrivial(nontriv)
	r.Set("history_run", map[string]int64{"sequences": seqs, "nontrivial_sequences": nontriv, "calls_in_one_process": evals, "solo_processes": int64(len(cases))})
	res.outcomes["history-step-equals-solo"] += evals
	return res
}

// ---- replay ----

func replay(r *report.R) {
	var ac AnyCase
	r.LoadReplay(&ac)
	switch ac.Kind {
	case "history":
		var cases []Case
		for _, s := range ac.Steps {
			cases = append(cases, s.Case)
		}
		solo, err := soloAll(cases)
		if err != nil {
			fmt.Fprintln(os.Stderr, err)
			os.Exit(2)
		}
		obs := runSteps(ac.Steps)
		bad := false
		for i, o := range obs {
			verdict := "= solo"
			if o.key() != solo[i].key() {
				verdict = "DIFFERS from solo: " + solo[i].String()
				bad = true
			}
			fmt.Printf("  step %d %s\n    observed: %s  %s\n", i, describe(ac.Steps[i:i+1]), o, verdict)
		}
		if bad {
			r.Fail("history-dependent/replayed", "a step of the history differs from the solo result of its case: "+describe(ac.Steps), ac)
		} else {
			fmt.Println("  every step equals its solo result")
		}
		r.Eval(int64(2 * len(obs)))
	case "worker":
		out := sweepWorker(sweepIn{Tier: ac.Tier, Worker: ac.Worker, Of: ac.Of, Seed: ac.Seed})
		for class, co := range out.Fails {
			if allSoloOK(co) {
				class = "history-dependent/" + class
			}
			fmt.Printf("  class=%q cases=%d first: %s\n", class, co.N, co.First[0].What)
			r.Fail(class, co.First[0].What, ac)
		}
		fmt.Printf("  worker %d of %d completed %d shards in this process without dying\n", ac.Worker, ac.Of, out.ShardsDone)
	default:
		c := ac.Case
		fails, st := check(rtCache{}, &c)
		fmt.Printf("replay base=%q pattern=%q params=%v query=%v transport=%q operation=%q host=%q\n  observed: %s\n",
			c.Base.Render(), c.Pattern.Render(), c.Params, c.Query, c.Rt, c.Op, c.Host, st.first)
		if len(fails) == 0 {
			fmt.Println("  satisfies the oracle")
		}
		for _, f := range fails {
			fmt.Printf("  class=%q %s\n", f.Class, f.What)
			r.Fail(f.Class, f.What, c)
		}
		r.Eval(st.execs)
	}
	r.Nontrivial(2)
	r.Sample(ac)
	r.Finish("replay of one case", false)
}
