package main

// Harness: builds the real middleware / API handler for a Config, sends one
// request "as net/http delivers it" and judges the observation against the model.

import (
	"bufio"
	"fmt"
	"html"
	"io"
	"mime"
	"net/http"
	"net/http/httptest"
	"reflect"
	"sort"
	"strconv"
	"strings"

	"github.com/go-openapi/loads"
	"github.com/go-openapi/runtime"
	"github.com/go-openapi/runtime/middleware"
	"github.com/go-openapi/runtime/middleware/untyped"

	"verif/engine/apib"
)

// ---- requests ----

func makeRequest(method, target, body string, api bool) (*http.Request, error) {
	var b strings.Builder
	b.WriteString(method + " " + target + " HTTP/1.1\r\nHost: example.test\r\nX-Probe: p1\r\nAccept: */*\r\n")
	if body != "" {
		ct := "text/plain"
		if api {
			ct = "application/json"
		}
		b.WriteString("Content-Type: " + ct + "\r\nContent-Length: " + strconv.Itoa(len(body)) + "\r\n")
	}
	b.WriteString("\r\n" + body)
	return http.ReadRequest(bufio.NewReaderSize(strings.NewReader(b.String()), 256))
}

type reqSnap struct {
	Method, URL, Path, RawPath, RawQuery, Proto, Host, RequestURI string
	Header                                                        http.Header
	ContentLength                                                 int64
	Body                                                          string
}

func snapshot(r *http.Request, body string) reqSnap {
	return reqSnap{r.Method, r.URL.String(), r.URL.Path, r.URL.RawPath, r.URL.RawQuery, r.Proto, r.Host, r.RequestURI,
		r.Header.Clone(), r.ContentLength, body}
}

// recNext is the instrumented next handler.
type recNext struct {
	calls int
	same  bool // the very request value that entered the middleware
	in    *http.Request
	got   reqSnap
}

const nextStatus = 299

func nextBody(r *http.Request) string { return "next saw " + r.Method + " " + r.RequestURI }

func (n *recNext) ServeHTTP(w http.ResponseWriter, r *http.Request) {
	n.calls++
	n.same = r == n.in
	b, _ := io.ReadAll(r.Body)
	n.got = snapshot(r, string(b))
	// no Content-Type of its own: a header the middleware left on the writer must show up
	w.Header().Set("X-Next", "1")
	w.WriteHeader(nextStatus)
	_, _ = io.WriteString(w, nextBody(r))
}

// ---- API environment (api kinds) ----

var apiOps = []apib.Op{
	{Method: "GET", Path: "/op"},
	{Method: "GET", Path: "/docs"},
	{Method: "GET", Path: "/docs/{id}", Params: []map[string]any{{"name": "id", "in": "path", "type": "string", "required": true}}},
	{Method: "POST", Path: "/ui"},
	{Method: "GET", Path: "/ui/x/{id}", Params: []map[string]any{{"name": "id", "in": "path", "type": "string", "required": true}}},
	{Method: "GET", Path: "/swagger.json"},
	{Method: "GET", Path: "/x/{name}", Params: []map[string]any{{"name": "name", "in": "path", "type": "string", "required": true}}},
	{Method: "GET", Path: "/other/docs"},
}

type env struct {
	spec      apib.Spec
	doc       *loads.Document
	specBytes []byte
	twin      http.Handler
	twinInv   *[]string
	cache     map[string]obs
}

func newEnv(c Config) *env {
	e := &env{cache: map[string]obs{}}
	e.spec = apib.Spec{BasePath: c.APIBase, NoBasePath: c.NoAPIBase, Title: c.APITitle, Ops: apiOps}
	e.specBytes = e.spec.JSON()
	e.doc = apib.MustLoad(e.spec)
	ctx, inv := newContext(e)
	e.twin, e.twinInv = ctx.RoutesHandler(nil), inv
	return e
}

func envKey(c Config) string { return fmt.Sprintf("%v|%s|%s", c.NoAPIBase, c.APIBase, c.APITitle) }

func newContext(e *env) (*middleware.Context, *[]string) {
	inv := new([]string)
	api := untyped.NewAPI(e.doc)
	for _, o := range e.spec.Ops {
		id := apib.OpID(o)
		api.RegisterOperation(o.Method, o.Path, runtime.OperationHandlerFunc(func(interface{}) (interface{}, error) {
			*inv = append(*inv, id)
			return map[string]any{"op": id}, nil
		}))
	}
	return middleware.NewContext(e.doc, api, nil), inv
}

// ---- construction ----

type built struct {
	cfg     Config
	m       model
	h       http.Handler
	next    *recNext
	inv     *[]string
	env     *env
	conErr  string // panic while constructing
	last    obs    // observation of the most recent request
	pageRef string // body served by GET on the first page location (consistency reference)
}

func uiOption(kv KV) middleware.UIOption {
	switch kv.K {
	case "WithUIBasePath":
		return middleware.WithUIBasePath(kv.V)
	case "WithUIPath":
		return middleware.WithUIPath(kv.V)
	case "WithUISpecURL":
		return middleware.WithUISpecURL(kv.V)
	case "WithUITitle":
		return middleware.WithUITitle(kv.V)
	case "WithTemplate":
		return middleware.WithTemplate(kv.V)
	}
	panic("harness: unknown UI option " + kv.K)
}

func build(c Config, e *env) (b *built) {
	b = &built{cfg: c, m: buildModel(c), env: e}
	c = c.decoded() // values carried as base64 (invalid UTF-8) in their real form
	var next http.Handler
	if c.Next && !c.api() {
		b.next = &recNext{}
		next = b.next
	}
	defer func() {
		if x := recover(); x != nil {
			b.h = nil
			b.conErr = fmt.Sprint(x)
		}
	}()
	o := c.Opts
	switch c.Kind {
	case "spec":
		var so []middleware.SpecOption
		for _, kv := range c.SpecOpts {
			switch kv.K {
			case "WithSpecPath":
				so = append(so, middleware.WithSpecPath(kv.V))
			case "WithSpecDocument":
				so = append(so, middleware.WithSpecDocument(kv.V))
			default:
				panic("harness: unknown spec option " + kv.K)
			}
		}
		doc := []byte(c.SpecBytes)
		if c.SpecNil {
			doc = nil
		}
		b.h = middleware.Spec(c.SpecBase, doc, next, so...)
	case "redoc":
		b.h = middleware.Redoc(middleware.RedocOpts{BasePath: o["BasePath"], Path: o["Path"], SpecURL: o["SpecURL"], Title: o["Title"],
			Template: o["Template"], RedocURL: o["RedocURL"]}, next)
	case "rapidoc":
		b.h = middleware.RapiDoc(middleware.RapiDocOpts{BasePath: o["BasePath"], Path: o["Path"], SpecURL: o["SpecURL"], Title: o["Title"],
			Template: o["Template"], RapiDocURL: o["RapiDocURL"]}, next)
	case "swaggerui", "oauth2cb":
		so := middleware.SwaggerUIOpts{BasePath: o["BasePath"], Path: o["Path"], SpecURL: o["SpecURL"], Title: o["Title"],
			Template: o["Template"], OAuthCallbackURL: o["OAuthCallbackURL"], SwaggerURL: o["SwaggerURL"],
			SwaggerPresetURL: o["SwaggerPresetURL"], SwaggerStylesURL: o["SwaggerStylesURL"], Favicon32: o["Favicon32"], Favicon16: o["Favicon16"]}
		if c.Kind == "swaggerui" {
			b.h = middleware.SwaggerUI(so, next)
		} else {
			b.h = middleware.SwaggerUIOAuth2Callback(so, next)
		}
	case "api-redoc", "api-rapidoc", "api-swaggerui":
		if e == nil {
			e = newEnv(c)
			b.env = e
		}
		b.m.SpecBytes = e.specBytes
		ctx, inv := newContext(e)
		b.inv = inv
		uo := make([]middleware.UIOption, len(c.UIOpts))
		for i, kv := range c.UIOpts {
			uo[i] = uiOption(kv)
		}
		switch c.Kind {
		case "api-redoc":
			b.h = ctx.APIHandler(nil, uo...)
		case "api-rapidoc":
			b.h = ctx.APIHandlerRapiDoc(nil, uo...)
		default:
			b.h = ctx.APIHandlerSwaggerUI(nil, uo...)
		}
	default:
		panic("harness: unknown kind " + c.Kind)
	}
	return b
}

// nonCanonicalEscape: the encoded path escapes a byte that could have been sent raw.
func nonCanonicalEscape(encPath string) bool {
	for i := 0; i+2 < len(encPath); i++ {
		if encPath[i] != '%' {
			continue
		}
		h, l := unhex(encPath[i+1]), unhex(encPath[i+2])
		if h < 0 || l < 0 {
			continue
		}
		c := byte(h<<4 | l)
		if c >= 'a' && c <= 'z' || c >= 'A' && c <= 'Z' || c >= '0' && c <= '9' || strings.IndexByte("/._~-", c) >= 0 {
			return true
		}
	}
	return false
}

// ---- observation ----

type obs struct {
	Status  int
	Header  http.Header
	Body    string
	Panic   string
	Invoked []string
}

func serve(h http.Handler, r *http.Request, inv *[]string) (o obs) {
	if inv != nil {
		*inv = (*inv)[:0]
	}
	rec := httptest.NewRecorder()
	func() {
		defer func() {
			if x := recover(); x != nil {
				o.Panic = fmt.Sprint(x)
			}
		}()
		h.ServeHTTP(rec, r)
	}()
	o.Status, o.Header, o.Body = rec.Code, rec.Header(), rec.Body.String()
	if inv != nil {
		o.Invoked = append([]string(nil), (*inv)...)
	}
	return o
}

func normHeader(h http.Header) http.Header {
	out := http.Header{}
	for k, v := range h {
		vv := append([]string(nil), v...)
		if k == "Allow" {
			for i, s := range vv {
				parts := strings.Split(s, ",")
				for j := range parts {
					parts[j] = strings.TrimSpace(parts[j])
				}
				sort.Strings(parts)
				vv[i] = strings.Join(parts, ",")
			}
		}
		out[k] = vv
	}
	return out
}

func sameObs(a, b obs) bool {
	if a.Status != b.Status || a.Body != b.Body || a.Panic != b.Panic || len(a.Header) != len(b.Header) || len(a.Invoked) != len(b.Invoked) {
		return false
	}
	return reflect.DeepEqual(normHeader(a.Header), normHeader(b.Header)) && reflect.DeepEqual(a.Invoked, b.Invoked)
}

func mediaType(h http.Header) string {
	mt, _, err := mime.ParseMediaType(h.Get("Content-Type"))
	if err != nil {
		return "(" + h.Get("Content-Type") + ")"
	}
	return mt
}

func short(s string) string {
	if len(s) > 160 {
		s = s[:160] + "..."
	}
	return strings.NewReplacer("\n", "\\n", "\r", "\\r", "\t", " ").Replace(s)
}

// jsUnescape undoes the escapes a JavaScript string literal may carry (\/ and \uXXXX, \xXX).
func jsUnescape(s string) string {
	if !strings.Contains(s, `\`) {
		return s
	}
	var b strings.Builder
	for i := 0; i < len(s); i++ {
		if s[i] == '\\' && i+1 < len(s) {
			switch {
			case s[i+1] == '/':
				b.WriteByte('/')
				i++
				continue
			case s[i+1] == 'u' && i+5 < len(s):
				if v, err := strconv.ParseUint(s[i+2:i+6], 16, 32); err == nil {
					b.WriteRune(rune(v))
					i += 5
					continue
				}
			case s[i+1] == 'x' && i+3 < len(s):
				if v, err := strconv.ParseUint(s[i+2:i+4], 16, 32); err == nil {
					b.WriteRune(rune(v))
					i += 3
					continue
				}
			}
		}
		b.WriteByte(s[i])
	}
	return b.String()
}

// validate: is o a correct answer with the document of location l? ("" = yes)
func (b *built) validate(l loc, method string, o obs) (string, string) {
	m := b.m
	if l.What == "spec" {
		if o.Status != http.StatusOK {
			return "spec-status", fmt.Sprintf("spec location %s answered with status %d", l.Path, o.Status)
		}
		if mt := mediaType(o.Header); mt != "application/json" {
			return "spec-content-type", fmt.Sprintf("spec served with Content-Type %q", o.Header.Get("Content-Type"))
		}
		if o.Body != string(m.SpecBytes) && !(method == "HEAD" && o.Body == "") {
			return "spec-bytes", fmt.Sprintf("spec body differs from the document: got %q want %q", short(o.Body), short(string(m.SpecBytes)))
		}
		return "", ""
	}
	if o.Status != http.StatusOK {
		return "page-status", fmt.Sprintf("page location %s answered with status %d", l.Path, o.Status)
	}
	if mt := mediaType(o.Header); mt != "text/html" {
		return "page-content-type", fmt.Sprintf("page served with Content-Type %q", o.Header.Get("Content-Type"))
	}
	if method == "HEAD" && o.Body == "" {
		return "", ""
	}
	for _, f := range m.Forbidden {
		if strings.Contains(o.Body, f) {
			i := strings.Index(o.Body, f)
			lo := i - 40
			if lo < 0 {
				lo = 0
			}
			return "unescaped-option/" + b.cfg.Kind, fmt.Sprintf("page contains the option text %q unescaped: ...%s", f, short(o.Body[lo:]))
		}
	}
	dec := html.UnescapeString(jsUnescape(o.Body))
	if m.CheckTitle && !strings.Contains(dec, m.Title) {
		return "page-missing-title", fmt.Sprintf("page does not show the title %q: %s", m.Title, short(o.Body))
	}
	if m.CheckSpecURL && !strings.Contains(dec, m.SpecURL) {
		return "page-missing-spec-url", fmt.Sprintf("page does not reference the spec URL %q", m.SpecURL)
	}
	if m.CustomToken != "" && !strings.Contains(o.Body, m.CustomToken) {
		return "template-ignored", "custom template given but the page is not rendered from it"
	}
	if m.CustomToken == "" && !m.BadTemplate && strings.Contains(o.Body, customToken) {
		return "template-ignored", "no custom template given but the page carries its token"
	}
	return "", ""
}

// result of judging one request
type verdict struct {
	Class, What string
	Outcome     string // coverage label
	Answered    bool   // a document was served
}

func (b *built) run(method, target, body string) verdict {
	c := b.cfg
	if b.h == nil {
		if b.m.BadTemplate {
			return verdict{Outcome: "construction-panic-bad-template"}
		}
		return verdict{Class: "construction-panic", What: "constructing the middleware panicked: " + b.conErr, Outcome: "construction-panic"}
	}
	req, err := makeRequest(method, target, body, c.api())
	if err != nil {
		panic(fmt.Sprintf("harness: request target %q does not parse: %v", target, err))
	}
	dec, ok := pctDecode(targetPath(target))
	if !ok || dec != req.URL.Path {
		panic(fmt.Sprintf("harness: model path %q differs from delivered path %q (target %q)", dec, req.URL.Path, target))
	}
	p := cleaned(dec)
	locs, must := b.m.at(p)
	// MUST-serve is claimed for GET on a canonically encoded target only: other methods, and targets that
	// escape a character which may appear raw (%64, %2F: "cleaned path" of the decoded or of the escaped
	// path?) are left open by the text - there both serving correctly and handing on are accepted
	must = must && method == "GET" && !nonCanonicalEscape(targetPath(target))
	before := snapshot(req, body)

	if c.api() {
		return b.judgeAPI(req, method, target, body, p, locs, must)
	}

	if b.next != nil {
		*b.next = recNext{in: req}
	}
	o := serve(b.h, req, nil)
	b.last = o
	if o.Panic != "" {
		return verdict{Class: "panic", What: "serving panicked: " + o.Panic, Outcome: "panic"}
	}
	if b.next != nil && b.next.calls > 1 {
		return verdict{Class: "next-called-twice", What: fmt.Sprintf("next handler called %d times", b.next.calls), Outcome: "next-twice"}
	}
	if b.next != nil && b.next.calls == 1 {
		if must {
			return verdict{Class: "not-served", What: fmt.Sprintf("GET %s (cleaned %s) is the document location but was handed to the next handler", target, p), Outcome: "passed"}
		}
		if !reflect.DeepEqual(before, b.next.got) {
			return verdict{Class: "request-modified", What: fmt.Sprintf("next handler received %+v, middleware received %+v", b.next.got, before), Outcome: "passed"}
		}
		if o.Status != nextStatus || o.Body != nextBody(req) || !reflect.DeepEqual(o.Header, http.Header{"X-Next": {"1"}}) {
			return verdict{Class: "response-altered", What: fmt.Sprintf("response of the next handler reached the client as %d %v %q", o.Status, o.Header, short(o.Body)), Outcome: "passed"}
		}
		out := "passed-to-next"
		if len(locs) > 0 {
			out = "passed-to-next(at-may-location)"
		}
		return verdict{Outcome: out}
	}
	// not handed on
	if len(locs) == 0 {
		if b.next != nil {
			return verdict{Class: "intercepted-foreign-path", What: fmt.Sprintf("%s %s (cleaned %s) is not the document location %v but was answered %d %q without calling next", method, target, p, b.m.Locs, o.Status, short(o.Body)), Outcome: "intercepted"}
		}
		if o.Status != http.StatusNotFound {
			cl := "no-next-not-404"
			if o.Status == http.StatusOK {
				cl = "intercepted-foreign-path"
			}
			return verdict{Class: cl, What: fmt.Sprintf("%s %s (cleaned %s) is not the document location %v and there is no next handler: got %d %q, want 404", method, target, p, b.m.Locs, o.Status, short(o.Body)), Outcome: "intercepted"}
		}
		return verdict{Outcome: "404-no-next"}
	}
	var cl, what string
	for _, l := range locs {
		if cl, what = b.validate(l, method, o); cl == "" {
			return verdict{Outcome: l.What + "-served", Answered: true}
		}
	}
	if b.next == nil && o.Status == http.StatusNotFound {
		if must {
			return verdict{Class: "not-served", What: fmt.Sprintf("GET %s (cleaned %s) is the document location but got 404", target, p), Outcome: "404-no-next"}
		}
		return verdict{Outcome: "404-no-next(at-may-location)"}
	}
	return verdict{Class: cl, What: what, Outcome: "bad-answer", Answered: true}
}

func (b *built) judgeAPI(req *http.Request, method, target, body, p string, locs []loc, must bool) verdict {
	e := b.env
	key := method + " " + target + " " + body
	tw, ok := e.cache[key]
	if !ok {
		r2, _ := makeRequest(method, target, body, true)
		tw = serve(e.twin, r2, e.twinInv)
		e.cache[key] = tw
	}
	o := serve(b.h, req, b.inv)
	b.last = o
	if o.Panic != "" && tw.Panic == "" {
		return verdict{Class: "panic", What: "serving panicked: " + o.Panic, Outcome: "panic"}
	}
	passed := sameObs(o, tw)
	if len(locs) == 0 {
		if !passed {
			if !reflect.DeepEqual(o.Invoked, tw.Invoked) {
				return verdict{Class: "operation-unreachable", What: fmt.Sprintf("%s %s: routes alone run operations %v, the API handler runs %v (%d %q)", method, target, tw.Invoked, o.Invoked, o.Status, short(o.Body)), Outcome: "intercepted"}
			}
			cl := "passthrough-differs"
			if o.Status == http.StatusOK && (mediaType(o.Header) == "text/html" || o.Body == string(b.m.SpecBytes)) {
				cl = "intercepted-foreign-path"
			}
			return verdict{Class: cl, What: fmt.Sprintf("%s %s (cleaned %s) is no document location %v: routes alone answer %d %v %q, the API handler %d %v %q", method, target, p, b.m.Locs, tw.Status, tw.Header, short(tw.Body), o.Status, o.Header, short(o.Body)), Outcome: "intercepted"}
		}
		out := "routes:" + strconv.Itoa(o.Status)
		if len(o.Invoked) > 0 {
			out = "routes:operation-run"
		}
		return verdict{Outcome: out}
	}
	var cl, what string
	if len(o.Invoked) == 0 {
		for _, l := range locs {
			if cl, what = b.validate(l, method, o); cl == "" {
				return verdict{Outcome: l.What + "-served", Answered: true}
			}
		}
	} else {
		cl, what = "operation-run-at-document-location", fmt.Sprintf("operations %v run", o.Invoked)
	}
	if passed {
		if must {
			cl = "not-served"
			for _, l := range locs {
				if l.What == "spec" && l.Must && b.m.SpecMustRef {
					cl = "spec-not-at-referenced-location"
				}
			}
			return verdict{Class: cl, What: fmt.Sprintf("GET %s (cleaned %s) is a document location %v (spec URL option %q) but the request went to the routes: %d %q", target, p, locs, b.m.SpecURL, o.Status, short(o.Body)), Outcome: "passed"}
		}
		return verdict{Outcome: "routes(at-may-location)"}
	}
	return verdict{Class: cl, What: what, Outcome: "bad-answer", Answered: true}
}

// checkSeq decides a construction-sequence case: the handler built from c.Cfg has to answer the
// request exactly as a handler built alone does (and correctly), no matter which other middlewares
// were constructed in the same process before it (c.Before) or after it (c.Then). Differential:
// no expected value beyond the plain oracle is needed.
func checkSeq(c Case) (string, string) {
	envs := map[string]*env{}
	bld := func(cfg Config) *built {
		var e *env
		if cfg.api() {
			k := envKey(cfg)
			if e = envs[k]; e == nil {
				e = newEnv(cfg)
				envs[k] = e
			}
		}
		return build(cfg, e)
	}
	solo := bld(c.Cfg)
	if v := solo.run(c.Method, c.Target, c.Body); v.Class != "" {
		return v.Class, v.What
	}
	ref := solo.last
	for _, x := range c.Before {
		bld(x)
	}
	b := bld(c.Cfg)
	v0 := b.run(c.Method, c.Target, c.Body)
	if v0.Class != "" || !sameObs(b.last, ref) {
		return "construction-order-dependent", fmt.Sprintf("built after %d other middlewares the handler answers %d %q (%s %s); built alone it answers %d %q",
			len(c.Before), b.last.Status, short(b.last.Body), v0.Class, short(v0.What), ref.Status, short(ref.Body))
	}
	for _, x := range c.Then {
		bld(x)
	}
	v1 := b.run(c.Method, c.Target, c.Body)
	if v1.Class != "" || !sameObs(b.last, ref) {
		return "answer-changed-by-later-construction", fmt.Sprintf("after %d more middlewares were constructed the handler answers %d %q (%s %s); before, and built alone, it answered %d %q",
			len(c.Then), b.last.Status, short(b.last.Body), v1.Class, short(v1.What), ref.Status, short(ref.Body))
	}
	return "", ""
}

// check decides one case from scratch (used by replay and to confirm every failure).
func check(c Case) (string, string) {
	if len(c.Before)+len(c.Then) > 0 {
		return checkSeq(c)
	}
	b := build(c.Cfg, nil)
	v := b.run(c.Method, c.Target, c.Body)
	return v.Class, v.What
}
