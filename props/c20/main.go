// C20 - spec and documentation-UI middlewares intercept only their own path;
// the UI page and the spec route agree. Bounded exhaustive enumeration (E1):
// every configuration of the stated option alphabets x every request derived
// from the configuration's document locations x methods, executed on the real
// middlewares / API handlers and judged against the model in model.go.
package main

import (
	"fmt"
	"sort"
	"strings"
	"sync"

	"verif/engine/enum"
	"verif/engine/report"
)

// ---- templates ----

func customTemplate(kind string) string {
	extra := ""
	switch kind {
	case "redoc":
		extra = `<script src="{{ .RedocURL }}"></script>`
	case "rapidoc":
		extra = `<script src="{{ .RapiDocURL }}"></script>`
	case "swaggerui", "oauth2cb":
		extra = `<script src="{{ .SwaggerURL }}"></script><script src='{{ .SwaggerPresetURL }}'></script>` +
			`<link href="{{ .SwaggerStylesURL }}"><link href="{{ .Favicon32 }}"><link href="{{ .Favicon16 }}">` +
			`<script>var cb = '{{ .OAuthCallbackURL }}';</script>`
	}
	return `<!DOCTYPE html><html><head><title>{{ .Title }}</title></head>
<body data-base="{{ .BasePath }}" data-path='{{ .Path }}'>
<p id="` + customToken + `">{{ .Title }}</p>
<a href="{{ .SpecURL }}">spec</a> <span data-spec="{{ .SpecURL }}"></span>
<script>var cfg = { url: "{{ .SpecURL }}", title: '{{ .Title }}' };</script>
` + extra + `
</body></html>
`
}

var badTemplates = []string{`<html>{{ .Title </html>`, `<html>{{ .NoSuchField }}</html>`}

// ---- request targets ----

const hexdigits = "0123456789ABCDEF"

// enc percent-encodes everything but unreserved characters and '/'.
func enc(p string) string {
	var b strings.Builder
	for i := 0; i < len(p); i++ {
		c := p[i]
		switch {
		case c >= 'a' && c <= 'z', c >= 'A' && c <= 'Z', c >= '0' && c <= '9', c == '/', c == '.', c == '_', c == '~', c == '-':
			b.WriteByte(c)
		default:
			b.WriteByte('%')
			b.WriteByte(hexdigits[c>>4])
			b.WriteByte(hexdigits[c&15])
		}
	}
	return b.String()
}

type tgt struct {
	T    string
	Near bool // derived from a document location (exact, respelling, prefix, extension, sibling)
}

// targets derives the request targets of one configuration.
func targets(c Config, m model, thorough bool) []tgt {
	seen := map[string]bool{}
	var out []tgt
	add := func(t string, near bool) {
		if !seen[t] {
			seen[t] = true
			out = append(out, tgt{t, near})
		}
	}
	full := 0
	for _, l := range m.Locs {
		n := l.Path
		e := enc(n)
		add(e, true)              // exact
		add(e+"/", true)          // trailing slash
		add(e+"/x", true)         // one-segment extension
		add(e+"x", true)          // longer last segment
		if !l.Must && full >= 2 { // MAY locations beyond the first two: the three spellings above
			continue
		}
		full++
		last := n[strings.LastIndex(n, "/")+1:]
		add("/."+e, true)             // leading dot segment
		add("/zz/.."+e, true)         // x/../ prefix
		add(e+"/.", true)             // trailing dot segment
		add(e+"/..", true)            // parent
		add(e+"/../"+enc(last), true) // leaves and comes back
		add("/"+e, true)              // doubled leading slash
		add(strings.Replace(e, "/", "//", 2), true)
		add(e+"%2F", true)                 // encoded trailing slash
		add(e+"%2f", true)                 // the same with lower-case hex
		add(e+"?q=1", true)                // query
		add("http://example.test"+e, true) // absolute form
		add(e+".html", true)
		if thorough {
			add(e+"%2Fx", true) // encoded slash + segment
			add(e+"/?x=/other", true)
			add(e+"/index.html", true)
			add(e+"%00", true)
			add(e+"%20", true)
			add(e+";v=1", true)
		}
		add(enc(parent(n))+"/zzz", true) // sibling
		if len(n) > 1 {
			add(enc(n[:len(n)-1]), true) // last character missing
			if last != "" {
				// first character of the last segment percent-encoded
				add(enc(n[:len(n)-len(last)])+fmt.Sprintf("%%%02X", last[0])+enc(last[1:]), true)
				add(enc(n[:len(n)-len(last)])+fmt.Sprintf("%%%02x", last[0])+enc(last[1:]), true)
			}
			if up := strings.ToUpper(n); up != n {
				add(enc(up), true)
			}
		}
		// every proper prefix (segment-wise)
		for q := parent(n); ; q = parent(q) {
			add(enc(q), true)
			if q != "/" {
				add(enc(q)+"/", true)
			}
			if q == "/" {
				break
			}
		}
	}
	fixed := []string{"/", "/swagger.json", "/docs", "/docs/oauth2-callback", "/favicon.ico", "/base", "/base/docs", "*", "http://example.test", "/other"}
	if c.api() {
		base := ""
		if !c.NoAPIBase {
			base = norm(c.APIBase)
			if base == "/" {
				base = ""
			}
		}
		for _, b := range []string{base, ""} {
			for _, s := range []string{"/op", "/docs", "/docs/7", "/ui", "/ui/x/7", "/swagger.json", "/x/spec.json", "/x/other", "/other/docs", "/nope"} {
				fixed = append(fixed, enc(b+s))
			}
		}
	}
	for _, f := range fixed {
		add(f, false)
	}
	return out
}

// ---- configurations ----

type axes struct {
	bases, paths, specURLs, titles                   []string // direct UI kinds
	cbBases, cbPaths, cbSpecURLs, cbTitles, cbs      []string // OAuth2 callback
	apiBases, uiBases, uiPaths, apiSpecURLs, methods []string
}

const unset = "\x00unset"

func theAxes(thorough bool) axes {
	a := axes{
		bases:      []string{"", "/", "/base", "base", "/base/"},
		paths:      []string{"", "ui", "/ui/x", "docs/"},
		specURLs:   []string{"", "https://h/x/y/openapi.json", "/x/" + mk("Sq") + ".json"},
		titles:     []string{"", mk("Tq")},
		cbBases:    []string{"", "/base", "base"},
		cbPaths:    []string{"", "/ui/x"},
		cbSpecURLs: []string{"", "/x/" + mk("Sq") + ".json"},
		cbTitles:   []string{"", mk("Tq")},
		cbs:        []string{"", "/cb", "/cb/", "https://h/cb", "/c/" + mk("Cq")},
		apiBases:   []string{unset, "/", "/base", "base"},
		uiBases:    []string{unset, "other"},
		uiPaths:    []string{unset, "/ui/x"},
		apiSpecURLs: []string{unset, "/x/spec.json", "https://h/x/y/openapi.json?v=1", "spec.json", "x/spec.json",
			"/x/y/", "/base/op", "/docs", "/x/" + mk("Sq") + ".json",
			// paths that need percent-escapes: space; non-ASCII and an escaped reserved character ('+') in an absolute URL
			"/x/my%20spec.json", "https://h/x/caf%C3%A9%2Bv1.json"},
		methods: []string{"GET", "HEAD", "POST"},
	}
	if thorough {
		a.bases = append(a.bases, "/a/b", "/a/../base", "/"+mk("Bq"))
		a.paths = append(a.paths, "/", "docs.html", mk("Pq"))
		a.specURLs = []string{"", "/x/spec.json", "https://h/x/y/openapi.json", "/x/" + mk("Sq") + ".json"}
		a.titles = []string{"", "My API", mk("Tq")}
		a.cbBases = []string{"", "/", "/base", "base", "/" + mk("Bq")}
		a.cbPaths = []string{"", "ui", "/ui/x", "docs/"}
		a.cbs = append(a.cbs, "cb", "/a//cb", "/c%62")
		a.apiBases = []string{unset, "", "/", "/base", "base", "/base/"}
		a.uiBases = []string{unset, "/other", "other"}
		a.uiPaths = []string{unset, "/ui/x", "/"}
		a.apiSpecURLs = append(a.apiSpecURLs, "https://h/x/y/openapi.json", "//h/x/spec.json", "/x/spec.json?v=1", "/swagger.json", "http://h:8080/openapi.json?v=1#frag", "//h/x/%E6%97%A5%E6%9C%AC%20v1.json",
			"/x//y/../spec.json", "/op", "/base/docs", "https://h", "", "/x/a%2Fb.json", "../spec.json")
		a.methods = []string{"GET", "HEAD", "POST", "OPTIONS"}
	}
	return a
}

func kindURLFields(kind string) []string {
	switch kind {
	case "redoc":
		return []string{"RedocURL"}
	case "rapidoc":
		return []string{"RapiDocURL"}
	case "swaggerui":
		return []string{"SwaggerURL", "SwaggerPresetURL", "SwaggerStylesURL", "Favicon32", "Favicon16", "OAuthCallbackURL"}
	case "oauth2cb":
		return []string{"SwaggerURL", "SwaggerPresetURL", "SwaggerStylesURL", "Favicon32", "Favicon16"}
	}
	return nil
}

var urlTags = []string{"Uq", "Vq", "Wq", "Xq", "Yq", "Zq"}

// directUIConfigs: full product of the axes for one direct UI kind.
func directUIConfigs(kind string, a axes) []Config {
	var out []Config
	cbs := []string{""}
	if kind == "oauth2cb" {
		cbs = a.cbs
		a.bases, a.paths, a.specURLs, a.titles = a.cbBases, a.cbPaths, a.cbSpecURLs, a.cbTitles
	}
	templates := []string{"", customTemplate(kind)}
	for _, base := range a.bases {
		for _, pth := range a.paths {
			for _, su := range a.specURLs {
				for _, title := range a.titles {
					for _, urls := range []bool{false, true} {
						for _, cb := range cbs {
							for _, tpl := range templates {
								for _, next := range []bool{true, false} {
									o := map[string]string{}
									set := func(k, v string) {
										if v != "" {
											o[k] = v
										}
									}
									set("BasePath", base)
									set("Path", pth)
									set("SpecURL", su)
									set("Title", title)
									set("Template", tpl)
									if urls {
										for i, f := range kindURLFields(kind) {
											o[f] = "https://cdn.test/" + mk(urlTags[i]) + ".js"
										}
									}
									set("OAuthCallbackURL", cb)
									out = append(out, Config{Kind: kind, Next: next, Opts: o})
								}
							}
						}
					}
				}
			}
		}
	}
	// templates that do not parse / execute (construction is documented to panic): one-at-a-time
	for _, tpl := range badTemplates {
		for _, next := range []bool{true, false} {
			out = append(out, Config{Kind: kind, Next: next, Opts: map[string]string{"Template": tpl}})
		}
	}
	return out
}

func specConfigs(a axes, thorough bool) []Config {
	var out []Config
	specPaths := []string{unset, "", "x", "/x/y/"}
	docs := []string{unset, "openapi.json", "", "d/e.json"}
	bytesAlpha := []string{`{"swagger":"2.0","info":{"title":"<b>&\"'","version":"1"},"paths":{}}` + "\n", "not json at all \u00e9\x00<html>"}
	if thorough {
		specPaths = append(specPaths, "../up", mk("Pq"))
		docs = append(docs, "spec", "swagger.json/", mk("Aq")+".json")
		bytesAlpha = append(bytesAlpha, "")
	}
	for _, base := range a.bases {
		for _, sp := range specPaths {
			for _, doc := range docs {
				for _, order := range []int{0, 1} {
					if order == 1 && (sp == unset || doc == unset) {
						continue
					}
					for _, bs := range bytesAlpha {
						for _, next := range []bool{true, false} {
							var so []KV
							if sp != unset {
								so = append(so, KV{"WithSpecPath", sp})
							}
							if doc != unset {
								so = append(so, KV{"WithSpecDocument", doc})
							}
							if order == 1 {
								// document first, and an empty document name after a real one (must be ignored or not: MAY)
								so = []KV{{"WithSpecDocument", doc}, {"WithSpecPath", sp}}
							}
							out = append(out, Config{Kind: "spec", Next: next, SpecBase: base, SpecOpts: so, SpecBytes: bs})
						}
					}
				}
			}
		}
	}
	return out
}

func apiConfigs(kind string, a axes) [][]Config {
	var groups [][]Config
	apiTitles := []string{"", mk("Aq")}
	commonTpl := customTemplate("")
	for _, ab := range a.apiBases {
		for _, at := range apiTitles {
			for _, ub := range a.uiBases {
				var g []Config
				for _, up := range a.uiPaths {
					for _, su := range a.apiSpecURLs {
						for _, title := range []string{unset, mk("Tq")} {
							for _, tpl := range []string{unset, commonTpl} {
								c := Config{Kind: kind, APITitle: at}
								if ab == unset {
									c.NoAPIBase = true
								} else {
									c.APIBase = ab
								}
								if ub != unset {
									c.UIOpts = append(c.UIOpts, KV{"WithUIBasePath", ub})
								}
								if up != unset {
									c.UIOpts = append(c.UIOpts, KV{"WithUIPath", up})
								}
								if su != unset {
									c.UIOpts = append(c.UIOpts, KV{"WithUISpecURL", su})
								}
								if title != unset {
									c.UIOpts = append(c.UIOpts, KV{"WithUITitle", title})
								}
								if tpl != unset {
									c.UIOpts = append(c.UIOpts, KV{"WithTemplate", tpl})
								}
								g = append(g, c)
							}
						}
					}
				}
				if ub == unset {
					// one-at-a-time extras on the baseline group: bad templates, explicit empty title
					base := Config{Kind: kind, APITitle: at}
					if ab == unset {
						base.NoAPIBase = true
					} else {
						base.APIBase = ab
					}
					for _, tpl := range badTemplates {
						c := base
						c.UIOpts = []KV{{"WithTemplate", tpl}}
						g = append(g, c)
					}
					c := base
					c.UIOpts = []KV{{"WithUITitle", ""}}
					g = append(g, c)
					c = base
					c.UIOpts = []KV{{"WithUISpecURL", "/first.json"}, {"WithUISpecURL", "/second/spec.json"}, {"WithUIPath", "a"}, {"WithUIPath", "b"}}
					g = append(g, c)
				}
				groups = append(groups, g)
			}
		}
	}
	return groups
}

// ---- edge values ----
//
// Legal but rare VALUES, judged by the same oracle as everything else. They are crossed one at a
// time (one option / the document carries the edge value, the rest is the baseline) with
// next handler present/absent and default/custom template, and with every derived request.

// edgeDocs: content of the served spec document - must come back byte for byte.
func edgeDocs() []string {
	long := strings.Repeat(`{"k":"100% %s {{.}} <b> 日本😀"},`+"\n", 6000) // ~ 200 KiB
	return []string{
		`{"description":"100% or nothing, %s %d %v %x %2F a%20b %","version":"1.0%"}`, // printf verbs, '%' before a closing quote
		"%", "%%", "%!s(MISSING)", "%[1]s %*d %#v %+q",
		`{"x":"{{.}} {{ .Title }} {{/* c */}} {{define \"a\"}}b{{end}}"}`, // template actions
		"<!DOCTYPE html><html><script>alert(1)</script>&amp;&lt;</html>",  // HTML
		"a\x00b\x7fc\rd\ne\tf\x1b[0m",                                     // NUL, DEL, CR, LF, TAB, ESC
		"\xff\xfe\x80 bad utf8 \xc3( \xed\xa0\x80 %s \xf0\x9f",            // invalid UTF-8 (alone and next to '%')
		"\ufeff{\"bom\":\"\u2028\u2029 日本語 é 😀 \U0010FFFF\"}",             // BOM, line separators, beyond the BMP
		long,
		"", " ", "\n", "\r\n",
		`\ \" ' \\n \u0000 $1 ${x} #{y} \0`, // backslashes, quotes, other interpolation syntaxes
		"+&=;,*:#?/..{}[]|^~`",
	}
}

// edgeTexts: free-text option values (titles).
func edgeTexts() []string {
	return []string{
		"100% done %s %d %v %%", "%", "{{.}} {{ .Title }} {{/* x */}}", `a"b'c\d\\`, "日本語 é 😀 \U0010FFFF", " ",
		"a\tb\r\nc", "a\x00b\x7fc", "\ufeffBOM\u2028LS\u2029PS", strings.Repeat("long title %s 日本 ", 600),
		mk("Tq") + " 100% {{.}} 日本😀 \x00 \\", "a\xffb\xc3(" + mk("Tq"), "+&=;,*:#?/..{}", "</title><script>alert(1)</script>", "A Title", "a title",
	}
}

// edgeSegs: values for path-like options (BasePath, Path, WithSpecPath, document name, WithUIBasePath, WithUIPath).
func edgeSegs() []string {
	return []string{
		"my docs", " ", "100%", "%", "%%", "a%20b", "a%2fb", "a%2Fb", "%zz", "日本/ü", "😀", "Docs", "DOCS", "a;b=c,d", "a*b:c", "a#b?c", `a\b`,
		"{id}", "{{.}}", "a.b-c[0]", "...", ".hidden", "a\tb", "a\nb\rc", "a\x00b", "a\x7fb", "\ufeffx\u2028", strings.Repeat("s", 3000),
		"a+b&c=d", mk("Pq") + "%s日本", "a\xffb", "docs.json.bak", "swagger", "swagger.jsonx",
	}
}

// edgeURLs: values for URL options (SpecURL, asset URLs, WithUISpecURL, OAuthCallbackURL).
func edgeURLs() []string {
	return []string{
		"https://[::1]:8080/s.json", "http://127.0.0.1/x/s.json", "HTTPS://H.EXAMPLE/X/Spec.JSON", "/x/100%25.json", "/x/100%.json", "/x/a%2fb.json",
		"/x/A%2Fb.JSON", "/x/%E6%97%A5%e6%9c%ac.json", "/x/a b.json", "/x/日本.json", "/x/😀.json", "/x/a+b&c=d;e,f.json", "/x/{{.}}.json", "/x/%s.json",
		"javascript:alert(1)", "/x/" + strings.Repeat("l", 2000) + ".json", "/x/a\tb\nc.json", "/x/a\x00b.json", "/x/a\xffb.json", " ", "/x/s.json?a=%20&b=%zz#%",
		"/x/\ufeff\u2028.json", "/x/" + mk("Sq") + "%41日本.json", "/X/SPEC.JSON", "/x/spec.JSON",
	}
}

func edgeDirectConfigs() []Config {
	var out []Config
	nexts := []bool{true, false}
	// Spec: document content x {root, /base + other document name} x next; path-like options one at a time
	for _, d := range edgeDocs() {
		for _, next := range nexts {
			out = append(out,
				Config{Kind: "spec", Next: next, SpecBytes: lit(d)},
				Config{Kind: "spec", Next: next, SpecBase: "/base", SpecOpts: []KV{{"WithSpecPath", "x"}, {"WithSpecDocument", "openapi.json"}}, SpecBytes: lit(d)})
		}
	}
	for _, next := range nexts {
		out = append(out, Config{Kind: "spec", Next: next, SpecNil: true})
	}
	doc := `{"swagger":"2.0","info":{"title":"100% %s","version":"1"},"paths":{}}`
	for _, sg := range edgeSegs() {
		for _, next := range nexts {
			out = append(out,
				Config{Kind: "spec", Next: next, SpecBase: lit("/" + sg), SpecBytes: doc},
				Config{Kind: "spec", Next: next, SpecOpts: []KV{{"WithSpecPath", lit(sg)}}, SpecBytes: doc},
				Config{Kind: "spec", Next: next, SpecBase: "/base", SpecOpts: []KV{{"WithSpecDocument", lit(sg)}}, SpecBytes: doc})
		}
	}
	// UI kinds
	for _, kind := range []string{"redoc", "rapidoc", "swaggerui", "oauth2cb"} {
		for _, tpl := range []string{"", customTemplate(kind)} {
			for _, next := range nexts {
				one := func(field, v string) {
					o := map[string]string{field: lit(v)}
					if tpl != "" {
						o["Template"] = tpl
					}
					out = append(out, Config{Kind: kind, Next: next, Opts: o})
				}
				for _, t := range edgeTexts() {
					one("Title", t)
				}
				for _, sg := range edgeSegs() {
					one("BasePath", "/"+sg)
					one("Path", sg)
				}
				for _, u := range edgeURLs() {
					one("SpecURL", u)
					if kind == "oauth2cb" {
						one("OAuthCallbackURL", u)
					}
					o := map[string]string{}
					for _, f := range kindURLFields(kind) {
						o[f] = lit(u)
					}
					if tpl != "" {
						o["Template"] = tpl
					}
					out = append(out, Config{Kind: kind, Next: next, Opts: o})
				}
			}
		}
	}
	return out
}

// edgeAPIGroups: the same value classes through the three API-handler flavours. The description's
// title ends up inside the served document (doc.Raw) and on the page; the base path in the routes.
func edgeAPIGroups() [][]Config {
	var groups [][]Config
	kinds := []string{"api-redoc", "api-rapidoc", "api-swaggerui"}
	tpls := []string{unset, customTemplate("")}
	variants := func(base Config) []Config {
		var g []Config
		for _, k := range kinds {
			for _, tpl := range tpls {
				for _, su := range []string{unset, "/x/spec.json"} {
					c := base
					c.Kind = k
					c.UIOpts = append([]KV(nil), base.UIOpts...)
					if su != unset {
						c.UIOpts = append(c.UIOpts, KV{"WithUISpecURL", su})
					}
					if tpl != unset {
						c.UIOpts = append(c.UIOpts, KV{"WithTemplate", tpl})
					}
					g = append(g, c)
				}
			}
		}
		return g
	}
	for _, t := range edgeTexts() {
		if lit(t) != t || strings.Contains(t, "\x00") {
			continue // a JSON document cannot carry invalid UTF-8; apib would alter it (outside the domain)
		}
		groups = append(groups, variants(Config{NoAPIBase: true, APITitle: t}))
	}
	for _, sg := range []string{"my docs", "100%", "a%20b", "日本", "Docs", "a;b=c", "{id}"} {
		groups = append(groups, variants(Config{APIBase: "/" + sg}))
	}
	// options, one at a time, on the default description
	var g []Config
	for _, k := range kinds {
		for _, tpl := range tpls {
			one := func(opt, v string) {
				c := Config{Kind: k, NoAPIBase: true, UIOpts: []KV{{opt, lit(v)}}}
				if tpl != unset {
					c.UIOpts = append(c.UIOpts, KV{"WithTemplate", tpl})
				}
				g = append(g, c)
			}
			for _, t := range edgeTexts() {
				one("WithUITitle", t)
			}
			for _, sg := range edgeSegs() {
				one("WithUIBasePath", "/"+sg)
				one("WithUIPath", sg)
			}
			for _, u := range edgeURLs() {
				one("WithUISpecURL", u)
			}
		}
	}
	groups = append(groups, g)
	return groups
}

// ---- construction sequences ----

// seqAlphabet is the stated list of configurations that are constructed together in one process:
// every flavour, with outputs that differ in length and content (defaults / custom template with
// markers / other base, title and spec URL), two Spec middlewares with different documents, and
// the three API-handler flavours with and without options.
func seqAlphabet() []Config {
	var s []Config
	for _, k := range []string{"redoc", "rapidoc", "swaggerui", "oauth2cb"} {
		s = append(s,
			Config{Kind: k, Next: true, Opts: map[string]string{}},
			Config{Kind: k, Next: true, Opts: map[string]string{"Title": mk("Tq"), "SpecURL": "/x/spec.json", "Template": customTemplate(k)}},
			Config{Kind: k, Next: true, Opts: map[string]string{"BasePath": "/base", "Title": "Other API", "SpecURL": "https://h/x/y/openapi.json"}})
	}
	s = append(s,
		Config{Kind: "spec", Next: true, SpecBytes: `{"swagger":"2.0","info":{"title":"one","version":"1"},"paths":{}}`},
		Config{Kind: "spec", Next: true, SpecBase: "/base", SpecOpts: []KV{{"WithSpecDocument", "openapi.json"}}, SpecBytes: `{"swagger":"2.0","info":{"title":"another, longer document","version":"2"},"paths":{}}` + "\n"})
	for _, k := range []string{"api-redoc", "api-rapidoc", "api-swaggerui"} {
		s = append(s,
			Config{Kind: k, NoAPIBase: true},
			Config{Kind: k, NoAPIBase: true, UIOpts: []KV{{"WithUISpecURL", "/x/spec.json"}, {"WithUITitle", "Second title"}, {"WithUIPath", "ui"}}})
	}
	return s
}

func docTarget(c Config) string { return enc(buildModel(c).Locs[0].Path) }

func sequences(r *report.R) map[string]any {
	s := seqAlphabet()
	var cases []Case
	mkCase := func(i int, before, then []Config) Case {
		return Case{Cfg: s[i], Before: before, Then: then, Method: "GET", Target: docTarget(s[i])}
	}
	pairs, triples := 0, 0
	for i := range s {
		for j := range s {
			if i == j {
				continue
			}
			cases = append(cases, mkCase(i, nil, []Config{s[j]}))
			pairs++
			if r.Thorough() {
				for k := range s {
					if k != i && k != j {
						cases = append(cases, mkCase(i, nil, []Config{s[j], s[k]}))
						triples++
					}
				}
			}
		}
	}
	rev := func(x []Config) []Config {
		o := make([]Config, len(x))
		for i := range x {
			o[len(x)-1-i] = x[i]
		}
		return o
	}
	for i := range s {
		cases = append(cases, mkCase(i, s[:i], s[i+1:]))           // forward list
		cases = append(cases, mkCase(i, rev(s[i+1:]), rev(s[:i]))) // backward list
	}
	// pairs and lists run on one goroutine (back-to-back constructions, as at process start-up);
	// the thorough triples are spread over the cores
	run := func(c Case) {
		cl, what := checkSeq(c)
		r.Eval(3)
		r.Nontrivial(3)
		if cl != "" {
			r.Fail(cl, what, c)
			r.Outcome("sequence:"+cl, 1)
		} else {
			r.Outcome("sequence:same-answer-as-alone", 1)
		}
	}
	var serial, par []Case
	for _, c := range cases {
		if len(c.Then) == 2 && len(c.Before) == 0 {
			par = append(par, c)
		} else {
			serial = append(serial, c)
		}
	}
	for _, c := range serial {
		run(c)
	}
	enum.Parallel(len(par), r.OutOfTime, func(i int) { run(par[i]) })
	return map[string]any{"alphabet_size": len(s), "ordered_pairs": pairs, "ordered_triples": triples, "forward_backward_list_cases": 2 * len(s),
		"oracle": "answer of the handler built from A (GET on its document location) right after its construction and again after the later constructions equals the answer of A built alone"}
}

// ---- driver ----

type tally struct {
	evals, nontrivial int64
	outcomes          map[string]int64
}

func main() {
	r := report.Start("C20", "exploration")
	if r.Replay != "" {
		var c Case
		r.LoadReplay(&c)
		m := buildModel(c.Cfg)
		cl, what := check(c)
		fmt.Printf("replay kind=%s method=%s target=%q\n  document locations (model): %+v\n  class=%q %s\n", c.Cfg.Kind, c.Method, c.Target, m.Locs, cl, what)
		if cl != "" {
			r.Fail(cl, what, c)
		}
		r.Eval(1)
		r.Nontrivial(2)
		r.Sample(c)
		r.Finish("replay of one case", false)
	}

	a := theAxes(r.Thorough())
	var mu sync.Mutex
	perKind := map[string]int{}
	confirmed := map[string]int{}
	var nTargets, nConfigs int64

	// runConfig executes every derived request of one configuration.
	runConfig := func(c Config, e *env, t *tally, si int) {
		b := build(c, e)
		tg := targets(c, b.m, r.Thorough())
		var answeredGET int
		for _, g := range tg {
			for _, method := range a.methods {
				body := ""
				if method == "POST" {
					body = "payload"
					if c.api() {
						body = "{}"
					}
				}
				v := b.run(method, g.T, body)
				t.evals++
				if c.api() {
					t.evals++ // the routes-only twin is the second execution (cached per distinct request)
				}
				if g.Near || v.Answered {
					t.nontrivial++
				}
				t.outcomes[c.Kind+":"+v.Outcome]++
				if v.Answered && method == "GET" {
					answeredGET++
				}
				if v.Class != "" {
					cs := Case{Cfg: c, Method: method, Target: g.T, Body: body}
					cl, what := v.Class, v.What
					mu.Lock()
					confirmed[cl]++
					confirm := confirmed[cl] <= 8
					mu.Unlock()
					if confirm {
						// the first failures of every class are re-decided from scratch, exactly as --replay does
						if cl, what = check(cs); cl == "" {
							cl, what = "not-reproducible-in-isolation", "failed inside the sweep ("+v.Class+": "+v.What+") but not when run alone"
						}
					}
					r.Fail(cl, what, cs)
				}
			}
			if b.h == nil {
				break // nothing to send requests to; one verdict per configuration
			}
		}
		if r.WantSample() && ((si+int(r.Seed%211))%211+211)%211 == 0 && len(tg) > 0 {
			g := tg[(si/211)%len(tg)]
			r.Sample(map[string]any{"cfg": c, "method": "GET", "target": g.T, "locations": b.m.Locs})
		}
		mu.Lock()
		nTargets += int64(len(tg))
		nConfigs++
		perKind[c.Kind]++
		mu.Unlock()
	}
	flush := func(t *tally) {
		r.Eval(t.evals)
		r.Nontrivial(t.nontrivial)
		for k, v := range t.outcomes {
			r.Outcome(k, v)
		}
	}

	// construction sequences (state that survives a construction): before the parallel sweep
	seqStats := sequences(r)

	// direct kinds
	var direct []Config
	direct = append(direct, specConfigs(a, r.Thorough())...)
	for _, k := range []string{"redoc", "rapidoc", "swaggerui", "oauth2cb"} {
		direct = append(direct, directUIConfigs(k, a)...)
	}
	edgeDirect := edgeDirectConfigs()
	direct = append(direct, edgeDirect...)
	const chunk = 64
	nChunks := (len(direct) + chunk - 1) / chunk
	enum.Parallel(nChunks, r.OutOfTime, func(ci int) {
		t := &tally{outcomes: map[string]int64{}}
		for i := ci * chunk; i < (ci+1)*chunk && i < len(direct); i++ {
			runConfig(direct[i], nil, t, i)
		}
		flush(t)
	})

	// API-handler flavours: one group = one API description (shared by its configurations and the twin)
	var groups [][]Config
	for _, k := range []string{"api-redoc", "api-rapidoc", "api-swaggerui"} {
		groups = append(groups, apiConfigs(k, a)...)
	}
	edgeAPI := edgeAPIGroups()
	nEdgeAPI := 0
	for _, g := range edgeAPI {
		nEdgeAPI += len(g)
	}
	groups = append(groups, edgeAPI...)
	enum.Parallel(len(groups), r.OutOfTime, func(gi int) {
		t := &tally{outcomes: map[string]int64{}}
		g := groups[gi]
		e := newEnv(g[0])
		for i, c := range g {
			if envKey(c) != envKey(g[0]) {
				panic("harness: group mixes API descriptions")
			}
			runConfig(c, e, t, gi*1000+i)
		}
		flush(t)
	})

	kinds := make([]string, 0, len(perKind))
	for k := range perKind {
		kinds = append(kinds, k)
	}
	sort.Strings(kinds)
	r.Set("edge_values", map[string]any{
		"document_contents": len(edgeDocs()), "free_text_values": len(edgeTexts()), "path_option_values": len(edgeSegs()), "url_option_values": len(edgeURLs()),
		"direct_configurations": len(edgeDirect), "api_configurations": nEdgeAPI,
		"classes":  "printf verbs and '%' runs, template actions, HTML, NUL/DEL/CR/LF/TAB/ESC, invalid UTF-8, BOM/U+2028/U+2029, runes beyond the BMP, ~200 KiB document / 3000-byte segment / 2000-byte URL, empty / single space / nil document, backslashes and quotes, reserved URL characters, upper/lower hex escapes, malformed escapes, IP-literal hosts, upper-case scheme and names differing in case, names that are prefixes of each other",
		"crossing": "one option (or the document) carries the edge value, the rest is the baseline; x next present/absent x default/custom template x every derived request x methods"})
	r.Set("construction_sequences", seqStats)
	r.Set("configurations_per_kind", perKind)
	r.Set("configurations", nConfigs)
	r.Set("request_targets_total", nTargets)
	r.Set("methods", a.methods)
	r.Set("axes", map[string]any{
		"base_path": a.bases, "ui_path": a.paths, "spec_url_direct": a.specURLs, "title": a.titles, "oauth_callback_url": a.cbs,
		"api_base_path(unset=no member)": a.apiBases, "WithUIBasePath": a.uiBases, "WithUIPath": a.uiPaths, "WithUISpecURL": a.apiSpecURLs,
		"asset_urls": []string{"default", "all marker"}, "template": []string{"default", "custom", "2 broken (one-at-a-time)"}, "next": []string{"recording", "nil"},
	})
	r.Assume("model.go is the reading of the property text: MUST locations only for absolute configurations of plain segments; relative / dot-segment / document-less / non-RFC spec URLs and non-GET methods are MAY",
		"requests are produced by http.ReadRequest from a request line, so only origin-form, absolute-form and '*' targets occur",
		"api kinds: 'handed to the next handler unmodified' is decided differentially against Context.RoutesHandler on a twin API of the same description")
	r.Finish("full product of the stated option axes for Spec, Redoc, RapiDoc, SwaggerUI, SwaggerUIOAuth2Callback (with and without next handler) and for APIHandler / APIHandlerRapiDoc / APIHandlerSwaggerUI, x every request target derived from each configuration's document locations (exact, trailing slash, dot segments, doubled and encoded slashes, query, absolute form, every prefix, extensions, sibling, case, NUL/space suffix) plus fixed and operation paths, x methods; one evaluation = one request through the real handler (api kinds: plus the routes-only twin); non-trivial = the target is derived from a document location or a document was served (distinct by construction: configurations, targets and methods are enumerated without repetition). Plus construction sequences in one process over the stated 20-configuration alphabet (all ordered pairs A,B: build A, GET A's document, build B, GET A's document again; thorough also all ordered triples; the whole list built forward and backward with every member requested after the last construction): every answer must equal the answer of the same configuration built alone. Plus edge values one-at-a-time (see edge_values): document contents that must be served byte for byte and option values with characters that are syntax of the surrounding formats", true)
}
