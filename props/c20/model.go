package main

// Reference model for C20, written from the property text (properties.jsonl) and
// the documented defaults of the options, never from the implementation:
//
//   - every middleware owns a set of *document locations* (absolute, cleaned
//     paths). A location is MUST (a GET whose cleaned path equals it has to be
//     answered with the document) when the configuration spells an absolute path
//     out of plain segments; it is MAY when the text leaves the location open
//     (base path without leading slash, dot segments in the options, callback URL
//     that is not a clean absolute path, relative spec URL, spec URL that names no
//     document, non-GET methods);
//   - every request whose cleaned path is not a location MUST reach the next
//     handler unmodified (404 when there is none);
//   - an answered request carries the spec bytes verbatim as JSON, or the HTML
//     page in which no option value appears with an HTML metacharacter unescaped.

import (
	"encoding/base64"
	"regexp"
	"strings"
	"unicode/utf8"
)

// KV is one functional option application (name of the option constructor, argument).
type KV struct {
	K string `json:"k"`
	V string `json:"v"`
}

// Config is one configuration of one middleware / API-handler flavour.
type Config struct {
	Kind string `json:"kind"` // spec | redoc | rapidoc | swaggerui | oauth2cb | api-redoc | api-rapidoc | api-swaggerui
	Next bool   `json:"next"` // direct kinds: a next handler is installed

	// direct UI kinds: fields of the option struct that are set (absent = zero value)
	Opts map[string]string `json:"opts,omitempty"`

	// spec kind
	SpecBase  string `json:"spec_base,omitempty"`  // basePath argument of Spec
	SpecOpts  []KV   `json:"spec_opts,omitempty"`  // WithSpecPath / WithSpecDocument, in order
	SpecBytes string `json:"spec_bytes,omitempty"` // the document handed to Spec
	SpecNil   bool   `json:"spec_nil,omitempty"`   // hand Spec a nil slice instead of an empty one

	// api kinds
	APIBase   string `json:"api_base,omitempty"` // basePath member of the description
	NoAPIBase bool   `json:"no_api_base,omitempty"`
	APITitle  string `json:"api_title,omitempty"` // info.title ("" = "generated")
	UIOpts    []KV   `json:"ui_opts,omitempty"`   // WithUIBasePath / WithUIPath / WithUISpecURL / WithUITitle / WithTemplate, in order
}

// Case is one request against one configuration.
type Case struct {
	Cfg Config `json:"cfg"`
	// construction sequences in one process: Before are constructed before Cfg, Then after Cfg and
	// before the request is (re)sent to the handler built from Cfg. Both empty = plain case.
	Before []Config `json:"before,omitempty"`
	Then   []Config `json:"then,omitempty"`

	Method string `json:"method"`
	Target string `json:"target"` // request target exactly as on the request line
	Body   string `json:"body,omitempty"`
}

// Values that are not valid UTF-8 cannot travel through the JSON of a replay file: they are carried
// as "\x00b64:" + base64 and decoded by the harness and the model alike (lit / unlit).
const b64Prefix = "\x00b64:"

func lit(s string) string {
	if utf8.ValidString(s) && !strings.HasPrefix(s, b64Prefix) {
		return s
	}
	return b64Prefix + base64.StdEncoding.EncodeToString([]byte(s))
}

func unlit(s string) string {
	if !strings.HasPrefix(s, b64Prefix) {
		return s
	}
	b, err := base64.StdEncoding.DecodeString(s[len(b64Prefix):])
	if err != nil {
		panic("harness: bad b64 value in configuration")
	}
	return string(b)
}

// decoded returns the configuration with every carried value in its real form.
func (c Config) decoded() Config {
	d := c
	if c.Opts != nil {
		d.Opts = make(map[string]string, len(c.Opts))
		for k, v := range c.Opts {
			d.Opts[k] = unlit(v)
		}
	}
	un := func(kvs []KV) []KV {
		if kvs == nil {
			return nil
		}
		out := make([]KV, len(kvs))
		for i, kv := range kvs {
			out[i] = KV{kv.K, unlit(kv.V)}
		}
		return out
	}
	d.SpecBase, d.SpecBytes, d.SpecOpts, d.UIOpts = unlit(c.SpecBase), unlit(c.SpecBytes), un(c.SpecOpts), un(c.UIOpts)
	return d
}

func (c Config) api() bool { return strings.HasPrefix(c.Kind, "api-") }

// pageKind is the UI whose page the configuration serves ("" for the spec kind).
func (c Config) pageKind() string {
	if c.Kind == "spec" {
		return ""
	}
	return strings.TrimPrefix(c.Kind, "api-")
}

// ---- documented defaults ----

const (
	defBasePath = "/"
	defUIPath   = "docs"
	defSpecURL  = "/swagger.json"
	defDocument = "swagger.json"
	defTitle    = "API Documentation"
	defCallback = "oauth2-callback"
)

// ---- paths ----

// norm resolves a slash-separated path to its absolute cleaned form: empty and
// "." segments vanish, ".." removes the segment before it (never above the root).
func norm(p string) string {
	var out []string
	for _, s := range strings.Split(p, "/") {
		switch s {
		case "", ".":
		case "..":
			if len(out) > 0 {
				out = out[:len(out)-1]
			}
		default:
			out = append(out, s)
		}
	}
	return "/" + strings.Join(out, "/")
}

// cleaned is the cleaned form of a request path as net/http delivers it. Paths
// that are not absolute ("" of an absolute-URI without path, "*") are never
// equal to a document location; "" is reported as "." like every path cleaner does.
func cleaned(p string) string {
	if p == "" {
		return "."
	}
	if p[0] != '/' {
		return p
	}
	return norm(p)
}

func hasDotSegment(p string) bool {
	for _, s := range strings.Split(p, "/") {
		if s == "." || s == ".." {
			return true
		}
	}
	return false
}

func parent(p string) string {
	i := strings.LastIndex(p, "/")
	if i <= 0 {
		return "/"
	}
	return p[:i]
}

// pctDecode decodes %XX; ok=false on a malformed escape.
func pctDecode(s string) (string, bool) {
	if !strings.Contains(s, "%") {
		return s, true
	}
	var b strings.Builder
	for i := 0; i < len(s); i++ {
		if s[i] != '%' {
			b.WriteByte(s[i])
			continue
		}
		if i+2 >= len(s) {
			return "", false
		}
		h, l := unhex(s[i+1]), unhex(s[i+2])
		if h < 0 || l < 0 {
			return "", false
		}
		b.WriteByte(byte(h<<4 | l))
		i += 2
	}
	return b.String(), true
}

func unhex(c byte) int {
	switch {
	case c >= '0' && c <= '9':
		return int(c - '0')
	case c >= 'a' && c <= 'f':
		return int(c-'a') + 10
	case c >= 'A' && c <= 'F':
		return int(c-'A') + 10
	}
	return -1
}

// targetPath extracts the (still encoded) path of a request target in origin
// form, absolute form or asterisk form.
func targetPath(target string) string {
	t := target
	if i := strings.Index(t, "://"); i > 0 && !strings.HasPrefix(t, "/") {
		t = t[i+3:]
		j := strings.IndexAny(t, "/?#")
		if j < 0 {
			return ""
		}
		t = t[j:]
	}
	if i := strings.IndexAny(t, "?#"); i >= 0 {
		t = t[:i]
	}
	return t
}

var schemeRE = regexp.MustCompile(`^[A-Za-z][A-Za-z0-9+.-]*://`)

// specURLKind classifies a spec URL option and returns the encoded path component.
//
//	"absolute": absolute URL (scheme://authority/path), network-path reference
//	            (//authority/path) or absolute path (/path)
//	"relative": anything else
func specURLKind(u string) (kind, encPath string) {
	rest := u
	switch {
	case schemeRE.MatchString(u):
		rest = u[strings.Index(u, "://")+3:]
		j := strings.IndexAny(rest, "/?#")
		if j < 0 {
			return "absolute", ""
		}
		rest = rest[j:]
	case strings.HasPrefix(u, "//"):
		rest = u[2:]
		j := strings.IndexAny(rest, "/?#")
		if j < 0 {
			return "absolute", ""
		}
		rest = rest[j:]
	case strings.HasPrefix(u, "/"):
	default:
		if i := strings.IndexAny(rest, "?#"); i >= 0 {
			rest = rest[:i]
		}
		return "relative", rest
	}
	if i := strings.IndexAny(rest, "?#"); i >= 0 {
		rest = rest[:i]
	}
	return "absolute", rest
}

// plainURL: the characters every escaper leaves readable (used to decide when
// the page must contain the URL literally, modulo HTML / JS string escaping).
var plainURL = regexp.MustCompile(`^[A-Za-z0-9/:._?=#%~\[\]-]+$`)

// rfcPath: a path made of characters RFC 3986 allows in a path.
var rfcPath = regexp.MustCompile(`^[A-Za-z0-9/._~!$&'()*+,;=:@%-]*$`)

// ---- markers ----

// mk builds an option value in which every HTML metacharacter is followed by a
// unique token: tag0<tag1>tag2"tag3'tag4&tag5.
func mk(tag string) string {
	return tag + "0<" + tag + "1>" + tag + "2\"" + tag + "3'" + tag + "4&" + tag + "5"
}

var markerTags = []string{"Tq", "Sq", "Uq", "Vq", "Wq", "Xq", "Yq", "Zq", "Bq", "Pq", "Cq", "Aq"}

// forbidden returns the substrings that must not occur in a page rendered from
// the given option values: a raw metacharacter directly followed by its token.
func forbidden(values []string) []string {
	var out []string
	for _, tag := range markerTags {
		used := false
		for _, v := range values {
			if strings.Contains(v, mk(tag)) {
				used = true
			}
		}
		if used {
			out = append(out, "<"+tag+"1", ">"+tag+"2", "\""+tag+"3", "'"+tag+"4", "&"+tag+"5")
		}
	}
	return out
}

// ---- the model of one configuration ----

type loc struct {
	What string // "spec" | "page"
	Path string // absolute cleaned path
	Must bool   // GET on it has to be answered with the document
}

type model struct {
	Locs []loc

	Page         string // page kind, "" when no page is served
	Title        string // title the page shows
	CheckTitle   bool
	SpecURL      string // spec URL option in effect
	CheckSpecURL bool   // the page has to reference SpecURL
	CustomToken  string // custom template in use: its static token has to be on the page
	BadTemplate  bool   // template that does not parse / execute: construction may panic
	Forbidden    []string
	SpecBytes    []byte
	SpecMustRef  bool // api kinds: the MUST spec location is the one the page references
}

const customToken = "CUSTOM-TPL-7f3a"

func lastOpt(kvs []KV, k string) (string, bool) {
	v, ok := "", false
	for _, kv := range kvs {
		if kv.K == k {
			v, ok = kv.V, true
		}
	}
	return v, ok
}

func addLoc(ls []loc, l loc) []loc {
	for i := range ls {
		if ls[i].What == l.What && ls[i].Path == l.Path {
			ls[i].Must = ls[i].Must || l.Must
			return ls
		}
	}
	return append(ls, l)
}

func templateInfo(tpl string) (token string, bad bool) {
	switch {
	case tpl == "":
		return "", false
	case strings.Contains(tpl, customToken):
		return customToken, false
	default:
		return "", true
	}
}

var validEscape = regexp.MustCompile(`%[0-9A-Fa-f]{2}`)

// pathLocs: the location(s) of a document whose path is spelled by path OPTIONS (not by a URL).
// A '%' in such an option is a literal character of the path; only when it happens to form a valid
// escape (%20, %2f) the text leaves open whether the literal or the decoded path is meant: then both
// are MAY locations.
func pathLocs(ls []loc, what, full string, must bool) []loc {
	if validEscape.MatchString(full) {
		ls = addLoc(ls, loc{what, norm(full), false})
		if dec, ok := pctDecode(full); ok {
			ls = addLoc(ls, loc{what, norm(dec), false})
		}
		return ls
	}
	return addLoc(ls, loc{what, norm(full), must})
}

// escapesOK: every '%' of the string starts a valid %XX escape.
func escapesOK(s string) bool {
	return strings.Count(s, "%") == len(validEscape.FindAllString(s, -1))
}

// showable: a text HTML can carry as it is. NUL cannot appear in an HTML document (escapers replace it
// by U+FFFD) and invalid UTF-8 has no defined rendition, so for such values only the escaping rule is checked.
func showable(s string) bool { return utf8.ValidString(s) && !strings.Contains(s, "\x00") }

func buildModel(c Config) model {
	c = c.decoded()
	var m model
	m.Page = c.pageKind()
	switch {
	case c.Kind == "spec":
		base := c.SpecBase
		if base == "" {
			base = defBasePath
		}
		sp, _ := lastOpt(c.SpecOpts, "WithSpecPath")
		doc := ""
		for _, kv := range c.SpecOpts {
			if kv.K == "WithSpecDocument" && kv.V != "" {
				doc = kv.V
			}
		}
		if doc == "" {
			doc = defDocument
		}
		full := base + "/" + sp + "/" + doc
		must := strings.HasPrefix(base, "/") && !hasDotSegment(full)
		m.Locs = pathLocs(m.Locs, "spec", full, must)
		m.SpecBytes = []byte(c.SpecBytes)

	case !c.api():
		o := c.Opts
		base := o["BasePath"]
		if base == "" {
			base = defBasePath
		}
		pth := o["Path"]
		if pth == "" {
			pth = defUIPath
		}
		full := base + "/" + pth
		wellFormed := strings.HasPrefix(base, "/") && !hasDotSegment(full)
		if c.Kind == "oauth2cb" {
			if cb := o["OAuthCallbackURL"]; cb != "" {
				_, enc := specURLKind(cb)
				dec, ok := pctDecode(enc)
				if !ok {
					dec = enc
				}
				// MUST only when the option is itself a clean absolute path without escapes, query or fragment
				m.Locs = addLoc(m.Locs, loc{"page", norm(dec), cb == norm(cb) && !strings.ContainsAny(cb, "%?#")})
				if dec != cb {
					m.Locs = addLoc(m.Locs, loc{"page", norm(cb), false})
				}
			} else {
				m.Locs = pathLocs(m.Locs, "page", full+"/"+defCallback, wellFormed)
			}
		} else {
			m.Locs = pathLocs(m.Locs, "page", full, wellFormed)
		}
		m.Title = o["Title"]
		if m.Title == "" {
			m.Title = defTitle
		}
		m.SpecURL = o["SpecURL"]
		if m.SpecURL == "" {
			m.SpecURL = defSpecURL
		}
		m.CustomToken, m.BadTemplate = templateInfo(o["Template"])
		m.CheckTitle = !m.BadTemplate && showable(m.Title)
		// the callback page has no spec reference; the other default pages and the
		// custom template of this check render the spec URL
		m.CheckSpecURL = !m.BadTemplate && plainURL.MatchString(m.SpecURL) && escapesOK(m.SpecURL) && (c.Kind != "oauth2cb" || m.CustomToken != "")
		vals := make([]string, 0, len(o))
		for k, v := range o {
			if k != "Template" {
				vals = append(vals, v)
			}
		}
		m.Forbidden = forbidden(vals)

	default: // api kinds
		apiBase := c.APIBase
		if c.NoAPIBase {
			apiBase = ""
		}
		base := apiBase
		if v, ok := lastOpt(c.UIOpts, "WithUIBasePath"); ok {
			base = v
		}
		if base == "" {
			base = defBasePath
		}
		pth, _ := lastOpt(c.UIOpts, "WithUIPath")
		if pth == "" {
			pth = defUIPath
		}
		full := base + "/" + pth
		uiPath := norm(full)
		m.Locs = pathLocs(m.Locs, "page", full, strings.HasPrefix(base, "/") && !hasDotSegment(full))

		su, given := lastOpt(c.UIOpts, "WithUISpecURL")
		if su == "" {
			su, given = defSpecURL, false
		}
		m.SpecURL = su
		kind, enc := specURLKind(su)
		dec, ok := pctDecode(enc)
		namesDoc := enc != "" && !strings.HasSuffix(enc, "/")
		switch {
		case kind == "absolute" && ok && escapesOK(su) && namesDoc && rfcPath.MatchString(enc):
			// "the page served references the very location at which the spec document is served"
			m.Locs = addLoc(m.Locs, loc{"spec", norm(dec), true})
			m.SpecMustRef = given
		default:
			// relative, names no document, malformed or not RFC 3986: the text does not say where
			// (if anywhere) the document lives; every plausible resolution is allowed, none demanded
			if !ok {
				dec = enc
			}
			for _, prefix := range []string{"", base, parent(uiPath), uiPath, apiBase} {
				for _, suffix := range []string{"", "/" + defDocument} {
					m.Locs = addLoc(m.Locs, loc{"spec", norm(prefix + "/" + dec + suffix), false})
				}
			}
			m.Locs = addLoc(m.Locs, loc{"spec", defSpecURL, false})
		}

		title, tset := lastOpt(c.UIOpts, "WithUITitle")
		switch {
		case !tset:
			m.Title = c.APITitle
			if m.Title == "" {
				m.Title = "generated"
			}
			m.CheckTitle = true
		case title != "":
			m.Title = title
			m.CheckTitle = true
		}
		tpl, _ := lastOpt(c.UIOpts, "WithTemplate")
		m.CustomToken, m.BadTemplate = templateInfo(tpl)
		if m.BadTemplate || !showable(m.Title) {
			m.CheckTitle = false
		}
		m.CheckSpecURL = !m.BadTemplate && plainURL.MatchString(su) && escapesOK(su)
		vals := []string{c.APITitle, apiBase}
		for _, kv := range c.UIOpts {
			if kv.K != "WithTemplate" {
				vals = append(vals, kv.V)
			}
		}
		m.Forbidden = forbidden(vals)
	}
	return m
}

// at returns the locations equal to the cleaned path p.
func (m model) at(p string) (ls []loc, must bool) {
	for _, l := range m.Locs {
		if l.Path == p {
			ls = append(ls, l)
			must = must || l.Must
		}
	}
	return ls, must
}
