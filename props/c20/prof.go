package main

import (
	"os"
	"runtime/pprof"
)

func startProf() func() {
	p := os.Getenv("C20_PROF")
	if p == "" {
		return func() {}
	}
	f, _ := os.Create(p)
	_ = pprof.StartCPUProfile(f)
	return func() { pprof.StopCPUProfile(); f.Close() }
}
