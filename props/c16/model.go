package main

// Reference model and oracle. The reference is the standard library parser
// (encoding/csv) configured directly from the abstract option set - never through
// the code under test - plus "drop the skipped lines".

import (
	"bytes"
	"encoding/csv"
	"errors"
	"fmt"
	"io"
	"strings"

	"github.com/go-openapi/runtime"
)

// Opts is the abstract option set of the property text.
type Opts struct {
	RComma  bool `json:"reader_comma_semicolon,omitempty"` // separator ';' on the reading side
	Comment bool `json:"comment_hash,omitempty"`           // comment character '#'
	Lazy    bool `json:"lazy_quotes,omitempty"`
	Trim    bool `json:"trim_leading_space,omitempty"`
	FPR     int  `json:"fields_per_record,omitempty"` // 0 (first record decides), -1 (ragged allowed), 2
	Skip    int  `json:"skip_lines,omitempty"`
	CRLF    bool `json:"use_crlf,omitempty"`
	Reuse   bool `json:"reuse_record,omitempty"`
	WComma  bool `json:"writer_comma_semicolon,omitempty"` // separator ';' on the writing side
	// Order is not an option: it is the permutation (index into optionOrders) in which the options
	// that express the set (reader options, writer options, skipped lines) are LISTED in the call
	// CSVConsumer(opts...) / CSVProducer(opts...). The property speaks of option sets: the reference
	// never looks at it.
	Order int `json:"option_list_order,omitempty"`
}

// Case is one replayable case.
//
//	Mode ""      : Kind on Text with Opts, destination pre-state Pre
//	Mode "agree" : Kind and Kind2 on the same Text and Opts must take the same reading
//	Mode "fault" : Kind on Text with Opts while the environment fails the operation named by Fault
//	Mode "seq"   : Calls executed one after the other on ONE CSVConsumer / CSVProducer built with
//	               Opts; every call must give what it gives on a fresh instance
type Case struct {
	Mode  string     `json:"mode,omitempty"`
	Kind  string     `json:"kind"`
	Kind2 string     `json:"kind2,omitempty"`
	Text  string     `json:"text"`
	Opts  Opts       `json:"opts"`
	Pre   int        `json:"pre,omitempty"`
	Calls []Call     `json:"calls,omitempty"`
	Fault *FaultSpec `json:"fault,omitempty"`
}

// Call is one Consume / Produce call of a shared-instance sequence.
type Call struct {
	Kind string `json:"kind"`
	Text string `json:"text"`
	Pre  int    `json:"pre,omitempty"`
}

// ref is one acceptable result: the parser's error, or the records.
type ref struct {
	recs [][]string
	err  error
}

func configure(r *csv.Reader, o Opts) {
	if o.RComma {
		r.Comma = ';'
	}
	if o.Comment {
		r.Comment = '#'
	}
	r.LazyQuotes = o.Lazy
	r.TrimLeadingSpace = o.Trim
	r.FieldsPerRecord = o.FPR
}

func parse(text string, o Opts) ref {
	r := csv.NewReader(strings.NewReader(text))
	configure(r, o)
	recs, err := r.ReadAll()
	if err != nil {
		return ref{err: err}
	}
	return ref{recs: recs}
}

func readerOpts(o Opts) Opts {
	return Opts{RComma: o.RComma, Comment: o.Comment, Lazy: o.Lazy, Trim: o.Trim, FPR: o.FPR}
}

func hasReaderOpts(o Opts) bool { return readerOpts(o) != Opts{} }

// dropLines removes the first k physical lines of the text.
func dropLines(text string, k int) string {
	for ; k > 0; k-- {
		i := strings.IndexByte(text, '\n')
		if i < 0 {
			return ""
		}
		text = text[i+1:]
	}
	return text
}

func drop(recs [][]string, k int) [][]string {
	if k >= len(recs) {
		return nil
	}
	return recs[k:]
}

func recsEqual(a, b [][]string) bool {
	if len(a) != len(b) {
		return false
	}
	for i := range a {
		if len(a[i]) != len(b[i]) {
			return false
		}
		for j := range a[i] {
			if a[i][j] != b[i][j] {
				return false
			}
		}
	}
	return true
}

func sentinel(err error) error {
	var pe *csv.ParseError
	if errors.As(err, &pe) {
		return pe.Err
	}
	return err
}

func refSame(a, b ref) bool {
	if (a.err != nil) != (b.err != nil) {
		return false
	}
	if a.err != nil {
		return sentinel(a.err) == sentinel(b.err)
	}
	return recsEqual(a.recs, b.recs)
}

// errMatches: got is the parser's error want. The sentinel must be reachable through the
// error chain; the position is compared when pos is set and got carries one.
func errMatches(got, want error, pos bool) bool {
	var wp *csv.ParseError
	if !errors.As(want, &wp) {
		return errors.Is(got, want)
	}
	if !errors.Is(got, wp.Err) {
		return false
	}
	var gp *csv.ParseError
	if pos && errors.As(got, &gp) {
		return gp.StartLine == wp.StartLine && gp.Line == wp.Line && gp.Column == wp.Column
	}
	return true
}

// ctx caches the reference results of one text (or is built fresh for a replay).
type ctx struct {
	text  string
	refs  map[Opts]ref    // key: readerOpts
	lines map[Opts]ref    // key: readerOpts + Skip
	again map[string]ref  // sink text parsed again; key: comma byte + text
	sinks map[string]bool // distinct sink texts seen (key: comma byte + text)
	slot  *slot           // explorer only: where the running goroutine-using case is published

	// one-entry caches: the explorer runs all kinds on one option set in a row
	accFor   Opts
	accOK    [2]bool
	accVal   [2][]ref
	accAmb   [2]bool
	coptsFor Opts
	coptsOK  bool
	copts    []runtime.CSVOpt
}

func (x *ctx) codecOpts(o Opts) []runtime.CSVOpt {
	if !x.coptsOK || x.coptsFor != o {
		x.copts, x.coptsFor, x.coptsOK = codecOpts(o), o, true
	}
	return x.copts
}

func newCtx(text string) *ctx {
	return &ctx{text: text, refs: map[Opts]ref{}, lines: map[Opts]ref{}, again: map[string]ref{}, sinks: map[string]bool{}}
}

func (x *ctx) whole(o Opts) ref {
	k := readerOpts(o)
	if r, ok := x.refs[k]; ok {
		return r
	}
	r := parse(x.text, k)
	x.refs[k] = r
	return r
}

func (x *ctx) afterLines(o Opts) ref {
	k := readerOpts(o)
	k.Skip = o.Skip
	if r, ok := x.lines[k]; ok {
		return r
	}
	r := parse(dropLines(x.text, o.Skip), readerOpts(o))
	x.lines[k] = r
	return r
}

// accept returns the acceptable results. First: parse the whole input, drop the first k
// records ("lines" = records, what WithCSVSkipLines documents). For kinds that receive
// text and k > 0 the other reading of the property text - drop the first k physical
// lines, parse the rest - is accepted too when it differs.
func (x *ctx) accept(kind string, o Opts) (acc []ref, ambiguous bool) {
	i := 0
	if textInput(kind) {
		i = 1
	}
	if x.accFor != o {
		x.accFor, x.accOK = o, [2]bool{}
	}
	if !x.accOK[i] {
		x.accVal[i], x.accAmb[i] = x.accept1(kind, o)
		x.accOK[i] = true
	}
	return x.accVal[i], x.accAmb[i]
}

func (x *ctx) accept1(kind string, o Opts) (acc []ref, ambiguous bool) {
	w := x.whole(o)
	a0 := w
	if w.err == nil {
		a0 = ref{recs: drop(w.recs, o.Skip)}
	}
	acc = []ref{a0}
	if o.Skip > 0 && textInput(kind) {
		a1 := x.afterLines(o)
		if !refSame(a0, a1) {
			acc = append(acc, a1)
			ambiguous = true
		} else if a0.err != nil && a0.err.Error() != a1.err.Error() {
			ambiguous = true // same kind of error, other position: the position is then not compared
		}
	}
	return acc, ambiguous
}

// parseAgain parses sink bytes with the writer's separator and nothing else.
func (x *ctx) parseAgain(raw []byte, comma rune) ref {
	k := string(comma) + string(raw)
	if r, ok := x.again[k]; ok {
		return r
	}
	x.sinks[k] = true
	r := parseSink(raw, comma)
	x.again[k] = r
	return r
}

func parseSink(raw []byte, comma rune) ref {
	rd := csv.NewReader(bytes.NewReader(raw))
	rd.Comma = comma
	rd.FieldsPerRecord = -1
	recs, err := rd.ReadAll()
	if err != nil {
		return ref{err: err}
	}
	return ref{recs: recs}
}

// throughStdWriter: what the records become when the standard library writer encodes them
// and the standard parser reads them back (it is not always the identity).
func throughStdWriter(recs [][]string, o Opts) ref {
	var b bytes.Buffer
	w := csv.NewWriter(&b)
	w.Comma = writerComma(o)
	w.UseCRLF = o.CRLF
	if err := w.WriteAll(recs); err != nil {
		return ref{err: err}
	}
	return parseSink(b.Bytes(), writerComma(o))
}

type verdict struct {
	class, what string
	mask        int    // acceptable readings matched (bit i = acc[i])
	label       string // outcome kind, for the evidence
	nontrivial  bool
	ambiguous   bool
	pipeErr     bool // chunked WriterTo: the closed pipe won over the parser's error
	out         Outcome
}

func showRef(a ref) string {
	if a.err != nil {
		return fmt.Sprintf("error %q", a.err.Error())
	}
	return fmt.Sprintf("%d records %q", len(a.recs), a.recs)
}

func showAcc(acc []ref) string {
	s := showRef(acc[0])
	if len(acc) > 1 {
		s += " (or, dropping physical lines: " + showRef(acc[1]) + ")"
	}
	return s
}

// delivered extracts the records the outcome delivered.
func (x *ctx) delivered(kind string, o Opts, out Outcome) ref {
	if out.HasRaw {
		return x.parseAgain(out.Raw, writerComma(o))
	}
	return ref{recs: out.Recs}
}

func (x *ctx) showOut(kind string, o Opts, out Outcome) string {
	switch {
	case out.Hang:
		return "no return within 30 s (3 of 3)"
	case out.Panic != "":
		return "panic: " + out.Panic
	case out.Err != nil:
		return fmt.Sprintf("error %q", out.Err.Error())
	}
	d := x.delivered(kind, o, out)
	if out.HasRaw {
		return fmt.Sprintf("sink %q = %s", out.Raw, showRef(d))
	}
	return showRef(d)
}

// match compares an outcome with the acceptable results: exact = bit set of the readings
// met; lossy = readings met only after the standard writer's own loss.
func (x *ctx) match(kind string, o Opts, out Outcome, acc []ref, ambiguous bool) (exact, lossy int) {
	for i, a := range acc {
		if a.err != nil {
			if out.Err != nil && (anyErrorOK(kind) || errMatches(out.Err, a.err, !ambiguous)) {
				exact |= 1 << i
			}
			continue
		}
		if out.Err != nil {
			continue
		}
		d := x.delivered(kind, o, out)
		if d.err != nil {
			continue
		}
		if recsEqual(d.recs, a.recs) {
			exact |= 1 << i
			continue
		}
		if byteSink(kind) {
			if l := throughStdWriter(a.recs, o); l.err == nil && recsEqual(d.recs, l.recs) {
				lossy |= 1 << i
			}
		}
	}
	return
}

func hasSingleEmpty(recs [][]string) bool {
	for _, r := range recs {
		if len(r) == 1 && r[0] == "" {
			return true
		}
	}
	return false
}

func hasCR(recs [][]string) bool {
	for _, r := range recs {
		for _, f := range r {
			if strings.Contains(f, "\r") {
				return true
			}
		}
	}
	return false
}

// judge is the oracle for one execution.
func (x *ctx) judge(kind string, o Opts, pre int, out Outcome) (v verdict) {
	acc, ambiguous := x.accept(kind, o)
	v.out = out
	v.ambiguous = ambiguous
	v.nontrivial = true
	fail := func(class, why string) verdict {
		v.class = class
		v.what = fmt.Sprintf("%s: got %s; required %s", why, x.showOut(kind, o, out), showAcc(acc))
		return v
	}
	switch {
	case out.Hang:
		v.label = "hang"
		return fail("hang", "the codec does not return")
	case out.Panic != "":
		v.label = "panic"
		class := "panic"
		if kind == "to:*[][]string" && strings.Contains(out.Panic, "out of range in SetCap") {
			// acc[0]: the records that remain after dropping the skipped records
			if acc[0].err == nil && len(preTable(pre)) > len(acc[0].recs) {
				class = "panic/table-destination-longer-than-delivered"
			}
		}
		return fail(class, fmt.Sprintf("the codec panics (destination held %d records)", len(preTable(pre))))
	}
	if out.Err != nil {
		v.label = "error: " + sentinel(out.Err).Error()
		if anyErrorOK(kind) {
			// which goroutine's error is returned is scheduling: one label, so that the evidence is stable
			v.label = "error: the parser's or the closed pipe (chunked WriterTo)"
			v.pipeErr = errors.Is(out.Err, io.ErrClosedPipe)
		}
	} else {
		d := x.delivered(kind, o, out)
		switch {
		case d.err != nil:
			v.label = "unparseable sink"
		case len(d.recs) >= 4:
			v.label = "delivered 4+ records"
		default:
			v.label = fmt.Sprintf("delivered %d records", len(d.recs))
			if len(d.recs) == 0 {
				v.nontrivial = false
			}
		}
		if out.Alias != "" {
			v.label = "aliased records"
			class := "alias"
			if o.Reuse && kind == "to:*[][]string" {
				class = "alias/reuse-record-into-table"
			}
			return fail(class, "delivered records alias one another ("+out.Alias+")")
		}
	}
	exact, lossy := x.match(kind, o, out, acc, ambiguous)
	v.mask = exact | lossy
	if exact != 0 {
		return v
	}
	if lossy != 0 {
		// delivered = what encoding/csv's Writer makes of the required records
		var want [][]string
		for i, a := range acc {
			if lossy&(1<<i) != 0 {
				want = a.recs
				break
			}
		}
		d := x.delivered(kind, o, out)
		class := "roundtrip-loss"
		switch {
		case hasSingleEmpty(want) && len(d.recs) < len(want):
			class = "roundtrip-loss/single-empty-field-record"
		case hasCR(want) && len(d.recs) == len(want):
			class = "roundtrip-loss/cr-in-field"
		}
		v.label = "lossy sink"
		return fail(class, "the bytes delivered do not parse back to the required records (they are what encoding/csv.Writer emits for them)")
	}
	// no acceptable result met: classify
	if x.marshalerIgnoresReaderOpts(kind, o, out) {
		return fail(classMarshaler, "the source is parsed with default reader options")
	}
	anyErr, allErr := false, true
	for _, a := range acc {
		if a.err != nil {
			anyErr = true
		} else {
			allErr = false
		}
	}
	switch {
	case out.Err == nil && allErr:
		return fail("missing-error", "malformed input is accepted")
	case out.Err != nil && !anyErr:
		return fail("unexpected-error", "well-formed input is refused")
	case out.Err != nil:
		return fail("wrong-error", "the error is not the parser's")
	}
	if d := x.delivered(kind, o, out); d.err != nil {
		return fail("unparseable-output", "the bytes delivered are not CSV ("+d.err.Error()+")")
	}
	return fail("mismatch", "the records delivered differ")
}

const classMarshaler = "reader-options-ignored/binary-marshaler-source"

// marshalerIgnoresReaderOpts: the kind is the BinaryMarshaler source, reader options are
// set, and what came out is what the same call yields under default reader options.
func (x *ctx) marshalerIgnoresReaderOpts(kind string, o Opts, out Outcome) bool {
	if kind != "from:BinaryMarshaler" || !hasReaderOpts(o) {
		return false
	}
	o0 := o
	o0.RComma, o0.Comment, o0.Lazy, o0.Trim, o0.FPR = false, false, false, false, 0
	acc0, amb0 := x.accept(kind, o0)
	e, l := x.match(kind, o0, out, acc0, amb0)
	return e|l != 0
}

// evalSingle executes and judges one (kind, options, pre-state) on the text of the context.
func (x *ctx) evalSingle(kind string, o Opts, pre int) (v verdict, applicable bool) {
	var table [][]string
	if tableSource(kind) {
		w := x.whole(o)
		if w.err != nil {
			return v, false // no record table exists for a text that does not parse
		}
		table = w.recs
	}
	out := run(x.slot, x.codecOpts(o), kind, x.text, o, pre, table)
	return x.judge(kind, o, pre, out), true
}

// seqVerdict compares the outcomes of a shared-instance sequence with the fresh-instance
// outcome keys of the same calls.
func seqVerdict(c Case, outs []Outcome, fresh []string) (class, what string) {
	for i, call := range c.Calls {
		got := outKey(call.Kind, outs[i])
		if got == fresh[i] {
			continue
		}
		before := "nothing"
		if i > 0 {
			before = fmt.Sprintf("%d earlier call(s), the last one (%s, text %q)", i, c.Calls[i-1].Kind, c.Calls[i-1].Text)
		}
		return fmt.Sprintf("instance-state/call-%d-differs-from-fresh-instance", i+1),
			fmt.Sprintf("call %d (%s, text %q) on a codec instance that already served %s: got %s; the same call on a fresh instance: %s",
				i+1, call.Kind, call.Text, before, got, fresh[i])
	}
	return "", ""
}

// seqVerdictAt: call j of the sequence gave `out`, its fresh-instance key is `fresh`.
func seqVerdictAt(c Case, j int, out Outcome, fresh string) (class, what string) {
	outs := make([]Outcome, j+1)
	fr := make([]string, j+1)
	for q := 0; q < j; q++ {
		fr[q] = outKey(c.Calls[q].Kind, outs[q]) // earlier calls are known to be equal: make them compare equal
	}
	outs[j], fr[j] = out, fresh
	return seqVerdict(c, outs, fr)
}

func checkSeq(c Case) (class, what string) {
	if len(c.Calls) == 0 {
		return "", "not applicable: empty sequence"
	}
	opts := codecOpts(c.Opts)
	fresh := make([]string, len(c.Calls))
	for i, call := range c.Calls {
		if isConsume(call.Kind) != isConsume(c.Calls[0].Kind) {
			return "", "not applicable: a sequence runs on one consumer or on one producer"
		}
		table, ok := seqTable(call, c.Opts)
		if !ok {
			return "", "not applicable: the text does not parse, no record table exists"
		}
		fresh[i] = outKey(call.Kind, run(nil, opts, call.Kind, call.Text, c.Opts, call.Pre, table))
	}
	outs, hang := horizon(3, func() []Outcome { return runSeq(opts, c.Opts, c.Calls) })
	if hang {
		return "hang", "the sequence does not return: no return within 30 s (3 of 3)"
	}
	if cl, what := seqVerdict(c, outs, fresh); cl != "" {
		return cl, what
	}
	return "", "ok: every call equals its fresh-instance result: " + strings.Join(fresh, " | ")
}

// check is the pure function behind both the explorer and --replay.
func check(c Case) (class, what string) {
	if c.Mode == "seq" {
		return checkSeq(c)
	}
	if c.Mode == "fault" {
		return checkFault(c)
	}
	x := newCtx(c.Text)
	v, ok := x.evalSingle(c.Kind, c.Opts, c.Pre)
	if !ok {
		return "", "not applicable: the text does not parse, no record table exists"
	}
	if c.Mode != "agree" {
		if v.class == "" {
			return "", "ok: " + x.showOut(c.Kind, c.Opts, v.out)
		}
		return v.class, v.what
	}
	v2, ok2 := x.evalSingle(c.Kind2, c.Opts, 0)
	switch {
	case v.class != "":
		return v.class, v.what
	case !ok2:
		return "", "not applicable"
	case v2.class != "":
		return v2.class, v2.what
	case v.mask&v2.mask == 0:
		// a kind that met one reading of the skipped lines only by ignoring the reader options
		if x.marshalerIgnoresReaderOpts(c.Kind, c.Opts, v.out) || x.marshalerIgnoresReaderOpts(c.Kind2, c.Opts, v2.out) {
			return classMarshaler, "the source is parsed with default reader options: " + disagreeWhat(x, c, v, v2)
		}
		return "kinds-disagree", disagreeWhat(x, c, v, v2)
	}
	return "", "ok: both kinds take the same reading"
}

func disagreeWhat(x *ctx, c Case, v, v2 verdict) string {
	return fmt.Sprintf("%s: %s; %s: %s", c.Kind, x.showOut(c.Kind, c.Opts, v.out), c.Kind2, x.showOut(c.Kind2, c.Opts, v2.out))
}
