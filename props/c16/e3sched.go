package main

// Overlapping calls on ONE codec value under the controlled scheduler (E3). One CSVConsumer or
// CSVProducer value is what client.Runtime keeps in its registry and hands to every concurrent
// Submit, so two calls that overlap on it must each deliver exactly what they deliver alone.
// csv.go and csv_options.go are instrumented (props/c16/overlay.conf): every statement is a
// scheduling point, and so is every Read of the scripted input streams. Only the arms of the codec
// that do not start goroutines of their own (everything except the io.WriterTo source, which runs
// under golang.org/x/sync/errgroup) take part.

import (
	"bytes"
	"fmt"
	"io"
	"os"
	"reflect"
	goruntime "runtime"
	"strings"

	"github.com/go-openapi/runtime"
	"github.com/go-openapi/runtime/verifrt"

	"verif/engine/report"
	"verif/engine/sched"
)

// yieldReader delivers its text one line at a time and passes a scheduling point at every Read.
type yieldReader struct {
	text string
	pos  int
}

func (y *yieldReader) Read(p []byte) (int, error) {
	verifrt.P("input.Read")
	if y.pos >= len(y.text) {
		return 0, io.EOF
	}
	end := strings.IndexByte(y.text[y.pos:], '\n')
	if end < 0 {
		end = len(y.text) - y.pos - 1
	}
	n := copy(p, y.text[y.pos:y.pos+end+1])
	y.pos += n
	return n, nil
}

type yieldWriter struct{ buf bytes.Buffer }

func (y *yieldWriter) Write(p []byte) (int, error) {
	verifrt.P("output.Write")
	return y.buf.Write(p)
}

// SchedCase is the replayable form of one schedule.
type SchedCase struct {
	Kind     string `json:"kind"` // "codec-schedule"
	Scenario string `json:"scenario"`
	Choices  []int  `json:"choices"`
}

type codecScenario struct {
	name  string
	opts  func() []runtime.CSVOpt
	calls []func(c codecPair) string // each call returns a printable result
}

type codecPair struct {
	cons runtime.Consumer
	prod runtime.Producer
}

func consumeTable(text string) func(codecPair) string {
	return func(c codecPair) string {
		var dst [][]string
		err := c.cons.Consume(&yieldReader{text: text}, &dst)
		return fmt.Sprintf("%q err=%v", dst, err)
	}
}

func consumeString(text string) func(codecPair) string {
	return func(c codecPair) string {
		var dst string
		err := c.cons.Consume(&yieldReader{text: text}, &dst)
		return fmt.Sprintf("%q err=%v", dst, err)
	}
}

func consumeWriter(text string) func(codecPair) string {
	return func(c codecPair) string {
		w := &yieldWriter{}
		err := c.cons.Consume(&yieldReader{text: text}, w)
		return fmt.Sprintf("%q err=%v", w.buf.String(), err)
	}
}

func produceFromReader(text string) func(codecPair) string {
	return func(c codecPair) string {
		w := &yieldWriter{}
		err := c.prod.Produce(w, &yieldReader{text: text})
		return fmt.Sprintf("%q err=%v", w.buf.String(), err)
	}
}

func produceFromString(text string) func(codecPair) string {
	return func(c codecPair) string {
		w := &yieldWriter{}
		err := c.prod.Produce(w, text)
		return fmt.Sprintf("%q err=%v", w.buf.String(), err)
	}
}

const (
	textA = "h1,h2\na,b\nc,d\n"
	textB = "H;x\np;q\nr;s\nt;u\n"
	textC = "only-header\n"
	textD = "k\n\"bad\n"
)

func codecScenarios() []codecScenario {
	skip1 := func() []runtime.CSVOpt { return []runtime.CSVOpt{runtime.WithCSVSkipLines(1)} }
	skip2 := func() []runtime.CSVOpt { return []runtime.CSVOpt{runtime.WithCSVSkipLines(2)} }
	none := func() []runtime.CSVOpt { return nil }
	return []codecScenario{
		{"consume-skip1-table-x2", skip1, []func(codecPair) string{consumeTable(textA), consumeTable(textB)}},
		{"consume-skip1-table-vs-string", skip1, []func(codecPair) string{consumeTable(textA), consumeString(textB)}},
		{"consume-skip2-writer-x2", skip2, []func(codecPair) string{consumeWriter(textA), consumeWriter(textB)}},
		{"consume-skip1-short-vs-long", skip1, []func(codecPair) string{consumeTable(textC), consumeTable(textA)}},
		{"consume-default-error-vs-ok", none, []func(codecPair) string{consumeTable(textD), consumeTable(textA)}},
		{"produce-skip1-reader-x2", skip1, []func(codecPair) string{produceFromReader(textA), produceFromReader(textB)}},
		{"produce-skip1-string-vs-reader", skip1, []func(codecPair) string{produceFromString(textA), produceFromReader(textB)}},
		{"consume-skip1-three-calls", skip1, []func(codecPair) string{consumeTable(textA), consumeString(textB), consumeWriter(textC)}},
	}
}

func findCodecScenario(name string) codecScenario {
	for _, s := range codecScenarios() {
		if s.name == name {
			return s
		}
	}
	panic("unknown codec scenario " + name)
}

func newPair(sc codecScenario) codecPair {
	return codecPair{runtime.CSVConsumer(sc.opts()...), runtime.CSVProducer(sc.opts()...)}
}

func soloResults(sc codecScenario) []string {
	out := make([]string, len(sc.calls))
	for i, call := range sc.calls {
		func() {
			defer func() {
				if e := recover(); e != nil {
					out[i] = fmt.Sprintf("PANIC-ALONE: %v", e)
				}
			}()
			out[i] = call(newPair(sc)) // pass-through mode: no execution is active
		}()
	}
	return out
}

func runCodecSchedule(sc codecScenario, prefix []int) (*verifrt.Exec, []string) {
	got := make([]string, len(sc.calls))
	pair := newPair(sc)
	x := verifrt.Run(prefix, 0, func() {
		for i, call := range sc.calls {
			i, call := i, call
			verifrt.GoNamed(fmt.Sprintf("call%d", i+1), func() { got[i] = call(pair) })
		}
	})
	return x, got
}

func judgeCodecSchedule(x *verifrt.Exec, got, want []string) (string, string) {
	for _, p := range x.Panics {
		if strings.HasPrefix(p, "REPLAY-DIVERGENCE") {
			return "replay-divergence", p
		}
		l := strings.Split(p, "\n")
		if len(l) > 6 {
			l = l[:6]
		}
		return "overlapping-calls/panic", strings.Join(l, " | ")
	}
	if x.Deadlock || x.Aborted {
		return "overlapping-calls/deadlock", fmt.Sprintf("threads left blocked: %v", x.Blocked)
	}
	if !reflect.DeepEqual(got, want) {
		for i := range got {
			if got[i] != want[i] {
				return "overlapping-calls/result-differs-from-solo", fmt.Sprintf("call %d on a codec value shared with an overlapping call (preemptions=%d) delivered %s; alone it delivers %s", i+1, x.Preemptions, got[i], want[i])
			}
		}
	}
	return "", ""
}

func exploreCodec(name string, o verifrt.Options, c *sched.Collector) verifrt.Stats {
	sc := findCodecScenario(name)
	want := soloResults(sc)
	for i, w := range want {
		if strings.HasPrefix(w, "PANIC-ALONE") {
			// a call that panics on its own is a violation whatever the schedule; there is nothing to compare
			c.Fail("overlapping-calls/call-panics-alone", fmt.Sprintf("call %d of scenario %s panics when made alone: %s", i+1, name, w), SchedCase{"codec-schedule", name, nil})
			return verifrt.Stats{Executions: 1}
		}
	}
	return verifrt.Explore(o, func() (func(), func(*verifrt.Exec)) {
		got := make([]string, len(sc.calls))
		pair := newPair(sc)
		main := func() {
			for i, call := range sc.calls {
				i, call := i, call
				verifrt.GoNamed(fmt.Sprintf("call%d", i+1), func() { got[i] = call(pair) })
			}
		}
		return main, func(x *verifrt.Exec) {
			cl, what := judgeCodecSchedule(x, got, want)
			if cl != "" {
				c.Fail(cl, what, SchedCase{"codec-schedule", name, x.Choices()})
				return
			}
			c.Outcome("every-call-as-alone")
			if x.Preemptions > 0 {
				c.Sample(map[string]any{"scenario": name, "preemptions": x.Preemptions, "choice_points": len(x.Steps)})
			}
		}
	})
}

func replayCodecSchedule(cs SchedCase) (string, string) {
	sc := findCodecScenario(cs.Scenario)
	x, got := runCodecSchedule(sc, cs.Choices)
	cl, what := judgeCodecSchedule(x, got, soloResults(sc))
	if cl == "" {
		what = strings.Join(got, " ; ")
	}
	return cl, what
}

// codecScheduleSweep runs every scenario: all schedules with at most 2 preemptions (thorough 3).
func codecScheduleSweep(r *report.R) {
	pb := 2
	if r.Thorough() {
		pb = 3
	}
	counts := map[string]int{}
	for _, sc := range codecScenarios() {
		if r.OutOfTime() {
			break
		}
		b := pb
		if len(sc.calls) == 3 {
			b = pb - 1
		}
		m, err := sched.RunShardedFree(sc.name, b, 0, goruntime.NumCPU(), 0)
		if err != nil {
			fmt.Fprintln(os.Stderr, "internal error:", err)
			os.Exit(2)
		}
		sched.Merge(r, m)
		r.Nontrivial(m.Stats.Executions)
		counts[fmt.Sprintf("%s@preemptions<=%d", sc.name, b)] = int(m.Stats.Executions)
	}
	r.Set("overlapping_calls_schedules", counts)
}
