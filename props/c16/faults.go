package main

// Environment faults: every operation the codec performs on its destination (writes of a byte
// sink, Write/Flush of a CSVWriter, ReadFrom, UnmarshalBinary) and on its source (reads of a byte
// stream, MarshalBinary, WriteTo) is a fault site. The fault-free run is executed first and
// counts the operations; then one run per site fails exactly that operation (= every execution
// with one deviation of the environment). Oracle: a fault that was delivered during the call must
// surface as an error of the call - success means that the destination holds exactly the records.

import (
	"encoding/csv"
	"errors"
	"fmt"
	"io"
	"strings"

	"github.com/go-openapi/runtime"
)

var errInjected = errors.New("injected fault")

// FaultSpec names the operation that fails (1-based, 0 = none), per side.
type FaultSpec struct {
	OutOp      int  `json:"destination_op,omitempty"`        // k-th destination-side operation fails (sticky)
	InOp       int  `json:"source_op,omitempty"`             // k-th source-side operation fails
	InWithData bool `json:"source_data_and_error,omitempty"` // the failing read returns its data together with the error, once; later reads go on
}

// faults is the plan and the log of one execution.
type faults struct {
	spec      FaultSpec
	outOps    int
	inOps     int
	delivered int
	outFailed bool
	inFailed  bool
	done      bool // the call has returned: later operations (the owner's flush) are not part of it
	log       []string
}

func (f *faults) out(what string) error {
	if f.done {
		return nil
	}
	f.outOps++
	f.log = append(f.log, fmt.Sprintf("dst#%d %s", f.outOps, what))
	if f.outFailed || f.outOps == f.spec.OutOp {
		f.outFailed = true
		f.delivered++
		return errInjected
	}
	return nil
}

// in: 0 = no fault, 1 = fail without data (sticky), 2 = deliver the data together with the error (once).
func (f *faults) in(what string) int {
	if f.done {
		return 0
	}
	f.inOps++
	f.log = append(f.log, fmt.Sprintf("src#%d %s", f.inOps, what))
	if f.inOps == f.spec.InOp {
		f.delivered++
		if f.spec.InWithData {
			return 2
		}
		f.inFailed = true
		return 1
	}
	if f.inFailed {
		f.delivered++
		return 1
	}
	return 0
}

// ---- faulting doubles (each implements exactly the interface of its dispatch arm) ----

type fSink struct {
	f *faults
	b []byte
}

func (s *fSink) Write(p []byte) (int, error) {
	if err := s.f.out(fmt.Sprintf("Write(%d bytes)", len(p))); err != nil {
		return 0, err
	}
	s.b = append(s.b, p...)
	return len(p), nil
}

type fRecWriter struct {
	f    *faults
	recs [][]string
	err  error
}

func (w *fRecWriter) Write(rec []string) error {
	if err := w.f.out("CSVWriter.Write"); err != nil {
		w.err = err
		return err
	}
	w.recs = append(w.recs, append(make([]string, 0, len(rec)), rec...))
	return nil
}

// Flush has no result: like csv.Writer, a failure while flushing is what Error reports afterwards.
func (w *fRecWriter) Flush() {
	if err := w.f.out("CSVWriter.Flush"); err != nil {
		w.err = err
	}
}
func (w *fRecWriter) Error() error { return w.err }

type fReaderFrom struct {
	f *faults
	b []byte
}

func (d *fReaderFrom) ReadFrom(r io.Reader) (int64, error) {
	if err := d.f.out("ReadFrom, before reading"); err != nil {
		return 0, err
	}
	b, err := io.ReadAll(r)
	if err != nil {
		return int64(len(b)), err
	}
	if err := d.f.out("ReadFrom, after reading"); err != nil {
		return int64(len(b)), err
	}
	d.b = append(d.b, b...)
	return int64(len(b)), nil
}

type fUnmarshaler struct {
	f *faults
	b []byte
}

func (d *fUnmarshaler) UnmarshalBinary(b []byte) error {
	if err := d.f.out("UnmarshalBinary"); err != nil {
		return err
	}
	d.b = append([]byte(nil), b...)
	return nil
}

type fReader struct {
	f *faults
	r io.Reader
}

func (s *fReader) Read(p []byte) (int, error) {
	switch s.f.in(fmt.Sprintf("Read(%d)", len(p))) {
	case 1:
		return 0, errInjected
	case 2:
		n, _ := s.r.Read(p)
		return n, errInjected
	}
	return s.r.Read(p)
}

type fRecReader struct{ r *csv.Reader }

func (s fRecReader) Read() ([]string, error) { return s.r.Read() }

type fWriterTo struct {
	f    *faults
	data string
}

func (w fWriterTo) WriteTo(dst io.Writer) (int64, error) {
	if w.f.in("WriteTo, before writing") != 0 {
		return 0, errInjected
	}
	var n int
	if w.data != "" {
		var err error
		if n, err = io.WriteString(dst, w.data); err != nil {
			return int64(n), err
		}
	}
	if w.f.in("WriteTo, after writing") != 0 {
		return int64(n), errInjected
	}
	return int64(n), nil
}

type fMarshaler struct {
	f    *faults
	data string
}

func (m fMarshaler) MarshalBinary() ([]byte, error) {
	if m.f.in("MarshalBinary") != 0 {
		return nil, errInjected
	}
	return []byte(m.data), nil
}

var faultConsumeKinds = consumeKinds[:8]
var faultProduceKinds = produceKinds[:8]

// runFault executes one call on a fresh codec with the fault plan f (f.spec zero = fault-free, counting).
func runFault(kind, text string, o Opts, table [][]string, f *faults) (out Outcome) {
	opts := codecOpts(o)
	if isConsume(kind) {
		cons := runtime.CSVConsumer(opts...)
		in := &fReader{f, strings.NewReader(text)}
		switch kind {
		case "to:*csv.Writer":
			s := &fSink{f: f}
			w := csv.NewWriter(s)
			guard(&out, func() error { return cons.Consume(in, w) })
			f.done = true
			if out.Panic == "" {
				w.Flush()
			}
			out.Raw, out.HasRaw = s.b, true
		case "to:CSVWriter":
			w := &fRecWriter{f: f}
			guard(&out, func() error { return cons.Consume(in, w) })
			out.Recs = w.recs
		case "to:io.Writer":
			s := &fSink{f: f}
			guard(&out, func() error { return cons.Consume(in, s) })
			out.Raw, out.HasRaw = s.b, true
		case "to:io.ReaderFrom":
			d := &fReaderFrom{f: f}
			guard(&out, func() error { return cons.Consume(in, d) })
			out.Raw, out.HasRaw = d.b, true
		case "to:BinaryUnmarshaler":
			d := &fUnmarshaler{f: f}
			guard(&out, func() error { return cons.Consume(in, d) })
			out.Raw, out.HasRaw = d.b, true
		case "to:*[][]string":
			var d [][]string
			guard(&out, func() error { return cons.Consume(in, &d) })
			out.Recs = d
		case "to:*[]byte":
			var d []byte
			guard(&out, func() error { return cons.Consume(in, &d) })
			out.Raw, out.HasRaw = d, true
		case "to:*string":
			var d string
			guard(&out, func() error { return cons.Consume(in, &d) })
			out.Raw, out.HasRaw = []byte(d), true
		default:
			panic("unknown kind " + kind)
		}
		f.done = true
		return out
	}
	prod := runtime.CSVProducer(opts...)
	var data interface{}
	switch kind {
	case "from:*csv.Reader":
		data = csv.NewReader(&fReader{f, strings.NewReader(text)})
	case "from:CSVReader":
		rr := csv.NewReader(&fReader{f, strings.NewReader(text)})
		configure(rr, o)
		rr.ReuseRecord = o.Reuse
		data = fRecReader{rr}
	case "from:io.Reader":
		data = &fReader{f, strings.NewReader(text)}
	case "from:io.WriterTo":
		data = fWriterTo{f, text}
	case "from:BinaryMarshaler":
		data = fMarshaler{f, text}
	case "from:[][]string":
		data = cloneTable(table)
	case "from:[]byte":
		data = []byte(text)
	case "from:string":
		data = text
	default:
		panic("unknown kind " + kind)
	}
	s := &fSink{f: f}
	guard(&out, func() error { return prod.Produce(s, data) })
	f.done = true
	out.Raw, out.HasRaw = s.b, true
	return out
}

func runFaultHorizon(kind, text string, o Opts, table [][]string, spec FaultSpec) (Outcome, *faults) {
	type res struct {
		out Outcome
		f   *faults
	}
	r, hang := horizon(3, func() res {
		f := &faults{spec: spec}
		return res{runFault(kind, text, o, table, f), f}
	})
	if hang {
		return Outcome{Hang: true}, &faults{spec: spec}
	}
	return r.out, r.f
}

func short(s string) string {
	if len(s) > 60 {
		return fmt.Sprintf("%q... (%d bytes)", s[:40], len(s))
	}
	return fmt.Sprintf("%q", s)
}

func faultSite(kind string, spec FaultSpec) string {
	side := "destination"
	if spec.OutOp == 0 {
		side = "source"
		if spec.InWithData {
			side = "source-data-with-error"
		}
	}
	return side
}

// judgeFault: the oracle of one faulted execution.
//
//	MUST  no panic, the call returns
//	MUST  a fault delivered during the call => the call returns an error
//	MUST  success => the destination holds exactly the required records (never success with records missing)
//	MAY   which error is returned; what the destination holds after an error
func judgeFault(kind, text string, o Opts, spec FaultSpec, out Outcome, f *faults) (class, what, label string) {
	site := faultSite(kind, spec)
	desc := fmt.Sprintf("%s, text %s, fault at %s operation %d, operations seen: %s", kind, short(text), site, spec.OutOp+spec.InOp, strings.Join(f.log, "; "))
	switch {
	case out.Hang:
		return "hang", "the codec does not return: " + desc, "hang"
	case out.Panic != "":
		return "panic/environment-fault", "the codec panics (" + out.Panic + "): " + desc, "panic"
	}
	x := newCtx(text)
	acc, _ := x.accept(kind, o)
	if out.Err != nil {
		if f.delivered == 0 && acc[0].err == nil && len(acc) == 1 {
			return "unexpected-error", fmt.Sprintf("no fault was delivered, the input is well-formed, yet the call fails with %q: %s", out.Err.Error(), desc), "error without fault"
		}
		return "", "", "fault surfaced as error"
	}
	// success
	d := x.delivered(kind, o, out)
	complete := false
	if d.err == nil {
		for _, a := range acc {
			if a.err == nil && recsEqual(d.recs, a.recs) {
				complete = true
			}
			if a.err == nil && byteSink(kind) {
				if l := throughStdWriter(a.recs, o); l.err == nil && recsEqual(d.recs, l.recs) {
					complete = true // encoding/csv's own round-trip loss is the single-call sweep's finding, not a fault matter
				}
			}
		}
	}
	n := -1
	if d.err == nil {
		n = len(d.recs)
	}
	if f.delivered > 0 {
		return "fault-swallowed/" + site, fmt.Sprintf("the call reports success although a %s operation failed (destination holds %d records, complete=%v): %s", site, n, complete, desc), "fault swallowed"
	}
	if !complete {
		return "mismatch", fmt.Sprintf("no fault delivered, success, but the destination holds %d records, not the required ones: %s", n, desc), "incomplete"
	}
	return "", "", "no fault delivered, complete"
}

func faultTable(kind, text string, o Opts) ([][]string, bool) {
	if !tableSource(kind) {
		return nil, true
	}
	w := parse(text, readerOpts(o))
	return w.recs, w.err == nil
}

func checkFault(c Case) (class, what string) {
	if c.Fault == nil {
		return "", "not applicable: no fault"
	}
	table, ok := faultTable(c.Kind, c.Text, c.Opts)
	if !ok {
		return "", "not applicable: the text does not parse, no record table exists"
	}
	out, f := runFaultHorizon(c.Kind, c.Text, c.Opts, table, *c.Fault)
	class, what, label := judgeFault(c.Kind, c.Text, c.Opts, *c.Fault, out, f)
	if class == "" {
		what = fmt.Sprintf("ok (%s): delivered faults=%d, error=%v, operations: %s", label, f.delivered, out.Err, strings.Join(f.log, "; "))
	}
	return class, what
}

// faultTexts: a few records, and one text larger than the 4096-byte buffers of bufio, so that
// the codec performs several physical reads and writes and "the last write" differs from "the first".
func faultTexts() []string {
	return []string{"", "a\n", "a,b\nc,d\n", "a\na\na\n", strings.Repeat("aaaaaaa\n", 1100)}
}

var faultOpts = []Opts{{}, {Skip: 1}, {Skip: 9}, {CRLF: true}}

// faultSweep enumerates, per (kind, text, option set), every fault site of the fault-free run.
func (e *explorer) faultSweep() {
	type job struct {
		kind, text string
		o          Opts
	}
	var jobs []job
	kinds := append(append([]string{}, faultConsumeKinds...), faultProduceKinds...)
	for _, o := range faultOpts {
		for _, t := range faultTexts() {
			for _, k := range kinds {
				jobs = append(jobs, job{k, t, o})
			}
		}
	}
	var sites, runs int64
	outcomes := map[string]int64{}
	for _, j := range jobs { // sequential: a few thousand executions
		if e.r.OutOfTime() {
			break
		}
		table, ok := faultTable(j.kind, j.text, j.o)
		if !ok {
			continue
		}
		// fault-free run: counts the operations of both sides; must be complete
		out0, f0 := runFaultHorizon(j.kind, j.text, j.o, table, FaultSpec{})
		runs++
		if cl, what, label := judgeFault(j.kind, j.text, j.o, FaultSpec{}, out0, f0); cl != "" {
			e.r.Fail(cl, what, Case{Mode: "fault", Kind: j.kind, Text: j.text, Opts: j.o, Fault: &FaultSpec{}})
			outcomes[label]++
			continue
		} else {
			outcomes[label]++
		}
		var specs []FaultSpec
		for k := 1; k <= f0.outOps; k++ {
			specs = append(specs, FaultSpec{OutOp: k})
		}
		for k := 1; k <= f0.inOps; k++ {
			specs = append(specs, FaultSpec{InOp: k})
			// data together with the error only makes sense for stream reads
			if j.kind != "from:io.WriterTo" && j.kind != "from:BinaryMarshaler" {
				specs = append(specs, FaultSpec{InOp: k, InWithData: true})
			}
		}
		for _, sp := range specs {
			sp := sp
			out, f := runFaultHorizon(j.kind, j.text, j.o, table, sp)
			runs++
			sites++
			cl, what, label := judgeFault(j.kind, j.text, j.o, sp, out, f)
			outcomes[label]++
			if cl != "" {
				e.r.Fail(cl, what, Case{Mode: "fault", Kind: j.kind, Text: j.text, Opts: j.o, Fault: &sp})
			}
			if sites%97 == int64(e.seed%97) && e.faultSamples < 2 {
				e.faultSamples++
				e.r.Sample(map[string]any{"case": Case{Mode: "fault", Kind: j.kind, Text: short(j.text), Opts: j.o, Fault: &sp}, "observed": label, "operations": f.log})
			}
		}
	}
	e.r.Eval(runs)
	e.r.Nontrivial(sites)
	for k, v := range outcomes {
		e.r.Outcome("fault sweep: "+k, v)
	}
	texts := []string{}
	for _, t := range faultTexts() {
		texts = append(texts, short(t))
	}
	e.r.Set("environment_faults", map[string]any{
		"kinds":       kinds,
		"texts":       texts,
		"option_sets": faultOpts,
		"fault_sites": "every destination-side operation (sink Write incl. the final flush, CSVWriter.Write / Flush, ReadFrom before/after reading, UnmarshalBinary) and every source-side operation (stream Read: error without data (sticky) or data together with a one-shot error; WriteTo before/after writing; MarshalBinary) that the fault-free run performs, one fault per execution",
		"sites":       sites,
		"executions":  runs,
	})
}
