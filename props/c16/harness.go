package main

// Harness: the doubles for every source / destination kind of the CSV codec
// and the functions that execute one case on the real code.

import (
	"bytes"
	"encoding/csv"
	"fmt"
	"io"
	"reflect"
	"strings"
	"sync/atomic"
	"testing/iotest"
	"time"
	"unsafe"

	"github.com/go-openapi/runtime"
)

// ---- kinds ----
//
// "to:<kind>"   = CSVConsumer destination kinds (the input is always a byte stream)
// "from:<kind>" = CSVProducer source kinds (the output is always a byte stream)
// Variants after the 8+8 documented kinds exercise the same dispatch arm with a
// different stream shape or through a pointer.

var consumeKinds = []string{
	"to:*csv.Writer", "to:CSVWriter", "to:io.Writer", "to:io.ReaderFrom",
	"to:BinaryUnmarshaler", "to:*[][]string", "to:*[]byte", "to:*string",
	"to:io.Writer/1byte-input",
}

var produceKinds = []string{
	"from:*csv.Reader", "from:CSVReader", "from:io.Reader", "from:io.WriterTo",
	"from:BinaryMarshaler", "from:[][]string", "from:[]byte", "from:string",
	"from:*[][]string", "from:*[]byte", "from:*string",
	"from:io.WriterTo/chunked", "from:io.Reader/1byte",
}

func isConsume(kind string) bool { return strings.HasPrefix(kind, "to:") }

// textInput: the kind receives the CSV text itself (as opposed to records).
func textInput(kind string) bool {
	switch kind {
	case "from:CSVReader", "from:[][]string", "from:*[][]string":
		return false
	}
	return true
}

// tableSource: the input of the kind is a record table; it exists only when the text parses.
func tableSource(kind string) bool { return kind == "from:[][]string" || kind == "from:*[][]string" }

// byteSink: what the kind delivers is CSV text that has to be parsed again.
func byteSink(kind string) bool {
	switch kind {
	case "to:CSVWriter", "to:*[][]string":
		return false
	}
	return true
}

// anyErrorOK: the pipe of a WriterTo that is still writing when the parser fails reports
// either the parser's error or the closed pipe, whichever goroutine finishes first. The
// identity of the error is therefore not compared for that kind (only that there is one).
func anyErrorOK(kind string) bool { return kind == "from:io.WriterTo/chunked" }

func numPre(kind string) int {
	switch kind {
	case "to:*[][]string":
		return 8
	case "to:*[]byte", "to:*string":
		return 3
	}
	return 1
}

// ---- doubles (each implements exactly the interface of its dispatch arm) ----

type sink struct{ b []byte }

func (s *sink) Write(p []byte) (int, error) { s.b = append(s.b, p...); return len(p), nil }

type recWriter struct {
	recs    [][]string
	flushes int
}

// Write records what is handed over at the time of the call (csv.Writer does the same: it
// encodes the record before returning), so a reused record slice is not held against the codec.
func (w *recWriter) Write(rec []string) error {
	cp := make([]string, len(rec))
	copy(cp, rec)
	w.recs = append(w.recs, cp)
	return nil
}
func (w *recWriter) Flush()       { w.flushes++ }
func (w *recWriter) Error() error { return nil }

type readerFrom struct{ b []byte }

func (d *readerFrom) ReadFrom(r io.Reader) (int64, error) {
	b, err := io.ReadAll(r)
	d.b = append(d.b, b...)
	return int64(len(b)), err
}

type unmarshaler struct{ b []byte }

func (d *unmarshaler) UnmarshalBinary(b []byte) error {
	d.b = append([]byte(nil), b...)
	return nil
}

type plainReader struct{ r io.Reader }

func (p plainReader) Read(b []byte) (int, error) { return p.r.Read(b) }

type recReader struct{ r *csv.Reader }

func (s recReader) Read() ([]string, error) { return s.r.Read() }

type writerTo struct {
	data    string
	chunked bool
}

func (w writerTo) WriteTo(dst io.Writer) (int64, error) {
	if !w.chunked {
		if w.data == "" {
			return 0, nil
		}
		n, err := io.WriteString(dst, w.data) // one Write, like bytes.Buffer.WriteTo
		return int64(n), err
	}
	var total int64
	for i := 0; i < len(w.data); i++ {
		n, err := io.WriteString(dst, w.data[i:i+1])
		total += int64(n)
		if err != nil {
			return total, err
		}
	}
	return total, nil
}

type marshaler struct{ data string }

func (m marshaler) MarshalBinary() ([]byte, error) { return []byte(m.data), nil }

// ---- options ----

func codecOpts(o Opts) []runtime.CSVOpt {
	var out []runtime.CSVOpt
	var rd csv.Reader
	setR := false
	if o.RComma {
		rd.Comma = ';'
		setR = true
	}
	if o.Comment {
		rd.Comment = '#'
		setR = true
	}
	if o.Lazy {
		rd.LazyQuotes = true
		setR = true
	}
	if o.Trim {
		rd.TrimLeadingSpace = true
		setR = true
	}
	if o.FPR != 0 {
		rd.FieldsPerRecord = o.FPR
		setR = true
	}
	if o.Reuse {
		rd.ReuseRecord = true
		setR = true
	}
	if setR {
		out = append(out, runtime.WithCSVReaderOpts(rd))
	}
	if o.CRLF || o.WComma {
		var wr csv.Writer
		if o.WComma {
			wr.Comma = ';'
		}
		wr.UseCRLF = o.CRLF
		out = append(out, runtime.WithCSVWriterOpts(wr))
	}
	if o.Skip != 0 {
		out = append(out, runtime.WithCSVSkipLines(o.Skip))
	}
	if o.Order > 0 && o.Order < numOrders(o) {
		listed := make([]runtime.CSVOpt, len(out))
		for i, from := range optionOrders[len(out)][o.Order] {
			listed[i] = out[from]
		}
		out = listed
	}
	return out
}

// optionOrders[k]: the permutations of a list of k options; index 0 is the canonical listing
// (reader options, writer options, skipped lines).
var optionOrders = [4][][]int{
	{{}}, {{0}}, {{0, 1}, {1, 0}},
	{{0, 1, 2}, {0, 2, 1}, {1, 0, 2}, {1, 2, 0}, {2, 0, 1}, {2, 1, 0}},
}

// numOrders: in how many orders the options that express the set can be listed (k! for k options).
func numOrders(o Opts) int {
	k := 0
	if hasReaderOpts(o) || o.Reuse {
		k++
	}
	if o.CRLF || o.WComma {
		k++
	}
	if o.Skip != 0 {
		k++
	}
	return len(optionOrders[k])
}

func writerComma(o Opts) rune {
	if o.WComma {
		return ';'
	}
	return ','
}

// ---- destination pre-states ----

func preTable(i int) [][]string {
	mk := func(n, c int) [][]string {
		t := make([][]string, n, c)
		for k := range t {
			t[k] = []string{fmt.Sprintf("old%d", k), "x"}
		}
		return t
	}
	switch i {
	case 0:
		return nil
	case 1:
		return mk(0, 8)
	case 2:
		return mk(1, 1)
	case 3:
		return mk(2, 2)
	case 4:
		return mk(3, 3)
	case 5:
		return mk(4, 4)
	case 6:
		return mk(6, 16)
	default:
		return mk(1, 10)
	}
}

func preBytes(i int) []byte {
	switch i {
	case 0:
		return nil
	case 1:
		return []byte("zz")
	default:
		return bytes.Repeat([]byte("z"), 64)
	}
}

// ---- one execution on the real code ----

// Outcome is what one call of Consume / Produce did.
type Outcome struct {
	Panic   string
	Hang    bool
	Err     error
	Raw     []byte     // bytes that reached a byte sink
	HasRaw  bool       //
	Recs    [][]string // records delivered to a record sink
	Alias   string     // two delivered records share memory
	Flushes int
}

func guard(out *Outcome, f func() error) {
	defer func() {
		if e := recover(); e != nil {
			out.Panic = fmt.Sprint(e)
		}
	}()
	out.Err = f()
}

func baseKind(kind string) string {
	if i := strings.IndexByte(kind, '/'); i >= 0 {
		return kind[:i]
	}
	return kind
}

// codec is one CSVConsumer / CSVProducer instance (built on first use). A fresh one per call is
// the single-call space; one shared by consecutive calls is the shared-instance sequence space.
type codec struct {
	opts []runtime.CSVOpt
	cons runtime.Consumer
	prod runtime.Producer
}

func newCodec(opts []runtime.CSVOpt) *codec { return &codec{opts: opts} }

func (c *codec) consumer() runtime.Consumer {
	if c.cons == nil {
		c.cons = runtime.CSVConsumer(c.opts...)
	}
	return c.cons
}

func (c *codec) producer() runtime.Producer {
	if c.prod == nil {
		c.prod = runtime.CSVProducer(c.opts...)
	}
	return c.prod
}

// horizon runs f (a body whose dispatch arm starts goroutines: WriterTo) with a horizon that
// turns a hang into a verdict: 30 s for an operation of microseconds, `attempts` times.
func horizon[T any](attempts int, f func() T) (res T, hang bool) {
	for attempt := 1; ; attempt++ {
		ch := make(chan T, 1)
		go func() { ch <- f() }()
		tm := time.NewTimer(30 * time.Second)
		select {
		case res = <-ch:
			tm.Stop()
			return res, false
		case <-tm.C:
			if attempt >= attempts {
				return res, true
			}
		}
	}
}

func usesGoroutines(kind string) bool { return strings.HasPrefix(kind, "from:io.WriterTo") }

// slot is where an explorer worker publishes the goroutine-using case it is executing, so
// that the watchdog can see a case that never returns without a timer per case.
type slot struct {
	c     atomic.Pointer[Case]
	since atomic.Int64
}

func (sl *slot) begin(c *Case) {
	sl.since.Store(time.Now().UnixNano())
	sl.c.Store(c)
}
func (sl *slot) end() { sl.c.Store(nil) }

// run executes one call on a fresh codec instance. text is the CSV text; table is the parsed
// record table for the record-table source kinds (ignored otherwise).
func run(sl *slot, opts []runtime.CSVOpt, kind string, text string, o Opts, pre int, table [][]string) (out Outcome) {
	if !usesGoroutines(kind) {
		return run1(newCodec(opts), kind, text, o, pre, table)
	}
	if sl == nil {
		out, hang := horizon(3, func() Outcome { return run1(newCodec(opts), kind, text, o, pre, table) })
		if hang {
			return Outcome{Hang: true}
		}
		return out
	}
	sl.begin(&Case{Kind: kind, Text: text, Opts: o, Pre: pre})
	out = run1(newCodec(opts), kind, text, o, pre, table)
	sl.end()
	return out
}

func run1(cd *codec, kind string, text string, o Opts, pre int, table [][]string) (out Outcome) {
	if isConsume(kind) {
		cons := cd.consumer()
		var in io.Reader = plainReader{strings.NewReader(text)}
		if strings.HasSuffix(kind, "/1byte-input") {
			in = iotest.OneByteReader(in)
		}
		switch baseKind(kind) {
		case "to:*csv.Writer":
			s := &sink{}
			w := csv.NewWriter(s)
			guard(&out, func() error { return cons.Consume(in, w) })
			if out.Panic == "" {
				w.Flush() // the owner of a csv.Writer flushes it; whether the codec already did is not forced
			}
			out.Raw, out.HasRaw = s.b, true
		case "to:CSVWriter":
			w := &recWriter{}
			guard(&out, func() error { return cons.Consume(in, w) })
			out.Recs, out.Flushes = w.recs, w.flushes
		case "to:io.Writer":
			s := &sink{}
			guard(&out, func() error { return cons.Consume(in, s) })
			out.Raw, out.HasRaw = s.b, true
		case "to:io.ReaderFrom":
			d := &readerFrom{}
			guard(&out, func() error { return cons.Consume(in, d) })
			out.Raw, out.HasRaw = d.b, true
		case "to:BinaryUnmarshaler":
			d := &unmarshaler{}
			guard(&out, func() error { return cons.Consume(in, d) })
			out.Raw, out.HasRaw = d.b, true
		case "to:*[][]string":
			d := preTable(pre)
			guard(&out, func() error { return cons.Consume(in, &d) })
			out.Alias = aliased(d)
			if out.Panic == "" && out.Alias == "" {
				out.Alias = hostileCaller(d)
			}
			out.Recs = d
		case "to:*[]byte":
			d := preBytes(pre)
			guard(&out, func() error { return cons.Consume(in, &d) })
			out.Raw, out.HasRaw = d, true
		case "to:*string":
			d := string(preBytes(pre))
			guard(&out, func() error { return cons.Consume(in, &d) })
			out.Raw, out.HasRaw = []byte(d), true
		default:
			panic("unknown kind " + kind)
		}
		return out
	}
	prod := cd.producer()
	var data interface{}
	switch baseKind(kind) {
	case "from:*csv.Reader":
		data = csv.NewReader(strings.NewReader(text))
	case "from:CSVReader":
		// a caller-supplied record reader: the caller configured it (the codec cannot)
		rr := csv.NewReader(strings.NewReader(text))
		configure(rr, o)
		rr.ReuseRecord = o.Reuse
		data = recReader{rr}
	case "from:io.Reader":
		var in io.Reader = plainReader{strings.NewReader(text)}
		if strings.HasSuffix(kind, "/1byte") {
			in = iotest.OneByteReader(in)
		}
		data = in
	case "from:io.WriterTo":
		data = writerTo{text, strings.HasSuffix(kind, "/chunked")}
	case "from:BinaryMarshaler":
		data = marshaler{text}
	case "from:[][]string":
		data = cloneTable(table)
	case "from:*[][]string":
		t := cloneTable(table)
		data = &t
	case "from:[]byte":
		data = []byte(text)
	case "from:*[]byte":
		b := []byte(text)
		data = &b
	case "from:string":
		data = text
	case "from:*string":
		s := text
		data = &s
	default:
		panic("unknown kind " + kind)
	}
	s := &sink{}
	guard(&out, func() error { return prod.Produce(s, data) })
	out.Raw, out.HasRaw = s.b, true
	return out
}

func cloneTable(t [][]string) [][]string {
	out := make([][]string, len(t))
	for i, r := range t {
		out[i] = append(make([]string, 0, len(r)), r...)
	}
	return out
}

// aliased reports whether two delivered records share memory: the ranges
// [data, data+cap) of two record slices overlap, so that writing (or appending) to
// one record changes another.
func aliased(t [][]string) string {
	type span struct{ lo, hi uintptr }
	strSize := unsafe.Sizeof("")
	sp := make([]span, len(t))
	for i, r := range t {
		if cap(r) == 0 {
			continue
		}
		p := reflect.ValueOf(r).Pointer()
		sp[i] = span{p, p + uintptr(cap(r))*strSize}
	}
	for i := range sp {
		for j := i + 1; j < len(sp); j++ {
			if sp[i].hi > sp[i].lo && sp[j].hi > sp[j].lo && sp[i].lo < sp[j].hi && sp[j].lo < sp[i].hi {
				return fmt.Sprintf("records %d and %d share a backing array", i, j)
			}
		}
	}
	return ""
}

// hostileCaller is the caller that owns the delivered table and uses each record as its own: for
// every record in turn it writes over the whole storage of that record - its fields and the spare
// capacity an append would use - and every OTHER record must still hold the text it was delivered
// with. The record's own fields are put back afterwards, so the table is returned as delivered.
func hostileCaller(t [][]string) string {
	snap := cloneTable(t)
	for i := range t {
		full := t[i][:cap(t[i])]
		for k := range full {
			full[k] = "\x00scribbled by the caller"
		}
		for j := range t {
			if j == i {
				continue
			}
			for k := range snap[j] {
				if t[j][k] != snap[j][k] {
					got, want := t[j][k], snap[j][k]
					for q := range t {
						copy(t[q], snap[q]) // shown as delivered
					}
					return fmt.Sprintf("after the caller appended to / wrote over record %d (len %d, cap %d), field %d of record %d reads %q instead of %q",
						i, len(snap[i]), cap(t[i]), k, j, got, want)
				}
			}
		}
		copy(t[i], snap[i])
	}
	return ""
}

// tableTexts is the record-count axis for record tables: every sequence of at most maxRecs records
// of 1, 2 or 3 fields "a" (comma separated, one record per line, no trailing newline) that is longer
// than the longest text of the primary space.
func tableTexts(maxRecs, longerThan int) []string {
	var out []string
	level := []string{""}
	for r := 1; r <= maxRecs; r++ {
		var next []string
		for _, prefix := range level {
			for _, rec := range []string{"a", "a,a", "a,a,a"} {
				t := rec
				if prefix != "" {
					t = prefix + "\n" + rec
				}
				next = append(next, t)
				if len(t) > longerThan {
					out = append(out, t)
				}
			}
		}
		level = next
	}
	return out
}

// ---- shared-instance sequences ----

// seqTable: the record table a record-table source call hands over (nil, false when the text
// does not parse under the reader options: the call does not exist then).
func seqTable(call Call, o Opts) ([][]string, bool) {
	if !tableSource(call.Kind) {
		return nil, true
	}
	w := parse(call.Text, readerOpts(o))
	return w.recs, w.err == nil
}

// runSeq executes the calls one after the other on ONE codec instance (fresh destinations and
// sources per call: only the CSVConsumer / CSVProducer value is shared).
func runSeq(opts []runtime.CSVOpt, o Opts, calls []Call) []Outcome {
	cd := newCodec(opts)
	outs := make([]Outcome, len(calls))
	for i, c := range calls {
		table, _ := seqTable(c, o)
		outs[i] = run1(cd, c.Kind, c.Text, o, c.Pre, table)
	}
	return outs
}

func seqUsesGoroutines(calls []Call) bool {
	for _, c := range calls {
		if usesGoroutines(c.Kind) {
			return true
		}
	}
	return false
}

// outKey is everything observable of one call, for the differential comparison of a call on a
// shared instance with the same call on a fresh instance.
func outKey(kind string, out Outcome) string {
	switch {
	case out.Hang:
		return "hang"
	case out.Panic != "":
		return "panic: " + out.Panic
	case out.Err != nil:
		if anyErrorOK(kind) {
			return "error"
		}
		return "error: " + out.Err.Error()
	case out.HasRaw:
		return fmt.Sprintf("bytes %q", out.Raw)
	}
	k := fmt.Sprintf("records %q", out.Recs)
	if out.Alias != "" {
		k += " aliased"
	}
	return k
}
