#!/bin/bash
# Detection demo for C16: applies each mutants/*.diff to a scratch worktree of /repo (never to /repo),
# runs the repository's own tests and `./run C16 <tier>` against it. Usage: props/c16/mutants.sh [quick|thorough] [name-prefix]
set -u
export GOFLAGS=-mod=mod GOPROXY=off GOSUMDB=off GOTOOLCHAIN=local
tier=${1:-quick}; only=${2:-}
wt=/tmp/c16-mut-$$
git -C /repo worktree add -q "$wt" HEAD || exit 2
trap 'git -C /repo worktree remove --force "$wt"' EXIT
for d in /verif/props/c16/mutants/${only}*.diff; do
  git -C "$wt" checkout -q -- . && git -C "$wt" apply "$d" || { echo "cannot apply $d"; continue; }
  echo "=== $(basename "$d" .diff)"
  if (cd "$wt" && go test -vet=off -count=1 ./... >/tmp/c16-mut-$$.log 2>&1); then echo "repo tests: pass"; else echo "repo tests: FAIL ($(grep -c '^--- FAIL' /tmp/c16-mut-$$.log) failing tests)"; fi
  rm -f /tmp/c16-mut-$$.log
  VERIF_REPO="$wt" /verif/run C16 "$tier" 2>&1 | grep -v '^KNOWN-FINDING' | cut -c1-260
done
