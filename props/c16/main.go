// C16 - CSV codec delivers exactly the parsed records for every source and
// destination kind and every option set. Small-scope exhaustive enumeration (E1):
// every CSV text up to a length over an 8-symbol alphabet x every source /
// destination kind x option sets x destination pre-states, each executed on the
// real CSVConsumer / CSVProducer and compared with encoding/csv configured
// directly from the abstract options.
package main

import (
	"encoding/json"
	"fmt"
	"os"
	"runtime"
	"strconv"
	"sync"
	"sync/atomic"
	"time"

	"verif/engine/enum"
	"verif/engine/report"
	"verif/engine/sched"
)

var alphabet = []string{"a", ",", ";", "\"", "\n", "\r", " ", "#"}

// ---- option sets ----

type optVal struct {
	axis int
	set  func(*Opts)
}

var optVals = []optVal{
	{0, func(o *Opts) { o.RComma = true }},
	{1, func(o *Opts) { o.Comment = true }},
	{2, func(o *Opts) { o.Lazy = true }},
	{3, func(o *Opts) { o.Trim = true }},
	{4, func(o *Opts) { o.FPR = -1 }},
	{4, func(o *Opts) { o.FPR = 2 }},
	{5, func(o *Opts) { o.Skip = 1 }},
	{5, func(o *Opts) { o.Skip = 2 }},
	{5, func(o *Opts) { o.Skip = 9 }},
	{6, func(o *Opts) { o.CRLF = true }},
	{7, func(o *Opts) { o.Reuse = true }},
	{8, func(o *Opts) { o.WComma = true }},
}

// pairSets: the default, every single option value, every pair of values of two different options.
func pairSets() []Opts {
	out := []Opts{{}}
	for _, v := range optVals {
		var o Opts
		v.set(&o)
		out = append(out, o)
	}
	for i, v := range optVals {
		for _, w := range optVals[i+1:] {
			if v.axis == w.axis {
				continue
			}
			var o Opts
			v.set(&o)
			w.set(&o)
			out = append(out, o)
		}
	}
	return out
}

// singleSets: the default and every single option value.
func singleSets() []Opts { return pairSets()[:1+len(optVals)] }

// skipPairSets: the default, every single option value, and every pair made of a skip count within
// the record count (1, 2) and a value of another option (the skip count is the option that
// interacts with the number of records).
func skipPairSets() []Opts {
	out := singleSets()
	for _, v := range optVals[6:8] { // Skip = 1, Skip = 2
		for _, w := range optVals {
			if w.axis == 5 {
				continue
			}
			var o Opts
			v.set(&o)
			w.set(&o)
			out = append(out, o)
		}
	}
	return out
}

// fullSets: the full product of all option values.
func fullSets() []Opts {
	var out []Opts
	b := []bool{false, true}
	enum.Product([]int{2, 2, 2, 2, 3, 4, 2, 2, 2}, func(i []int) {
		out = append(out, Opts{RComma: b[i[0]], Comment: b[i[1]], Lazy: b[i[2]], Trim: b[i[3]],
			FPR: []int{0, -1, 2}[i[4]], Skip: []int{0, 1, 2, 9}[i[5]], CRLF: b[i[6]], Reuse: b[i[7]], WComma: b[i[8]]})
	})
	return out
}

var preKinds = []string{"to:*[][]string", "to:*[]byte", "to:*string"}

// ---- counters of one shard ----

type tally struct {
	evals, nontrivial int64
	outcomes          map[string]int64
	ambiguous         int64            // executions where the two readings of "skipped lines" differ
	tookLines         map[string]int64 // ... and the kind met only the physical-lines reading
	notApplicable     int64
	pipeErr           int64
	roundtripTexts    int64
	reordered         int64 // executions with the options listed in another order than the canonical one
}

func newTally() *tally { return &tally{outcomes: map[string]int64{}, tookLines: map[string]int64{}} }

type explorer struct {
	r         *report.R
	allKinds  []string
	maxLen    int      // texts up to this length are the primary space
	seed      int      // VERIF_SEED folded to a small non-negative number
	seenSink  sync.Map // sink texts already sent through the consumer
	slots     []*slot
	free      chan *slot
	ambig     atomic.Int64
	linesMu   sync.Mutex
	lines     map[string]int64
	napp      atomic.Int64
	pipeErr   atomic.Int64
	rtTexts   atomic.Int64
	reordered atomic.Int64
	sampleN   atomic.Int64

	seqSamples   atomic.Int64
	faultSamples int
	seqCalls     atomic.Int64
}

func (e *explorer) record(t *tally, c Case, v verdict) {
	t.evals++
	if v.nontrivial {
		t.nontrivial++
	}
	t.outcomes[v.label]++
	if v.pipeErr {
		t.pipeErr++
	}
	if v.ambiguous {
		t.ambiguous++
		if v.class == "" && v.mask == 2 {
			t.tookLines[c.Kind]++
		}
	}
	if v.class != "" {
		e.r.Fail(v.class, v.what, c)
	}
}

// shard explores one text with the given option sets: every kind, agreement of the kinds,
// destination pre-states, and the consumer on every new sink text the producer/consumer emitted.
func (e *explorer) shard(idx int, text string, sets []Opts) {
	t := newTally()
	x := newCtx(text)
	x.slot = <-e.free
	defer func() { e.free <- x.slot }()
	for oi, o := range sets {
		and := -1
		type km struct {
			kind string
			mask int
		}
		var masks []km
		for _, kind := range e.allKinds {
			v, ok := x.evalSingle(kind, o, 0)
			if !ok {
				t.notApplicable++
				continue
			}
			e.record(t, Case{Kind: kind, Text: text, Opts: o}, v)
			if textInput(kind) && v.class == "" {
				and &= v.mask
				masks = append(masks, km{kind, v.mask})
			}
			if oi == 0 && kind == e.allKinds[(idx+e.seed)%len(e.allKinds)] && (idx+e.seed)%301 == 7 && e.sampleN.Add(1) <= 8 {
				e.r.Sample(map[string]any{"case": Case{Kind: kind, Text: text, Opts: o}, "observed": x.showOut(kind, o, v.out)})
			}
		}
		if and == 0 {
			// all kinds agree with one another: two kinds took different readings
			for i := range masks {
				for j := i + 1; j < len(masks); j++ {
					if masks[i].mask&masks[j].mask == 0 {
						c := Case{Mode: "agree", Kind: masks[i].kind, Kind2: masks[j].kind, Text: text, Opts: o}
						cl, what := check(c)
						if cl == "" {
							cl, what = "kinds-disagree", "the kinds take different readings of the skipped lines"
						}
						e.r.Fail(cl, what, c)
						i = len(masks)
						break
					}
				}
			}
		}
		// the order in which the options are listed: the property speaks of option SETS, so every
		// other listing of the same options must pass the same oracle (fresh destinations)
		for ord := 1; ord < numOrders(o); ord++ {
			oo := o
			oo.Order = ord
			for _, kind := range e.allKinds {
				v, ok := x.evalSingle(kind, oo, 0)
				if !ok {
					t.notApplicable++
					continue
				}
				e.record(t, Case{Kind: kind, Text: text, Opts: oo}, v)
				t.reordered++
			}
		}
		for _, kind := range preKinds {
			if kind == "to:*[][]string" && (o.CRLF || o.WComma) {
				continue // writer options do not reach a record table (checked with the fresh destination above)
			}
			for pre := 1; pre < numPre(kind); pre++ {
				v, _ := x.evalSingle(kind, o, pre)
				e.record(t, Case{Kind: kind, Text: text, Opts: o, Pre: pre}, v)
			}
		}
	}
	// the consumer on the texts that the codec itself wrote (longer than the primary space)
	for k := range x.sinks {
		text2 := k[1:]
		if len(text2) <= e.maxLen {
			continue // inside the primary space
		}
		if _, dup := e.seenSink.LoadOrStore(k, true); dup {
			continue
		}
		t.roundtripTexts++
		o2 := Opts{RComma: k[0] == ';', FPR: -1}
		x2 := newCtx(text2)
		x2.slot = x.slot
		for _, kind := range consumeKinds {
			v, _ := x2.evalSingle(kind, o2, 0)
			e.record(t, Case{Kind: kind, Text: text2, Opts: o2}, v)
		}
	}
	e.r.Eval(t.evals)
	e.r.Nontrivial(t.nontrivial)
	for k, v := range t.outcomes {
		e.r.Outcome(k, v)
	}
	e.ambig.Add(t.ambiguous)
	if len(t.tookLines) > 0 {
		e.linesMu.Lock()
		for k, v := range t.tookLines {
			e.lines[k] += v
		}
		e.linesMu.Unlock()
	}
	e.napp.Add(t.notApplicable)
	e.pipeErr.Add(t.pipeErr)
	e.rtTexts.Add(t.roundtripTexts)
	e.reordered.Add(t.reordered)
}

// watchdog: a goroutine-using case (WriterTo pipe) that has not returned after 30 s is
// executed again twice under the same horizon; 3 of 3 is reported as a hang and ends the run
// (the stuck worker cannot be recovered).
func (e *explorer) watchdog() {
	for {
		time.Sleep(5 * time.Second)
		for _, sl := range e.slots {
			c := sl.c.Load()
			if c == nil || time.Since(time.Unix(0, sl.since.Load())) < 30*time.Second {
				continue
			}
			if _, hang := horizon(2, func() bool { rawRun(*c); return true }); !hang {
				continue // it was the machine, not the codec
			}
			if sl.c.Load() != c {
				continue
			}
			e.r.Fail("hang", "the codec does not return: no return within 30 s (3 of 3)", *c)
			e.r.Finish("cut short by a call that never returned", false)
		}
	}
}

// rawRun executes a case on the real code without judging it (watchdog re-execution).
func rawRun(c Case) {
	opts := codecOpts(c.Opts)
	if c.Mode == "seq" {
		runSeq(opts, c.Opts, c.Calls)
		return
	}
	var table [][]string
	if w := parse(c.Text, readerOpts(c.Opts)); w.err == nil {
		table = w.recs
	}
	run1(newCodec(opts), c.Kind, c.Text, c.Opts, c.Pre, table)
}

// ---- shared-instance sequences ----
//
// One CSVConsumer (or CSVProducer) value serves 2 or 3 consecutive calls; every ordered tuple of
// calls over (kinds x colliding texts) is executed on a fresh instance of its own, and each call
// must give exactly what the same call gives on a fresh instance (differential oracle; the
// fresh-instance results are the ones the single-call sweep judges against encoding/csv).

// seqTexts collide on what an instance could remember: 0, 1, 2, 3 records (against skip counts
// 1, 2, 9), ragged rows (fields per record), malformed quoting (an error), a comment line, the
// other separator.
var seqTexts = []string{"", "a", "a\na\na", "\"", "a;a", "a\na", "a\n,a", "#\na"}

type seqSweep struct {
	name          string
	kindsC        []string
	kindsP        []string
	texts         []string
	length        int
	sets          []Opts
	excludingSets []Opts // option sets already covered by an earlier sweep with a superset of calls
}

type seqShard struct {
	sw      *seqSweep
	o       Opts
	consume bool
}

func (e *explorer) seqShard(si int, sh seqShard) {
	sl := <-e.free
	defer func() { e.free <- sl }()
	kinds := sh.sw.kindsP
	if sh.consume {
		kinds = sh.sw.kindsC
	}
	opts := codecOpts(sh.o)
	// the calls that exist under this option set, and their fresh-instance results
	var calls []Call
	var fresh []string
	var nontrivial []bool
	var evals, nt, same, differ int64
	for _, k := range kinds {
		for _, t := range sh.sw.texts {
			c := Call{Kind: k, Text: t}
			table, ok := seqTable(c, sh.o)
			if !ok {
				continue
			}
			out := run(sl, opts, k, t, sh.o, 0, table)
			evals++
			calls = append(calls, c)
			fresh = append(fresh, outKey(k, out))
			nontrivial = append(nontrivial, out.Panic != "" || out.Err != nil || len(out.Raw) > 0 || len(out.Recs) > 0)
		}
	}
	n := len(calls)
	if n == 0 {
		e.r.Eval(evals)
		return
	}
	idx := make([]int, sh.sw.length)
	seq := make([]Call, sh.sw.length)
	for {
		gor := false
		for j, i := range idx {
			seq[j] = calls[i]
			gor = gor || usesGoroutines(calls[i].Kind)
		}
		var pub *Case
		if gor {
			pub = &Case{Mode: "seq", Opts: sh.o, Calls: append([]Call(nil), seq...)}
			sl.begin(pub)
		}
		cd := newCodec(opts)
		for j, i := range idx {
			table, _ := seqTable(calls[i], sh.o)
			out := run1(cd, calls[i].Kind, calls[i].Text, sh.o, 0, table)
			evals++
			if nontrivial[i] {
				nt++
			}
			if outKey(calls[i].Kind, out) == fresh[i] {
				same++
				continue
			}
			differ++
			c := Case{Mode: "seq", Opts: sh.o, Calls: append([]Call(nil), seq[:j+1]...)}
			cl, what := seqVerdictAt(c, j, out, fresh[i])
			e.r.Fail(cl, what, c)
			break // the rest of the sequence runs on an instance already known to deviate
		}
		if gor {
			sl.end()
		}
		if (si+e.seed)%37 == 5 && idx[0] == n/2 && idx[len(idx)-1] == n/3 && e.seqSamples.Add(1) <= 2 {
			e.r.Sample(map[string]any{"case": Case{Mode: "seq", Opts: sh.o, Calls: append([]Call(nil), seq...)}, "observed": "every call = its fresh-instance result", "fresh_result_of_last_call": fresh[idx[len(idx)-1]]})
		}
		// next tuple
		k := len(idx) - 1
		for k >= 0 {
			idx[k]++
			if idx[k] < n {
				break
			}
			idx[k] = 0
			k--
		}
		if k < 0 {
			break
		}
	}
	e.r.Eval(evals)
	e.r.Nontrivial(nt)
	e.r.Outcome("shared instance: call equals its fresh-instance result", same)
	if differ > 0 {
		e.r.Outcome("shared instance: call differs from its fresh-instance result", differ)
	}
	e.seqCalls.Add(same + differ)
}

func main() {
	sched.WorkerMain(exploreCodec)
	r := report.Start("C16", "exploration")
	if r.Replay != "" {
		var probe struct {
			Kind string `json:"kind"`
		}
		r.LoadReplay(&probe)
		if probe.Kind == "codec-schedule" {
			var sc SchedCase
			r.LoadReplay(&sc)
			cl, what := replayCodecSchedule(sc)
			fmt.Printf("replay %+v\n  class=%q\n  %s\n", sc, cl, what)
			if cl != "" {
				r.Fail(cl, what, sc)
			}
			r.Eval(1)
			r.Nontrivial(2)
			r.Sample(sc)
			r.Finish("replay of one schedule", false)
		}
		var c Case
		r.LoadReplay(&c)
		cl, what := check(c)
		cj, _ := json.Marshal(c)
		fmt.Printf("replay %s\n  class=%q\n  %s\n", cj, cl, what)
		if n, _ := strconv.Atoi(os.Getenv("C16_REPEAT")); n > 0 {
			// aid for scheduling-dependent behaviour (WriterTo pipe): repeat the case, print the distribution
			dist := map[string]int{}
			for i := 0; i < n; i++ {
				x := newCtx(c.Text)
				v, _ := x.evalSingle(c.Kind, c.Opts, c.Pre)
				dist[fmt.Sprintf("class=%q %s", v.class, x.showOut(c.Kind, c.Opts, v.out))]++
			}
			for k, v := range dist {
				fmt.Printf("  %d x %s\n", v, k)
			}
		}
		if cl != "" {
			r.Fail(cl, what, c)
		}
		r.Eval(1)
		r.Nontrivial(2)
		r.Sample(c)
		r.Finish("replay of one case", false)
	}

	// option sets by text length: tiers[k] applies to the texts of length lens[k-1]+1 .. lens[k]
	type tier struct {
		name   string
		maxLen int
		sets   []Opts
	}
	tiers := []tier{{"full_product", 1, fullSets()}, {"default_singles_pairs", 3, pairSets()}, {"default_singles", 4, singleSets()}}
	if r.Thorough() {
		tiers = []tier{{"full_product", 3, fullSets()}, {"default_singles_pairs", 4, pairSets()}, {"default_singles_skip_pairs", 5, skipPairSets()}}
	}
	maxLen := tiers[len(tiers)-1].maxLen
	texts := enum.Strings(alphabet, maxLen)
	setsOf := make([][]Opts, maxLen+1)
	tierInfo := []map[string]any{}
	lo := 0
	for _, t := range tiers {
		for l := lo; l <= t.maxLen; l++ {
			setsOf[l] = t.sets
		}
		tierInfo = append(tierInfo, map[string]any{"option_sets": t.name, "count": len(t.sets), "text_len_from": lo, "text_len_to": t.maxLen,
			"texts": len(enum.Strings(alphabet, t.maxLen)) - func() int {
				if lo == 0 {
					return 0
				}
				return len(enum.Strings(alphabet, lo-1))
			}()})
		lo = t.maxLen + 1
	}
	e := &explorer{r: r, maxLen: maxLen, seed: int((r.Seed%100003 + 100003) % 100003), lines: map[string]int64{}}
	e.allKinds = append(append([]string{}, consumeKinds...), produceKinds...)

	r.Set("text_alphabet", alphabet)
	r.Set("texts", len(texts))
	r.Set("tiers", tierInfo)
	r.Set("kinds", e.allKinds)
	r.Set("destination_pre_states", map[string]int{"*[][]string": numPre("to:*[][]string"), "*[]byte": 3, "*string": 3})

	for i := 0; i < 2*runtime.NumCPU(); i++ {
		e.slots = append(e.slots, &slot{})
	}
	e.free = make(chan *slot, len(e.slots))
	for _, sl := range e.slots {
		e.free <- sl
	}
	go e.watchdog()

	// VERIF_SEED rotates the visiting order (and with it the samples) only
	n := len(texts)
	enum.Parallel(n, r.OutOfTime, func(i int) {
		idx := (i + e.seed) % n
		e.shard(idx, texts[idx], setsOf[len(texts[idx])])
	})

	// record-count axis: tables of up to 5 (thorough 6) records of 1..3 fields, through the same shard
	// (every kind, option-list orders, destination pre-states; the hostile caller acts on every
	// delivered table of the whole run)
	maxRecs := 5
	if r.Thorough() {
		maxRecs = 6
	}
	tables := tableTexts(maxRecs, maxLen)
	tableSets := skipPairSets()
	enum.Parallel(len(tables), r.OutOfTime, func(i int) {
		idx := (i + e.seed) % len(tables)
		e.shard(idx, tables[idx], tableSets)
	})
	r.Set("record_count_axis", map[string]any{"texts": len(tables), "shape": "every sequence of 1.." + strconv.Itoa(maxRecs) + " records of 1, 2 or 3 fields \"a\" (ragged included), longer than the primary texts",
		"option_sets": len(tableSets), "option_sets_name": "default_singles_skip_pairs", "kinds": "all, with option-list orders and destination pre-states as in the primary space"})
	r.Set("hostile_caller", "after every Consume into a *[][]string (all texts, option sets, pre-states) the caller writes over the whole storage of each delivered record in turn (fields and spare capacity, i.e. what append would touch); every other record must keep its delivered text; reported with the address-range overlap test as class alias")

	// shared-instance sequences
	base := func(ks []string) []string { return ks[:8] } // the 8 documented kinds of each direction
	sweeps := []*seqSweep{{name: "pairs_all_kinds", kindsC: consumeKinds, kindsP: produceKinds, texts: seqTexts[:5], length: 2, sets: pairSets()}}
	if r.Thorough() {
		sweeps = []*seqSweep{
			{name: "pairs_all_kinds", kindsC: consumeKinds, kindsP: produceKinds, texts: seqTexts, length: 2, sets: pairSets()},
			{name: "pairs_documented_kinds_full_option_product", kindsC: base(consumeKinds), kindsP: base(produceKinds), texts: seqTexts[:4], length: 2, sets: fullSets(), excludingSets: pairSets()},
			{name: "triples_documented_kinds", kindsC: base(consumeKinds), kindsP: base(produceKinds), texts: seqTexts[1:4], length: 3, sets: pairSets()},
		}
	}
	var shards []seqShard
	seqInfo := []map[string]any{}
	for _, sw := range sweeps {
		skip := map[Opts]bool{}
		for _, o := range sw.excludingSets {
			skip[o] = true
		}
		nsets := 0
		for _, o := range sw.sets {
			if skip[o] {
				continue
			}
			nsets++
			shards = append(shards, seqShard{sw, o, true}, seqShard{sw, o, false})
		}
		seqInfo = append(seqInfo, map[string]any{"sweep": sw.name, "calls_per_sequence_on_one_instance": sw.length, "consumer_kinds": len(sw.kindsC), "producer_kinds": len(sw.kindsP),
			"texts": sw.texts, "option_sets": nsets, "sequences": "every ordered tuple of (kind, text) calls of one direction, one fresh instance per tuple"})
	}
	enum.Parallel(len(shards), r.OutOfTime, func(i int) {
		si := (i + e.seed) % len(shards)
		e.seqShard(si, shards[si])
	})
	e.faultSweep()
	r.Set("shared_instance_sequences", seqInfo)
	r.Set("shared_instance_calls_compared_with_fresh_instance", e.seqCalls.Load())

	r.Set("executions_where_record_and_line_readings_of_skip_differ", e.ambig.Load())
	r.Set("of_those_matching_only_the_physical_line_reading_by_kind", e.lines)
	r.Set("record_table_sources_without_input_(text_does_not_parse)", e.napp.Load())
	r.Set("chunked_writerto_calls_that_returned_closed_pipe_instead_of_the_parser_error_(scheduling_dependent,_not_judged)", e.pipeErr.Load())
	r.Set("codec_written_texts_fed_back_to_the_consumer", e.rtTexts.Load())
	r.Set("option_list_orders", map[string]any{"axis": "every permutation of the listed options (WithCSVReaderOpts, WithCSVWriterOpts, WithCSVSkipLines) that express the option set: 1, 2 or 6 orders for 1, 2 or 3 listed options",
		"applies_to":                            "every option set of every tier x every text x every kind (fresh destinations); judged by the same oracle, which does not see the order",
		"executions_with_a_non_canonical_order": e.reordered.Load()})
	r.Assume("encoding/csv (reader and writer of the Go standard library) is the definition of 'a standard CSV parse'",
		"the reference reader is configured directly from the abstract option set, never through the code under test",
		"a WriterTo source writes its text in one Write (as bytes.Buffer does); the variant that writes byte by byte is held to 'some error' on malformed input, because which goroutine's error wins is scheduling")
	// overlapping calls on one codec value: every schedule within the preemption bound (controlled scheduler)
	codecScheduleSweep(r)
	r.Finish("every text over the 8-symbol alphabet up to the stated length x every kind (9 consumer destinations, 13 producer sources) x the option sets of the text's length tier (full product of the 9 option axes on the shortest texts, then default+singles+pairs, then default+singles[+pairs with a skip count]) x every order in which the options expressing the set can be listed in the constructor call (k! listings of k <= 3 options, fresh destinations) x destination pre-states of *[][]string / *[]byte / *string (canonical listing), plus every consumer destination on each distinct longer text the codec itself wrote; plus the record-count axis: every sequence of up to 5 (thorough 6) records of 1..3 fields not already in the primary space, default+singles+pairs-with-a-skip-count option sets, through the same kinds, orders and pre-states; every table delivered into a *[][]string is then handed to a hostile caller that writes over the storage (fields and spare capacity) of each record in turn, after which all other records must be unchanged; plus shared-instance sequences: one CSVConsumer / CSVProducer value serving 2 (thorough also 3) consecutive calls, every ordered tuple of (kind, text) calls over the stated colliding texts per option set, every call compared with the same call on a fresh instance; plus environment faults: for the 16 documented kinds x 5 texts (one above 4096 bytes) x 4 option sets, one execution per destination-side and per source-side operation of the fault-free run with exactly that operation failing, a delivered fault must come back as an error; one evaluation = one Consume or Produce call on the real codec compared with encoding/csv; non-trivial = the call delivered at least one record, returned an error or panicked (distinct by construction: the enumerator never repeats a (kind, text, options, option-list order, pre-state) tuple nor a (options, call sequence) tuple; codec-written texts are deduplicated and only used when longer than the longest enumerated text)", true)
}
