// C06 - content-type gate: a body is decoded only by the consumer of an admitted
// media type, else 415 (400 for an unparsable header); no body, no gate; the
// typed (BindValidRequest) and the reflective (BindAndValidate) entry points
// agree. Small-scope exhaustive enumeration (E1) of API configurations x
// requests on the real middleware, compared with the three-valued reference
// model of model.go.
package main

import (
	"fmt"
	"runtime/debug"
	"sort"
	"strings"
	"sync/atomic"
	"time"
	"unicode"

	"verif/engine/enum"
	"verif/engine/report"
)

// ---- Content-Type header alphabet (abstract value -> spelling) ----

var baseTypes = []string{"application/json", "text/plain", "text/csv", "application/octet-stream", "application/jsonx", "image/png"}

var caseNames = []string{"lower", "UPPER", "Title", "aLtErNaTe"}

func spell(mt string, cv int) string {
	switch cv {
	case 1:
		return strings.ToUpper(mt)
	case 2:
		rs := []rune(mt)
		up := true
		for i, r := range rs {
			if up {
				rs[i] = unicode.ToUpper(r)
			}
			up = r == '/' || r == '-'
		}
		return string(rs)
	case 3:
		rs := []rune(mt)
		for i, r := range rs {
			if i%2 == 1 {
				rs[i] = unicode.ToUpper(r)
			}
		}
		return string(rs)
	}
	return mt
}

// header-name spelling travels with the case variant (net/http canonicalises it)
var nameFor = []string{"Content-Type", "CONTENT-TYPE", "Content-Type", "content-type"}

// parameter / whitespace spellings, all valid by RFC 7231 (OWS = *(SP / HTAB) around ';')
var suffixes = []string{
	"",
	";charset=utf-8",
	"; charset=utf-8",
	" ; charset=utf-8",
	";\tcharset=utf-8",
	";   charset=utf-8",
	"; charset=\"utf-8\"",
	"; CHARSET=UTF-8",
	"; charset=utf-8; boundary=xyz",
	"; boundary=\"a;b/c, text/csv\"; charset=utf-8",
	";q=0.5",
	"; version=1",
}

func validHeaders(thorough bool) []Header {
	var out []Header
	for _, b := range baseTypes {
		for cv := range caseNames {
			for si, s := range suffixes {
				// thorough: full case x parameter-spelling product for the four listed/default-reachable types,
				// except that the Title-case variant is only sent bare
				full := thorough && b != "application/jsonx" && b != "image/png" && cv != 2
				if !full && !(cv == 0 || si == 0 || (cv == 1 && (si == 2 || si == 9))) {
					// quick (and the two never-exactly-listed types in thorough): every case variant bare,
					// every parameter spelling in lower case, two mixed; otherwise the full product
					continue
				}
				if !thorough && si != 0 && (b == "application/octet-stream" || b == "application/jsonx" || b == "image/png") {
					continue // quick: parameter spellings only for the three types that lists name or reach by text/*
				}
				out = append(out, Header{Lines: []string{spell(b, cv) + s}, Name: nameFor[cv], Kind: "valid", MTs: []string{b}})
			}
		}
	}
	return out
}

func specialHeaders() []Header {
	mal := func(v string) Header { return Header{Lines: []string{v}, Kind: "malformed"} }
	amb := func(v string, mts ...string) Header { return Header{Lines: []string{v}, Kind: "ambiguous", MTs: mts} }
	return []Header{
		{Lines: nil, Kind: "absent"},
		{Lines: []string{""}, Kind: "absent"},
		// type/subtype broken: no reading as a media type exists
		mal("a/b/c"), mal("text/"), mal("/plain"), mal("/"), mal("text/pl ain"), mal("text plain"), mal("text/plain/"),
		mal(";charset=utf-8"), mal("text/;charset=utf-8"), mal("tëxt/plain"), mal("text/plain=1"), mal("(text)/plain"),
		mal("application/json/; charset=utf-8"),
		// debatable: a strict parser refuses, a tolerant one reads a media type
		amb("garbage", BAD, "garbage"),
		amb("text/plain;", BAD, "text/plain"),
		amb("text/plain; charset=utf-8;", BAD, "text/plain"),
		amb("text/plain;;charset=utf-8", BAD, "text/plain"),
		amb("text/plain; charset=", BAD, "text/plain"),
		amb("text/plain; charset", BAD, "text/plain"),
		amb("text/plain; =x", BAD, "text/plain"),
		amb("text/plain; charset=utf-8 x", BAD, "text/plain"),
		amb("text/plain; charset=utf-8; charset=utf-16", BAD, "text/plain"),
		amb("text/plain; charset=\"utf-8", BAD, "text/plain"),
		amb("application/json; charset=utf-8;", BAD, "application/json"),
		amb("TEXT/CSV;", BAD, "text/csv"),
		amb("application/json, text/plain", BAD, "application/json", "text/plain"),
		amb("text/csv,application/json", BAD, "text/csv", "application/json"),
		amb("text/*", BAD, "text/*"),
		amb("*/*", BAD, "*/*"),
		amb("*", BAD, "*"),
		{Lines: []string{"text/plain", "application/json"}, Kind: "ambiguous", MTs: []string{BAD, "text/plain", "application/json"}},
		{Lines: []string{"image/png", "text/csv"}, Kind: "ambiguous", MTs: []string{BAD, "image/png", "text/csv"}},
		{Lines: []string{"a/b/c", "text/plain"}, Kind: "ambiguous", MTs: []string{BAD, "text/plain"}},
	}
}

// ---- configurations ----

func configs(thorough bool) []Config {
	type shape struct {
		where string
		body  bool
	}
	universe := consumesUniverse[:6]
	maxLen := 2
	if thorough {
		universe = consumesUniverse
		maxLen = 3
	}
	var out []Config
	for _, set := range enum.Subsets(len(universe), 0, maxLen) {
		entries := make([]string, len(set))
		for i, k := range set {
			entries[i] = universe[k]
		}
		sort.Strings(entries)
		defaults := []string{"application/json", ""}
		shapes := []shape{{"op", true}}
		if thorough && len(set) <= 2 {
			// lists of up to two entries: also a third API default and (for the first two defaults) the list
			// declared at the top level of the description, and an operation without body parameter
			defaults = append(defaults, "text/plain")
			shapes = append(shapes, shape{"global", true}, shape{"op", false})
		}
		for _, d := range defaults {
			for _, reg := range []string{"all", "sparse"} {
				if reg == "sparse" && ((!thorough && len(set) > 1) || len(set) > 2) {
					continue // the sparse registration only with lists of at most one (thorough: two) entries
				}
				for si, sh := range shapes {
					if si > 0 && d == "text/plain" {
						continue
					}
					out = append(out, Config{Consumes: entries, Where: sh.where, Default: d, Reg: reg, BodyParam: sh.body})
				}
			}
		}
	}
	return out
}

func seedMod(seed int64, n int) int {
	return int(((seed % int64(n)) + int64(n)) % int64(n))
}

func effectiveLen(c Config) int {
	n := len(c.Consumes)
	if c.Default != "" && !contains(c.Consumes, c.Default) {
		n++
	}
	return n
}

func outcomeLabel(o obs, carries string) string {
	pre := o.Entry + "/body-" + carries
	switch {
	case o.Panic != "":
		return pre + "/panic"
	case o.Status == 200 && len(o.Consumed) > 0:
		return pre + "/200-decoded"
	case o.Status == 200:
		return pre + "/200-not-decoded"
	}
	return fmt.Sprintf("%s/%d", pre, o.Status)
}

// check executes one case on a fresh API (used by replay; the enumerator shares
// one API per configuration, which is the same code path).
func check(c Case) ([]failure, obs, obs) {
	e := newEnv(c.Config)
	u, t := e.execute(c, "")
	return judge(c, u, t), u, t
}

func main() {
	r := report.Start("C06", "exploration")
	// the machine is shared: keep the heap small (the live set is a few MB per worker; report.Start
	// asks for 2000% growth, which let this check reach several GB of garbage between collections)
	debug.SetGCPercent(200)
	debug.SetMemoryLimit(1 << 30)
	if r.Replay != "" {
		var rc struct {
			Case
			Multi    Multi  `json:"multi"`
			Steps    []Step `json:"steps"`
			Accessor string `json:"accessor"`
		}
		r.LoadReplay(&rc)
		if rc.Accessor != "" {
			a := AccessorCase{Accessor: rc.Accessor, Header: rc.Header, Method: rc.Method, Body: rc.Body}
			e := newEnv(Config{Consumes: []string{"application/json"}, Where: "op", Default: "application/json", Reg: "all", BodyParam: true})
			fs := checkAccessor(e, a)
			fmt.Printf("replay accessor %+v\n", a)
			for _, f := range fs {
				fmt.Printf("  class=%q %s\n", f.class, f.what)
				r.Fail(f.class, f.what, a)
			}
			if len(fs) == 0 {
				fmt.Println("  oracle satisfied")
			}
			r.Eval(2)
			r.Nontrivial(1)
			r.Sample(a)
			r.Finish("replay of one accessor call", false)
		}
		if len(rc.Steps) > 0 {
			sc := SeqCase{Multi: rc.Multi, Steps: rc.Steps}
			w := newWorld(sc.Multi)
			fs, seen := w.checkSeq(sc.Steps, nil)
			fmt.Printf("replay sequence on one instance: %+v\n", sc.Multi)
			for i, o := range seen {
				_, _, exps := w.modelOK(sc.Steps[i], o)
				fmt.Printf("  step %d op=%d %s %q body=%s\n    %s\n", i+1, sc.Steps[i].Op, sc.Steps[i].Entry, sc.Steps[i].Header.Lines, sc.Steps[i].Body, o)
				for _, x := range exps {
					fmt.Printf("    permitted: %s\n", x)
				}
			}
			for _, f := range fs {
				fmt.Printf("  class=%q %s\n", f.class, f.what)
				r.Fail(f.class, f.what, sc)
			}
			if len(fs) == 0 {
				fmt.Println("  oracle satisfied")
			}
			r.Eval(int64(2 * len(sc.Steps)))
			r.Nontrivial(1)
			r.Sample(sc)
			r.Finish("replay of one sequence", false)
		}
		c := rc.Case
		fs, u, t := check(c)
		fmt.Printf("replay %+v\n  %s\n  %s\n", c, u, t)
		for _, x := range expectations(c) {
			fmt.Printf("  permitted: %s\n", x)
		}
		for _, f := range fs {
			fmt.Printf("  class=%q %s\n", f.class, f.what)
			r.Fail(f.class, f.what, c)
		}
		if len(fs) == 0 {
			fmt.Println("  oracle satisfied")
		}
		r.Eval(2)
		r.Nontrivial(1)
		r.Sample(c)
		r.Finish("replay of one case", false)
	}

	thorough := r.Thorough()
	headers := append(validHeaders(thorough), specialHeaders()...)
	headers = append(headers, neighbourHeaders()...)
	headers = append(headers, wildcardHeaders()...)
	var wh []string
	for _, h := range wildcardHeaders() {
		wh = append(wh, h.Lines[0])
	}
	r.Set("header_wildcard_spelled", wh)
	// body-content sweep (framings without declared length): a reduced header set, every method, ascending order
	contentHeaders := []Header{{Lines: nil, Kind: "absent"}, {Lines: []string{"a/b/c"}, Kind: "malformed"}, valid("textx/plain", "textx/plain")}
	for _, b := range baseTypes {
		contentHeaders = append(contentHeaders, valid(b, b))
	}
	r.Set("body_content_sweep", fmt.Sprintf("%d content modes (first byte %q x length 1,2 x chunked / in-process unknown length) x %d headers x %d methods per configuration", len(contentModes), contentFirstBytes, len(contentHeaders), len(methods)))
	var nb []string
	for _, n := range neighbours() {
		nb = append(nb, fmt.Sprintf("%s (%s of %s; consumer under registration all: %v)", n.mt, n.how, n.of, n.registered))
	}
	r.Set("header_neighbours", nb)
	modes := []string{"none", "cl0", "cl2", "chunked1", "chunked0", "unknownlen"}
	if thorough {
		modes = append(modes, "chunked2", "cl5000")
	}
	cfgs := configs(thorough)

	// request texts are shared by all configurations
	raws := make([][][]string, len(headers))
	for hi, h := range headers {
		raws[hi] = make([][]string, len(modes))
		for bi, m := range modes {
			raws[hi][bi] = make([]string, len(methods))
			if bodyModes[m].isDir {
				continue
			}
			for mi, me := range methods {
				raws[hi][bi][mi] = rawRequest(me, singlePath, h, m)
			}
		}
	}

	r.Set("axis_configs", len(cfgs))
	r.Set("axis_headers", len(headers))
	md := map[string]string{}
	for _, m := range modes {
		md[m] = bodyModes[m].doc + " [carries a body: " + bodyModes[m].carries + "]"
	}
	r.Set("axis_body_modes", md)
	r.Set("axis_methods", methods)
	r.Set("axis_orders", []string{"asc", "desc (only when the effective list has 2+ entries)"})
	r.Set("axis_entry_points", []string{"untyped: RoutesHandler -> BindAndValidate -> handler", "typed: RouteInfo -> BindValidRequest(binder) -> Respond"})
	r.Set("header_base_types", baseTypes)
	r.Set("header_case_variants", caseNames)
	r.Set("header_param_spellings", suffixes)
	var sp []string
	for _, h := range specialHeaders() {
		sp = append(sp, fmt.Sprintf("%s:%q", h.Kind, h.Lines))
	}
	r.Set("header_specials", sp)

	// own wall budget well inside the tier limits (60 s / 10 min); reaching it ends the run as not exhaustive
	limit := 180 * time.Second // quick: generous, so that a loaded machine does not cut the sweep short (the run budget is 4 min)
	if thorough {
		limit = 8*time.Minute + 45*time.Second
	}
	begin := time.Now()
	var cut atomic.Bool
	stop := func() bool {
		if r.OutOfTime() || time.Since(begin) > limit {
			cut.Store(true)
			return true
		}
		return false
	}
	// sequences on shared instances first (the smaller phase), then the single-request product
	seqPhase(r, thorough, stop)
	// exported surface: API configuration variants, serving variants, accessors
	surfacePhase(r, stop)
	accessorPhase(r, headers, modes)

	var done atomic.Int64
	enum.Parallel(len(cfgs), stop, func(ci int) {
		// rotate the visiting order with the seed; the visited set is the same
		ci = (ci + seedMod(r.Seed, len(cfgs))) % len(cfgs)
		cfg := cfgs[ci]
		e := newEnv(cfg)
		orders := []string{"asc"}
		if effectiveLen(cfg) >= 2 {
			orders = append(orders, "desc")
		}
		var evals, nontrivial int64
		outcomes := map[string]int64{}
		for _, ord := range orders {
			for hi, h := range headers {
				for bi, m := range modes {
					carries := bodyModes[m].carries != "no"
					for mi, me := range methods {
						c := Case{Config: cfg, Order: ord, Method: me, Header: h, Body: m}
						u, t := e.execute(c, raws[hi][bi][mi])
						evals += 2
						if carries {
							nontrivial++
						}
						outcomes[outcomeLabel(u, bodyModes[m].carries)]++
						outcomes[outcomeLabel(t, bodyModes[m].carries)]++
						if fs := judge(c, u, t); len(fs) > 0 {
							for _, f := range fs {
								r.Fail(f.class, f.what, c)
							}
						} else if carries && (hi*131+bi*17+mi*7+ci)%4099 == seedMod(r.Seed, 4099) && r.WantSample() {
							r.Sample(map[string]any{"case": c, "untyped": u, "typed": t})
						}
					}
				}
			}
		}
		for _, h := range contentHeaders {
			for _, m := range contentModes {
				for _, me := range methods {
					c := Case{Config: cfg, Order: "asc", Method: me, Header: h, Body: m}
					u, t := e.execute(c, "")
					evals += 2
					nontrivial++
					outcomes["content/"+outcomeLabel(u, "yes")]++
					outcomes["content/"+outcomeLabel(t, "yes")]++
					for _, f := range judge(c, u, t) {
						r.Fail(f.class, f.what, c)
					}
				}
			}
		}
		done.Add(1)
		r.Eval(evals)
		r.Nontrivial(nontrivial)
		for k, v := range outcomes {
			r.Outcome(k, v)
		}
	})

	r.Set("configs_completed", done.Load())

	r.Assume(
		"the reference model (props/c06/model.go) is the reading of the property text; what it marks MAY is never reported",
		"consumes entries are lower case and drawn from the stated universe; API default in {application/json, none, text/plain}",
		"requests are parsed by net/http (http.ReadRequest) or built in process with ContentLength -1; HTTP/1.1 only",
		"the order of route.Consumes (random in the pinned tree: the analyzer ranges over a map) is set by the harness to ascending and descending (sequence phase: ascending)",
		"sequence phase: a fresh instance = new untyped API value, Context, router, handler chain and consumers over the same analysed description; state kept outside these objects (package level) is not reset between sequences",
	)
	r.Finish("every configuration (subset of the consumes universe up to the size bound x API default x registered consumers x description shape) x list order x every Content-Type header of the alphabet x every body mode x every method, plus per configuration the body-content sweep (first byte x length x chunked/unknown-length framing x reduced header set x every method), each executed on both entry points of the real middleware (2 evaluations per case) and compared with the reference model; non-trivial = the request carries a body under at least one reading, i.e. the HasBody branch of the gate is entered (distinct by construction: the enumerator never repeats a (configuration, order, header, body mode, method) tuple). Surface phase: every API-configuration variant (NewAPI as built, WithoutJSONDefaults, WithJSONDefaults, fields assigned by hand, upper-case RegisterConsumer) and every serving variant (APIHandler, APIHandlerSwaggerUI, APIHandlerRapiDoc, ServeWithBuilder, direct BindAndValidate, NewRoutableContext with a generated-style RoutableAPI with and without explicit DefaultRouter) x consumes lists of 0-2 entries x representative headers x body modes x methods, judged by the same model with the default media type the variant configures; runtime.ContentType / Context.ContentType / runtime.HasBody called directly on the whole header and body-mode alphabets. Sequence phase: every description with two operations (unordered pair of consumes lists x operationId mode none/same/unique x layout x API default) x (a) every ordered pair (thorough: also every ordered triple over the smaller alphabet) of steps (operation x entry point x header x body mode), each sequence served by ONE fresh instance, and (b) for every first step of the wide alphabet one instance that serves it followed by every step of the wide alphabet; every step is one evaluation, judged by the reference model with the configuration of the operation it addresses and required to equal the result of the same step alone on a fresh instance; non-trivial sequence = at least two of its steps carry a body", !cut.Load())
}
