package main

// Neighbour media types: for every entry of the consumes universe, request media
// types that are textually close to it without being admitted by it, so that an
// admission test that compares by prefix, by suffix or without the '/' boundary is
// observable. Generated from the universe, not written for one defect:
//
//	wildcard entry T/*  -> types that are a proper prefix of T, that extend T (with and
//	                       without a separator-like character), that end in T;
//	exact entry T/S     -> the same around the subtype S.
//
// Every neighbour is a syntactically valid media type and is admitted only by */*.
// Those listed in neighbourRegistered have a consumer under the "all" registration
// (none has one under "sparse"), the others never have one.

import (
	"fmt"
	"strings"
)

var consumesUniverse = []string{"application/json", "text/plain", "text/*", "*/*", "application/*", "application/json; charset=utf-8", "text/plain;charset=utf-8"}

type neighbour struct {
	mt         string
	of         string // the entry it neighbours
	how        string
	registered bool
}

func around(word string) (names []string, hows []string, reg []bool) {
	add := func(n, h string, r bool) { names, hows, reg = append(names, n), append(hows, h), append(reg, r) }
	add(word[:len(word)-1], "proper prefix", true)
	add(word+"x", "extends, no separator", true)
	add(word+"-x", "extends, '-' separator", false)
	add(word+"+x", "extends, '+' separator", true)
	add("x-"+word, "ends in, '-' separator", true)
	add("vnd.x+"+word, "ends in, '+' separator", false)
	return
}

func neighbours() []neighbour {
	var out []neighbour
	seen := map[string]bool{}
	// a subtype to go with a neighbour type: the subtype of an exact entry of that type
	subOf := map[string]string{}
	for _, e := range consumesUniverse {
		if strings.Contains(e, ";") || strings.Contains(e, "*") {
			continue
		}
		subOf[typeOf(e)] = e[len(typeOf(e))+1:]
	}
	for _, e := range consumesUniverse {
		if strings.Contains(e, ";") || e == "*/*" {
			continue
		}
		t := typeOf(e)
		if strings.HasSuffix(e, "/*") {
			sub := subOf[t]
			if sub == "" {
				sub = "x"
			}
			names, hows, reg := around(t)
			for i, n := range names {
				mt := n + "/" + sub
				if !seen[mt] {
					seen[mt] = true
					out = append(out, neighbour{mt, e, "type " + hows[i], reg[i]})
				}
			}
			continue
		}
		names, hows, reg := around(e[len(t)+1:])
		for i, n := range names {
			mt := t + "/" + n
			if !seen[mt] && !contains(baseTypes, mt) {
				seen[mt] = true
				out = append(out, neighbour{mt, e, "subtype " + hows[i], reg[i]})
			}
		}
	}
	return out
}

func init() {
	for _, n := range neighbours() {
		if n.registered {
			concreteTypes = append(concreteTypes, n.mt)
		}
	}
}

// neighbourHeaders: every neighbour bare in lower case; the type-extending ones also in
// upper case with a parameter.
func neighbourHeaders() []Header {
	var out []Header
	for _, n := range neighbours() {
		out = append(out, Header{Lines: []string{n.mt}, Kind: "valid", MTs: []string{n.mt}})
		if strings.HasPrefix(n.how, "type extends") {
			out = append(out, Header{Lines: []string{strings.ToUpper(n.mt) + "; charset=utf-8"}, Name: "CONTENT-TYPE", Kind: "valid", MTs: []string{n.mt}})
		}
	}
	return out
}

// wildcardHeaders: request headers that are themselves spelled as a media range, generated from the
// consumes universe: for every entry T/S the values T/*, */S and */*, each also in upper case, and one
// with a parameter. They are valid header values (mime tokens) naming the odd media types "t/*", "*/s".
func wildcardHeaders() []Header {
	var out []Header
	seen := map[string]bool{}
	add := func(v string) {
		if seen[v] {
			return
		}
		seen[v] = true
		out = append(out, Header{Lines: []string{v}, Kind: "valid", MTs: []string{strings.ToLower(base(v))}})
	}
	for _, e := range consumesUniverse {
		if strings.Contains(e, ";") {
			continue
		}
		t := typeOf(e)
		sub := e[len(t)+1:]
		for _, v := range []string{t + "/*", "*/" + sub, "*/*"} {
			add(v)
			add(strings.ToUpper(v))
		}
		add(t + "/*; charset=utf-8")
	}
	return out
}

// Body content for the framings without a declared length: the gate must not depend on what the first
// byte of the body is. First byte x length 1 and 2, chunked and in-process unknown length.
var contentFirstBytes = []byte{'{', 'a', '\n', '\r', ' ', 0x00, 0xFF}

var contentModes []string

func init() {
	for _, fb := range contentFirstBytes {
		for _, n := range []int{1, 2} {
			body := string([]byte{fb})
			if n == 2 {
				body += "x"
			}
			id := fmt.Sprintf("chunked-%x", body)
			bodyModes[id] = bodyMode{carries: "yes", raw: fmt.Sprintf("Transfer-Encoding: chunked\r\n\r\n%d\r\n%s\r\n0\r\n\r\n", n, body), doc: fmt.Sprintf("chunked, one chunk, body bytes %x", body)}
			contentModes = append(contentModes, id)
			id = fmt.Sprintf("unknown-%x", body)
			bodyModes[id] = bodyMode{carries: "yes", isDir: true, direct: body, doc: fmt.Sprintf("built in process, ContentLength -1, body bytes %x", body)}
			contentModes = append(contentModes, id)
		}
	}
}
