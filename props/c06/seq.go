package main

// Sequence phase: the property speaks about every request an API serves, not
// about the first request of a fresh Context. Here one Context / handler / API /
// router instance serves 2 (thorough: also 3) consecutive requests aimed at TWO
// operations of one description whose consumes lists differ; the operations have
// unique operationIds, the same operationId, or none at all (legal in Swagger 2.0;
// the untyped API registers handlers by method + path). Every request of every
// sequence is judged (a) by the same reference model as a request served by a
// fresh instance - the configuration of the operation it addresses - and (b)
// differentially: it must give exactly the result it gives as the first request
// of a fresh instance.

import (
	"encoding/json"
	"fmt"
	"sort"
	"strings"

	"sync/atomic"

	"github.com/go-openapi/loads"

	"verif/engine/apib"
	"verif/engine/enum"
	"verif/engine/report"
)

// Multi is a description with two operations.
type Multi struct {
	Lists   [2][]string `json:"lists"`      // consumes list of operation 0 and 1 (operation level, sorted)
	IDMode  string      `json:"id_mode"`    // "unique" | "none" (no operationId member) | "same" (both "dup")
	Layout  string      `json:"layout"`     // "paths": POST /a + POST /b; "methods": POST /a + PUT /a
	Default string      `json:"default"`    // API default media type
	Reg     string      `json:"registered"` // see Config.Reg
}

// Step is one request of a sequence.
type Step struct {
	Op     int    `json:"op"`    // operation addressed: 0 | 1
	Entry  string `json:"entry"` // "untyped" | "typed"
	Header Header `json:"header"`
	Body   string `json:"body"`
}

// SeqCase is a replayable sequence on one instance.
type SeqCase struct {
	Multi Multi  `json:"multi"`
	Steps []Step `json:"steps"`
}

func (m Multi) ops() [2]opRef {
	if m.Layout == "methods" {
		return [2]opRef{{"POST", "/a"}, {"PUT", "/a"}}
	}
	return [2]opRef{{"POST", "/a"}, {"POST", "/b"}}
}

// opConfig: the single-operation configuration the reference model judges a step with.
func (m Multi) opConfig(k int) Config {
	return Config{Consumes: m.Lists[k], Where: "op", Default: m.Default, Reg: m.Reg, BodyParam: true}
}

// document renders and analyses the description. engine/apib always writes an
// operationId, so for "none" the member is stripped from the generated JSON.
func (m Multi) document() *loads.Document {
	sp := apib.Spec{BasePath: "/api", Produces: []string{"application/json"}}
	ids := [2]string{"opA", "opB"}
	if m.IDMode == "same" {
		ids = [2]string{"dup", "dup"}
	}
	for k, o := range m.ops() {
		var cons []string
		if len(m.Lists[k]) > 0 {
			cons = m.Lists[k]
		}
		sp.Ops = append(sp.Ops, apib.Op{Method: o.method, Path: o.path, ID: ids[k], Consumes: cons, Params: []map[string]any{bodyParamDecl}})
	}
	raw := sp.JSON()
	if m.IDMode == "none" {
		var doc map[string]any
		if err := json.Unmarshal(raw, &doc); err != nil {
			panic(err)
		}
		for _, pi := range doc["paths"].(map[string]any) {
			for _, op := range pi.(map[string]any) {
				delete(op.(map[string]any), "operationId")
			}
		}
		var err error
		if raw, err = json.Marshal(doc); err != nil {
			panic(err)
		}
		if strings.Contains(string(raw), "operationId") {
			panic("harness: operationId not stripped")
		}
	}
	d, err := loads.Analyzed(json.RawMessage(raw), "")
	if err != nil {
		panic(fmt.Sprintf("harness: description does not load: %v\n%s", err, raw))
	}
	return d
}

// world is one description; fresh() wires a new instance over the analysed document
// (the document is input data; API value, Context, router, handler chain and consumers are new).
type world struct {
	m    Multi
	doc  *loads.Document
	ops  [2]opRef
	cfgs [2]Config
}

func newWorld(m Multi) *world {
	return &world{m: m, doc: m.document(), ops: m.ops(), cfgs: [2]Config{m.opConfig(0), m.opConfig(1)}}
}

func (w *world) fresh() *env {
	e := newInstance(Config{Default: w.m.Default, Reg: w.m.Reg, BodyParam: true}, w.doc, w.ops[:])
	e.order = "asc"
	return e
}

func (w *world) run(e *env, s Step) obs {
	o := w.ops[s.Op]
	req := buildRequest(o.method, "/api"+o.path, s.Header, s.Body, "")
	if s.Entry == "typed" {
		return e.runTyped(req)
	}
	return e.runUntyped(req)
}

func (w *world) stepCase(s Step) Case {
	return Case{Config: w.cfgs[s.Op], Order: "asc", Method: w.ops[s.Op].method, Header: s.Header, Body: s.Body}
}

// modelOK: does the observation satisfy a reading the text permits for this step.
func (w *world) modelOK(s Step, o obs) (bool, Case, []expect) {
	c := w.stepCase(s)
	exps := expectations(c)
	for _, x := range exps {
		if satisfies(c.Config, o, x) {
			return true, c, exps
		}
	}
	return false, c, exps
}

func sameObs(a, b obs) bool {
	return a.Status == b.Status && a.Handler == b.Handler && a.Pick == b.Pick && a.Panic == b.Panic &&
		strings.Join(a.Consumed, ",") == strings.Join(b.Consumed, ",")
}

// checkSeq runs the sequence on one fresh instance and every step alone on its own
// fresh instance; returns failures and the observations in sequence.
func (w *world) checkSeq(steps []Step, alone []obs) ([]failure, []obs) {
	e := w.fresh()
	var out []failure
	var seen []obs
	for i, s := range steps {
		o := w.run(e, s)
		seen = append(seen, o)
		var ref obs
		if alone != nil {
			ref = alone[i]
		} else {
			ref = w.run(w.fresh(), s)
		}
		ok, c, exps := w.modelOK(s, o)
		if !ok {
			cl := classify(c, o, exps)
			if i > 0 {
				if refOK, _, _ := w.modelOK(s, ref); refOK {
					cl = "after-history/" + cl
				}
			}
			var want []string
			for _, x := range exps {
				want = append(want, x.String())
			}
			out = append(out, failure{cl, fmt.Sprintf("step %d of %d on one instance (operation %d): %s; permitted: %s; alone on a fresh instance: %s",
				i+1, len(steps), s.Op, o, strings.Join(want, " | "), ref)})
			continue
		}
		if !sameObs(o, ref) {
			out = append(out, failure{"history-dependent", fmt.Sprintf("step %d of %d on one instance (operation %d): %s; alone on a fresh instance: %s", i+1, len(steps), s.Op, o, ref)})
		}
	}
	return out, seen
}

// ---- alphabets ----

func seqLists(thorough bool) [][]string {
	ls := [][]string{{}, {"application/json"}, {"text/plain"}, {"text/csv"}, {"text/*"}}
	if thorough {
		ls = append(ls, []string{"*/*"}, []string{"text/csv", "text/plain"})
	}
	return ls
}

// seqWorlds: unordered pairs of lists (the two operations are symmetric up to their names, and the
// step alphabet addresses both in both orders) x operationId mode x layout x API default.
func seqWorlds(thorough bool) []Multi {
	var out []Multi
	layouts := []string{"paths"}
	if thorough {
		layouts = append(layouts, "methods")
	}
	ls := seqLists(thorough)
	for i0, l0 := range ls {
		for _, l1 := range ls[i0:] {
			for _, idm := range []string{"none", "same", "unique"} {
				for _, lay := range layouts {
					if lay == "methods" && idm == "unique" {
						continue // the second layout only where the operations can collide by id
					}
					for _, d := range []string{"application/json", ""} {
						a := append([]string{}, l0...)
						b := append([]string{}, l1...)
						sort.Strings(a)
						sort.Strings(b)
						out = append(out, Multi{Lists: [2][]string{a, b}, IDMode: idm, Layout: lay, Default: d, Reg: "all"})
					}
				}
			}
		}
	}
	return out
}

func valid(v, mt string) Header { return Header{Lines: []string{v}, Kind: "valid", MTs: []string{mt}} }

// Media types chosen to collide over the list universe: each is admitted by some lists and not by
// others (text/plain, text/csv: exact or text/*; application/json: exact or API default;
// application/octet-stream: only */*).
var (
	hdrCore  = []Header{valid("text/plain", "text/plain"), valid("text/csv", "text/csv"), valid("application/json", "application/json"), valid("application/octet-stream", "application/octet-stream")}
	hdrSmall = []Header{valid("text/plain", "text/plain"), valid("application/json", "application/json")}
	hdrWide  = append(append([]Header{}, hdrCore...),
		valid("TEXT/PLAIN; charset=utf-8", "text/plain"),
		Header{Lines: []string{"a/b/c"}, Kind: "malformed"},
		Header{Lines: nil, Kind: "absent"})
)

func seqSteps(hs []Header, bodies []string) []Step {
	var out []Step
	for op := 0; op < 2; op++ {
		for _, en := range []string{"untyped", "typed"} {
			for _, h := range hs {
				for _, b := range bodies {
					out = append(out, Step{Op: op, Entry: en, Header: h, Body: b})
				}
			}
		}
	}
	return out
}

func hdrNames(hs []Header) []string {
	var out []string
	for _, h := range hs {
		out = append(out, fmt.Sprintf("%s:%q", h.Kind, h.Lines))
	}
	return out
}

// seqPhase enumerates, per description:
//
//	exact: every ordered pair (thorough: also every ordered triple over a smaller alphabet) of steps,
//	       each sequence on its own fresh instance;
//	walk:  for every first step of the wide alphabet, one fresh instance serves that step and then every
//	       step of the wide alphabet in order (a long history: every ordered pair occurs as a subsequence).
func seqPhase(r *report.R, thorough bool, stop func() bool) {
	worlds := seqWorlds(thorough)
	exact2 := seqSteps(hdrCore, []string{"cl2"})
	var exact3 []Step
	walkBodies := []string{"cl2"}
	if thorough {
		exact2 = append(exact2, seqSteps([]Header{hdrWide[4], hdrWide[5], hdrWide[6]}, []string{"cl2"})...)
		exact3 = seqSteps(hdrSmall, []string{"cl2"})
		walkBodies = []string{"cl2", "chunked1", "none"}
	}
	walk := seqSteps(hdrWide, walkBodies)
	if !thorough {
		walk = append(walk, seqSteps([]Header{hdrCore[0]}, []string{"none"})...)
	}

	r.Set("seq_descriptions", len(worlds))
	r.Set("seq_axis_lists", seqLists(thorough))
	r.Set("seq_axis_id_mode", []string{"none: no operationId member on either operation", "same: both operations carry operationId dup", "unique"})
	r.Set("seq_axis_layout", map[bool][]string{false: {"POST /a + POST /b"}, true: {"POST /a + POST /b", "POST /a + PUT /a"}}[thorough])
	r.Set("seq_axis_default", []string{"application/json", "none"})
	r.Set("seq_exact_pairs", fmt.Sprintf("%d steps (2 operations x 2 entry points x headers/bodies) -> all %d ordered pairs, each on its own fresh instance", len(exact2), len(exact2)*len(exact2)))
	if thorough {
		r.Set("seq_exact_triples", fmt.Sprintf("%d steps (2 operations x 2 entry points x %v, body cl2) -> all %d ordered triples, each on its own fresh instance", len(exact3), hdrNames(hdrSmall), len(exact3)*len(exact3)*len(exact3)))
	}
	r.Set("seq_walks", fmt.Sprintf("%d steps (2 operations x 2 entry points x %d headers x bodies %v; quick adds text/plain without body): for each first step one instance serves it and then all %d steps in order", len(walk), len(hdrWide), walkBodies, len(walk)))
	r.Set("seq_headers", hdrNames(hdrWide))

	var seqDone atomic.Int64
	enum.Parallel(len(worlds), stop, func(wi int) {
		wi = (wi + seedMod(r.Seed, len(worlds))) % len(worlds)
		w := newWorld(worlds[wi])
		var evals, nontrivial int64
		outcomes := map[string]int64{}
		carries := func(s Step) bool { return bodyModes[s.Body].carries != "no" }
		fail := func(fs []failure, steps []Step) {
			sc := SeqCase{Multi: w.m, Steps: append([]Step(nil), steps...)}
			for _, f := range fs {
				r.Fail(f.class, f.what, sc)
			}
		}
		aloneOf := func(steps []Step) []obs {
			alone := make([]obs, len(steps))
			for i, s := range steps {
				alone[i] = w.run(w.fresh(), s)
				evals++
				// a single request to a description with two operations is judged like any other
				if ok, c, exps := w.modelOK(s, alone[i]); !ok {
					fail([]failure{{classify(c, alone[i], exps), fmt.Sprintf("alone on a fresh instance (operation %d): %s", s.Op, alone[i])}}, []Step{s})
				}
			}
			return alone
		}
		exact := func(steps []Step, n int) {
			alone := aloneOf(steps)
			idx := make([]int, n)
			seq := make([]Step, n)
			al := make([]obs, n)
			for {
				nb := 0
				for k, i := range idx {
					seq[k], al[k] = steps[i], alone[i]
					if carries(steps[i]) {
						nb++
					}
				}
				fs, seen := w.checkSeq(seq, al)
				evals += int64(n)
				if nb >= 2 {
					nontrivial++
				}
				outcomes[fmt.Sprintf("seq%d-last-step/%s", n, outcomeLabel(seen[n-1], bodyModes[seq[n-1].Body].carries))]++
				if len(fs) > 0 {
					fail(fs, seq)
				} else if nb >= 2 && (idx[0]*31+idx[n-1]*7+wi)%1021 == seedMod(r.Seed, 1021) && r.WantSample() {
					r.Sample(map[string]any{"sequence": SeqCase{Multi: w.m, Steps: append([]Step(nil), seq...)}, "observed": append([]obs(nil), seen...)})
				}
				k := n - 1
				for k >= 0 {
					idx[k]++
					if idx[k] < len(steps) {
						break
					}
					idx[k] = 0
					k--
				}
				if k < 0 {
					return
				}
			}
		}
		exact(exact2, 2)
		if len(exact3) > 0 {
			exact(exact3, 3)
		}
		// walks
		alone := aloneOf(walk)
		for i, first := range walk {
			e := w.fresh()
			hist := []Step{first}
			o := w.run(e, first)
			evals++
			if !sameObs(o, alone[i]) {
				fail([]failure{{"history-dependent", fmt.Sprintf("first request on a fresh instance: %s; the same on another fresh instance: %s", o, alone[i])}}, hist)
			}
			nb := 0
			if carries(first) {
				nb++
			}
			for j, s := range walk {
				o := w.run(e, s)
				evals++
				hist = append(hist, s)
				if carries(s) {
					nb++
				}
				ok, c, exps := w.modelOK(s, o)
				if ok && sameObs(o, alone[j]) {
					continue
				}
				// smallest replayable form: the pair on a fresh instance if that already fails, else the whole history
				if fs, _ := w.checkSeq([]Step{first, s}, []obs{alone[i], alone[j]}); len(fs) > 0 {
					fail(fs, []Step{first, s})
					continue
				}
				cl := "history-dependent"
				if !ok {
					cl = "after-history/" + classify(c, o, exps)
				}
				fail([]failure{{cl, fmt.Sprintf("request %d of a history on one instance (operation %d): %s; alone on a fresh instance: %s", len(hist), s.Op, o, alone[j])}}, hist)
			}
			outcomes["walk/completed"]++
			if nb >= 2 {
				nontrivial++
			}
		}
		seqDone.Add(1)
		r.Eval(evals)
		r.Nontrivial(nontrivial)
		for k, v := range outcomes {
			r.Outcome(k, v)
		}
	})
	r.Set("seq_descriptions_completed", seqDone.Load())
}
