package main

// Reference model of the content-type gate, written from the text of property
// C06 (not from the code). It is three-valued: for every case it produces a
// list of *interpretations* the text permits; an observation is accepted when
// it satisfies at least one of them.
//
//   - a request that does not carry a body is not subjected to the check
//     (the handler runs, status 200, whatever the Content-Type header says);
//   - a request that carries a body is decoded by the consumer registered for
//     its media type, and only if that media type (lower-cased, parameters
//     dropped) is admitted by consumes-list + API default, exactly or through
//     a 'type/*' or '*/*' entry;
//   - otherwise 415 (400 when the header cannot be parsed) and neither a
//     consumer nor the handler runs;
//   - both entry points accept/refuse the same requests and pick the same
//     consumer.
//
// What the text does not force (MAY): how a consumes entry that itself carries
// parameters admits; what media type an absent/empty header denotes (the
// documented default application/octet-stream or a refusal); header values
// whose well-formedness is debatable (trailing ';', missing '=', duplicate
// parameter, a bare token, a comma list, a literal wildcard, two header
// lines); whether a chunked request with zero bytes "carries a body"; the
// status when nothing at all is admitted because the list is empty and there
// is no default (415 or 500); what happens when the media type is admitted but
// no consumer is registered under it (only "no *other* concrete consumer may
// decode it" is kept).

import (
	"fmt"
	"sort"
	"strings"
)

// BAD is the interpretation "the header cannot be parsed".
const BAD = "\x00unparsable"

// REFUSE is the interpretation "an absent header denotes no media type".
const REFUSE = "\x00no-media-type"

// Config is one API configuration.
type Config struct {
	Consumes  []string `json:"consumes"`   // entries as spelled in the description (lower case), sorted
	Where     string   `json:"where"`      // "op": operation level; "global": top level of the description
	Default   string   `json:"default"`    // API default media type, "" = none
	Reg       string   `json:"registered"` // "all": every concrete media type of the header alphabet; "sparse": json, text/plain and the keys text/*, */*
	BodyParam bool     `json:"body_param"` // the operation declares a body parameter
	API       string   `json:"api,omitempty"`   // how the untyped API value is configured, see apiVariants ("" = hand)
	Serve     string   `json:"serve,omitempty"` // through which exported constructor / handler the requests are served, see serveVariants ("" = routes)
}

// Header is one Content-Type header: the spelling sent and its abstract reading.
type Header struct {
	Lines []string `json:"lines"`           // header values as sent, one per header line (nil: header absent)
	Name  string   `json:"name,omitempty"`  // spelling of the header name (default Content-Type)
	Kind  string   `json:"kind"`            // valid | absent | malformed | ambiguous
	MTs   []string `json:"media_types"`     // valid: the one normalised media type; ambiguous: every plausible reading (BAD = unparsable)
}

// Case is one replayable element of the explored space.
type Case struct {
	Config Config `json:"config"`
	Order  string `json:"order"`  // order of route.Consumes handed to the gate: "asc" | "desc" | "asis"
	Method string `json:"method"`
	Header Header `json:"header"`
	Body   string `json:"body"` // body mode id, see bodyModes
}

func base(entry string) string {
	if i := strings.IndexByte(entry, ';'); i >= 0 {
		entry = entry[:i]
	}
	return strings.TrimSpace(entry)
}

func typeOf(mt string) string {
	if i := strings.IndexByte(mt, '/'); i >= 0 {
		return mt[:i]
	}
	return mt
}

// entryMatches: does the parameter-free lower-case entry admit the media type.
func entryMatches(e, mt string) bool {
	if e == mt || e == "*/*" {
		return true
	}
	if strings.HasSuffix(e, "/*") && strings.Contains(mt, "/") && e[:len(e)-2] == typeOf(mt) {
		return true
	}
	return false
}

const (
	admitNo = iota
	admitMaybe
	admitYes
)

// admit: is mt admitted by entries + default. An entry that carries parameters
// admits what its parameter-free part admits only as MAYBE.
func admit(cfg Config, mt string) int {
	res := admitNo
	for _, e := range cfg.Consumes {
		if strings.Contains(e, ";") {
			if entryMatches(base(e), mt) && res < admitMaybe {
				res = admitMaybe
			}
			continue
		}
		if entryMatches(e, mt) {
			res = admitYes
		}
	}
	if cfg.Default != "" && entryMatches(cfg.Default, mt) {
		res = admitYes
	}
	return res
}

// onlyThroughWildcard: mt is admitted, but no entry (parameters dropped) and
// not the default names it literally.
func onlyThroughWildcard(cfg Config, mt string) bool {
	if admit(cfg, mt) != admitYes {
		return false
	}
	for _, e := range cfg.Consumes {
		if base(e) == mt {
			return false
		}
	}
	return cfg.Default != mt
}

// registered media types (keys of the API's consumer table) per registration mode.
var concreteTypes = []string{"application/json", "text/plain", "text/csv", "application/octet-stream", "application/jsonx"}

func registeredKeys(cfg Config) []string {
	var ks []string
	if cfg.Reg == "sparse" {
		ks = []string{"application/json", "text/plain", "text/*", "*/*"}
	} else {
		ks = append(ks, concreteTypes...)
	}
	if cfg.Default != "" && !contains(ks, cfg.Default) {
		ks = append(ks, cfg.Default)
	}
	return ks
}

func contains(xs []string, x string) bool {
	for _, v := range xs {
		if v == x {
			return true
		}
	}
	return false
}

const (
	eNoGate = iota // no body: handler runs, 200
	eRefuse        // nothing runs, status in Statuses
	eRun           // consumer registered for MT decodes once, handler runs, 200
	eLoose         // admitted, but no consumer registered under MT: only Allowed consumers may run
)

type expect struct {
	kind     int
	mt       string
	statuses []int
	allowed  []string
}

func (x expect) String() string {
	switch x.kind {
	case eNoGate:
		return "no body: gate not applied, handler runs, 200"
	case eRefuse:
		return fmt.Sprintf("refused with %v, no consumer, no handler", x.statuses)
	case eRun:
		return fmt.Sprintf("decoded once by the consumer registered for %s, handler runs, 200", x.mt)
	default:
		return fmt.Sprintf("admitted %s without a consumer registered under it: at most one of %v may decode", x.mt, x.allowed)
	}
}

// forMediaType: what the text demands for a request with a body whose header denotes mt.
func forMediaType(cfg Config, mt string) []expect {
	switch mt {
	case BAD:
		return []expect{{kind: eRefuse, statuses: []int{400}}}
	case REFUSE:
		return []expect{{kind: eRefuse, statuses: []int{400, 415}}}
	}
	if strings.Contains(mt, "*") {
		// a wildcard sent as the request's media type is an ordinary, odd media type name: a concrete
		// consumes entry never admits it. Unless the list admits that very text (an entry equal to it, its
		// own 'type/*' entry, or '*/*') nothing may run; the refusal status stays lenient (400 or 415).
		if len(cfg.Consumes) == 0 && cfg.Default == "" {
			return []expect{{kind: eRefuse, statuses: []int{400, 415, 500}}}
		}
		if admit(cfg, mt) == admitNo {
			return []expect{{kind: eRefuse, statuses: []int{400, 415}}}
		}
		// admitted as that odd name: nothing is forced beyond "no unrelated consumer decodes it"
		var allowed []string
		for _, k := range registeredKeys(cfg) {
			if k == mt || (strings.HasSuffix(k, "/*") && entryMatches(k, mt)) {
				allowed = append(allowed, k)
			}
		}
		return []expect{{kind: eRefuse, statuses: []int{400, 415, 500}}, {kind: eLoose, mt: mt, allowed: allowed}}
	}
	refuse := expect{kind: eRefuse, statuses: []int{415}}
	if len(cfg.Consumes) == 0 && cfg.Default == "" {
		// nothing is admitted at all; a description without any consumes is arguably a
		// server-side mistake, so 500 is tolerated besides the 415 of the text
		return []expect{{kind: eRefuse, statuses: []int{415, 500}}}
	}
	a := admit(cfg, mt)
	if a == admitNo {
		return []expect{refuse}
	}
	var pos expect
	keys := registeredKeys(cfg)
	if contains(keys, mt) {
		pos = expect{kind: eRun, mt: mt}
	} else {
		var allowed []string
		for _, k := range keys {
			if strings.HasSuffix(k, "/*") && entryMatches(k, mt) {
				allowed = append(allowed, k)
			}
		}
		pos = expect{kind: eLoose, mt: mt, allowed: allowed}
	}
	if a == admitMaybe {
		return []expect{refuse, pos}
	}
	return []expect{pos}
}

// bodyReadings: which readings of "carries a body" the body mode permits.
func bodyReadings(mode string) []bool {
	m, ok := bodyModes[mode]
	if !ok {
		panic("unknown body mode " + mode)
	}
	switch m.carries {
	case "yes":
		return []bool{true}
	case "no":
		return []bool{false}
	}
	return []bool{true, false}
}

// expectations lists every outcome the text permits for the case.
func expectations(c Case) []expect {
	var out []expect
	for _, has := range bodyReadings(c.Body) {
		if !has {
			out = append(out, expect{kind: eNoGate})
			continue
		}
		switch c.Header.Kind {
		case "valid":
			out = append(out, forMediaType(c.Config, c.Header.MTs[0])...)
		case "malformed":
			out = append(out, forMediaType(c.Config, BAD)...)
		case "absent":
			out = append(out, forMediaType(c.Config, "application/octet-stream")...)
			out = append(out, forMediaType(c.Config, REFUSE)...)
		case "ambiguous":
			for _, mt := range c.Header.MTs {
				out = append(out, forMediaType(c.Config, mt)...)
			}
		default:
			panic("unknown header kind " + c.Header.Kind)
		}
	}
	return out
}

// obs is what one entry point did with one request.
type obs struct {
	Entry    string   `json:"entry"`
	Status   int      `json:"status"`
	Consumed []string `json:"consumed,omitempty"` // identities of the consumers whose Consume ran, in order
	Handler  int      `json:"handler"`            // times the handler ran (typed: BindValidRequest returned nil)
	Pick     string   `json:"pick,omitempty"`     // identity of route.Consumer afterwards
	Panic    string   `json:"panic,omitempty"`
	Msg      string   `json:"msg,omitempty"` // start of the error response body
}

func (o obs) String() string {
	if o.Panic != "" {
		return o.Entry + ": panic " + o.Panic
	}
	return fmt.Sprintf("%s: status=%d consumed=%v handler=%d pick=%q %s", o.Entry, o.Status, o.Consumed, o.Handler, o.Pick, o.Msg)
}

func satisfies(cfg Config, o obs, x expect) bool {
	if o.Panic != "" {
		return false
	}
	switch x.kind {
	case eNoGate:
		return o.Status == 200 && o.Handler == 1
	case eRefuse:
		if len(o.Consumed) != 0 || o.Handler != 0 {
			return false
		}
		for _, s := range x.statuses {
			if o.Status == s {
				return true
			}
		}
		return false
	case eRun:
		if o.Status != 200 || o.Handler != 1 {
			return false
		}
		if cfg.BodyParam {
			return o.Pick == x.mt && len(o.Consumed) == 1 && o.Consumed[0] == x.mt
		}
		// nothing to decode: no other consumer may be picked or run
		return (o.Pick == "" || o.Pick == x.mt) && (len(o.Consumed) == 0 || (len(o.Consumed) == 1 && o.Consumed[0] == x.mt))
	case eLoose:
		if len(o.Consumed) > 1 || o.Handler > 1 {
			return false
		}
		for _, id := range o.Consumed {
			if !contains(x.allowed, id) {
				return false
			}
		}
		return true
	}
	return false
}

type failure struct{ class, what string }

// classify names the violation when no permitted outcome was observed.
func classify(c Case, o obs, exps []expect) string {
	if o.Panic != "" {
		return "panic"
	}
	ran := len(o.Consumed) > 0 || o.Handler > 0
	kinds := map[int]bool{}
	mts := map[string]bool{}
	var sts []int
	for _, x := range exps {
		kinds[x.kind] = true
		if x.kind == eRun {
			mts[x.mt] = true
		}
		sts = append(sts, x.statuses...)
	}
	switch {
	case len(kinds) == 1 && kinds[eRefuse]:
		if len(o.Consumed) > 0 {
			return "consumer-ran-must-refuse"
		}
		if o.Handler > 0 {
			return "handler-ran-must-refuse"
		}
		sort.Ints(sts)
		return fmt.Sprintf("refusal-status-%d-want-%s", o.Status, joinInts(sts))
	case len(kinds) == 1 && kinds[eNoGate]:
		return fmt.Sprintf("gate-applied-without-body-%d", o.Status)
	case len(kinds) == 1 && kinds[eRun] && len(mts) == 1:
		mt := exps[0].mt
		switch {
		case !ran:
			cl := fmt.Sprintf("admitted-refused-%d", o.Status)
			if noConsumerSymptom(c, o, mt) && onlyThroughWildcard(c.Config, mt) {
				cl += "/only-through-wildcard"
			}
			return cl
		case len(o.Consumed) > 1:
			return "consumer-ran-twice"
		case len(o.Consumed) == 1 && o.Consumed[0] != mt:
			return "wrong-consumer"
		case len(o.Consumed) == 0 && c.Config.BodyParam:
			return "handler-ran-without-decoding"
		case o.Handler == 0:
			return fmt.Sprintf("decoded-but-refused-%d", o.Status)
		case o.Pick != mt:
			return "wrong-consumer-picked"
		}
		return "accepted-irregular"
	}
	// several readings were permitted and none was met
	if !ran && o.Status == 500 {
		for _, x := range exps {
			if x.kind == eRun && noConsumerSymptom(c, o, x.mt) && onlyThroughWildcard(c.Config, x.mt) {
				return "admitted-refused-500/only-through-wildcard"
			}
		}
	}
	for _, id := range o.Consumed {
		ok := false
		for _, x := range exps {
			if (x.kind == eRun && x.mt == id) || (x.kind == eLoose && contains(x.allowed, id)) {
				ok = true
			}
		}
		if !ok {
			return "wrong-consumer"
		}
	}
	if kinds[eNoGate] && !kinds[eRun] && !kinds[eLoose] && ran {
		return "ran-outside-permitted-readings"
	}
	if !ran {
		return fmt.Sprintf("refusal-status-%d-outside-permitted-readings", o.Status)
	}
	return "outside-permitted-readings"
}

// noConsumerSymptom: refused with 500 "no consumer registered for <mt>" (a HEAD answer has no text).
func noConsumerSymptom(c Case, o obs, mt string) bool {
	if o.Status != 500 || len(o.Consumed) > 0 || o.Handler > 0 {
		return false
	}
	if c.Method == "HEAD" && o.Msg == "" {
		return true
	}
	return strings.Contains(o.Msg, "no consumer registered for "+mt+"\"")
}

func joinInts(xs []int) string {
	var parts []string
	last := -1
	for _, x := range xs {
		if x != last {
			parts = append(parts, fmt.Sprint(x))
		}
		last = x
	}
	return strings.Join(parts, "or")
}

// judge compares the two observations with the model.
func judge(c Case, u, t obs) []failure {
	exps := expectations(c)
	var out []failure
	for _, o := range []obs{u, t} {
		ok := false
		for _, x := range exps {
			if satisfies(c.Config, o, x) {
				ok = true
				break
			}
		}
		if !ok {
			var want []string
			for _, x := range exps {
				want = append(want, x.String())
			}
			out = append(out, failure{classify(c, o, exps), fmt.Sprintf("%s; permitted: %s", o, strings.Join(want, " | "))})
		}
	}
	if u.Panic == "" && t.Panic == "" {
		au, at := u.Handler > 0, t.Handler > 0
		switch {
		case au != at:
			out = append(out, failure{"entrypoints-disagree-accept", fmt.Sprintf("%s <> %s", u, t)})
		case au && at && bodyModes[c.Body].carries == "yes" &&
			(u.Pick != t.Pick || (c.Config.BodyParam && strings.Join(u.Consumed, ",") != strings.Join(t.Consumed, ","))):
			out = append(out, failure{"entrypoints-disagree-consumer", fmt.Sprintf("%s <> %s", u, t)})
		}
	}
	// one report per class and case
	seen := map[string]bool{}
	var uniq []failure
	for _, f := range out {
		if !seen[f.class] {
			seen[f.class] = true
			uniq = append(uniq, f)
		}
	}
	return uniq
}
