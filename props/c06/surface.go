package main

// Exported surface: the same gate is reachable through several exported
// constructors, options and accessors. Each variant is run over a reduced case
// alphabet and judged by the SAME reference model as the common path; where the
// model needs "the API default media type" it follows what the variant configures.

import (
	"fmt"
	"net/http"
	"sort"

	"github.com/go-openapi/runtime"

	"verif/engine/enum"
	"verif/engine/report"
)

// apiVariants: how the untyped.API value is configured (the default media type the model uses follows it).
var apiVariants = []struct{ name, def, doc string }{
	{"newapi", "application/json", "untyped.NewAPI(doc) as constructed (JSON defaults), consumers through RegisterConsumer"},
	{"without", "", "untyped.NewAPI(doc).WithoutJSONDefaults(): no default media type"},
	{"with", "application/json", "NewAPI(doc).WithoutJSONDefaults().WithJSONDefaults()"},
	{"upper", "application/json", "defaults assigned through the exported fields; RegisterConsumer called with upper-case media types"},
}

// serveVariants: through which exported constructor / handler the requests are served.
var serveVariants = []struct{ name, doc string }{
	{"apihandler", "Context.APIHandler(builder)"},
	{"swaggerui", "Context.APIHandlerSwaggerUI(builder)"},
	{"rapidoc", "Context.APIHandlerRapiDoc(builder)"},
	{"serve", "middleware.ServeWithBuilder(doc, api, builder) (Serve = the same with the pass-through builder)"},
	{"direct", "Context.RouteInfo + Context.BindAndValidate called directly, no handler chain"},
	{"routable", "generated-server wiring: own RoutableAPI (HandlerFor/ConsumersFor/DefaultConsumes) -> NewRoutableContext(doc, api, nil) -> RoutesHandler"},
	{"routable-router", "the same with an explicit middleware.DefaultRouter(doc, api) handed to NewRoutableContext"},
}

func surfaceConfigs() []Config {
	universe := consumesUniverse[:6]
	var out []Config
	for _, set := range enum.Subsets(len(universe), 0, 2) {
		entries := make([]string, len(set))
		for i, k := range set {
			entries[i] = universe[k]
		}
		sort.Strings(entries)
		for _, v := range apiVariants {
			for _, reg := range []string{"all", "sparse"} {
				out = append(out, Config{Consumes: entries, Where: "op", Default: v.def, Reg: reg, BodyParam: true, API: v.name})
			}
		}
		for _, v := range serveVariants {
			out = append(out, Config{Consumes: entries, Where: "op", Default: "application/json", Reg: "all", BodyParam: true, Serve: v.name})
			if v.name == "routable" {
				out = append(out, Config{Consumes: entries, Where: "op", Default: "", Reg: "all", BodyParam: true, Serve: v.name})
			}
		}
	}
	return out
}

// surfaceHeaders: representatives of every header class.
func surfaceHeaders() []Header {
	hs := []Header{
		{Lines: nil, Kind: "absent"},
		{Lines: []string{"a/b/c"}, Kind: "malformed"},
		valid("TEXT/PLAIN; charset=utf-8", "text/plain"),
		valid("textx/plain", "textx/plain"),
		valid("applicatio/json", "applicatio/json"),
		valid("application/*", "application/*"),
		valid("*/*", "*/*"),
		{Lines: []string{"text/plain;"}, Kind: "ambiguous", MTs: []string{BAD, "text/plain"}},
	}
	for _, b := range baseTypes {
		hs = append(hs, valid(b, b))
	}
	return hs
}

var surfaceModes = []string{"none", "cl0", "cl2", "chunked1", "chunked0", "unknownlen"}

func surfacePhase(r *report.R, stop func() bool) {
	cfgs := surfaceConfigs()
	hs := surfaceHeaders()
	var av, sv []string
	for _, v := range apiVariants {
		av = append(av, v.name+": "+v.doc)
	}
	for _, v := range serveVariants {
		sv = append(sv, v.name+": "+v.doc)
	}
	r.Set("surface_api_variants", av)
	r.Set("surface_serve_variants", sv)
	r.Set("surface_cases", fmt.Sprintf("%d configurations (consumes lists of 0-2 entries x variant [x registration for the API variants]) x %d headers x %d body modes x %d methods, both entry points", len(cfgs), len(hs), len(surfaceModes), len(methods)))
	enum.Parallel(len(cfgs), stop, func(ci int) {
		ci = (ci + seedMod(r.Seed, len(cfgs))) % len(cfgs)
		cfg := cfgs[ci]
		e := newEnv(cfg)
		var evals, nontrivial int64
		outcomes := map[string]int64{}
		tag := "surface-" + cfg.API + cfg.Serve + "/"
		for _, h := range hs {
			for _, m := range surfaceModes {
				for _, me := range methods {
					c := Case{Config: cfg, Order: "asc", Method: me, Header: h, Body: m}
					u, t := e.execute(c, "")
					evals += 2
					if bodyModes[m].carries != "no" {
						nontrivial++
					}
					outcomes[tag+outcomeLabel(u, bodyModes[m].carries)]++
					for _, f := range judge(c, u, t) {
						r.Fail(f.class, f.what, c)
					}
				}
			}
		}
		r.Eval(evals)
		r.Nontrivial(nontrivial)
		for k, v := range outcomes {
			r.Outcome(k, v)
		}
	})
}

// AccessorCase replays one call of the exported accessors.
type AccessorCase struct {
	Accessor string `json:"accessor"` // "ContentType" | "HasBody"
	Header   Header `json:"header"`
	Method   string `json:"method"`
	Body     string `json:"body"`
}

// checkAccessor: runtime.ContentType / Context.ContentType (first call and memoised second call) and
// runtime.HasBody, called directly, against the abstract value of the header / body mode.
func checkAccessor(e *env, a AccessorCase) []failure {
	var out []failure
	req := buildRequest(a.Method, singlePath, a.Header, a.Body, "")
	switch a.Accessor {
	case "HasBody":
		got := runtime.HasBody(req)
		again := runtime.HasBody(req) // the probe must not consume what it found
		want := bodyModes[a.Body].carries
		if (want == "yes" && !got) || (want == "no" && got) {
			out = append(out, failure{"accessor-hasbody", fmt.Sprintf("runtime.HasBody = %v for body mode %s (carries a body: %s)", got, a.Body, want)})
		} else if got != again {
			out = append(out, failure{"accessor-hasbody-unstable", fmt.Sprintf("runtime.HasBody = %v, then %v on the same request (body mode %s)", got, again, a.Body)})
		}
	case "ContentType":
		mt, _, err := runtime.ContentType(req.Header)
		cmt, _, creq, cerr := e.ctx.ContentType(req)
		if (err == nil) != (cerr == nil) || mt != cmt {
			out = append(out, failure{"accessor-contenttype-disagree", fmt.Sprintf("runtime.ContentType = (%q, %v), Context.ContentType = (%q, %v)", mt, err, cmt, cerr)})
			break
		}
		if cerr == nil {
			if mt2, _, _, err2 := e.ctx.ContentType(creq); err2 != nil || mt2 != cmt {
				out = append(out, failure{"accessor-contenttype-memo", fmt.Sprintf("Context.ContentType = %q, second call on the returned request = (%q, %v)", cmt, mt2, err2)})
				break
			}
		}
		code := 0
		if ce, ok := err.(interface{ Code() int32 }); ok {
			code = int(ce.Code())
		}
		okv := false
		var want []string
		accept := func(reading string) {
			want = append(want, reading)
			switch reading {
			case BAD:
				okv = okv || (err != nil && code == http.StatusBadRequest)
			default:
				okv = okv || (err == nil && mt == reading)
			}
		}
		switch a.Header.Kind {
		case "valid":
			accept(a.Header.MTs[0])
		case "malformed":
			accept(BAD)
		case "absent":
			accept("application/octet-stream")
			accept("")
			accept(BAD)
		default:
			for _, m := range a.Header.MTs {
				accept(m)
			}
		}
		if !okv {
			out = append(out, failure{"accessor-contenttype", fmt.Sprintf("runtime.ContentType(%q) = (%q, %v code %d); permitted readings %q (%q = error of status 400)", a.Header.Lines, mt, err, code, want, BAD)})
		}
	}
	return out
}

func accessorPhase(r *report.R, headers []Header, modes []string) {
	e := newEnv(Config{Consumes: []string{"application/json"}, Where: "op", Default: "application/json", Reg: "all", BodyParam: true})
	var evals int64
	for _, h := range headers {
		a := AccessorCase{Accessor: "ContentType", Header: h, Method: "POST", Body: "cl2"}
		evals += 3
		for _, f := range checkAccessor(e, a) {
			r.Fail(f.class, f.what, a)
		}
	}
	for m := range bodyModes {
		modes = append(modes, m)
	}
	sort.Strings(modes)
	seen := map[string]bool{}
	for _, m := range modes {
		if seen[m] {
			continue
		}
		seen[m] = true
		for _, me := range methods {
			a := AccessorCase{Accessor: "HasBody", Header: valid("text/plain", "text/plain"), Method: me, Body: m}
			evals += 2
			for _, f := range checkAccessor(e, a) {
				r.Fail(f.class, f.what, a)
			}
		}
	}
	r.Eval(evals)
	r.Outcome("accessor-calls", evals)
	r.Set("surface_accessors", fmt.Sprintf("runtime.ContentType and Context.ContentType (first and memoised call) on all %d headers; runtime.HasBody (twice) on all %d body modes x %d methods", len(headers), len(seen), len(methods)))
}
