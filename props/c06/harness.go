package main

// Harness: builds the real API for a configuration, renders requests the way
// net/http delivers them, drives the two binding entry points and records which
// instrumented consumer decoded and whether the handler ran.

import (
	"bufio"
	"fmt"
	"io"
	"net/http"
	"net/http/httptest"
	"net/url"
	"sort"
	"strings"

	"github.com/go-openapi/errors"
	"github.com/go-openapi/loads"
	"github.com/go-openapi/runtime"
	"github.com/go-openapi/runtime/middleware"
	"github.com/go-openapi/runtime/middleware/untyped"
	"github.com/go-openapi/spec"
	"github.com/go-openapi/strfmt"

	"verif/engine/apib"
)

var methods = []string{"POST", "PUT", "PATCH", "DELETE", "GET", "HEAD", "OPTIONS"}

// bodyMode: how the presence of a body is signalled.
type bodyMode struct {
	carries string // "yes" | "no" | "may" (the text does not settle it)
	raw     string // headers + blank line + body appended to the request head; "" for direct construction
	direct  string // direct construction: body bytes; ContentLength -1 (unknown), no framing headers
	isDir   bool
	doc     string
}

var bodyModes = map[string]bodyMode{
	"none":       {carries: "no", raw: "\r\n", doc: "no Content-Length, no Transfer-Encoding"},
	"cl0":        {carries: "no", raw: "Content-Length: 0\r\n\r\n", doc: "explicit Content-Length: 0"},
	"cl1":        {carries: "yes", raw: "Content-Length: 1\r\n\r\n7", doc: "Content-Length: 1"},
	"cl2":        {carries: "yes", raw: "Content-Length: 2\r\n\r\n{}", doc: "Content-Length: 2"},
	"cl5000":     {carries: "yes", raw: "Content-Length: 5000\r\n\r\n" + strings.Repeat(" ", 4998) + "{}", doc: "Content-Length: 5000 (larger than one buffer)"},
	"chunked1":   {carries: "yes", raw: "Transfer-Encoding: chunked\r\n\r\n2\r\n{}\r\n0\r\n\r\n", doc: "chunked, one chunk"},
	"chunked2":   {carries: "yes", raw: "Transfer-Encoding: chunked\r\n\r\n1\r\n{\r\n1\r\n}\r\n0\r\n\r\n", doc: "chunked, two chunks"},
	"chunked0":   {carries: "may", raw: "Transfer-Encoding: chunked\r\n\r\n0\r\n\r\n", doc: "chunked framing, zero bytes"},
	"unknownlen": {carries: "yes", isDir: true, direct: "{}", doc: "request built in process: ContentLength -1, no framing headers, 2 bytes"},
	"unknown0":   {carries: "may", isDir: true, direct: "", doc: "request built in process: ContentLength -1, no framing headers, zero bytes"},
}

// recCons is an instrumented consumer: it drains the body and records its identity.
type recCons struct {
	id string
	e  *env
}

func (c *recCons) Consume(r io.Reader, _ interface{}) error {
	_, _ = io.Copy(io.Discard, r)
	c.e.consumed = append(c.e.consumed, c.id)
	return nil
}

type env struct {
	cfg      Config
	ctx      *middleware.Context
	h        http.Handler
	order    string
	consumed []string
	handler  int
	uRoute   *middleware.MatchedRoute
}

func consumerID(c runtime.Consumer) string {
	if c == nil {
		return ""
	}
	if rc, ok := c.(*recCons); ok {
		return rc.id
	}
	return fmt.Sprintf("foreign:%T", c)
}

const singlePath = "/api/op"

// opRef is one operation served by an instance: method + path below the base path /api.
type opRef struct{ method, path string }

func newEnv(cfg Config) *env {
	sp := apib.Spec{BasePath: "/api", Produces: []string{"application/json"}}
	var params []map[string]any
	if cfg.BodyParam {
		params = []map[string]any{bodyParamDecl}
	}
	var opConsumes []string
	if len(cfg.Consumes) > 0 {
		if cfg.Where == "global" {
			sp.Consumes = cfg.Consumes
		} else {
			opConsumes = cfg.Consumes
		}
	}
	var ops []opRef
	for _, m := range methods {
		sp.Ops = append(sp.Ops, apib.Op{Method: m, Path: "/op", Consumes: opConsumes, Params: params})
		ops = append(ops, opRef{m, "/op"})
	}
	return newInstance(cfg, apib.MustLoad(sp), ops)
}

var bodyParamDecl = map[string]any{"name": "body", "in": "body", "required": false, "schema": map[string]any{"type": "object"}}

// newInstance wires a fresh API value, Context, router and handler chain over an analysed description.
// cfg supplies the API default, the registered consumers and whether the binder decodes a body.
func newInstance(cfg Config, doc *loads.Document, ops []opRef) *env {
	e := &env{cfg: cfg}
	builder := func(next http.Handler) http.Handler {
		return http.HandlerFunc(func(w http.ResponseWriter, r *http.Request) {
			if mr := middleware.MatchedRouteFrom(r); mr != nil {
				e.uRoute = mr
				e.applyOrder(mr)
			}
			next.ServeHTTP(w, r)
		})
	}
	if cfg.Serve == "routable" || cfg.Serve == "routable-router" {
		// the wiring of a generated server: its own RoutableAPI handed to NewRoutableContext
		g := &genAPI{e: e, consumers: map[string]runtime.Consumer{}, def: cfg.Default}
		for _, k := range registeredKeys(cfg) {
			g.consumers[k] = &recCons{id: k, e: e}
		}
		var router middleware.Router
		if cfg.Serve == "routable-router" {
			router = middleware.DefaultRouter(doc, g)
		}
		e.ctx = middleware.NewRoutableContext(doc, g, router)
		e.h = e.ctx.RoutesHandler(builder)
		return e
	}
	api := untyped.NewAPI(doc)
	upper := false
	switch cfg.API {
	case "", "hand", "upper":
		// the built-in JSON consumer is removed, the defaults are assigned through the exported fields
		api.WithoutJSONDefaults()
		api.DefaultConsumes = cfg.Default
		api.DefaultProduces = runtime.JSONMime
		upper = cfg.API == "upper"
	case "newapi":
		// as constructed: JSON defaults (model: default application/json)
	case "without":
		api.WithoutJSONDefaults() // model: no default media type
	case "with":
		api.WithoutJSONDefaults().WithJSONDefaults() // model: default application/json
	default:
		panic("unknown api variant " + cfg.API)
	}
	api.RegisterProducer(runtime.JSONMime, runtime.JSONProducer())
	for _, k := range registeredKeys(cfg) {
		key := k
		if upper {
			key = strings.ToUpper(k) // media types are case-insensitive: RegisterConsumer owns the spelling
		}
		api.RegisterConsumer(key, &recCons{id: k, e: e})
	}
	for _, o := range ops {
		api.RegisterOperation(o.method, o.path, runtime.OperationHandlerFunc(func(_ interface{}) (interface{}, error) {
			e.handler++
			return "ok", nil
		}))
	}
	e.ctx = middleware.NewContext(doc, api, nil)
	switch cfg.Serve {
	case "", "routes", "direct":
		e.h = e.ctx.RoutesHandler(builder)
	case "apihandler":
		e.h = e.ctx.APIHandler(builder)
	case "swaggerui":
		e.h = e.ctx.APIHandlerSwaggerUI(builder)
	case "rapidoc":
		e.h = e.ctx.APIHandlerRapiDoc(builder)
	case "serve":
		// Serve/ServeWithBuilder create their own Context; the typed entry point uses a second Context over the same API
		e.h = middleware.ServeWithBuilder(doc, api, builder)
		e.ctx.RoutesHandler(nil)
	default:
		panic("unknown serve variant " + cfg.Serve)
	}
	return e
}

// genAPI is a minimal generated-server style RoutableAPI: per-operation handlers that call
// RouteInfo -> BindValidRequest(binder) -> Respond, its own consumer table and default media type.
type genAPI struct {
	e         *env
	consumers map[string]runtime.Consumer
	def       string
}

func (g *genAPI) HandlerFor(_, _ string) (http.Handler, bool) {
	return http.HandlerFunc(func(w http.ResponseWriter, r *http.Request) {
		ctx := g.e.ctx
		route, rCtx, _ := ctx.RouteInfo(r)
		if rCtx != nil {
			r = rCtx
		}
		if err := ctx.BindValidRequest(r, route, g.e); err != nil {
			ctx.Respond(w, r, route.Produces, route, err)
			return
		}
		g.e.handler++
		ctx.Respond(w, r, route.Produces, route, "ok")
	}), true
}
func (g *genAPI) ServeErrorFor(string) func(http.ResponseWriter, *http.Request, error) {
	return errors.ServeError
}
func (g *genAPI) ConsumersFor(mts []string) map[string]runtime.Consumer {
	out := map[string]runtime.Consumer{}
	for _, mt := range mts {
		if c, ok := g.consumers[mt]; ok {
			out[mt] = c
		}
	}
	return out
}
func (g *genAPI) ProducersFor(mts []string) map[string]runtime.Producer {
	out := map[string]runtime.Producer{}
	for _, mt := range mts {
		if mt == runtime.JSONMime {
			out[mt] = runtime.JSONProducer()
		}
	}
	return out
}
func (g *genAPI) AuthenticatorsFor(map[string]spec.SecurityScheme) map[string]runtime.Authenticator {
	return nil
}
func (g *genAPI) Authorizer() runtime.Authorizer { return nil }
func (g *genAPI) Formats() strfmt.Registry      { return strfmt.Default }
func (g *genAPI) DefaultProduces() string       { return runtime.JSONMime }
func (g *genAPI) DefaultConsumes() string       { return g.def }

// runDirect calls the reflective entry point itself: RouteInfo -> BindAndValidate, no handler chain.
func (e *env) runDirect(req *http.Request) (o obs) {
	o.Entry = "untyped"
	e.consumed, e.handler, e.uRoute = nil, 0, nil
	defer func() {
		if p := recover(); p != nil {
			o.Panic = fmt.Sprint(p)
		}
	}()
	route, rCtx, ok := e.ctx.RouteInfo(req)
	if !ok {
		o.Status = 404
		return o
	}
	e.applyOrder(route)
	_, rCtx, err := e.ctx.BindAndValidate(rCtx, route)
	o.Consumed = e.consumed
	o.Pick = consumerID(route.Consumer)
	if err == nil {
		o.Handler = 1
		o.Status = 200
		return o
	}
	rec := httptest.NewRecorder()
	e.ctx.Respond(rec, rCtx, route.Produces, route, err)
	o.Status = rec.Code
	o.Msg = errMsg(rec)
	return o
}

// applyOrder owns the order of route.Consumes: the analyzer builds the list by
// ranging over a map, so the pinned code hands the gate a randomly ordered list.
func (e *env) applyOrder(mr *middleware.MatchedRoute) {
	switch e.order {
	case "asc":
		sort.Strings(mr.Consumes)
	case "desc":
		sort.Sort(sort.Reverse(sort.StringSlice(mr.Consumes)))
	}
}

// BindRequest is the binder a generated server passes to BindValidRequest.
func (e *env) BindRequest(r *http.Request, route *middleware.MatchedRoute) error {
	if !e.cfg.BodyParam {
		return nil
	}
	if runtime.HasBody(r) {
		defer r.Body.Close()
		if route.Consumer == nil {
			e.consumed = append(e.consumed, "nil-consumer")
			return nil
		}
		var v interface{}
		if err := route.Consumer.Consume(r.Body, &v); err != nil {
			return err
		}
	}
	return nil
}

func headerLines(h Header) string {
	name := h.Name
	if name == "" {
		name = "Content-Type"
	}
	var b strings.Builder
	for _, l := range h.Lines {
		b.WriteString(name)
		b.WriteString(": ")
		b.WriteString(l)
		b.WriteString("\r\n")
	}
	return b.String()
}

// rawRequest renders the request text for the wire-parsed body modes.
func rawRequest(method, path string, h Header, mode string) string {
	return method + " " + path + " HTTP/1.1\r\nHost: x\r\n" + headerLines(h) + bodyModes[mode].raw
}

// buildRequest creates a fresh request (bodies are consumed by the run).
func buildRequest(method, path string, h Header, mode string, raw string) *http.Request {
	m := bodyModes[mode]
	if !m.isDir {
		if raw == "" {
			raw = rawRequest(method, path, h, mode)
		}
		req, err := http.ReadRequest(bufio.NewReaderSize(strings.NewReader(raw), 256))
		if err != nil {
			panic(fmt.Sprintf("harness: net/http refuses the request %q: %v", raw, err))
		}
		return req
	}
	name := h.Name
	if name == "" {
		name = "Content-Type"
	}
	req := &http.Request{
		Method: method, URL: &url.URL{Path: path}, Proto: "HTTP/1.1", ProtoMajor: 1, ProtoMinor: 1,
		Header: http.Header{}, Host: "x", RequestURI: path,
		Body: io.NopCloser(strings.NewReader(m.direct)), ContentLength: -1,
	}
	for _, l := range h.Lines {
		req.Header.Add(name, strings.TrimSpace(l)) // net/http never delivers surrounding whitespace
	}
	return req
}

func errMsg(rec *httptest.ResponseRecorder) string {
	s := rec.Body.String()
	if len(s) > 160 {
		s = s[:160]
	}
	return strings.TrimSpace(s)
}

// runUntyped drives the reflective entry point through the real handler chain
// (router -> executor -> BindAndValidate -> handler).
func (e *env) runUntyped(req *http.Request) (o obs) {
	o.Entry = "untyped"
	e.consumed, e.handler, e.uRoute = nil, 0, nil
	defer func() {
		if p := recover(); p != nil {
			o.Panic = fmt.Sprint(p)
		}
	}()
	rec := httptest.NewRecorder()
	e.h.ServeHTTP(rec, req)
	o.Status = rec.Code
	o.Consumed = e.consumed
	o.Handler = e.handler
	if e.uRoute != nil {
		o.Pick = consumerID(e.uRoute.Consumer)
	}
	if rec.Code != 200 {
		o.Msg = errMsg(rec)
	}
	return o
}

// runTyped does what a generated server's operation handler does: route lookup,
// BindValidRequest with its binder, then either the error response or the handler.
func (e *env) runTyped(req *http.Request) (o obs) {
	o.Entry = "typed"
	e.consumed, e.handler, e.uRoute = nil, 0, nil
	defer func() {
		if p := recover(); p != nil {
			o.Panic = fmt.Sprint(p)
		}
	}()
	route, rCtx, ok := e.ctx.RouteInfo(req)
	if !ok {
		o.Status = 404 // cannot happen with the operations this harness registers; judged like any other status
		return o
	}
	e.applyOrder(route)
	err := e.ctx.BindValidRequest(rCtx, route, e)
	o.Consumed = e.consumed
	o.Pick = consumerID(route.Consumer)
	if err == nil {
		o.Handler = 1
		o.Status = 200
		return o
	}
	rec := httptest.NewRecorder()
	e.ctx.Respond(rec, rCtx, route.Produces, route, err)
	o.Status = rec.Code
	o.Msg = errMsg(rec)
	return o
}

// execute runs one case on both entry points.
func (e *env) execute(c Case, raw string) (obs, obs) {
	e.order = c.Order
	var u obs
	if e.cfg.Serve == "direct" {
		u = e.runDirect(buildRequest(c.Method, singlePath, c.Header, c.Body, raw))
	} else {
		u = e.runUntyped(buildRequest(c.Method, singlePath, c.Header, c.Body, raw))
	}
	t := e.runTyped(buildRequest(c.Method, singlePath, c.Header, c.Body, raw))
	return u, t
}
