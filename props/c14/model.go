package main

// The case description and the reference model of C14. Everything in this file
// is written from the property text; nothing here calls go-openapi/runtime.

import (
	"encoding/hex"
	"encoding/json"
	"fmt"
	"strings"
	"unicode/utf8"
)

// S is a byte string that survives JSON: valid UTF-8 is stored as a plain JSON
// string, anything else as {"hex": "..."} (encoding/json would replace invalid
// bytes by U+FFFD and the replay would not be the same case).
type S string

func (s S) MarshalJSON() ([]byte, error) {
	if utf8.ValidString(string(s)) {
		return json.Marshal(string(s))
	}
	return json.Marshal(map[string]string{"hex": hex.EncodeToString([]byte(s))})
}

func (s *S) UnmarshalJSON(b []byte) error {
	var str string
	if err := json.Unmarshal(b, &str); err == nil {
		*s = S(str)
		return nil
	}
	var m map[string]string
	if err := json.Unmarshal(b, &m); err != nil {
		return err
	}
	raw, err := hex.DecodeString(m["hex"])
	if err != nil {
		return err
	}
	*s = S(raw)
	return nil
}

// Cred is one credential as the client is told to attach it.
//
//	basic:       User, Pass         -> client.BasicAuth(User, Pass)
//	bearer:      Token              -> client.BearerToken(Token)
//	apikey:      Name, In, Token    -> client.APIKeyAuth(Name, In, Token)
//	passthrough:                    -> client.PassThroughAuth (an operation auth that writes nothing)
//	raw:         Raw                -> only as Client.Preset: the params writer sets the Authorization header to Raw
type Cred struct {
	Kind  string `json:"kind"`
	User  S      `json:"user,omitempty"`
	Pass  S      `json:"pass,omitempty"`
	Token S      `json:"token,omitempty"`
	Name  S      `json:"name,omitempty"`
	In    string `json:"in,omitempty"`
	Raw   S      `json:"raw,omitempty"`
}

// Carrier is a header, query parameter, form field or cookie that the operation's
// parameter writer puts on the request. With the name of a credential, in a place
// where the corresponding authenticator is NOT specified to look, it is a decoy.
type Carrier struct {
	In    string `json:"in"` // header | query | form | cookie
	Name  S      `json:"name"`
	Value S      `json:"value"`
}

// Client describes the request the client side is asked to build.
type Client struct {
	Method string `json:"method"` // POST when empty
	Media  string `json:"media"`  // consumes of the operation: "json" (default) | "urlencoded" | "multipart"
	// OpAuth: nil = the operation has no AuthInfo. One element = that writer.
	// Several = client.Compose(...). ComposeNil puts a nil writer in front and wraps in Compose.
	OpAuth     []Cred `json:"op_auth,omitempty"`
	ComposeNil bool   `json:"compose_nil,omitempty"`
	Default    *Cred  `json:"default,omitempty"` // Runtime.DefaultAuthentication
	// Preset: an Authorization header written by the operation's parameter writer
	// (kind basic, bearer or raw), under the header name PresetName.
	Preset     *Cred  `json:"preset,omitempty"`
	PresetName string `json:"preset_name,omitempty"` // "Authorization" when empty
	QueryToken *S     `json:"query_token,omitempty"` // params writer: SetQueryParam("access_token", v)
	FormToken  *S     `json:"form_token,omitempty"`  // params writer: SetFormParam("access_token", v)
	FormOther  bool   `json:"form_other,omitempty"`  // params writer also sets the form field other=x
	FormFile   bool   `json:"form_file,omitempty"`   // params writer also attaches a file part (multipart only)
	// Extra: further carriers written by the parameter writer, in this order (cookies are
	// joined into one Cookie header)
	Extra []Carrier `json:"extra,omitempty"`
}

// Server describes the authenticator that is consulted for the request.
type Server struct {
	Kind string `json:"kind"` // basic | apikey | bearer
	Ctx  bool   `json:"ctx"`  // the ...Ctx constructor
	// Param: how the authenticator is invoked: "request" = Authenticate(*http.Request),
	// "scoped" = Authenticate(&ScopedAuthRequest{...}) (what the middleware does; bearer is always scoped)
	Param string `json:"param"`
	// Realm: "-" = BasicAuth / BasicAuthCtx (no realm argument); anything else = BasicAuthRealm(Realm, ...)
	Realm  string   `json:"realm,omitempty"`
	Name   S        `json:"name,omitempty"`   // api key name
	In     string   `json:"in,omitempty"`     // api key location as given to the server constructor (any case)
	Scheme string   `json:"scheme,omitempty"` // bearer: security scheme name
	Scopes []string `json:"scopes,omitempty"` // bearer: RequiredScopes
	CB     string   `json:"cb"`               // callback answer: ok | nil | err | both
}

// MW describes a case of the middleware pass: one request of the real client
// to the real untyped API handler built from the fixed description in mw.go.
type MW struct {
	Op   string `json:"op"`   // key of mwOps
	Cred *Cred  `json:"cred"` // the operation's AuthInfo (nil = none)
	Ctx  bool   `json:"ctx"`
	CB   string `json:"cb"`
}

// Case is one replayable element of the enumerated space.
type Case struct {
	Mode   string  `json:"mode"` // "unit" | "mw"
	Wire   bool    `json:"wire"` // unit: serialise with Request.Write and parse with http.ReadRequest
	Client *Client `json:"client,omitempty"`
	Server *Server `json:"server,omitempty"`
	MW     *MW     `json:"mw,omitempty"`
	// Then: unit cases only: the next request of a sequence, built on the SAME client
	// Runtime and judged by the SAME authenticator value when its description is equal
	Then *Case `json:"then,omitempty"`
	// Hostile (read on the first case of a sequence, holds for all its steps): the
	// application keeps ONE writer instance per credential description and uses it for
	// every request and every (re-)assignment of Runtime.DefaultAuthentication, and after
	// each step the caller overwrites in place every header / form value of the request
	// it built and of the request the server received, then empties those maps.
	Hostile bool `json:"hostile,omitempty"`
}

// ---- reference: what the request carries ----

type absAuth struct {
	kind       string // basic | bearer | raw
	user, pass string
	token      string
	raw        string
}

// absReq is the abstract content of the request, computed from the client
// description by the rules of the property text alone.
type absReq struct {
	method   string
	auth     *absAuth          // the Authorization header
	authBy   string            // who wrote it: preset | op | default
	headers  map[string]string // api-key headers, by lower-cased name
	query    map[string]string // query parameters, by exact name
	form     map[string]string
	cookies  map[string]string
	formKind string // "" | urlencoded | multipart
	// what the default-credential rule decided
	defaultApplied bool
	// ambiguous: two writers wrote the same slot; the text does not say who wins
	ambiguous string
}

func (a *absReq) put(c Cred, by string) {
	switch c.Kind {
	case "basic", "bearer", "raw":
		if a.auth != nil {
			a.ambiguous = "two writers set the Authorization header"
		}
		a.auth = &absAuth{kind: c.Kind, user: string(c.User), pass: string(c.Pass), token: string(c.Token), raw: string(c.Raw)}
		a.authBy = by
	case "apikey":
		if c.In == "header" {
			k := strings.ToLower(string(c.Name))
			if _, dup := a.headers[k]; dup || k == "authorization" || k == "content-type" || k == "accept" {
				a.ambiguous = "two writers set header " + k
			}
			a.headers[k] = string(c.Token)
		} else {
			k := string(c.Name)
			if _, dup := a.query[k]; dup {
				a.ambiguous = "two writers set query parameter " + k
			}
			a.query[k] = string(c.Token)
		}
	case "passthrough":
	}
}

// abstract applies the client-side rules of the property text:
// the parameter writer runs first; then the operation's own credential if it
// has one; a transport-wide default credential is applied only when the
// operation has none of its own and no Authorization header is already set.
func abstract(c *Client) *absReq {
	a := &absReq{method: c.Method, headers: map[string]string{}, query: map[string]string{}, form: map[string]string{}, cookies: map[string]string{}}
	if a.method == "" {
		a.method = "POST"
	}
	if c.Preset != nil {
		a.put(*c.Preset, "preset")
	}
	if c.QueryToken != nil {
		a.query["access_token"] = string(*c.QueryToken)
	}
	if c.FormToken != nil {
		a.form["access_token"] = string(*c.FormToken)
	}
	if c.FormOther {
		a.form["other"] = "x"
	}
	for _, e := range c.Extra {
		name := string(e.Name)
		switch e.In {
		case "header":
			k := strings.ToLower(name)
			switch k {
			case "authorization":
				a.ambiguous = "Authorization header as a plain carrier (use preset)"
			case "content-type", "accept", "cookie", "host", "content-length", "transfer-encoding", "connection", "user-agent":
				a.ambiguous = "carrier uses a header the transport owns: " + k
			}
			if _, dup := a.headers[k]; dup {
				a.ambiguous = "two writers set header " + k
			}
			a.headers[k] = string(e.Value)
		case "query":
			if _, dup := a.query[name]; dup {
				a.ambiguous = "two writers set query parameter " + name
			}
			a.query[name] = string(e.Value)
		case "form":
			if _, dup := a.form[name]; dup {
				a.ambiguous = "two writers set form field " + name
			}
			a.form[name] = string(e.Value)
		case "cookie":
			if _, dup := a.cookies[name]; dup {
				a.ambiguous = "two cookies named " + name
			}
			a.cookies[name] = string(e.Value)
		default:
			a.ambiguous = "unknown carrier place " + e.In
		}
	}
	if c.FormFile && c.Media != "multipart" {
		a.ambiguous = "file upload under a non-multipart media type (a client-body matter, C11)"
	}
	if len(a.form) > 0 {
		switch c.Media {
		case "urlencoded", "multipart":
			a.formKind = c.Media
		default:
			a.ambiguous = "form fields under a non-form media type"
		}
	}
	switch {
	case c.OpAuth != nil:
		for _, cr := range c.OpAuth {
			a.put(cr, "op")
		}
	case c.Default != nil && a.auth == nil:
		a.defaultApplied = true
		a.put(*c.Default, "default")
	}
	return a
}

// ---- reference: what the authenticator must do with it ----

// expectation is three-valued per component: applies is "yes", "no" or "may"
// ("may": the text does not force either answer; then, if the implementation
// says the credential applies, the arguments must still be the ones in args).
type expectation struct {
	applies string
	user    string
	pass    string
	token   string
	why     string
}

func bodyMethod(m string) bool { return m == "POST" || m == "PUT" || m == "PATCH" }

func expect(a *absReq, s *Server) expectation {
	switch s.Kind {
	case "basic":
		if a.auth != nil && a.auth.kind == "basic" {
			return expectation{applies: "yes", user: a.auth.user, pass: a.auth.pass, why: "Authorization carries Basic credentials written by " + a.authBy}
		}
		return expectation{applies: "no", why: "no Basic credentials in the request"}
	case "apikey":
		var v string
		var ok bool
		if strings.ToLower(s.In) == "header" {
			v, ok = a.headers[strings.ToLower(string(s.Name))] // header names are case-insensitive
		} else {
			v, ok = a.query[string(s.Name)] // query names are not
		}
		if !ok {
			return expectation{applies: "no", why: fmt.Sprintf("no %s parameter %q in the request", strings.ToLower(s.In), s.Name)}
		}
		if v == "" {
			return expectation{applies: "may", why: "empty key value"}
		}
		return expectation{applies: "yes", token: v, why: "api key present"}
	case "bearer":
		if a.auth != nil && a.auth.kind == "bearer" {
			return expectation{applies: "yes", token: a.auth.token, why: "Authorization header carries the bearer token (written by " + a.authBy + ")"}
		}
		if q, ok := a.query["access_token"]; ok {
			if q == "" {
				return expectation{applies: "may", token: a.form["access_token"], why: "empty access_token query parameter"}
			}
			return expectation{applies: "yes", token: q, why: "no bearer header; access_token query parameter present"}
		}
		if f, ok := a.form["access_token"]; ok && a.formKind != "" {
			if f == "" {
				return expectation{applies: "may", why: "empty access_token form field"}
			}
			if !bodyMethod(a.method) {
				// RFC 6750 2.2 forbids the form placement for methods without defined body
				// semantics and the property does not quantify over methods: not forced.
				return expectation{applies: "may", token: f, why: "form placement with method " + a.method}
			}
			return expectation{applies: "yes", token: f, why: "no bearer header, no query token; access_token form field present (" + a.formKind + ")"}
		}
		return expectation{applies: "no", why: "no bearer token in header, query or form"}
	}
	panic("unknown server kind " + s.Kind)
}

// effectiveRealm is the realm the failed-basic-auth marker must name.
func effectiveRealm(s *Server, defaultRealm string) string {
	if s.Realm == "-" || s.Realm == "" {
		return defaultRealm
	}
	return s.Realm
}

// otherTokens lists every token-like value placed anywhere in the request; the
// classifier uses it to tell "took the token from the wrong place" from "mangled".
func otherTokens(c *Client) []string {
	var out []string
	add := func(cr *Cred) {
		if cr == nil {
			return
		}
		switch cr.Kind {
		case "bearer", "apikey":
			out = append(out, string(cr.Token))
		case "basic":
			out = append(out, string(cr.User), string(cr.Pass))
		}
	}
	for i := range c.OpAuth {
		add(&c.OpAuth[i])
	}
	add(c.Default)
	add(c.Preset)
	if c.QueryToken != nil {
		out = append(out, string(*c.QueryToken))
	}
	if c.FormToken != nil {
		out = append(out, string(*c.FormToken))
	}
	for _, e := range c.Extra {
		out = append(out, string(e.Value), strings.TrimPrefix(strings.TrimPrefix(string(e.Value), "Bearer "), "Basic "))
	}
	return out
}
