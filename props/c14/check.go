package main

import (
	"bufio"
	"bytes"
	"encoding/json"
	"fmt"
	"io"
	"net/http"
	"strings"

	"github.com/go-openapi/runtime"
	"github.com/go-openapi/runtime/client"

	"github.com/go-openapi/runtime/security"
)

// verdict of one case: class "" = the oracle is satisfied.
type verdict struct {
	class   string
	what    string
	outcome string // coverage label
	reached bool   // the authenticator was consulted on a request that carries some credential
	seen    string // what the real pipeline did (replay output)
	steps   int    // pipelines executed (sequences: one per step)
	// rejudge: the same observation judged as if the transport-wide default credential
	// had been d (classification of stale state only)
	rejudge func(d *Cred) string
}

func fail(class, format string, a ...any) verdict {
	return verdict{class: class, what: fmt.Sprintf(format, a...), outcome: "FAIL:" + class}
}

func sameScopes(a, b []string) bool {
	if len(a) != len(b) {
		return false
	}
	for i := range a {
		if a[i] != b[i] {
			return false
		}
	}
	return true
}

func check(c Case) (v verdict) {
	defer func() {
		if e := recover(); e != nil {
			v = fail("panic", "panic: %v", e)
		}
	}()
	switch c.Mode {
	case "unit":
		return checkUnit(c)
	case "mw":
		return checkMW(c)
	}
	panic("unknown mode " + c.Mode)
}

// shared holds the instances that survive from one step of a sequence to the next:
// the client Runtime and the server's authenticator value.
type shared struct {
	rt     *client.Runtime
	rtKey  string
	auth   runtime.Authenticator
	rec    *recorder
	srvKey string
	// hostile sequences: the application's long-lived writer per credential description
	hostile bool
	writers map[string]runtime.ClientAuthInfoWriter
}

// writer: a fresh writer per use, or (hostile sequences) the one instance the
// application created for that credential.
func (sh *shared) writer(c Cred) runtime.ClientAuthInfoWriter {
	if !sh.hostile {
		return writerFor(c)
	}
	k := jsonKey(c)
	if w, ok := sh.writers[k]; ok {
		return w
	}
	if sh.writers == nil {
		sh.writers = map[string]runtime.ClientAuthInfoWriter{}
	}
	w := writerFor(c)
	sh.writers[k] = w
	return w
}

func jsonKey(v any) string { b, _ := json.Marshal(v); return string(b) }

// checkUnit runs the case and, on the same Runtime and (for an equal server
// description) the same authenticator value, the cases chained through Then.
// Every step is judged by the reference exactly as if it ran on fresh instances.
func checkUnit(c Case) verdict {
	sh := &shared{hostile: c.Hostile}
	v := checkUnitOn(c, sh)
	v.steps = 1
	earlier := []*Cred{c.Client.Default} // values DefaultAuthentication had at earlier steps
	step := 1
	for n := c.Then; n != nil && v.class == ""; n = n.Then {
		step++
		if n.Mode != "unit" {
			return verdict{outcome: "skipped-ambiguous:sequence steps must be unit cases"}
		}
		reassigned := jsonKey(n.Client.Default) != jsonKey(earlier[len(earlier)-1])
		vn := checkUnitOn(*n, sh)
		if vn.class != "" {
			stale := false
			if vn.rejudge != nil {
				for _, d := range earlier {
					if jsonKey(d) != jsonKey(n.Client.Default) && vn.rejudge(d) == "" {
						stale = true
						vn.what = fmt.Sprintf("the request is what the reference gives for the EARLIER value %s of Runtime.DefaultAuthentication, current value %s: %s", jsonKey(d), jsonKey(n.Client.Default), vn.what)
						break
					}
				}
			}
			if stale {
				vn.class = "default-auth/stale-after-reassignment"
			} else {
				vn.class += "/after-other-requests-on-shared-instances"
				if sh.hostile {
					vn.class += "/writers-reused-and-earlier-requests-scrubbed"
				}
			}
			vn.what = fmt.Sprintf("step %d of a sequence on one Runtime and one authenticator value: %s", step, vn.what)
			vn.steps = step
			return vn
		}
		label := "seq:"
		if reassigned {
			label = "seq-default-reassigned:"
		}
		if sh.hostile {
			label = "hostile-" + label
		}
		v = verdict{outcome: label + vn.outcome, reached: v.reached || vn.reached, seen: v.seen + "\n  then: " + vn.seen, steps: step}
		earlier = append(earlier, n.Client.Default)
	}
	return v
}

func checkUnitOn(c Case, sh *shared) verdict {
	abs := abstract(c.Client)
	if abs.ambiguous != "" {
		// the enumerators never produce these; a hand-written replay might
		return verdict{outcome: "skipped-ambiguous:" + abs.ambiguous}
	}
	exp := expect(abs, c.Server)

	if sh.rt == nil {
		sh.rt = newRuntime(&Client{}, "c14.example")
	}
	if c.Client.Default != nil {
		// the event between two calls: the application (re-)assigns the documented public field
		sh.rt.DefaultAuthentication = sh.writer(*c.Client.Default)
	} else {
		sh.rt.DefaultAuthentication = nil
	}
	creq, err := buildClientRequestWith(sh.rt, c.Client, "/op", sh.writer)
	if err != nil {
		return fail("client-build-error", "CreateHttpRequest: %v", err)
	}
	if sh.hostile {
		// runs last (after the judgment and after the body has been released)
		defer func() { scrub(creq) }()
	}
	// classification aid only: did the client put the default credential's slot on the request at all
	defaultSlot := c.Client.Default != nil && slotPresent(creq, c.Client.Default)
	snap := &http.Request{Header: creq.Header.Clone(), URL: creq.URL}
	var sreq *http.Request
	var raw []byte
	if c.Wire {
		sreq, raw, err = overWire(creq)
		release(creq)
		if err != nil {
			return fail("wire-error", "%v; bytes written: %q", err, raw)
		}
		if sh.hostile {
			defer func() { scrub(sreq) }()
		}
	} else {
		sreq = creq
		defer release(creq)
	}
	if k := jsonKey(c.Server); sh.auth == nil || sh.srvKey != k {
		sh.rec = newRecorder(c.Server.CB)
		sh.auth = buildAuthenticator(c.Server, sh.rec)
		sh.srvKey = k
	}
	rec := sh.rec
	rec.calls = nil
	obs := authenticateWith(sh.auth, c.Server, sreq, rec)
	v := judge(c.Client, c.Server, abs, exp, rec, obs, raw, defaultSlot)
	if v.class != "" {
		v.rejudge = func(d *Cred) string {
			cl := *c.Client
			cl.Default = d
			a2 := abstract(&cl)
			if a2.ambiguous != "" {
				return "ambiguous"
			}
			return judge(&cl, c.Server, a2, expect(a2, c.Server), rec, obs, raw, d != nil && slotPresent(snap, d)).class
		}
	}
	// observation only (MAY: the text says nothing about the body): is the request body
	// still readable after authentication
	if c.Wire && abs.formKind != "" && v.class == "" {
		if ctl, err := http.ReadRequest(bufio.NewReader(bytes.NewReader(raw))); err == nil {
			want, _ := io.ReadAll(ctl.Body)
			rest, _ := io.ReadAll(sreq.Body)
			if len(want) > 0 {
				if bytes.Equal(want, rest) {
					v.outcome += "|body-intact"
				} else {
					v.outcome += "|body-consumed"
				}
			}
		}
	}
	if len(c.Client.Extra) > 0 && v.class == "" {
		v.outcome += "|carriers"
	}
	if verbose {
		var calls []string
		for _, k := range obs.calls {
			calls = append(calls, showCall(k))
		}
		want, _ := rec.answer()
		v.seen = fmt.Sprintf("applies=%v principal=%#v (callback's: %#v) error=%v callback calls=%q FailedBasicAuth=%q OAuth2SchemeName=%q ctx-value-from-callback-on-request=%v",
			obs.applies, obs.principal, want, obs.err, calls, obs.failedRealm, obs.schemeName, obs.ctxOut)
		if raw != nil {
			v.seen += fmt.Sprintf("\n  wire: %q", raw)
		}
	}
	return v
}

var verbose bool // replay mode

// slotPresent: the header or query parameter the credential is written to exists on the client's request.
func slotPresent(req *http.Request, c *Cred) bool {
	switch c.Kind {
	case "basic", "bearer":
		return req.Header.Get("Authorization") != ""
	case "apikey":
		if c.In == "header" {
			return len(req.Header.Values(string(c.Name))) > 0
		}
		_, ok := req.URL.Query()[string(c.Name)]
		return ok
	}
	return false
}

// judge compares the observation with the expectation, clause by clause.
func judge(cl *Client, s *Server, abs *absReq, exp expectation, rec *recorder, obs observation, raw []byte, defaultSlot bool) verdict {
	kind := s.Kind
	ctxt := func() string {
		if raw != nil {
			head := raw
			if i := strings.Index(string(raw), "\r\n\r\n"); i >= 0 && len(raw) > i+300 {
				head = raw[:i+300]
			}
			return fmt.Sprintf(" [request on the wire: %q]", head)
		}
		return ""
	}
	// which rule of the default-credential clause is involved, for classification
	defaultSfx := ""
	if cl.Default != nil {
		if abs.defaultApplied {
			defaultSfx = "/default-credential-expected"
		} else {
			defaultSfx = "/default-credential-forbidden"
		}
	}

	if exp.applies == "no" {
		if obs.applies || len(obs.calls) > 0 {
			got := "applies"
			if len(obs.calls) > 0 {
				got = fmt.Sprintf("callback called with %s", showCall(obs.calls[0]))
			}
			if cl.Default != nil && !abs.defaultApplied && matchesCred(cl.Default, s, obs) {
				why := "the operation has its own credential"
				if cl.OpAuth == nil {
					why = "the Authorization header was already set by the parameter writer"
				}
				return fail("default-auth/applied-although-forbidden", "%s authenticator: %s, which is the transport-wide default credential, although %s%s", kind, got, why, ctxt())
			}
			return fail("applies-without-credential/"+kind+decoySfx(cl, s), "%s authenticator: %s, expected not applicable (%s)%s", kind, got, exp.why, ctxt())
		}
		if obs.principal != nil {
			return fail("principal-not-callbacks/"+kind, "not applicable, but a principal %v is returned and no callback ran%s", obs.principal, ctxt())
		}
		if kind == "basic" {
			want := effectiveRealm(s, security.DefaultRealmName)
			if obs.failedRealm != want {
				return fail("marker/failed-basic-realm", "basic authenticator not applicable: FailedBasicAuth = %q, expected realm %q", obs.failedRealm, want)
			}
		}
		return verdict{outcome: kind + ":not-applicable", reached: abs.auth != nil || len(abs.headers)+len(abs.query)+len(abs.form)+len(abs.cookies) > 0}
	}

	if !obs.applies {
		if len(obs.calls) > 0 {
			return fail("na-after-callback/"+kind, "%s authenticator called the callback (%s) and then reported not applicable%s", kind, showCall(obs.calls[0]), ctxt())
		}
		if exp.applies == "may" {
			return verdict{outcome: kind + ":may-not-applicable(" + mayKey(exp.why) + ")", reached: true}
		}
		if fromDefault(cl, abs, s, exp) && !defaultSlot {
			return fail("default-auth/not-applied", "%s authenticator: not applicable, but the transport-wide default credential had to be attached (operation has no credential of its own, no Authorization header set)%s", kind, ctxt())
		}
		return fail("na-with-credential/"+kind+bearerPlace(kind, abs), "%s authenticator: not applicable, expected %s (%s)%s", kind, showExp(kind, exp), exp.why, ctxt())
	}

	// applies
	if len(obs.calls) == 0 {
		return fail("applies-without-callback/"+kind, "%s authenticator reports the credential applies but never consulted the callback%s", kind, ctxt())
	}
	for _, k := range obs.calls {
		switch kind {
		case "basic":
			if k.user != exp.user || k.pass != exp.pass {
				part := "user"
				if k.user == exp.user {
					part = "password"
				}
				if cl.Default != nil && !abs.defaultApplied && matchesCred(cl.Default, s, obs) {
					return fail("default-auth/applied-although-forbidden", "basic callback got %s which is the default credential; expected %s%s", showCall(k), showExp(kind, exp), ctxt())
				}
				return fail("wrong-credential/basic-"+part+defaultSfx, "basic callback got %s, transmitted %s%s", showCall(k), showExp(kind, exp), ctxt())
			}
		default:
			if exp.applies == "may" && exp.token == "" {
				break
			}
			if k.token != exp.token {
				if cl.Default != nil && !abs.defaultApplied && matchesCred(cl.Default, s, obs) {
					return fail("default-auth/applied-although-forbidden", "%s callback got %s which is the default credential; expected %s%s", kind, showCall(k), showExp(kind, exp), ctxt())
				}
				sub := "mangled"
				for _, o := range otherTokens(cl) {
					if o == k.token {
						sub = "taken-from-another-placement"
					}
				}
				return fail("wrong-token/"+kind+"-"+sub+defaultSfx, "%s callback got %s, expected %s (%s)%s", kind, showCall(k), showExp(kind, exp), exp.why, ctxt())
			}
		}
		if kind == "bearer" {
			if !k.hasScopes || !sameScopes(k.scopes, s.Scopes) {
				return fail("wrong-scopes/bearer", "bearer callback got scopes %q, the operation requires %q", k.scopes, s.Scopes)
			}
		}
	}
	want, wantErr := rec.answer()
	if obs.principal != want {
		return fail("principal-not-callbacks/"+kind, "%s authenticator returned principal %#v, the callback returned %#v (callback answer %q)", kind, obs.principal, want, s.CB)
	}
	if (obs.err != nil) != (wantErr != nil) {
		if wantErr != nil {
			return fail("error-dropped/"+kind, "%s authenticator returned a nil error although the callback rejected the credential", kind)
		}
		return fail("error-invented/"+kind, "%s authenticator returned error %v although the callback returned none", kind, obs.err)
	}
	switch kind {
	case "basic":
		if wantErr != nil {
			wantRealm := effectiveRealm(s, security.DefaultRealmName)
			if obs.failedRealm != wantRealm {
				return fail("marker/failed-basic-realm", "basic credentials rejected by the callback: FailedBasicAuth = %q, expected realm %q", obs.failedRealm, wantRealm)
			}
		}
	case "bearer":
		if obs.schemeName != s.Scheme {
			return fail("marker/oauth2-scheme-name", "bearer token accepted for scheme %q but OAuth2SchemeName = %q", s.Scheme, obs.schemeName)
		}
	}
	out := kind + ":applies-" + s.CB
	if exp.applies == "may" {
		out = kind + ":may-applies(" + mayKey(exp.why) + ")"
	} else if kind == "bearer" {
		out += bearerPlace(kind, abs)
	}
	if fromDefault(cl, abs, s, exp) {
		out += "+default-credential"
	}
	return verdict{outcome: out, reached: true}
}

// fromDefault: the credential the authenticator is expected to see is the
// transport-wide default credential (the values of the three sources differ by construction).
func fromDefault(cl *Client, abs *absReq, s *Server, exp expectation) bool {
	if cl.Default == nil || !abs.defaultApplied {
		return false
	}
	d := cl.Default
	switch {
	case s.Kind == "basic":
		return d.Kind == "basic" && abs.authBy == "default"
	case s.Kind == "bearer" && d.Kind == "bearer":
		return abs.authBy == "default" && exp.token == string(d.Token)
	case d.Kind == "apikey":
		return exp.token == string(d.Token)
	}
	return false
}

// decoySfx: the request has a carrier with the credential's name in a place where
// this authenticator is not specified to look.
func decoySfx(cl *Client, s *Server) string {
	for _, e := range cl.Extra {
		n := strings.ToLower(string(e.Name))
		own := false
		hit := false
		switch s.Kind {
		case "basic":
			hit = n == "authorization"
		case "bearer":
			hit = n == "authorization" || n == "access_token"
			own = n == "access_token" && (e.In == "query" || e.In == "form")
		case "apikey":
			if strings.ToLower(s.In) == "header" {
				hit = n == strings.ToLower(string(s.Name))
				own = e.In == "header"
			} else {
				hit = string(e.Name) == string(s.Name) || n == strings.ToLower(string(s.Name))
				own = e.In == "query" && string(e.Name) == string(s.Name)
			}
		}
		if hit && !own {
			return "/decoy-carrier-in-" + e.In
		}
	}
	return ""
}

func mayKey(why string) string {
	if i := strings.Index(why, " with method"); i >= 0 {
		return why[:i]
	}
	return why
}

// bearerPlace names the placement the bearer token had to come from.
func bearerPlace(kind string, a *absReq) string {
	if kind != "bearer" {
		return ""
	}
	switch {
	case a.auth != nil && a.auth.kind == "bearer":
		return "/header"
	case a.query["access_token"] != "":
		return "/query"
	case a.form["access_token"] != "":
		return "/form-" + a.formKind
	}
	return ""
}

// matchesCred: the credential the server saw is the given client credential.
func matchesCred(c *Cred, s *Server, o observation) bool {
	if len(o.calls) == 0 {
		return false
	}
	k := o.calls[0]
	switch {
	case c.Kind == "basic" && s.Kind == "basic":
		return k.user == string(c.User) && k.pass == string(c.Pass)
	case c.Kind == "bearer" && s.Kind == "bearer", c.Kind == "apikey" && s.Kind == "apikey", c.Kind == "apikey" && s.Kind == "bearer":
		return k.token == string(c.Token)
	}
	return false
}

func showCall(k call) string {
	if k.hasScopes {
		return fmt.Sprintf("token %q scopes %q", k.token, k.scopes)
	}
	if k.user != "" || k.pass != "" {
		return fmt.Sprintf("user %q password %q", k.user, k.pass)
	}
	return fmt.Sprintf("token %q (user %q password %q)", k.token, k.user, k.pass)
}

func showExp(kind string, e expectation) string {
	if kind == "basic" {
		return fmt.Sprintf("user %q password %q", e.user, e.pass)
	}
	return fmt.Sprintf("token %q", e.token)
}
