// C14 - credentials written by the client are exactly those the server checks.
//
// Bounded exhaustive enumeration (E1) of client credential configurations x
// credential values x server authenticator configurations. Every case runs the
// real client writers and Runtime.CreateHttpRequest, serialises the request
// with Request.Write, parses it with http.ReadRequest (and, as a second
// transport, hands the client's request object over directly), consults the
// real security authenticator with a recording callback and compares with the
// reference in model.go, which is written from the property text.
package main

import (
	"encoding/json"
	"fmt"
	"hash/fnv"
	"io"
	"log"
	"net/http"
	"sort"
	"strings"
	"sync"

	"verif/engine/enum"
	"verif/engine/report"
)

// ---- alphabets ----

// the "nasty atoms" of DESIGN.md section 3 plus bytes that matter for headers,
// base64 and quoting
var atoms = []string{"", "a", " ", "+", "%", "%2F", "%25", "/", "?", "#", ":", "*", "=", ";v=1", "{q}", "}", ".", "..",
	"a b", "a+b", "a&b=c", "a,b", "é", "日本", "\x80", "\"", "\\", "\t", "\n", "\r\n", "\x00", "\x7f", "Bearer ", "Basic", "access_token=x"}

var long300 = strings.Repeat("0123456789abcdefghijklmnopqrstuvwxyzABCDEFGHIJKLMNOPQRSTUVWXYZ-._~+/", 5)[:300]

func pairs(a []string) []string {
	seen := map[string]bool{}
	var out []string
	add := func(s string) {
		if !seen[s] {
			seen[s] = true
			out = append(out, s)
		}
	}
	for _, x := range a {
		add(x)
	}
	add(long300)
	for _, x := range a {
		for _, y := range a {
			add(x + y)
		}
	}
	return out
}

func filter(a []string, keep func(string) bool) []string {
	var out []string
	for _, s := range a {
		if keep(s) {
			out = append(out, s)
		}
	}
	return out
}

// headerSafe: the string can be the value (or the tail of the value) of an HTTP
// header field and arrive unchanged: non-empty, field-value bytes only (HTAB,
// 0x20-0x7e, obs-text), no leading or trailing whitespace (a transport strips it).
func headerSafe(s string) bool {
	if s == "" || strings.ContainsAny(s[:1]+s[len(s)-1:], " \t") {
		return false
	}
	for i := 0; i < len(s); i++ {
		c := s[i]
		if (c < 0x20 && c != '\t') || c == 0x7f {
			return false
		}
	}
	return true
}

func nonEmpty(s string) bool { return s != "" }
func noColon(s string) bool  { return !strings.Contains(s, ":") }

// ---- sweeps ----

type sweep struct {
	name  string
	doc   string
	sizes []int
	gen   func(idx []int) (Case, bool) // false: the combination is not part of the space
}

func (s sweep) total() int {
	n := 1
	for _, k := range s.sizes {
		n *= k
	}
	return n
}

func decode(n int, sizes []int, idx []int) {
	for k := len(sizes) - 1; k >= 0; k-- {
		idx[k] = n % sizes[k]
		n /= sizes[k]
	}
}

func sp(s string) *S { v := S(s); return &v }

var (
	cbs      = []string{"ok", "nil", "err", "both"}
	realms   = []string{"-", "", "API", "My Realm, \"quoted\" é"}
	scopeSet = [][]string{nil, {"a"}, {"a", "b"}, {"b", "a", "a"}}
)

func basicServer(realm string, ctx bool, param, cb string) *Server {
	return &Server{Kind: "basic", Ctx: ctx, Param: param, Realm: realm, CB: cb}
}

func buildSweeps(thorough bool) []sweep {
	var sw []sweep
	all := pairs(atoms)
	users := filter(atoms, noColon)
	usersBig := filter(all, noColon)
	passes := atoms
	passesBig := all

	// A1/A2: basic, every user x every password, baseline authenticator configuration
	basicValues := func(name string, us, ps []string, skipSmall bool) sweep {
		return sweep{name: name,
			doc:   "client.BasicAuth(user, password) as operation credential -> BasicAuth / BasicAuthCtx, scoped invocation, callback accepts; axes: user, password, ctx, wire",
			sizes: []int{len(us), len(ps), 2, 2},
			gen: func(i []int) (Case, bool) {
				if skipSmall && i[0] < len(users) && i[1] < len(passes) && us[i[0]] == users[i[0]] && ps[i[1]] == passes[i[1]] {
					return Case{}, false // covered by basic-config
				}
				return Case{Mode: "unit", Wire: i[3] == 0,
					Client: &Client{OpAuth: []Cred{{Kind: "basic", User: S(us[i[0]]), Pass: S(ps[i[1]])}}},
					Server: basicServer("-", i[2] == 1, "scoped", "ok")}, true
			}}
	}
	if thorough {
		sw = append(sw, basicValues("basic-values", usersBig, passesBig, true))
	} else {
		sw = append(sw, basicValues("basic-values-users", usersBig, passes, true))
		sw = append(sw, sweep{name: "basic-values-passwords",
			doc:   "as basic-values: atom users x pair passwords (pairs beyond the atoms only)",
			sizes: []int{len(users), len(passesBig) - len(passes), 2, 2},
			gen: func(i []int) (Case, bool) {
				return Case{Mode: "unit", Wire: i[3] == 0,
					Client: &Client{OpAuth: []Cred{{Kind: "basic", User: S(users[i[0]]), Pass: S(passesBig[len(passes)+i[1]])}}},
					Server: basicServer("-", i[2] == 1, "scoped", "ok")}, true
			}})
	}
	// A3: basic, full authenticator configuration product on the atom values
	sw = append(sw, sweep{name: "basic-config",
		doc:   "atom users x atom passwords x realm {BasicAuth, BasicAuthRealm(\"\"), (\"API\"), (custom)} x ctx x invocation {*http.Request, *ScopedAuthRequest} x callback answer {ok, nil, err, both} x wire",
		sizes: []int{len(users), len(passes), len(realms), 2, 2, len(cbs), 2},
		gen: func(i []int) (Case, bool) {
			return Case{Mode: "unit", Wire: i[6] == 0,
				Client: &Client{OpAuth: []Cred{{Kind: "basic", User: S(users[i[0]]), Pass: S(passes[i[1]])}}},
				Server: basicServer(realms[i[2]], i[3] == 1, []string{"scoped", "request"}[i[4]], cbs[i[5]])}, true
		}})

	// K1: api key values, matching names
	hdrNames := []string{"X-Key", "x-key", "X-API-KEY", "api_key", "K", "X.Weird~Name!"}
	qryNames := []string{"api_key", "API_KEY", "k", "a b", "k&x=1", "ключ", "\x80", "access_token"}
	hdrVals := filter(all, headerSafe)
	qryVals := filter(all, nonEmpty)
	if !thorough {
		hdrVals = filter(append(append([]string{}, atoms...), pairs(atoms[:22])...), headerSafe)
		hdrVals = dedupe(hdrVals)
		qryVals = dedupe(filter(append(append([]string{}, atoms...), pairs(atoms[:22])...), nonEmpty))
	}
	variants := func(name string, header bool) []string {
		v := []string{name}
		if header {
			for _, o := range []string{strings.ToUpper(name), strings.ToLower(name)} {
				if o != name {
					v = append(v, o)
				}
			}
		}
		return v
	}
	keySweep := func(name, in string, names, vals []string) sweep {
		return sweep{name: name,
			doc:   "client.APIKeyAuth(name, " + in + ", value) -> APIKeyAuth / APIKeyAuthCtx(name', " + in + "), name' = name and (header) its upper/lower-case spellings; axes: name, spelling, value, ctx, wire, operation-vs-default credential",
			sizes: []int{len(names), 3, len(vals), 2, 2, 2},
			gen: func(i []int) (Case, bool) {
				vs := variants(names[i[0]], in == "header")
				if i[1] >= len(vs) {
					return Case{}, false
				}
				cr := Cred{Kind: "apikey", Name: S(names[i[0]]), In: in, Token: S(vals[i[2]])}
				cl := &Client{OpAuth: []Cred{cr}}
				if i[5] == 1 {
					cl = &Client{Default: &cr}
				}
				return Case{Mode: "unit", Wire: i[4] == 0, Client: cl,
					Server: &Server{Kind: "apikey", Ctx: i[3] == 1, Param: "scoped", Name: S(vs[i[1]]), In: in, CB: "ok"}}, true
			}}
	}
	sw = append(sw, keySweep("apikey-header-values", "header", hdrNames, hdrVals))
	sw = append(sw, keySweep("apikey-query-values", "query", qryNames, qryVals))

	// K2: api key, every client (name, location) x every server (name, location, spelling of location) x config
	type nl struct{ name, in string }
	var locs []nl
	for _, n := range hdrNames {
		locs = append(locs, nl{n, "header"})
	}
	for _, n := range qryNames {
		locs = append(locs, nl{n, "query"})
	}
	srvIn := map[string][]string{"header": {"header", "Header", "HEADER"}, "query": {"query", "Query", "QUERY"}}
	kvals := []string{"k1", "a b", "%2F", "é\x80", long300}
	sw = append(sw, sweep{name: "apikey-cross",
		doc:   "every client (name, location) x every server (name, location) x spelling of the server's location x 5 values x ctx x invocation x callback answer x wire: not applicable exactly when the server's parameter is not the one written",
		sizes: []int{len(locs), len(locs), 3, len(kvals), 2, 2, len(cbs), 2},
		gen: func(i []int) (Case, bool) {
			c, s := locs[i[0]], locs[i[1]]
			return Case{Mode: "unit", Wire: i[7] == 0,
				Client: &Client{OpAuth: []Cred{{Kind: "apikey", Name: S(c.name), In: c.in, Token: S(kvals[i[3]])}}},
				Server: &Server{Kind: "apikey", Ctx: i[4] == 1, Param: []string{"scoped", "request"}[i[5]], Name: S(s.name), In: srvIn[s.in][i[2]], CB: cbs[i[6]]}}, true
		}})

	// B1: bearer placements
	type hsrc struct {
		name string
		set  func(c *Client, t string)
	}
	hsrcs := []hsrc{
		{"none", func(*Client, string) {}},
		{"op-bearer", func(c *Client, t string) { c.OpAuth = append(c.OpAuth, Cred{Kind: "bearer", Token: S(t)}) }},
		{"default-bearer", func(c *Client, t string) { c.Default = &Cred{Kind: "bearer", Token: S(t)} }},
		{"preset-bearer", func(c *Client, t string) { c.Preset = &Cred{Kind: "bearer", Token: S(t)} }},
		{"preset-foreign-scheme", func(c *Client, t string) { c.Preset = &Cred{Kind: "raw", Raw: S("Token " + t)} }},
		{"op-basic", func(c *Client, t string) { c.OpAuth = append(c.OpAuth, Cred{Kind: "basic", User: S(t), Pass: "pw"}) }},
		{"preset-basic-lowercase-name", func(c *Client, t string) {
			c.Preset = &Cred{Kind: "basic", User: S(t), Pass: "pw"}
			c.PresetName = "authorization"
		}},
	}
	qsrcs := []string{"none", "params", "op-apikey"}
	fsrcs := []string{"none", "urlencoded", "multipart", "urlencoded-other-field-only", "multipart-other-field-only"}
	methods := []string{"POST", "PUT", "PATCH", "DELETE", "GET"}
	triples := [][3]string{{"hdr-tok", "qry-tok", "frm-tok"}, {"t", "tt", "ttt"}, {"ttt", "tt", "t"}, {"a b", "a+b", "a%20b"}, {"é", "日本", "\x80"}, {"Bearer x", "x", "access_token=x"}}
	if thorough {
		triples = append(triples, [3]string{"same", "same", "same"}, [3]string{long300, "q", "f"}, [3]string{"q", long300, "f"}, [3]string{"q", "f", long300})
	}
	bearerCase := func(h, q, f int, method string, tr [3]string, ctx bool, wire bool, scopes []string, cb string) (Case, bool) {
		cl := &Client{Method: method, Media: "json"}
		hsrcs[h].set(cl, tr[0])
		switch qsrcs[q] {
		case "params":
			cl.QueryToken = sp(tr[1])
		case "op-apikey":
			cl.OpAuth = append(cl.OpAuth, Cred{Kind: "apikey", Name: "access_token", In: "query", Token: S(tr[1])})
		}
		switch fsrcs[f] {
		case "urlencoded", "multipart":
			cl.Media = fsrcs[f]
			cl.FormToken = sp(tr[2])
			cl.FormOther = true
		case "urlencoded-other-field-only":
			cl.Media = "urlencoded"
			cl.FormOther = true
		case "multipart-other-field-only":
			cl.Media = "multipart"
			cl.FormOther = true
		}
		if abstract(cl).ambiguous != "" {
			return Case{}, false
		}
		return Case{Mode: "unit", Wire: wire, Client: cl,
			Server: &Server{Kind: "bearer", Ctx: ctx, Param: "scoped", Scheme: "oauth-scheme", Scopes: scopes, CB: cb}}, true
	}
	sw = append(sw, sweep{name: "bearer-placements",
		doc:   "Authorization header source {none, operation BearerToken, default BearerToken, header preset by the parameter writer, preset foreign scheme, operation BasicAuth, preset Basic under a lower-case header name} x query source {none, parameter writer, operation APIKeyAuth(access_token, query)} x form {none, urlencoded, multipart, each also without the token field} x method {POST, PUT, PATCH, DELETE, GET} x token triples (pairwise distinct, prefix-related, escaped look-alikes) x ctx x wire x required scopes x callback answer",
		sizes: []int{len(hsrcs), len(qsrcs), len(fsrcs), len(methods), len(triples), 2, 2, len(scopeSet), len(cbs)},
		gen: func(i []int) (Case, bool) {
			return bearerCase(i[0], i[1], i[2], methods[i[3]], triples[i[4]], i[5] == 1, i[6] == 0, scopeSet[i[7]], cbs[i[8]])
		}})
	// B2: bearer token values, one placement at a time
	tokH := hdrVals
	tokQ := qryVals
	places := []string{"op-bearer", "default-bearer", "query", "urlencoded", "multipart", "multipart+file"}
	sw = append(sw, sweep{name: "bearer-token-values",
		doc:   "single placement {operation BearerToken, default BearerToken, access_token query, urlencoded form, multipart form, multipart form with a file part} x every token value (header-safe strings for the header, every non-empty string elsewhere) x ctx x wire",
		sizes: []int{len(places), len(tokQ), 2, 2},
		gen: func(i []int) (Case, bool) {
			t := tokQ[i[1]]
			cl := &Client{Method: "POST", Media: "json"}
			switch places[i[0]] {
			case "op-bearer", "default-bearer":
				if i[1] >= len(tokH) {
					return Case{}, false
				}
				t = tokH[i[1]]
				if places[i[0]] == "op-bearer" {
					cl.OpAuth = []Cred{{Kind: "bearer", Token: S(t)}}
				} else {
					cl.Default = &Cred{Kind: "bearer", Token: S(t)}
				}
			case "query":
				cl.QueryToken = sp(t)
			case "multipart+file":
				cl.Media = "multipart"
				cl.FormToken = sp(t)
				cl.FormFile = true
			default:
				cl.Media = places[i[0]]
				cl.FormToken = sp(t)
			}
			return Case{Mode: "unit", Wire: i[3] == 0, Client: cl,
				Server: &Server{Kind: "bearer", Ctx: i[2] == 1, Param: "scoped", Scheme: "o", Scopes: []string{"s"}, CB: "ok"}}, true
		}})

	// D: default credential vs operation credential vs preset header, judged by a battery of authenticators
	type vals struct{ du, dp, dt, ou, op, ot, pu, pp, pt string }
	vsets := []vals{
		{"def-user", "def-pass", "def-token", "op-user", "op-pass", "op-token", "pre-user", "pre-pass", "pre-token"},
		{"u", "p:p", "t", "uu", "p:p:", "tt", "uuu", ":", "ttt"},
		{"é", "日本", "a b", "\x80", "", "a+b", "", "%", "%2F"},
	}
	defaults := func(v vals) []*Cred {
		return []*Cred{nil,
			{Kind: "basic", User: S(v.du), Pass: S(v.dp)},
			{Kind: "bearer", Token: S(v.dt)},
			{Kind: "apikey", Name: "X-Key", In: "header", Token: S(v.dt)},
			{Kind: "apikey", Name: "api_key", In: "query", Token: S(v.dt)},
			{Kind: "apikey", Name: "access_token", In: "query", Token: S(v.dt)}}
	}
	opAuths := func(v vals) [][]Cred {
		return [][]Cred{nil,
			{{Kind: "passthrough"}},
			{{Kind: "basic", User: S(v.ou), Pass: S(v.op)}},
			{{Kind: "bearer", Token: S(v.ot)}},
			{{Kind: "apikey", Name: "x-key", In: "header", Token: S(v.ot)}},
			{{Kind: "apikey", Name: "api_key", In: "query", Token: S(v.ot)}},
			{{Kind: "basic", User: S(v.ou), Pass: S(v.op)}, {Kind: "apikey", Name: "api_key", In: "query", Token: S(v.ot)}},
			{{Kind: "apikey", Name: "X-Key", In: "header", Token: S(v.ot)}, {Kind: "bearer", Token: S(v.ot + "2")}}}
	}
	presets := func(v vals) []*Cred {
		return []*Cred{nil,
			{Kind: "raw", Raw: S("Token " + v.pt)},
			{Kind: "basic", User: S(v.pu), Pass: S(v.pp)},
			{Kind: "bearer", Token: S(v.pt)}}
	}
	battery := []Server{
		{Kind: "basic", Param: "scoped", Realm: "-"},
		{Kind: "basic", Param: "request", Realm: "R"},
		{Kind: "bearer", Param: "scoped", Scheme: "o", Scopes: []string{"a"}},
		{Kind: "apikey", Param: "scoped", Name: "X-Key", In: "header"},
		{Kind: "apikey", Param: "request", Name: "api_key", In: "query"},
	}
	sw = append(sw, sweep{name: "default-credential",
		doc:   "Runtime.DefaultAuthentication {none, basic, bearer, api key header, api key query, access_token query} x operation AuthInfo {none, PassThroughAuth, basic, bearer, key header, key query, Compose(basic, key query), Compose(nil, key header, bearer)} x Authorization preset by the parameter writer {none, foreign scheme, Basic, Bearer} x header name spelling {Authorization, authorization} x 3 value sets (default, operation and preset values pairwise different) x authenticator battery {basic, basic realm+request, bearer, key header, key query} x ctx x callback {ok, err} x wire; combinations where two writers set the same slot are outside the space (the text does not say who wins)",
		sizes: []int{len(vsets), 6, 8, 4, 2, len(battery), 2, 2, 2},
		gen: func(i []int) (Case, bool) {
			v := vsets[i[0]]
			cl := &Client{Method: "POST", Media: "json", Default: defaults(v)[i[1]], Preset: presets(v)[i[3]]}
			ops := opAuths(v)[i[2]]
			cl.OpAuth = ops
			if i[2] == 7 {
				cl.ComposeNil = true
			}
			if i[4] == 1 {
				if cl.Preset == nil {
					return Case{}, false
				}
				cl.PresetName = "authorization"
			}
			if abstract(cl).ambiguous != "" {
				return Case{}, false
			}
			s := battery[i[5]]
			s.Ctx = i[6] == 1
			s.CB = []string{"ok", "err"}[i[7]]
			return Case{Mode: "unit", Wire: i[8] == 0, Client: cl, Server: &s}, true
		}})

	// X: cross-kind: a credential of one kind, every authenticator kind
	crossCreds := []Cred{
		{Kind: "basic", User: "u", Pass: "p"},
		{Kind: "basic", User: "Bearer", Pass: "access_token"},
		{Kind: "bearer", Token: "tok"},
		{Kind: "bearer", Token: "Basic dTpw"}, // a bearer token that looks like basic credentials
		{Kind: "bearer", Token: "dTpw"},
		{Kind: "apikey", Name: "X-Key", In: "header", Token: "Bearer tok"},
		{Kind: "apikey", Name: "X-Key", In: "header", Token: "Basic dTpw"},
		{Kind: "apikey", Name: "api_key", In: "query", Token: "tok"},
		{Kind: "apikey", Name: "X-Key", In: "query", Token: "tok"},    // the header's name, in the query
		{Kind: "apikey", Name: "api_key", In: "header", Token: "tok"}, // the query's name, in a header
		{Kind: "passthrough"},
	}
	sw = append(sw, sweep{name: "cross-kind",
		doc:   "one credential of each kind (including look-alikes: bearer token that is base64 of u:p, api key value that starts with a scheme name, key name in the other location) or none x authenticator battery x ctx x invocation x callback x wire: not applicable exactly when the request carries no credential of the authenticator's kind",
		sizes: []int{len(crossCreds) + 1, len(battery), 2, 2, len(cbs), 2},
		gen: func(i []int) (Case, bool) {
			cl := &Client{Method: "POST", Media: "json"}
			if i[0] < len(crossCreds) {
				cl.OpAuth = []Cred{crossCreds[i[0]]}
			}
			s := battery[i[1]]
			s.Ctx = i[2] == 1
			if s.Kind != "bearer" {
				s.Param = []string{"scoped", "request"}[i[3]]
			} else if i[3] == 1 {
				return Case{}, false
			}
			s.CB = cbs[i[4]]
			return Case{Mode: "unit", Wire: i[5] == 0, Client: cl, Server: &s}, true
		}})

	// M: middleware pass
	mwTokens := []string{"tok", "a b", "%2F+", "é日本\x80", "Bearer x", long300}
	if thorough {
		mwTokens = filter(atoms, headerSafe)
		mwTokens = append(mwTokens, long300)
	}
	mwCreds := func(t string) []*Cred {
		return []*Cred{nil,
			{Kind: "basic", User: S(strings.ReplaceAll(t, ":", "_")), Pass: S(":" + t)}, // user names have no ':'
			{Kind: "bearer", Token: S(t)},
			{Kind: "apikey", Name: "X-Key", In: "header", Token: S(t)},
			{Kind: "apikey", Name: "x-key", In: "header", Token: S(t)},
			{Kind: "apikey", Name: "api_key", In: "query", Token: S(t)},
			{Kind: "apikey", Name: "API_KEY", In: "query", Token: S(t)},
			{Kind: "apikey", Name: "access_token", In: "query", Token: S(t)}}
	}
	ops := mwOpKeys()
	sw = append(sw, sweep{name: "middleware",
		doc:   "real untyped API handler over a description with basic, key-header, key-query and two oauth2 schemes; operations requiring each scheme, oauth2 with scopes [], [a], [a,b], [b,a], an AND of two oauth2 schemes with different scopes, and one inheriting the description-wide requirement x operation credential {none, basic, bearer, key header (two spellings), key query (right and wrong case), access_token query} x token values x ctx x callback {ok, nil, err}",
		sizes: []int{len(ops), 8, len(mwTokens), 2, 3},
		gen: func(i []int) (Case, bool) {
			if i[1] == 0 && i[2] > 0 {
				return Case{}, false
			}
			return Case{Mode: "mw", Wire: true, MW: &MW{Op: ops[i[0]], Cred: mwCreds(mwTokens[i[2]])[i[1]], Ctx: i[3] == 1, CB: cbs[i[4]]}}, true
		}})

	// C: decoy carriers: the credential's NAME in places where the authenticator is not specified to look
	type dcfg struct {
		name   string
		server Server
		real   func(cl *Client, v string)              // writes the real credential; nil = none
		decoy  func(place, v string) (Carrier, string) // the carrier for that place
	}
	b64basic := func(v string) string {
		h := &http.Request{Header: http.Header{}}
		h.SetBasicAuth(v, "pw:"+v)
		return h.Header.Get("Authorization")
	}
	sameName := func(n string) func(place, v string) (Carrier, string) {
		return func(place, v string) (Carrier, string) { return Carrier{In: place, Name: S(n), Value: S(v)}, "" }
	}
	var dcfgs []dcfg
	basicDecoy := func(place, v string) (Carrier, string) {
		return Carrier{In: place, Name: "Authorization", Value: S(b64basic(v))}, ""
	}
	dcfgs = append(dcfgs,
		dcfg{"basic/none", Server{Kind: "basic", Realm: "-"}, nil, basicDecoy},
		dcfg{"basic/present", Server{Kind: "basic", Realm: "-"}, func(cl *Client, v string) {
			cl.OpAuth = []Cred{{Kind: "basic", User: S(v), Pass: S("pw:" + v)}}
		}, basicDecoy})
	bearerDecoy := func(place, v string) (Carrier, string) {
		switch place {
		case "header", "cookie": // the parameter's name where it is not a source
			return Carrier{In: place, Name: "access_token", Value: S(v)}, ""
		}
		return Carrier{In: place, Name: "Authorization", Value: S("Bearer " + v)}, "" // the header's name where it is not a source
	}
	bsrv := Server{Kind: "bearer", Scheme: "o", Scopes: []string{"a"}}
	dcfgs = append(dcfgs,
		dcfg{"bearer/none", bsrv, nil, bearerDecoy},
		dcfg{"bearer/header", bsrv, func(cl *Client, v string) { cl.OpAuth = []Cred{{Kind: "bearer", Token: S(v)}} }, bearerDecoy},
		dcfg{"bearer/query", bsrv, func(cl *Client, v string) { cl.QueryToken = sp(v) }, bearerDecoy},
		dcfg{"bearer/form", bsrv, func(cl *Client, v string) { cl.FormToken = sp(v) }, bearerDecoy})
	for _, n := range []string{"X-Key", "api_key"} {
		n := n
		srv := Server{Kind: "apikey", Name: S(n), In: "header"}
		dcfgs = append(dcfgs, dcfg{"key-header/" + n + "/none", srv, nil, sameName(n)},
			dcfg{"key-header/" + n + "/present", srv, func(cl *Client, v string) {
				cl.OpAuth = []Cred{{Kind: "apikey", Name: S(n), In: "header", Token: S(v)}}
			}, sameName(n)})
	}
	for _, n := range []string{"api_key", "X-Key", "k"} {
		n := n
		srv := Server{Kind: "apikey", Name: S(n), In: "query"}
		dcfgs = append(dcfgs, dcfg{"key-query/" + n + "/none", srv, nil, sameName(n)},
			dcfg{"key-query/" + n + "/present", srv, func(cl *Client, v string) {
				cl.OpAuth = []Cred{{Kind: "apikey", Name: S(n), In: "query", Token: S(v)}}
			}, sameName(n)})
	}
	dplaces := []string{"header", "query", "form", "cookie"}
	dvals := []string{"real-val"}
	if thorough {
		dvals = []string{"real-val", "a b", "é%2F+"}
	}
	sw = append(sw, sweep{name: "decoy-carriers",
		doc:   "for every authenticator kind {basic; bearer with the token in none/header/query/form; api key in header (2 names) and in query (3 names), each with the real credential absent or written by the client's writer} x every subset of the places {header, query, form field, cookie} carrying the credential's NAME through the parameter writer (api key: the key's name; basic: Authorization = Basic ...; bearer: access_token as header/cookie, Authorization = Bearer ... as query/form) x decoy value {same as the real one, different, real+suffix} x form encoding {urlencoded, multipart} x method {POST, PUT, PATCH, DELETE, GET} x value sets x ctx x transport x callback {ok, err} x invocation; a carrier in the place the authenticator IS specified to read is a credential (expected to apply), with the real credential also present it is a same-slot conflict and outside the space",
		sizes: []int{len(dcfgs), 16, 3, 2, len(methods), len(dvals), 2, 2, 2, 2},
		gen: func(i []int) (Case, bool) {
			d := dcfgs[i[0]]
			mask := i[1]
			if mask == 0 && i[2] > 0 {
				return Case{}, false
			}
			v := dvals[i[5]]
			dv := []string{v, "decoy-" + v, v + "x"}[i[2]]
			cl := &Client{Method: methods[i[4]], Media: "json"}
			if d.real != nil {
				d.real(cl, v)
			}
			for b, pl := range dplaces {
				if mask&(1<<b) != 0 {
					c, _ := d.decoy(pl, dv)
					cl.Extra = append(cl.Extra, c)
				}
			}
			hasForm := cl.FormToken != nil || mask&4 != 0
			if hasForm {
				cl.Media = []string{"urlencoded", "multipart"}[i[3]]
			} else if i[3] == 1 {
				return Case{}, false
			}
			if abstract(cl).ambiguous != "" {
				return Case{}, false
			}
			srv := d.server
			srv.Ctx = i[6] == 1
			srv.CB = []string{"ok", "err"}[i[8]]
			srv.Param = "scoped"
			if i[9] == 1 {
				if srv.Kind == "bearer" {
					return Case{}, false
				}
				srv.Param = "request"
			}
			return Case{Mode: "unit", Wire: i[7] == 0, Client: cl, Server: &srv}, true
		}})

	// Q: sequences on shared instances: one Runtime, one authenticator value per description
	type elem struct {
		cl  Client
		srv Server
	}
	seqClients := func(def *Cred) []Client {
		out := []Client{
			{Method: "POST", Media: "json", Default: def},
			{Method: "POST", Media: "json", Default: def, OpAuth: []Cred{{Kind: "bearer", Token: "tok-1"}}},
			{Method: "POST", Media: "json", Default: def, OpAuth: []Cred{{Kind: "bearer", Token: "tok-2"}}},
			{Method: "POST", Media: "json", Default: def, OpAuth: []Cred{{Kind: "basic", User: "u1", Pass: "p:1"}}},
			{Method: "PUT", Media: "json", Default: def, OpAuth: []Cred{{Kind: "basic", User: "u2", Pass: ""}}},
			{Method: "POST", Media: "json", Default: def, OpAuth: []Cred{{Kind: "apikey", Name: "X-Key", In: "header", Token: "key-1"}}},
			{Method: "POST", Media: "json", Default: def, OpAuth: []Cred{{Kind: "apikey", Name: "api_key", In: "query", Token: "key-2"}}},
			{Method: "POST", Media: "json", Default: def, OpAuth: []Cred{{Kind: "passthrough"}}},
			{Method: "POST", Media: "json", Default: def, QueryToken: sp("qry-1")},
			{Method: "POST", Media: "urlencoded", Default: def, FormToken: sp("frm-1"), FormOther: true},
			{Method: "PATCH", Media: "multipart", Default: def, FormToken: sp("frm-2")},
			{Method: "POST", Media: "json", Default: def, Preset: &Cred{Kind: "raw", Raw: "Token pre-1"}},
			{Method: "POST", Media: "urlencoded", Default: def, OpAuth: []Cred{{Kind: "apikey", Name: "api_key", In: "query", Token: "key-3"}},
				Extra: []Carrier{{In: "form", Name: "api_key", Value: "decoy-1"}, {In: "cookie", Name: "api_key", Value: "decoy-2"}}},
		}
		return out
	}
	seqServers := []Server{
		{Kind: "basic", Param: "scoped", Realm: "-", CB: "ok"},
		{Kind: "basic", Param: "scoped", Realm: "R", CB: "err"},
		{Kind: "bearer", Param: "scoped", Scheme: "o", Scopes: []string{"a"}, CB: "ok"},
		{Kind: "bearer", Param: "scoped", Scheme: "o", Scopes: []string{"a"}, CB: "nil"},
		{Kind: "apikey", Param: "scoped", Name: "X-Key", In: "header", CB: "ok"},
		{Kind: "apikey", Param: "request", Name: "api_key", In: "query", CB: "ok"},
	}
	seqDefaults := []*Cred{nil, {Kind: "bearer", Token: "def-tok"}, {Kind: "apikey", Name: "X-Key", In: "header", Token: "def-key"}}
	var groups [][]elem
	for _, def := range seqDefaults {
		var g []elem
		for _, c := range seqClients(def) {
			for _, s := range seqServers {
				g = append(g, elem{c, s})
			}
		}
		groups = append(groups, g)
	}
	ne := len(groups[0])
	mkSeq := func(g []elem, idx []int, ctx, wire bool) Case {
		var head *Case
		for k := len(idx) - 1; k >= 0; k-- {
			e := g[idx[k]]
			cl, srv := e.cl, e.srv
			srv.Ctx = ctx
			head = &Case{Mode: "unit", Wire: wire, Client: &cl, Server: &srv, Then: head}
		}
		return *head
	}
	sw = append(sw, sweep{name: "sequences-pairs",
		doc:   fmt.Sprintf("every ordered pair of %d elements (13 client operations x 6 authenticator descriptions) per transport-wide default {none, bearer, key header}, both requests built on ONE client Runtime, judged by ONE authenticator value when the two descriptions are equal, x ctx x transport; each step is judged by the reference as on fresh instances (state surviving a request - header maps, default-credential wrapper, parsed forms, recorder of the callback - would show)", ne),
		sizes: []int{len(groups), ne, ne, 2, 2},
		gen: func(i []int) (Case, bool) {
			return mkSeq(groups[i[0]], []int{i[1], i[2]}, i[3] == 1, i[4] == 0), true
		}})
	hostileDoc := "HOSTILE CALLER variant of %s (same axes and sizes, same fresh-instance oracle per step): the application keeps ONE writer instance per credential description (client.BasicAuth / BearerToken / APIKeyAuth value created once, used as AuthInfo of every operation with that credential and for every assignment of Runtime.DefaultAuthentication), and after each step the caller overwrites IN PLACE every value of every header, parsed form and trailer slice of the *http.Request the client built and of the request the server parsed, then deletes every key of those maps; the next step must still carry exactly its own credentials (storage shared between a writer and the requests it wrote, or between two requests, would show)"
	sw = append(sw, sweep{name: "hostile-sequences-pairs",
		doc:   fmt.Sprintf(hostileDoc, "sequences-pairs"),
		sizes: []int{len(groups), ne, ne, 2, 2},
		gen: func(i []int) (Case, bool) {
			c := mkSeq(groups[i[0]], []int{i[1], i[2]}, i[3] == 1, i[4] == 0)
			c.Hostile = true
			return c, true
		}})
	if thorough {
		sw = append(sw, sweep{name: "sequences-triples",
			doc:   "as sequences-pairs, every ordered triple, plain variants over the wire",
			sizes: []int{len(groups), ne, ne, ne},
			gen: func(i []int) (Case, bool) {
				return mkSeq(groups[i[0]], []int{i[1], i[2], i[3]}, false, true), true
			}})
	}

	// R: histories with the transport-wide credential re-assigned between calls on ONE Runtime
	rdefaults := []*Cred{nil,
		{Kind: "bearer", Token: "def-tok-1"},
		{Kind: "bearer", Token: "def-tok-2"},
		{Kind: "basic", User: "def-user", Pass: "def:pass"},
		{Kind: "apikey", Name: "X-Key", In: "header", Token: "def-key"},
		{Kind: "apikey", Name: "api_key", In: "query", Token: "def-qkey"}}
	rcalls := []Client{
		{Method: "POST", Media: "json"}, // no AuthInfo: the default credential's turn
		{Method: "POST", Media: "json", OpAuth: []Cred{{Kind: "apikey", Name: "x-key", In: "header", Token: "op-key"}}},
		{Method: "POST", Media: "json", OpAuth: []Cred{{Kind: "bearer", Token: "op-tok"}}},
		{Method: "POST", Media: "json", OpAuth: []Cred{{Kind: "passthrough"}}},
		{Method: "POST", Media: "json", Preset: &Cred{Kind: "raw", Raw: "Token pre-set"}},
		{Method: "POST", Media: "json", Preset: &Cred{Kind: "bearer", Token: "pre-tok"}, PresetName: "authorization"},
	}
	rservers := []Server{
		{Kind: "bearer", Param: "scoped", Scheme: "o", Scopes: []string{"a"}, CB: "ok"},
		{Kind: "basic", Param: "scoped", Realm: "-", CB: "ok"},
		{Kind: "apikey", Param: "scoped", Name: "X-Key", In: "header", CB: "ok"},
		{Kind: "apikey", Param: "request", Name: "api_key", In: "query", CB: "ok"},
	}
	nr := len(rdefaults) * len(rcalls)
	mkHist := func(steps []int, srv Server, ctx, wire bool) Case {
		var head *Case
		for k := len(steps) - 1; k >= 0; k-- {
			cl := rcalls[steps[k]%len(rcalls)]
			cl.Default = rdefaults[steps[k]/len(rcalls)]
			s := srv
			s.Ctx = ctx
			head = &Case{Mode: "unit", Wire: wire, Client: &cl, Server: &s, Then: head}
		}
		return *head
	}
	histDoc := "histories on ONE client Runtime: each step = (value assigned to Runtime.DefaultAuthentication before the call: none, bearer token 1, bearer token 2, basic, key header, key query) x (the call: no AuthInfo, own key header, own bearer, PassThroughAuth, Authorization preset with a foreign scheme, Authorization preset as bearer under a lower-case name); every step must put on the wire exactly what the fresh-instance reference gives for the CURRENT default value, that call's AuthInfo and that call's own header; all 36 steps"
	sw = append(sw, sweep{name: "default-reassignment-pairs",
		doc:   histDoc + " ^2 x 4 authenticators x ctx x transport",
		sizes: []int{nr, nr, len(rservers), 2, 2},
		gen: func(i []int) (Case, bool) {
			return mkHist([]int{i[0], i[1]}, rservers[i[2]], i[3] == 1, i[4] == 0), true
		}})
	sw = append(sw, sweep{name: "hostile-default-reassignment-pairs",
		doc:   fmt.Sprintf(hostileDoc, "default-reassignment-pairs"),
		sizes: []int{nr, nr, len(rservers), 2, 2},
		gen: func(i []int) (Case, bool) {
			c := mkHist([]int{i[0], i[1]}, rservers[i[2]], i[3] == 1, i[4] == 0)
			c.Hostile = true
			return c, true
		}})
	if thorough {
		sw = append(sw, sweep{name: "hostile-default-reassignment-triples",
			doc:   fmt.Sprintf(hostileDoc, "default-reassignment-triples"),
			sizes: []int{nr, nr, nr, len(rservers)},
			gen: func(i []int) (Case, bool) {
				c := mkHist([]int{i[0], i[1], i[2]}, rservers[i[3]], false, true)
				c.Hostile = true
				return c, true
			}})
	}
	sw = append(sw, sweep{name: "default-reassignment-triples",
		doc:   histDoc + " ^3 x 4 authenticators, plain variants over the wire",
		sizes: []int{nr, nr, nr, len(rservers)},
		gen: func(i []int) (Case, bool) {
			return mkHist([]int{i[0], i[1], i[2]}, rservers[i[3]], false, true), true
		}})

	// small, discriminating sweeps first: a run cut by its time budget has then covered every clause
	rank := map[string]int{"cross-kind": 0, "middleware": 1, "default-credential": 2, "decoy-carriers": 3, "default-reassignment-pairs": 4, "sequences-pairs": 4, "hostile-sequences-pairs": 4, "hostile-default-reassignment-pairs": 4, "hostile-default-reassignment-triples": 9, "default-reassignment-triples": 5, "bearer-placements": 5, "apikey-cross": 6, "basic-config": 7, "bearer-token-values": 8, "sequences-triples": 9}
	sort.SliceStable(sw, func(i, j int) bool {
		ri, ok := rank[sw[i].name]
		if !ok {
			ri = 100
		}
		rj, ok := rank[sw[j].name]
		if !ok {
			rj = 100
		}
		return ri < rj
	})
	return sw
}

func dedupe(a []string) []string {
	seen := map[string]bool{}
	var out []string
	for _, s := range a {
		if !seen[s] {
			seen[s] = true
			out = append(out, s)
		}
	}
	return out
}

func caseHash(c Case) uint64 {
	b, _ := json.Marshal(c)
	h := fnv.New64a()
	_, _ = h.Write(b)
	return h.Sum64()
}

func main() {
	log.SetOutput(io.Discard) // the client logs pipe errors of abandoned multipart bodies; none are expected, none are judged
	r := report.Start("C14", "exploration")
	if r.Replay != "" {
		var c Case
		r.LoadReplay(&c)
		verbose = true
		v := check(c)
		b, _ := json.Marshal(c)
		fmt.Printf("replay %s\n", b)
		if c.Mode == "unit" && c.Client != nil && c.Server != nil {
			abs := abstract(c.Client)
			if abs.ambiguous == "" {
				e := expect(abs, c.Server)
				fmt.Printf("  expected: applies=%s user=%q password=%q token=%q (%s)\n", e.applies, e.user, e.pass, e.token, e.why)
			}
		}
		fmt.Printf("  observed: %s\n  outcome=%s\n  class=%q %s\n", v.seen, v.outcome, v.class, v.what)
		if v.class != "" {
			r.Fail(v.class, v.what, c)
		}
		r.Eval(1)
		r.Nontrivial(2)
		r.Sample(c)
		r.Finish("replay of one case", false)
	}

	sweeps := buildSweeps(r.Thorough())
	const chunk = 512
	var hmu sync.Mutex
	var hashes []uint64
	complete := true
	for _, s := range sweeps {
		total := s.total()
		nchunks := (total + chunk - 1) / chunk
		var inSpace int64
		var smu sync.Mutex
		rot := 0
		if nchunks > 0 {
			rot = int(r.Seed%int64(nchunks)+int64(nchunks)) % nchunks
		}
		enum.Parallel(nchunks, r.OutOfTime, func(ci int) {
			ci = (ci + rot) % nchunks
			idx := make([]int, len(s.sizes))
			outcomes := map[string]int64{}
			var evals, reached int64
			var local []uint64
			for n := ci * chunk; n < (ci+1)*chunk && n < total; n++ {
				decode(n, s.sizes, idx)
				c, ok := s.gen(idx)
				if !ok {
					continue
				}
				v := check(c)
				if v.steps > 1 {
					evals += int64(v.steps)
				} else {
					evals++
				}
				outcomes[v.outcome]++
				if v.class != "" {
					r.Fail(v.class, v.what, c)
				}
				if v.reached || v.class != "" {
					reached++
					local = append(local, caseHash(c))
				}
				if n%9973 == int(r.Seed%9973+9973)%9973 && r.WantSample() {
					r.Sample(map[string]any{"sweep": s.name, "case": c, "outcome": v.outcome})
				}
			}
			r.Eval(evals)
			for k, v := range outcomes {
				r.Outcome(k, v)
			}
			smu.Lock()
			inSpace += evals
			smu.Unlock()
			hmu.Lock()
			hashes = append(hashes, local...)
			hmu.Unlock()
		})
		if r.Cut() {
			complete = false
		}
		r.Set("sweep_"+s.name, map[string]any{"axes": s.sizes, "product": total, "cases_in_space": inSpace, "what": s.doc})
	}
	sort.Slice(hashes, func(i, j int) bool { return hashes[i] < hashes[j] })
	var distinct int64
	for i := range hashes {
		if i == 0 || hashes[i] != hashes[i-1] {
			distinct++
		}
	}
	r.Nontrivial(distinct)
	r.Set("hostile_caller", map[string]any{"writer_instances": "one per credential description per sequence, shared by AuthInfo and DefaultAuthentication", "scrubbed_after_each_step": []string{"built request: Header", "server request: Header, Form, PostForm, MultipartForm.Value, Trailer"}, "scrub": "every element of every value slice overwritten in place with REDACTED, then every key deleted", "sweeps": []string{"hostile-sequences-pairs", "hostile-default-reassignment-pairs", "hostile-default-reassignment-triples (thorough)"}})
	r.Set("alphabet_atoms", len(atoms))
	r.Set("alphabet_strings", len(pairs(atoms)))
	r.Assume(
		"reference model (props/c14/model.go: abstract, expect) is the reading of the property text; header-safe = non-empty, field-value bytes, no leading/trailing whitespace",
		"the wire is Request.Write + http.ReadRequest of the standard library (no socket, no server-side header validation)",
		"combinations in which two writers set the same header or parameter are outside the space (the text does not say who wins)",
		"MAY (never reported, recorded in the outcome labels): whether the request body is still readable after authentication (observed on the pinned tree: basic and api-key authenticators and bearer with a header or query token leave it intact, bearer reads a form body); empty key or token values; form placement with methods other than POST/PUT/PATCH; error value returned together with 'not applicable'; FailedBasicAuth after accepted credentials; OAuth2SchemeName when not applicable; what a Ctx callback's context carries")
	r.Finish("every element of the stated sweeps (products of explicit axes, ambiguous and duplicated combinations removed by stated rules) is executed once on the real client writers, Runtime.CreateHttpRequest, Request.Write/http.ReadRequest and the real authenticator; one evaluation = one pipeline (a sequence of n steps counts n); the space includes decoy carriers (the credential's name in every place the authenticator is not specified to read, same and different values, methods with and without body) and ordered pairs (thorough: triples) of requests on one shared Runtime and authenticator value, each step judged as on fresh instances, and histories of 2-3 calls on one Runtime with Runtime.DefaultAuthentication re-assigned between the calls (6 values x 6 kinds of call per step), and the HOSTILE CALLER variants of the pair sweeps (hostile-sequences-pairs 3 x 78 x 78 x 2 x 2, hostile-default-reassignment-pairs 36 x 36 x 4 x 2 x 2; thorough also the 36^3 x 4 triples): one long-lived writer instance per credential description re-used across the steps as AuthInfo and as Runtime.DefaultAuthentication, and after every step every header / form value slice of the built request and of the request the server parsed overwritten in place and the maps emptied, every following step still judged as on fresh instances; non-trivial = the request carried at least one credential or placement and the authenticator under test was consulted (or the oracle failed); distinct = number of different 64-bit FNV hashes of the canonical JSON of the case, so a case reached by two sweeps is counted once", complete)
}
