package main

// The real pipeline: client auth writers -> Runtime.CreateHttpRequest ->
// (Request.Write / http.ReadRequest) -> server authenticator with a recording
// callback. Everything here drives go-openapi/runtime; expectations come from model.go.

import (
	"bufio"
	"bytes"
	"context"
	"errors"
	"fmt"
	"io"
	"net/http"
	"strings"

	"github.com/go-openapi/runtime"
	"github.com/go-openapi/runtime/client"
	"github.com/go-openapi/runtime/security"
	"github.com/go-openapi/strfmt"
)

func writerFor(c Cred) runtime.ClientAuthInfoWriter {
	switch c.Kind {
	case "basic":
		return client.BasicAuth(string(c.User), string(c.Pass))
	case "bearer":
		return client.BearerToken(string(c.Token))
	case "apikey":
		return client.APIKeyAuth(string(c.Name), c.In, string(c.Token))
	case "passthrough":
		return client.PassThroughAuth
	}
	panic("no client writer for credential kind " + c.Kind)
}

func mediaType(m string) string {
	switch m {
	case "urlencoded":
		return runtime.URLencodedFormMime
	case "multipart":
		return runtime.MultipartFormMime
	}
	return runtime.JSONMime
}

// buildClientRequest runs the real client side.
func buildClientRequest(c *Client, host, pathPattern string) (*http.Request, error) {
	return buildClientRequestOn(newRuntime(c, host), c, pathPattern)
}

// newRuntime: the transport an application creates once: host, scheme, default credential.
func newRuntime(c *Client, host string) *client.Runtime {
	rt := client.New(host, "/", []string{"http"})
	if c.Default != nil {
		rt.DefaultAuthentication = writerFor(*c.Default)
	}
	return rt
}

// buildClientRequestOn builds one operation's request on an existing Runtime.
func buildClientRequestOn(rt *client.Runtime, c *Client, pathPattern string) (*http.Request, error) {
	return buildClientRequestWith(rt, c, pathPattern, writerFor)
}

// buildClientRequestWith: wf supplies the auth writers (a fresh one per use, or the
// application's long-lived instance of that credential).
func buildClientRequestWith(rt *client.Runtime, c *Client, pathPattern string, wf func(Cred) runtime.ClientAuthInfoWriter) (*http.Request, error) {
	params := runtime.ClientRequestWriterFunc(func(req runtime.ClientRequest, _ strfmt.Registry) error {
		if c.Preset != nil {
			name := c.PresetName
			if name == "" {
				name = "Authorization"
			}
			var v string
			switch c.Preset.Kind {
			case "raw":
				v = string(c.Preset.Raw)
			case "bearer":
				v = "Bearer " + string(c.Preset.Token)
			case "basic":
				// the parameter writer of an application that sets the header itself:
				// use the standard library's encoder, not the client's
				h := &http.Request{Header: http.Header{}}
				h.SetBasicAuth(string(c.Preset.User), string(c.Preset.Pass))
				v = h.Header.Get("Authorization")
			}
			if err := req.SetHeaderParam(name, v); err != nil {
				return err
			}
		}
		if c.QueryToken != nil {
			if err := req.SetQueryParam("access_token", string(*c.QueryToken)); err != nil {
				return err
			}
		}
		if c.FormToken != nil {
			if err := req.SetFormParam("access_token", string(*c.FormToken)); err != nil {
				return err
			}
		}
		if c.FormOther {
			if err := req.SetFormParam("other", "x"); err != nil {
				return err
			}
		}
		var cookies []string
		for _, e := range c.Extra {
			var err error
			switch e.In {
			case "header":
				err = req.SetHeaderParam(string(e.Name), string(e.Value))
			case "query":
				err = req.SetQueryParam(string(e.Name), string(e.Value))
			case "form":
				err = req.SetFormParam(string(e.Name), string(e.Value))
			case "cookie":
				cookies = append(cookies, string(e.Name)+"="+string(e.Value))
			}
			if err != nil {
				return err
			}
		}
		if len(cookies) > 0 {
			if err := req.SetHeaderParam("Cookie", strings.Join(cookies, "; ")); err != nil {
				return err
			}
		}
		if c.FormFile {
			f := runtime.NamedReader("upload.txt", strings.NewReader("access_token=in-the-file\r\n--not-a-boundary\r\n"))
			if err := req.SetFileParam("upload", f); err != nil {
				return err
			}
		}
		return nil
	})
	op := &runtime.ClientOperation{
		ID:                 "op",
		Method:             c.Method,
		PathPattern:        pathPattern,
		ProducesMediaTypes: []string{runtime.JSONMime},
		ConsumesMediaTypes: []string{mediaType(c.Media)},
		Schemes:            []string{"http"},
		Params:             params,
	}
	if op.Method == "" {
		op.Method = "POST"
	}
	switch {
	case c.OpAuth == nil:
	case len(c.OpAuth) == 1 && !c.ComposeNil:
		op.AuthInfo = wf(c.OpAuth[0])
	default:
		var ws []runtime.ClientAuthInfoWriter
		if c.ComposeNil {
			ws = append(ws, nil)
		}
		for _, cr := range c.OpAuth {
			ws = append(ws, wf(cr))
		}
		op.AuthInfo = client.Compose(ws...)
	}
	return rt.CreateHttpRequest(op)
}

// release consumes what is left of a client-built request body so that the
// multipart writer goroutine of the client always terminates.
func release(req *http.Request) {
	if req != nil && req.Body != nil {
		_, _ = io.Copy(io.Discard, req.Body)
		_ = req.Body.Close()
	}
}

// scrub is the hostile caller: the owner of a built (or received) request overwrites, in
// place, every header and parsed form value it was handed and then empties the maps
// (redacting secrets before logging, recycling the request). Nothing the library hands
// to one request may be storage that a later request or the writer itself still uses.
func scrub(reqs ...*http.Request) int {
	n := 0
	wipe := func(m map[string][]string) {
		for k, vs := range m {
			for i := range vs {
				vs[i] = "REDACTED"
				n++
			}
			delete(m, k)
		}
	}
	for _, r := range reqs {
		if r == nil {
			continue
		}
		wipe(r.Header)
		wipe(r.Form)
		wipe(r.PostForm)
		wipe(r.Trailer)
		if r.MultipartForm != nil {
			wipe(r.MultipartForm.Value)
		}
	}
	return n
}

// overWire serialises the client request the way the transport would and
// parses it the way a server does.
func overWire(req *http.Request) (*http.Request, []byte, error) {
	var buf bytes.Buffer
	if err := req.Write(&buf); err != nil {
		return nil, nil, fmt.Errorf("Request.Write: %w", err)
	}
	raw := buf.Bytes()
	sreq, err := http.ReadRequest(bufio.NewReader(bytes.NewReader(raw)))
	if err != nil {
		return nil, raw, fmt.Errorf("http.ReadRequest: %w", err)
	}
	return sreq, raw, nil
}

// ---- recording callbacks ----

type principal struct{ id int }

type ctxKey string

const (
	inKey  ctxKey = "c14-request-value"  // put on the request before authentication
	outKey ctxKey = "c14-callback-value" // put on the context by Ctx callbacks
)

type call struct {
	user, pass, token string
	scopes            []string
	hasScopes         bool
	ctxSeen           bool   // Ctx variants: the context handed to the callback descends from the request's
	schemeInCtx       string // Ctx bearer: OAuth2SchemeNameCtx of the callback's context
}

type recorder struct {
	cb    string
	calls []call
	p     *principal
	err   error
}

var errRejected = errors.New("c14: callback rejects the credential")

func newRecorder(cb string) *recorder {
	r := &recorder{cb: cb}
	switch cb {
	case "ok":
		r.p = &principal{1}
	case "nil":
	case "err":
		r.err = errRejected
	case "both":
		r.p = &principal{2}
		r.err = errRejected
	default:
		panic("unknown callback answer " + cb)
	}
	return r
}

func (r *recorder) answer() (interface{}, error) {
	if r.p == nil {
		return nil, r.err // an untyped nil principal, as applications return it
	}
	return r.p, r.err
}

func (r *recorder) ctxAnswer(ctx context.Context, c call) (context.Context, interface{}, error) {
	c.ctxSeen = ctx != nil && ctx.Value(inKey) == "in"
	if ctx != nil {
		c.schemeInCtx = security.OAuth2SchemeNameCtx(ctx)
	} else {
		ctx = context.Background()
	}
	r.calls = append(r.calls, c)
	p, err := r.answer()
	return context.WithValue(ctx, outKey, "out"), p, err
}

func buildAuthenticator(s *Server, rec *recorder) runtime.Authenticator {
	switch s.Kind {
	case "basic":
		if s.Ctx {
			f := security.UserPassAuthenticationCtx(func(ctx context.Context, u, p string) (context.Context, interface{}, error) {
				return rec.ctxAnswer(ctx, call{user: u, pass: p})
			})
			if s.Realm == "-" {
				return security.BasicAuthCtx(f)
			}
			return security.BasicAuthRealmCtx(s.Realm, f)
		}
		f := security.UserPassAuthentication(func(u, p string) (interface{}, error) {
			rec.calls = append(rec.calls, call{user: u, pass: p})
			return rec.answer()
		})
		if s.Realm == "-" {
			return security.BasicAuth(f)
		}
		return security.BasicAuthRealm(s.Realm, f)
	case "apikey":
		if s.Ctx {
			return security.APIKeyAuthCtx(string(s.Name), s.In, func(ctx context.Context, t string) (context.Context, interface{}, error) {
				return rec.ctxAnswer(ctx, call{token: t})
			})
		}
		return security.APIKeyAuth(string(s.Name), s.In, func(t string) (interface{}, error) {
			rec.calls = append(rec.calls, call{token: t})
			return rec.answer()
		})
	case "bearer":
		if s.Ctx {
			return security.BearerAuthCtx(s.Scheme, func(ctx context.Context, t string, sc []string) (context.Context, interface{}, error) {
				return rec.ctxAnswer(ctx, call{token: t, scopes: sc, hasScopes: true})
			})
		}
		return security.BearerAuth(s.Scheme, func(t string, sc []string) (interface{}, error) {
			rec.calls = append(rec.calls, call{token: t, scopes: sc, hasScopes: true})
			return rec.answer()
		})
	}
	panic("unknown server kind " + s.Kind)
}

// observation is what the real pipeline did.
type observation struct {
	applies     bool
	principal   interface{}
	err         error
	calls       []call
	failedRealm string
	schemeName  string
	ctxOut      bool // the request carries the value a Ctx callback added
	raw         []byte
}

func authenticate(s *Server, req *http.Request, rec *recorder) observation {
	return authenticateWith(buildAuthenticator(s, rec), s, req, rec)
}

// authenticateWith consults an existing authenticator value (rec is the recorder its callback writes to).
func authenticateWith(a runtime.Authenticator, s *Server, req *http.Request, rec *recorder) observation {
	req = req.WithContext(context.WithValue(req.Context(), inKey, "in"))
	var o observation
	if s.Param == "request" && s.Kind != "bearer" {
		o.applies, o.principal, o.err = a.Authenticate(req)
	} else {
		o.applies, o.principal, o.err = a.Authenticate(&security.ScopedAuthRequest{Request: req, RequiredScopes: s.Scopes})
	}
	o.calls = rec.calls
	o.failedRealm = security.FailedBasicAuth(req)
	o.schemeName = security.OAuth2SchemeName(req)
	o.ctxOut = req.Context().Value(outKey) == "out"
	return o
}
