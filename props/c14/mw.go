package main

// Middleware pass: the real client request goes over the wire into the real
// untyped API handler; the authenticators are registered for the security
// schemes of a fixed description, so "the operation's required scopes" are the
// ones the description gives the operation (not a value chosen by the harness).

import (
	"context"
	"fmt"
	"net/http"
	"net/http/httptest"
	"sort"
	"sync"

	"github.com/go-openapi/runtime"
	"github.com/go-openapi/runtime/middleware"
	"github.com/go-openapi/runtime/middleware/untyped"
	"github.com/go-openapi/runtime/security"

	"verif/engine/apib"
)

// mwOp: one operation of the fixed description: path -> scheme -> required scopes.
type mwOp struct {
	path    string
	schemes map[string][]string // nil = inherits the description-wide requirement
}

var mwOps = map[string]mwOp{
	"b":   {"/b", map[string][]string{"b": {}}},
	"kh":  {"/kh", map[string][]string{"kh": {}}},
	"kq":  {"/kq", map[string][]string{"kq": {}}},
	"o0":  {"/o0", map[string][]string{"o": {}}},
	"o1":  {"/o1", map[string][]string{"o": {"a"}}},
	"o2":  {"/o2", map[string][]string{"o": {"a", "b"}}},
	"o3":  {"/o3", map[string][]string{"o": {"b", "a"}}},
	"oo":  {"/oo", map[string][]string{"o": {"a"}, "o2": {"b", "c"}}},
	"inh": {"/inh", nil},
}

// description-wide requirement, inherited by "inh"
var mwGlobal = map[string][]string{"o": {"c"}}

func mwOpKeys() []string {
	ks := make([]string, 0, len(mwOps))
	for k := range mwOps {
		ks = append(ks, k)
	}
	sort.Strings(ks)
	return ks
}

func mwRequired(op string) map[string][]string {
	if s := mwOps[op].schemes; s != nil {
		return s
	}
	return mwGlobal
}

const (
	mwKeyHeader = "X-Key"
	mwKeyQuery  = "api_key"
)

type mwServer struct {
	h          http.Handler
	rec        map[string]*recorder // per scheme
	authzCalls int
	authzP     interface{}
	handlerRan int
}

func (s *mwServer) reset(cb string) {
	for i, k := range []string{"b", "kh", "kq", "o", "o2"} {
		r := newRecorder(cb)
		if r.p != nil {
			r.p = &principal{100 + i} // a distinct principal per scheme
		}
		s.rec[k] = r
	}
	s.authzCalls, s.authzP, s.handlerRan = 0, nil, 0
}

func newMWServer(ctxVariant bool) *mwServer {
	s := &mwServer{rec: map[string]*recorder{}}
	oauth := func() map[string]any {
		return map[string]any{"type": "oauth2", "flow": "password", "tokenUrl": "http://c14.example/token",
			"scopes": map[string]any{"a": "a", "b": "b", "c": "c"}}
	}
	sp := apib.Spec{
		BasePath: "/",
		Consumes: []string{runtime.JSONMime},
		Produces: []string{runtime.JSONMime},
		SecurityDefs: map[string]any{
			"b":  map[string]any{"type": "basic"},
			"kh": map[string]any{"type": "apiKey", "in": "header", "name": mwKeyHeader},
			"kq": map[string]any{"type": "apiKey", "in": "query", "name": mwKeyQuery},
			"o":  oauth(),
			"o2": oauth(),
		},
		Security: []map[string][]string{mwGlobal},
	}
	for _, k := range mwOpKeys() {
		o := mwOps[k]
		op := apib.Op{Method: "POST", Path: o.path, ID: "op_" + k}
		if o.schemes != nil {
			sec := []map[string][]string{o.schemes}
			op.Security = &sec
		}
		sp.Ops = append(sp.Ops, op)
	}
	doc := apib.MustLoad(sp)
	api := untyped.NewAPI(doc)
	for _, k := range mwOpKeys() {
		api.RegisterOperation("POST", mwOps[k].path, runtime.OperationHandlerFunc(func(interface{}) (interface{}, error) {
			s.handlerRan++
			return map[string]string{"ok": "yes"}, nil
		}))
	}
	if ctxVariant {
		api.RegisterAuth("b", security.BasicAuthCtx(func(ctx context.Context, u, p string) (context.Context, interface{}, error) {
			return s.rec["b"].ctxAnswer(ctx, call{user: u, pass: p})
		}))
		api.RegisterAuth("kh", security.APIKeyAuthCtx(mwKeyHeader, "header", func(ctx context.Context, t string) (context.Context, interface{}, error) {
			return s.rec["kh"].ctxAnswer(ctx, call{token: t})
		}))
		api.RegisterAuth("kq", security.APIKeyAuthCtx(mwKeyQuery, "query", func(ctx context.Context, t string) (context.Context, interface{}, error) {
			return s.rec["kq"].ctxAnswer(ctx, call{token: t})
		}))
		for _, name := range []string{"o", "o2"} {
			name := name
			api.RegisterAuth(name, security.BearerAuthCtx(name, func(ctx context.Context, t string, sc []string) (context.Context, interface{}, error) {
				return s.rec[name].ctxAnswer(ctx, call{token: t, scopes: sc, hasScopes: true})
			}))
		}
	} else {
		api.RegisterAuth("b", security.BasicAuth(func(u, p string) (interface{}, error) {
			r := s.rec["b"]
			r.calls = append(r.calls, call{user: u, pass: p})
			return r.answer()
		}))
		api.RegisterAuth("kh", security.APIKeyAuth(mwKeyHeader, "header", func(t string) (interface{}, error) {
			r := s.rec["kh"]
			r.calls = append(r.calls, call{token: t})
			return r.answer()
		}))
		api.RegisterAuth("kq", security.APIKeyAuth(mwKeyQuery, "query", func(t string) (interface{}, error) {
			r := s.rec["kq"]
			r.calls = append(r.calls, call{token: t})
			return r.answer()
		}))
		for _, name := range []string{"o", "o2"} {
			name := name
			api.RegisterAuth(name, security.BearerAuth(name, func(t string, sc []string) (interface{}, error) {
				r := s.rec[name]
				r.calls = append(r.calls, call{token: t, scopes: sc, hasScopes: true})
				return r.answer()
			}))
		}
	}
	api.RegisterAuthorizer(runtime.AuthorizerFunc(func(_ *http.Request, p interface{}) error {
		s.authzCalls++
		s.authzP = p
		return nil
	}))
	mctx := middleware.NewContext(doc, api, nil)
	s.h = mctx.APIHandler(nil)
	return s
}

// one server per worker at a time: a server records into its own fields
var mwPools = [2]*sync.Pool{
	{New: func() any { return newMWServer(false) }},
	{New: func() any { return newMWServer(true) }},
}

func checkMW(c Case) verdict {
	m := c.MW
	op, ok := mwOps[m.Op]
	if !ok {
		panic("unknown mw op " + m.Op)
	}
	cl := &Client{Method: "POST", Media: "json"}
	if m.Cred != nil {
		cl.OpAuth = []Cred{*m.Cred}
	}
	creq, err := buildClientRequest(cl, "c14.example", op.path)
	if err != nil {
		return fail("client-build-error", "CreateHttpRequest: %v", err)
	}
	sreq, raw, err := overWire(creq)
	release(creq)
	if err != nil {
		return fail("wire-error", "%v; bytes written: %q", err, raw)
	}
	pi := 0
	if m.Ctx {
		pi = 1
	}
	srv := mwPools[pi].Get().(*mwServer)
	defer mwPools[pi].Put(srv)
	srv.reset(m.CB)
	rw := httptest.NewRecorder()
	srv.h.ServeHTTP(rw, sreq)

	// which scheme does the credential address
	scheme := ""
	if m.Cred != nil {
		switch m.Cred.Kind {
		case "basic":
			scheme = "b"
		case "bearer":
			scheme = "o" // and o2
		case "apikey":
			switch {
			case m.Cred.In == "header" && http.CanonicalHeaderKey(string(m.Cred.Name)) == mwKeyHeader:
				scheme = "kh"
			case m.Cred.In == "query" && string(m.Cred.Name) == mwKeyQuery:
				scheme = "kq"
			case m.Cred.In == "query" && string(m.Cred.Name) == "access_token":
				scheme = "o"
			}
		}
	}
	required := mwRequired(m.Op)
	called := 0
	var principals []interface{}
	for _, name := range []string{"b", "kh", "kq", "o", "o2"} {
		r := srv.rec[name]
		addressed := name == scheme || (scheme == "o" && name == "o2")
		for _, k := range r.calls {
			called++
			if !addressed {
				return fail("applies-without-credential/mw-"+name, "operation %s: callback of scheme %q called (%s) but the request carries no such credential", m.Op, name, showCall(k))
			}
			switch name {
			case "b":
				if k.user != string(m.Cred.User) || k.pass != string(m.Cred.Pass) {
					return fail("wrong-credential/mw-basic", "basic callback got %s, transmitted user %q password %q", showCall(k), m.Cred.User, m.Cred.Pass)
				}
			default:
				if k.token != string(m.Cred.Token) {
					return fail("wrong-token/mw-"+name, "callback of scheme %q got %s, transmitted token %q", name, showCall(k), m.Cred.Token)
				}
			}
			if k.hasScopes && !sameScopes(k.scopes, required[name]) {
				return fail("wrong-scopes/mw", "operation %s requires scopes %q of scheme %q, the callback got %q", m.Op, required[name], name, k.scopes)
			}
		}
		if len(r.calls) > 0 {
			p, _ := r.answer()
			principals = append(principals, p)
		}
	}
	addressedRequired := false
	if scheme != "" {
		if _, ok := required[scheme]; ok {
			addressedRequired = true
		}
		if scheme == "o" {
			if _, ok := required["o2"]; ok {
				addressedRequired = true
			}
		}
	}
	if addressedRequired && called == 0 {
		return fail("na-with-credential/mw-"+scheme, "operation %s requires scheme %q and the request carries that credential, but no callback was consulted (status %d)", m.Op, scheme, rw.Code)
	}
	if srv.authzCalls > 0 {
		okp := false
		for _, p := range principals {
			if p == srv.authzP {
				okp = true
			}
		}
		if !okp {
			return fail("principal-not-callbacks/mw", "operation %s: the authorizer received principal %#v, which no consulted callback returned (%v)", m.Op, srv.authzP, principals)
		}
	}
	out := fmt.Sprintf("mw:%d", rw.Code)
	if called > 0 {
		out += "-callback-" + m.CB
	}
	if srv.handlerRan > 0 {
		out += "-ran"
	}
	return verdict{outcome: out, reached: called > 0}
}
