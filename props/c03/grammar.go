package main

// Literal-grammar consistency. Spellings such as leading zeros or a leading
// '+' are three-valued in the reference: the text does not say whether they
// are literals, so the denoted value or a 422 are both accepted. Whatever the
// answer is, it is an answer about the GRAMMAR: texts that differ only in how
// many zeros pad the same number denote the same value under every reading, so
// an implementation that binds one of them and refuses another violates the
// property under every reading (either the bound one had to be refused or the
// refused one had to be bound). The enumerator therefore groups such texts in
// classes (same spelling feature, same denoted value, lengths 3 .. 40
// characters) and demands one decision per class, declaration and level.

import (
	"fmt"
	"strings"
)

func zpad(sign string, total int, digits string) string {
	return sign + strings.Repeat("0", total-len(sign)-len(digits)) + digits
}

// paddedLengths: total text lengths of the zero-padded in-range numerals
// (19 and 20: as long as the longest int64 literals; 21, 22, 40: longer than any).
var paddedLengths = []int{19, 20, 21, 22, 40}

// grammarClass: text (scalar text or array text) -> class name.
var grammarClass = map[string]string{}

func init() {
	add := func(class, text string, v int64) {
		grammarClass[text] = class
		intLits = append(intLits, intLit{text, v, 0, loose})
	}
	add("leading-zeros:42", "042", 42)
	add("leading-zeros:-42", "-042", -42)
	add("plus-and-leading-zeros:7", "+07", 7)
	for _, n := range paddedLengths {
		add("leading-zeros:42", zpad("", n, "42"), 42)
		add("leading-zeros:-42", zpad("-", n, "42"), -42)
		add("plus-and-leading-zeros:7", zpad("+", n, "7"), 7)
	}
	for _, n := range []int{3, 21, 40} {
		t1, t2 := "1,"+zpad("", n, "42"), "1,"+zpad("-", n+1, "42")
		grammarClass[t1], grammarClass[t2] = "item-leading-zeros:42", "item-leading-zeros:-42"
		arrayTexts["integer"] = append(arrayTexts["integer"], t1, t2)
	}
}

// grammarLog collects, for one (level, declaration), the decision taken for
// every member of every class.
type grammarLog map[string]map[string][]string // class -> decision -> texts

func (g grammarLog) note(d Decl, q Req, o obs) {
	if len(q.Texts) != 1 || q.Decoy || q.Wire != d.Name || o.Panic != "" {
		return
	}
	if t, _ := d.elem(); t != "integer" {
		return
	}
	class, ok := grammarClass[string(q.Texts[0])]
	if !ok {
		return
	}
	dec := ""
	switch o.Status {
	case 200:
		dec = "bound"
	case 422:
		dec = "refused"
	default:
		return
	}
	if g[class] == nil {
		g[class] = map[string][]string{}
	}
	g[class][dec] = append(g[class][dec], string(q.Texts[0]))
}

// verdicts: one failure per class in which both decisions were taken.
func (g grammarLog) verdicts(level string, d Decl) (out []struct {
	class, what string
	c           Case
}) {
	for class, decs := range g {
		if len(decs["bound"]) == 0 || len(decs["refused"]) == 0 {
			continue
		}
		refused, bound := decs["refused"][0], decs["bound"][0]
		peer := Txt(bound)
		out = append(out, struct {
			class, what string
			c           Case
		}{
			"inconsistent-literal-grammar/" + strings.SplitN(class, ":", 2)[0],
			fmt.Sprintf("%s level: texts that differ only in the number of padding zeros and denote the same value (%s) are bound (%q) and refused with 422 (%q); under every reading of the literal grammar one of the two answers violates the property", level, class, decs["bound"], decs["refused"]),
			Case{Level: level, D: d, Q: Req{Wire: d.Name, Texts: txts(refused)}, Peer: &peer},
		})
	}
	return out
}

// checkPeer replays a consistency case: the case's text and its peer on the same declaration.
func checkPeer(c Case) (string, string) {
	p := prepare(c.Level, c.D)
	g := grammarLog{}
	for _, t := range []Txt{c.Q.Texts[0], *c.Peer} {
		q := Req{Wire: c.D.Name, Texts: []Txt{t}}
		o, ok := p.execute(q)
		if !ok {
			continue
		}
		fmt.Printf("  text %q: %s\n", string(t), o)
		g.note(c.D, q, o)
	}
	for _, v := range g.verdicts(c.Level, c.D) {
		return v.class, v.what
	}
	return "", ""
}
