// C03 - declared non-body parameters are bound to exactly the value their text
// denotes, or the answer is 422. Small-scope exhaustive enumeration (E1) of
// parameter declarations x requests, executed on the real binder at three
// levels (UntypedRequestBinder.Bind into a map, into a struct, and the full
// untyped handler stack) and compared with a three-valued reference written
// from the property text (ref.go).
package main

import (
	"fmt"
	"net/http"
	"os"
	"runtime/pprof"
	"strings"

	"verif/engine/enum"
	"verif/engine/report"
)

// ---- the declaration axis ----

var arrayTexts = map[string][]string{
	"string": {"ab", "ab,cd", "ab|cd", "ab cd", "ab\tcd", "ab,cd,ab", "ab,,cd", " ab , cd ", ",", "ab,", ",ab", "ab,cd,ef,gh",
		"a b,cd|ef", "abcde,ab", "a,ab", "é,ab", "ab,cd ef\tgh|ij"},
	"integer": {"1", "1,2", "1|2", "1 2", "1\t2", "1,2,1", "1,,2", " 1 , 2 ", "1,x", "1,2147483648", "1,2,3,4", "7,127", "+1,2", "1.5,2",
		"1,101", "-4,1", "1,2,", "1,9223372036854775807", "1,9223372036854775808", "1,-2147483649", "1,abc|2"},
	"number": {"1.5", "1.5,7", "1.5|7", "1.5 7", "1.5\t7", "1.5,7,1.5", "1.5,x", "1e3,7", "1e309,1", "1.5,,7", "inf,1", " 1.5 , 7 ",
		"1.5,1000.5", "1.5,7,100,1000", "1.5,3.5e38", "1.5,1.5.2"},
	"boolean": {"true", "true,false", "true|false", "true false", "true\tfalse", "true,abc", "true,1", "true,,false", "true,true", " true , false ",
		"true,false,true,false", "true,2", "false,maybe|true"},
}

func validations(tpe, format string, thorough bool) []string {
	switch tpe {
	case "integer":
		if thorough {
			return []string{"", "minmax", "enum", "exclusive", "multipleOf"}
		}
		return []string{"", "minmax", "enum"}
	case "number":
		if thorough {
			return []string{"", "minmax", "enum", "exclusive"}
		}
		return []string{"", "minmax", "enum"}
	case "boolean":
		return []string{"", "enum"}
	case "string":
		if format != "" {
			return []string{""}
		}
		if thorough {
			return []string{"", "len", "enum", "pattern"}
		}
		return []string{"", "len", "enum"}
	}
	return []string{""}
}

func arrayValidations(itemType string, thorough bool) []string {
	if !thorough {
		return []string{"", "items"}
	}
	switch itemType {
	case "integer", "number":
		return []string{"", "items", "unique", "itemenum", "itemminmax"}
	case "string":
		return []string{"", "items", "unique", "itemenum", "itemlen"}
	}
	return []string{"", "items", "unique"}
}

type tf struct{ t, f, reg string }

func declarations(thorough bool) []Decl {
	scalars := []tf{{t: "string"}, {t: "string", f: "byte"}, {t: "string", f: "date"}, {t: "string", f: "date-time"}, {t: "string", f: "uuid"},
		{t: "integer"}, {t: "integer", f: "int8"}, {t: "integer", f: "int16"}, {t: "integer", f: "int32"}, {t: "integer", f: "int64"},
		{t: "number"}, {t: "number", f: "float"}, {t: "number", f: "double"}, {t: "boolean"},
		// formats registry axis: the application's own registry (userfmt.go)
		{"string", "x-shout", "own"}, {"string", "hexcolor", "own"}}
	items := []tf{{t: "string"}, {t: "integer", f: "int32"}, {t: "number", f: "double"}, {t: "boolean"}, {"string", "x-shout", "own"}}
	if thorough {
		scalars = append(scalars, tf{t: "string", f: "email"}, tf{t: "string", f: "ipv4"}, tf{t: "string", f: "duration"},
			tf{t: "string", f: "hexcolor"}, tf{"string", "date", "own"})
		items = append(items, tf{t: "integer", f: "int64"}, tf{t: "number"}, tf{"string", "hexcolor", "own"}, tf{t: "string", f: "uuid"})
	}
	var out []Decl
	for _, loc := range []string{"path", "query", "header", "formU", "formM"} {
		names := []string{"pz"}
		if loc == "header" {
			names = []string{"X-Pz-Val", "x-pz-val"}
		} else if thorough && loc != "path" {
			names = []string{"pz", "p z[]"} // a name that needs escaping on the wire
		}
		bools := []bool{false, true}
		reqs, allows := bools, bools
		if loc == "path" {
			reqs = []bool{true} // the description language demands required:true for path parameters
		}
		if loc == "path" || loc == "header" {
			allows = []bool{false} // allowEmptyValue exists for query and formData only
		}
		for _, name := range names {
			for _, req := range reqs {
				for _, def := range bools {
					for _, allow := range allows {
						base := Decl{Loc: loc, Name: name, Required: req, Default: def, AllowEmpty: allow}
						plainName := name != "p z[]"
						for _, s := range scalars {
							for _, v := range validations(s.t, s.f, thorough) {
								if !plainName && v != "" {
									continue
								}
								d := base
								d.Type, d.Format, d.Valid, d.Registry = s.t, s.f, v, s.reg
								out = append(out, d)
								if s.reg == "own" { // order of setup: the same formats, registered after the binder was built
									d.LateFormats = true
									out = append(out, d)
								}
							}
						}
						for _, it := range items {
							for _, cf := range []string{"", "csv", "ssv", "tsv", "pipes", "multi"} {
								if cf == "multi" && loc != "query" && loc != "formU" && loc != "formM" {
									continue // multi is valid only for query and formData
								}
								for _, v := range arrayValidations(it.t, thorough) {
									if it.f != "" && it.t == "string" && strings.HasPrefix(v, "item") {
										continue // item-level enum/length sets are written for plain strings
									}
									if !plainName && v != "" {
										continue
									}
									d := base
									d.Type, d.ItemType, d.ItemFormat, d.CF, d.Valid, d.Registry = "array", it.t, it.f, cf, v, it.reg
									out = append(out, d)
									if it.reg == "own" {
										d.LateFormats = true
										out = append(out, d)
									}
								}
							}
						}
						if loc == "formM" && !allow && !def {
							d := base
							d.Type = "file"
							out = append(out, d)
						}
					}
				}
			}
		}
	}
	return out
}

// ---- the request axis ----

func scalarTexts(tpe, format string) []string {
	var out []string
	switch tpe {
	case "integer":
		for _, l := range intLits {
			out = append(out, l.t)
		}
	case "number":
		for _, l := range floatLits {
			out = append(out, l.t)
		}
	case "boolean":
		for _, l := range boolLits {
			out = append(out, l.t)
		}
	case "file":
		return []string{"hello", "", "a\r\nb"}
	case "string":
		if tab, ok := fmtLits[format]; ok {
			for _, l := range tab {
				out = append(out, l.t)
			}
		} else {
			out = stringTexts
		}
	}
	return out
}

// firstLast: a valid literal that is sent as the *other* occurrence of a repeated field.
func firstLast(d Decl) (first, last string) {
	t, f := d.elem()
	if d.Type == "array" {
		switch t {
		case "integer":
			return "5,3", "7,1"
		case "number":
			return "3.5,100", "1.5,7"
		case "boolean":
			return "false,true", "true,false"
		}
		return "cd,ab", "ab,cd"
	}
	switch t {
	case "integer":
		return "5", "7"
	case "number":
		return "3.5", "1.5"
	case "boolean":
		return "false", "true"
	case "file":
		return "first", "last"
	case "string":
		if tab, ok := fmtLits[f]; ok {
			return tab[1].t, tab[0].t
		}
	}
	return "cd", "ab"
}

func txts(s ...string) []Txt {
	out := make([]Txt, len(s))
	for i, x := range s {
		out[i] = Txt(x)
	}
	return out
}

// requests: every request enumerated for one declaration.
func requests(d Decl) []Req {
	var texts []string
	et, ef := d.elem()
	if d.Type == "array" {
		texts = arrayTexts[et]
		if t, ok := arrayTexts[et+":"+ef]; ok {
			texts = t
		}
	} else {
		texts = scalarTexts(et, ef)
	}
	first, last := firstLast(d)
	var out []Req
	w := d.Name
	if d.Loc != "path" {
		out = append(out, Req{Wire: w}, Req{Wire: w, Texts: txts("")})
	}
	for _, t := range texts {
		out = append(out, Req{Wire: w, Texts: txts(t)})
	}
	if d.Loc != "path" {
		for _, t := range append([]string{""}, texts...) {
			out = append(out, Req{Wire: w, Texts: txts(first, t)}, Req{Wire: w, Texts: txts(t, last)})
		}
		out = append(out, Req{Wire: w, Texts: txts(first, last, first)}, Req{Wire: w, Texts: txts("", "")})
	}
	// spelling of the name on the wire
	var wires []string
	if d.Loc == "header" {
		for _, s := range []string{http.CanonicalHeaderKey(d.Name), strings.ToLower(d.Name), strings.ToUpper(d.Name)} {
			if s != d.Name {
				wires = append(wires, s)
			}
		}
	} else if d.Loc != "path" {
		wires = []string{strings.ToUpper(d.Name)} // another name in a case-sensitive location: the parameter is absent
	}
	for _, ws := range wires {
		out = append(out, Req{Wire: ws, Texts: txts("")})
		for i, t := range texts {
			if i < 5 || i == len(texts)-1 {
				out = append(out, Req{Wire: ws, Texts: txts(t)})
			}
		}
	}
	// the same name in the other locations must not be taken for the parameter
	if d.Loc != "path" {
		out = append(out, Req{Wire: w, Decoy: true})
	}
	out = append(out, Req{Wire: w, Texts: txts(texts[0]), Decoy: true}, Req{Wire: w, Texts: txts(texts[len(texts)-1]), Decoy: true})
	return out
}

func outcomeLabel(level string, e expect, o obs) string {
	switch {
	case o.Panic != "":
		return level + ":panic"
	case o.Status == 200 && e.State == "absent":
		return level + ":absent-bound-default-or-zero"
	case o.Status == 200 && e.State == "empty":
		return level + ":empty-bound-default-or-zero"
	case o.Status == 200:
		return level + ":bound"
	case e.State == "absent" && !e.must422():
		return fmt.Sprintf("%s:absent-optional-refused-%d(MAY)", level, o.Status)
	case e.State == "empty":
		return fmt.Sprintf("%s:empty-refused-%d", level, o.Status)
	}
	return fmt.Sprintf("%s:refused-%d", level, o.Status)
}

func main() {
	r := report.Start("C03", "exploration")
	if r.Replay != "" {
		var c Case
		r.LoadReplay(&c)
		if len(c.Ops) > 0 {
			replayMulti(r, c)
		}
		if len(c.Prior) > 0 {
			replayHostile(r, c)
		}
		if c.Peer != nil && len(c.Q.Texts) == 1 {
			fmt.Printf("replay level=%s (literal-grammar consistency)\n  parameter: %v\n", c.Level, c.D.paramJSON())
			cl, what := checkPeer(c)
			fmt.Printf("  class=%q %s\n", cl, what)
			if cl != "" {
				r.Fail(cl, what, c)
			}
			r.Eval(2)
			r.Nontrivial(1)
			r.Sample(c)
			r.Finish("replay of one case", false)
		}
		if c.D2 != nil && c.Q2 != nil {
			pp := preparePair(c.Level, c.D, *c.D2)
			o, ok := pp.execute(c.Q, *c.Q2)
			raw, _ := rawRequestMulti([]Decl{c.D, *c.D2}, []Req{c.Q, *c.Q2})
			fmt.Printf("replay level=%s (two parameters)\n  parameters: %v\n              %v\n  request: %q\n", c.Level, c.D.paramJSON(), c.D2.paramJSON(), raw)
			if ok {
				cl, what := judgePair(c.Level, [2]Decl{c.D, *c.D2}, [2]Req{c.Q, *c.Q2}, o)
				fmt.Printf("  %s\n  class=%q\n", what, cl)
				if cl != "" {
					r.Fail(cl, what, c)
				}
			}
			r.Eval(1)
			r.Nontrivial(1)
			r.Sample(c)
			r.Finish("replay of one case", false)
		}
		p := prepare(c.Level, c.D)
		o, ok := p.execute(c.Q)
		e := reference(c.D, c.Q)
		raw, _ := rawRequest(c.D, c.Q)
		fmt.Printf("replay level=%s\n  parameter: %v\n  request:\n    %s\n", c.Level, c.D.paramJSON(), strings.ReplaceAll(strings.TrimRight(fmt.Sprintf("%q", raw), "\""), `\r\n`, "\n    "))
		if !ok {
			fmt.Println("  the case cannot be put on the wire; nothing executed")
		} else {
			cl, what := judge(c.Level, c.D, c.Q, e, o)
			fmt.Printf("  observed: %s\n  expected: %s\n  class=%q\n", o, e, cl)
			if cl != "" {
				r.Fail(cl, what, c)
			}
		}
		r.Eval(1)
		r.Nontrivial(1)
		r.Sample(c)
		r.Finish("replay of one case", false)
	}

	if f := os.Getenv("C03_CPUPROFILE"); f != "" { // diagnostic aid only
		if w, err := os.Create(f); err == nil {
			_ = pprof.StartCPUProfile(w)
		}
	}
	thorough := r.Thorough()
	decls := declarations(thorough)
	levels := []string{"map", "struct", "handler"}
	type job struct {
		level string
		d     Decl
	}
	var jobs []job
	handlerDecls := 0
	for _, d := range decls {
		if altField(d) != "" {
			jobs = append(jobs, job{"structalt", d}) // struct target whose field has the plain Go type ([]byte, string)
		}
		for _, l := range levels {
			if l == "handler" && !thorough && !quickHandlerSlice(d) {
				continue
			}
			if l == "handler" {
				handlerDecls++
			}
			jobs = append(jobs, job{l, d})
		}
	}
	// rotate the visiting order with the seed (the enumerated set does not change)
	rot := 0
	if len(jobs) > 0 {
		rot = int(uint64(r.Seed) % uint64(len(jobs)))
	}
	r.Set("declarations", len(decls))
	r.Set("declarations_at_handler_level", handlerDecls)
	r.Set("levels", levels)
	r.Set("texts_per_type", map[string]int{"integer": len(intLits), "number": len(floatLits), "boolean": len(boolLits), "string": len(stringTexts),
		"date": len(fmtLits["date"]), "date-time": len(fmtLits["date-time"]), "uuid": len(fmtLits["uuid"]), "byte": len(fmtLits["byte"]),
		"array-of-string": len(arrayTexts["string"]), "array-of-integer": len(arrayTexts["integer"]), "array-of-number": len(arrayTexts["number"]), "array-of-boolean": len(arrayTexts["boolean"])})
	r.Set("axes", map[string]any{
		"location":          []string{"path", "query", "header", "formData urlencoded", "formData multipart"},
		"declared_name":     "pz (thorough also \"p z[]\" in query/formData); headers X-Pz-Val and x-pz-val",
		"required":          2,
		"default":           "none | the standard valid default of the type",
		"allowEmptyValue":   "query and formData only",
		"formats_registry":  "default registry | the application's own registry (strfmt.NewFormats()+Add at the Bind levels, untyped.API.RegisterFormat at the handler level) with user format x-shout (own Go type, upper-casing UnmarshalText, own validator) and a user hexcolor shadowing the built-in name; scalars and array items, every location",
		"literal_grammar":   "zero-padded in-range numerals 42, -42, +7 of 3, 19, 20, 21, 22 and 40 characters for every integer width, scalars and array items (3, 21, 40): three-valued like every leading-zero spelling, plus one decision (bound / 422) demanded per class of texts that differ only in padding",
		"formats_setup_order": "own-registry declarations twice: formats added to the registry before the binder / handler is built, and added to the SAME registry after it was built (before the first request); same reference for both",
		"collection_format": []string{"(none)", "csv", "ssv", "tsv", "pipes", "multi (query, formData)"},
		"presence":          "absent, empty, once (every text), twice (valid first + every text; every text + valid last), three times, empty twice, other spellings of the name on the wire, decoys in the other locations",
	})

	enum.Parallel(len(jobs), r.OutOfTime, func(i int) {
		j := jobs[(i+rot)%len(jobs)]
		p := prepare(j.level, j.d)
		var evals, nontrivial int64
		outcomes := map[string]int64{}
		grammar := grammarLog{}
		for _, q := range requests(j.d) {
			o, ok := p.execute(q)
			if !ok {
				continue
			}
			evals++
			grammar.note(j.d, q, o)
			e := reference(j.d, q)
			if e.mustBind() || e.must422() {
				nontrivial++
			}
			if e.Free {
				outcomes["not-judged-text-outside-tables"]++
			}
			outcomes[outcomeLabel(j.level, e, o)]++
			if cl, what := judge(j.level, j.d, q, e, o); cl != "" {
				r.Fail(cl, what, Case{Level: j.level, D: j.d, Q: q})
			} else if r.WantSample() && i%(len(jobs)/11+1) == 0 && int(evals) == 3+i%7 {
				r.Sample(map[string]any{"case": Case{Level: j.level, D: j.d, Q: q}, "observed": o.String(), "expected": e.String()})
			}
		}
		for _, v := range grammar.verdicts(j.level, j.d) {
			r.Fail(v.class, v.what, v.c)
		}
		r.Eval(evals)
		r.Nontrivial(nontrivial)
		for k, v := range outcomes {
			r.Outcome(k, v)
		}
	})
	// the exported surface: other entry points that reach the same behaviour, on a reduced
	// declaration set with the full request set, judged by the same reference
	var vjobs []job
	for _, d := range variantDecls() {
		for _, l := range []string{"mapptr", "routes", "serve", "helper"} {
			if l == "helper" && !helperApplies(d) {
				continue
			}
			vjobs = append(vjobs, job{l, d})
		}
	}
	r.Set("exported_surface_variants", map[string]any{
		"mapptr":       "UntypedRequestBinder.Bind with a pointer to the map, SetLogger set",
		"routes":       "Context.RoutesHandler",
		"serve":        "middleware.Serve",
		"helper":       "runtime.ReadSingleValue / ReadCollectionValue on runtime.Values of the query, header, PostForm, MultipartForm.Value and on middleware.RouteParams (also RouteParams.Get): plain string scalars and string arrays in csv/ssv/tsv/pipes",
		"declarations": len(variantDecls()),
	})
	enum.Parallel(len(vjobs), r.OutOfTime, func(i int) {
		j := vjobs[i]
		p := prepare(j.level, j.d)
		var evals, nontrivial int64
		outcomes := map[string]int64{}
		for _, q := range requests(j.d) {
			o, ok := p.execute(q)
			if !ok {
				continue
			}
			evals++
			e := reference(j.d, q)
			if e.mustBind() || e.must422() {
				nontrivial++
			}
			outcomes[outcomeLabel(j.level, e, o)]++
			if cl, what := judge(j.level, j.d, q, e, o); cl != "" {
				r.Fail(cl, what, Case{Level: j.level, D: j.d, Q: q})
			}
		}
		r.Eval(evals)
		r.Nontrivial(nontrivial)
		for k, v := range outcomes {
			r.Outcome(k, v)
		}
	})
	// pair sweep: two parameters of one operation in two locations, same or different names
	pairs := pairDecls()
	var pjobs []pairJob
	for _, pd := range pairs {
		for _, l := range levels {
			pjobs = append(pjobs, pairJob{l, pd[0], pd[1]})
		}
	}
	r.Set("pair_sweep", map[string]int{"declaration_pairs": len(pairs), "levels": len(levels)})
	enum.Parallel(len(pjobs), r.OutOfTime, func(i int) {
		j := pjobs[i]
		p := preparePair(j.level, j.d1, j.d2)
		var evals, nontrivial int64
		outcomes := map[string]int64{}
		for _, q1 := range pairRequests(j.d1) {
			for _, q2 := range pairRequests(j.d2) {
				o, ok := p.execute(q1, q2)
				if !ok {
					continue
				}
				evals++
				nontrivial++
				switch {
				case o.Panic != "":
					outcomes["pair:"+j.level+":panic"]++
				case o.Status != 200:
					outcomes[fmt.Sprintf("pair:%s:refused-%d", j.level, o.Status)]++
				default:
					outcomes["pair:"+j.level+":bound"]++
				}
				if cl, what := judgePair(j.level, [2]Decl{j.d1, j.d2}, [2]Req{q1, q2}, o); cl != "" {
					d2, q2c := j.d2, q2
					r.Fail(cl, what, Case{Level: j.level, D: j.d1, Q: q1, D2: &d2, Q2: &q2c})
				}
			}
		}
		r.Eval(evals)
		r.Nontrivial(nontrivial)
		for k, v := range outcomes {
			r.Outcome(k, v)
		}
	})
	// multi-operation sweep: same name, same location, different declarations in one API
	multiSweep(r)
	// hostile-caller histories: two consecutive requests on one instance, the caller overwrites what it was handed
	hostileSweep(r, decls, thorough)
	r.Assume("the reference (props/c03/ref.go) lists what every text of the alphabet denotes; spellings, empty texts and absent optional parameters that the property text does not settle are three-valued (MAY) and never reported",
		"requests are rendered as HTTP/1.1 text and parsed by net/http.ReadRequest; header field values lose surrounding blanks there (HTTP), every other location is escaped by the renderer and arrives unchanged",
		"statuses at the map/struct level are derived from the binder's error the way go-openapi/errors.ServeError does (first nested error, codes >= 600 answer 422)")
	pprof.StopCPUProfile()
	r.Finish("every declaration of the stated product x every request of the stated presence/text sets, at each level; one evaluation = one Bind call or one request through the handler stack on the real code, compared with the reference; non-trivial = the property text forces the outcome of the case (MUST bind exactly one of the listed values, or MUST be 422) so the comparison can fail both ways; the same declarations x requests are also driven through the other exported entry points (Bind with a map pointer and a logger set, Context.RoutesHandler, middleware.Serve, and the helpers runtime.ReadSingleValue / ReadCollectionValue / RouteParams.Get on the location's values) on a reduced declaration set, judged by the same reference; distinct by construction: the enumerators never repeat a (level, declaration, request) triple. The formats registry is a configuration axis (default registry, or the application's own registry with a user-defined format and a user format shadowing a built-in name; the reference then demands the value and Go type the text denotes under that registry). Texts that differ only in zero padding (same value, 3 to 40 characters) must get one decision per declaration and level. Multi-operation sweep (handler level): every ordered pair (thorough: also every ordered triple of the first six) of the colliding declaration alphabet per location as operations of ONE API, rebuilt the stated number of times; every request of the shared request alphabet to every operation, alone and as the second of two (third of three) consecutive requests to different operations on one handler instance, must give exactly the result of a fresh single-operation API of that operation's own declaration, which is itself judged by the reference; each such request is one non-trivial evaluation. Order of setup: every declaration under the application's own registry is also built with the formats added to that registry AFTER the binder / handler was constructed, judged by the same reference. Hostile-caller histories: for every declaration at the map, struct and handler level every ordered pair (earlier, judged) of {absent, empty, text A, text B, A then B} is served by ONE instance (one instance per earlier request a serves a,b1,a,b2,... so each judged request directly follows a); after every request every element of every slice / byte string that was bound is overwritten in place and the handler's map emptied; the judged request must be answered exactly as by a fresh instance (one non-trivial evaluation per pair)", true)
}

// variantDecls: the reduced declaration set of the exported-surface variants.
func variantDecls() []Decl {
	var out []Decl
	for _, loc := range []string{"path", "query", "header", "formU", "formM"} {
		name := "pz"
		if loc == "header" {
			name = "X-Pz-Val"
		}
		base := Decl{Loc: loc, Name: name, Required: loc == "path"}
		add := func(d Decl) {
			d.Loc, d.Name = base.Loc, base.Name
			d.Required = d.Required || base.Required
			out = append(out, d)
		}
		add(Decl{Type: "string"})
		add(Decl{Type: "string", Default: true, Valid: "len"})
		add(Decl{Type: "integer", Format: "int32", Valid: "minmax"})
		add(Decl{Type: "integer", Format: "int8", Required: true})
		add(Decl{Type: "number", Format: "float", Default: true})
		add(Decl{Type: "boolean"})
		add(Decl{Type: "string", Format: "date"})
		add(Decl{Type: "string", Format: "x-shout", Registry: "own"})
		for _, cf := range []string{"", "csv", "ssv", "tsv", "pipes"} {
			add(Decl{Type: "array", ItemType: "string", CF: cf})
		}
		add(Decl{Type: "array", ItemType: "integer", ItemFormat: "int32", CF: "pipes", Valid: "items"})
		if loc != "path" && loc != "header" {
			add(Decl{Type: "array", ItemType: "string", CF: "multi"})
			add(Decl{Type: "array", ItemType: "integer", ItemFormat: "int32", CF: "multi", Required: true})
		}
	}
	return out
}

// helperApplies: the helpers return texts, so they are judged on plain strings
// and string arrays; multi is read from the values directly, not through them.
func helperApplies(d Decl) bool {
	if d.Default || d.Valid != "" || d.Registry != "" {
		return false
	}
	if d.Type == "array" {
		return d.ItemType == "string" && d.ItemFormat == "" && d.CF != "multi"
	}
	return d.Type == "string" && d.Format == ""
}

// quickHandlerSlice: the declarations that also go through the full handler
// stack in the quick tier (thorough: all of them). One API is built per declaration.
func quickHandlerSlice(d Decl) bool {
	if d.AllowEmpty {
		return false
	}
	if d.Valid == "" {
		return true
	}
	return (d.Valid == "minmax" || d.Valid == "items") && !d.Required && !d.Default
}
