package main

import (
	"fmt"
	"net/http"
	"regexp"
	"strings"
)

// namedStringFormats: registered string formats whose Go type is a named string type.
var namedStringFormats = map[string]bool{"uuid": true, "email": true, "ipv4": true, "hexcolor": true, "own:hexcolor": true, "own:x-shout": true}

// itemTypeMessage: validate's complaint about item N of an array parameter.
var itemTypeMessage = regexp.MustCompile(`\.[0-9]+ in [a-zA-Z]+ must be of type string`)

func containsVal(l []val, v val) bool {
	for _, o := range l {
		if o.K == v.K && o.equal(v) {
			return true
		}
	}
	return false
}

func (e expect) String() string {
	if e.Free {
		return "not judged (text outside the tables)"
	}
	var parts []string
	for _, v := range e.Values {
		parts = append(parts, v.String())
	}
	switch {
	case e.must422():
		return "MUST be 422 naming the parameter, handler not run"
	case e.mustBind():
		return "MUST bind " + strings.Join(parts, " or ")
	}
	return "MAY bind " + strings.Join(parts, " or ") + ", or answer 422"
}

// accepts: is the observed binding one of the allowed values?
func (e expect) accepts(o obs) bool {
	for _, a := range e.Values {
		if a.isNone() {
			if !o.Present || o.V.isZero() {
				return true
			}
			continue
		}
		if a.K == o.V.K && a.equal(o.V) {
			return true
		}
	}
	return false
}

// headerDeclaredNonCanonical: the triggering input of known defect "header
// declared with a non-canonical name is looked up by exact key": the request
// does carry the header, and the observation is what the *absent* rule allows.
func headerDeclaredNonCanonical(d Decl, q Req, o obs) bool {
	if d.Loc != "header" || http.CanonicalHeaderKey(d.Name) == d.Name || !wireMatches(d, q.Wire) || len(q.Texts) == 0 {
		return false
	}
	if o.Panic != "" {
		return false
	}
	a := absentRule(d)
	if o.Status != 200 {
		return o.Status == 422 && a.R422
	}
	return a.accepts(o)
}

// defaultIsExpected: the case is one where the declared default is (one of) the
// values to bind - or where the implementation takes the parameter for absent
// because of the header-name defect, which leads it to the default as well.
func defaultIsExpected(d Decl, q Req, e expect) bool {
	if !d.Default {
		return false
	}
	_, dv := d.defaultValue()
	if containsVal(e.Values, dv) {
		return true
	}
	return d.Loc == "header" && http.CanonicalHeaderKey(d.Name) != d.Name && wireMatches(d, q.Wire)
}

func lastText(d Decl, q Req) string {
	if len(q.Texts) == 0 {
		return ""
	}
	return delivered(d, string(q.Texts[len(q.Texts)-1]))
}

// boundFalseForUnrecognisedText: a boolean (or boolean item) whose text is
// neither a canonical boolean nor a spelling of "true" the implementation knows
// was bound as false instead of being refused. For arrays: a list of booleans
// was bound although some item text is no boolean literal.
func boundFalseForUnrecognisedText(d Decl, q Req, o obs) bool {
	if d.Type == "array" {
		return o.V.K == "list"
	}
	if o.V.K != "bool" || o.V.B {
		return false
	}
	l := denote("boolean", "", lastText(d, q))
	return l.known && (l.sp == bad || (l.sp == loose && l.v.B))
}

// judge compares the observation with the three-valued verdict. It returns ""
// when the oracle is satisfied, else (class, what). Classes are
// <symptom> or <symptom>/<predicate over the input> (known findings match the latter).
func judge(level string, d Decl, q Req, e expect, o obs) (string, string) {
	what := fmt.Sprintf("%s level: observed %s; expected: %s [state %s]", level, o, e, e.State)
	et, ef := d.elem()
	// binding never panics for any declaration the description language allows
	if o.Panic != "" {
		switch {
		case !structLevel(level) && et == "number" && ef != "float" && ef != "double":
			return "panic/number-without-float-or-double-format", what
		case level == "structalt" && d.Type == "string" && d.Format == "byte" && defaultIsExpected(d, q, e) && strings.Contains(o.Panic, "reflect.Value.Bytes on string"):
			return "panic/default-of-byte-into-byte-slice-field", what
		case d.Type == "array" && defaultIsExpected(d, q, e) && strings.Contains(o.Panic, "reflect.Set"):
			return "panic/default-on-array", what
		case d.Type == "string" && d.Format != "" && fmtLits[d.Format] != nil && defaultIsExpected(d, q, e) && strings.Contains(o.Panic, "reflect.Set"):
			return "panic/default-on-formatted-string", what
		}
		return "panic", what
	}
	if e.Free {
		return "", ""
	}
	if o.Status != 200 {
		if o.Status != 422 {
			if d.Type == "file" && d.Required && e.State == "absent" && o.Status == 400 {
				return "wrong-status-400/required-file-missing", what
			}
			return fmt.Sprintf("wrong-status-%d", o.Status), what
		}
		if !e.R422 {
			switch {
			case d.Type == "array" && et == "string" && namedStringFormats[ef] && itemTypeMessage.MatchString(o.Message):
				return "rejected-valid/array-items-of-string-format-with-named-go-string-type", what
			case et == "string" && namedStringFormats[ef] && strings.Contains(o.Message, "must be of type string"):
				return "rejected-valid/string-format-with-named-go-string-type", what
			case et == "string" && ef == "byte" && strings.ContainsAny(lastText(d, q), "+/") && strings.Contains(o.Message, "must be of type byte"):
				return "rejected-valid/byte-in-standard-base64-alphabet", what
			case headerDeclaredNonCanonical(d, q, o):
				return "not-bound/header-declared-noncanonical", what
			}
			return "rejected-valid", what
		}
		if handlerLevel(level) && o.Ran != 0 {
			return "handler-ran-on-422", what
		}
		if !strings.Contains(o.Message, d.Name) && !(structLevel(level) && strings.Contains(o.Message, fieldFor(level, d))) {
			return "422-without-parameter-name", what
		}
		return "", ""
	}
	// bound
	if handlerLevel(level) && o.Ran != 1 {
		return fmt.Sprintf("handler-ran-%d-times", o.Ran), what
	}
	if e.accepts(o) {
		want, _ := d.goType()
		if !structLevel(level) && o.Present && want != "" && o.GoType != want {
			return "wrong-go-type", what + "; Go type " + o.GoType + ", declared type denotes " + want
		}
		return "", ""
	}
	if et == "boolean" && boundFalseForUnrecognisedText(d, q, o) {
		return "wrong-value/unrecognised-boolean-text-bound-as-false", what
	}
	if headerDeclaredNonCanonical(d, q, o) {
		return "not-bound/header-declared-noncanonical", what
	}
	if e.must422() {
		return "bound-not-422", what
	}
	return "wrong-value", what
}

// check is the pure function of a case used by the enumerator and by replay.
func check(c Case) (class, what string) {
	p := prepare(c.Level, c.D)
	return p.check(c.Q)
}

func (p *prepared) check(q Req) (class, what string) {
	o, ok := p.execute(q)
	if !ok {
		return "", ""
	}
	return judge(p.level, p.d, q, reference(p.d, q), o)
}
