package main

// Execution of one case on the real code at three levels:
//   map     - middleware.UntypedRequestBinder.Bind into a map[string]interface{}
//   struct  - the same binder into a struct whose field has the Go type of the declaration
//   handler - the full untyped server stack (router, content type, binder, validation,
//             operation handler, error responder) behind Context.APIHandler

import (
	"bufio"
	"encoding/json"
	"fmt"
	"io"
	"math"
	"net/http"
	"net/http/httptest"
	"os"
	"reflect"
	"strings"
	"time"

	oaerrors "github.com/go-openapi/errors"
	"github.com/go-openapi/runtime"
	"github.com/go-openapi/runtime/middleware"
	"github.com/go-openapi/runtime/middleware/untyped"
	"github.com/go-openapi/spec"
	"github.com/go-openapi/strfmt"

	"verif/engine/apib"
)

// obs is what was observed.
type obs struct {
	Panic   string `json:"panic,omitempty"`
	Status  int    `json:"status"` // 200 = bound / handler answered; otherwise the answer's status
	Message string `json:"message,omitempty"`
	Ran     int    `json:"ran"`     // handler executions (handler level)
	Present bool   `json:"present"` // the parameter's key exists in the map handed to the handler
	V       val    `json:"v"`
	GoType  string `json:"goType,omitempty"`
}

func (o obs) String() string {
	switch {
	case o.Panic != "":
		return "panic: " + o.Panic
	case o.Status != 200:
		return fmt.Sprintf("status %d %q (handler runs: %d)", o.Status, o.Message, o.Ran)
	case !o.Present:
		return "bound: no entry for the parameter"
	}
	return fmt.Sprintf("bound %s as %s", o.V, o.GoType)
}

// target is the struct the struct level binds into: one field per Go type a
// declaration can denote (what a code generator would emit for it).
type target struct {
	S    string
	I8   int8
	I16  int16
	I32  int32
	I64  int64
	F32  float32
	F64  float64
	B    bool
	Date strfmt.Date
	DT   strfmt.DateTime
	UUID strfmt.UUID
	B64  strfmt.Base64
	Mail strfmt.Email
	IP4  strfmt.IPv4
	Dur  strfmt.Duration
	SS   []string
	SI32 []int32
	SI64 []int64
	SF64 []float64
	SB   []bool
	File runtime.File
	Hex  strfmt.HexColor
	Sh   Shout
	OHex OwnHex
	SSh  []Shout
	SOHx []OwnHex
	SUID []strfmt.UUID
	SB64 []strfmt.Base64
	// plain Go types a hand-written struct may use for formatted strings (level "structalt")
	Raw    []byte
	PlainS string
	SRaw   [][]byte
}

// goTypeOf: the Go type a declaration denotes, as printed by %T, and the field of `target`.
func goTypeOf(tpe, format string) (string, string) {
	switch tpe {
	case "integer":
		switch format {
		case "int8":
			return "int8", "I8"
		case "int16":
			return "int16", "I16"
		case "int32":
			return "int32", "I32"
		}
		return "int64", "I64"
	case "number":
		if format == "float" {
			return "float32", "F32"
		}
		return "float64", "F64"
	case "boolean":
		return "bool", "B"
	case "file":
		return "swag.File", "File"
	case "string":
		switch format {
		case "date":
			return "strfmt.Date", "Date"
		case "date-time":
			return "strfmt.DateTime", "DT"
		case "uuid":
			return "strfmt.UUID", "UUID"
		case "byte":
			return "strfmt.Base64", "B64"
		case "email":
			return "strfmt.Email", "Mail"
		case "ipv4":
			return "strfmt.IPv4", "IP4"
		case "duration":
			return "strfmt.Duration", "Dur"
		case "hexcolor":
			return "strfmt.HexColor", "Hex"
		case "own:x-shout":
			return "main.Shout", "Sh"
		case "own:hexcolor":
			return "main.OwnHex", "OHex"
		}
		return "string", "S"
	}
	return "", ""
}

func (d Decl) goType() (string, string) {
	et, ef := d.elem()
	if d.Type == "array" {
		t, _ := goTypeOf(et, ef)
		f := map[string]string{"string": "SS", "int32": "SI32", "int64": "SI64", "float64": "SF64", "bool": "SB", "main.Shout": "SSh", "main.OwnHex": "SOHx", "strfmt.UUID": "SUID", "strfmt.Base64": "SB64"}[t]
		return "[]" + t, f
	}
	return goTypeOf(et, ef)
}

// normalise turns a bound Go value into comparable form.
func normalise(x interface{}) val {
	if x == nil {
		return none()
	}
	switch t := x.(type) {
	case strfmt.Date:
		return tv(time.Time(t).UnixNano())
	case strfmt.DateTime:
		return tv(time.Time(t).UnixNano())
	case strfmt.Base64:
		return val{K: "bytes", S: string(t)}
	case []byte:
		return val{K: "bytes", S: string(t)}
	case strfmt.Duration:
		return iv(int64(t))
	case runtime.File:
		if t.Data == nil {
			return none()
		}
		b, _ := io.ReadAll(t.Data)
		name := "<no header>"
		if t.Header != nil {
			name = fmt.Sprintf("%s(%d bytes)", t.Header.Filename, t.Header.Size)
		}
		return val{K: "file", S: name + ":" + string(b)}
	}
	v := reflect.ValueOf(x)
	switch v.Kind() { //nolint:exhaustive
	case reflect.Int, reflect.Int8, reflect.Int16, reflect.Int32, reflect.Int64:
		return iv(v.Int())
	case reflect.Uint, reflect.Uint8, reflect.Uint16, reflect.Uint32, reflect.Uint64:
		return iv(int64(v.Uint()))
	case reflect.Float32, reflect.Float64:
		return fv(v.Float())
	case reflect.Bool:
		return bv(v.Bool())
	case reflect.String:
		return sv(v.String())
	case reflect.Slice:
		l := make([]val, v.Len())
		for i := range l {
			l[i] = normalise(v.Index(i).Interface())
		}
		return val{K: "list", L: l}
	case reflect.Ptr:
		if v.IsNil() {
			return none()
		}
		return normalise(v.Elem().Interface())
	}
	return val{K: "other", S: fmt.Sprintf("%#v", x)}
}

// statusOf: the HTTP status the default error responder gives for a binder
// error (go-openapi/errors.ServeError: a composite answers with the status of
// its first nested error; codes >= 600 are validation codes and answer 422).
func statusOf(err error) int {
	for {
		ce, ok := err.(*oaerrors.CompositeError)
		if !ok || len(ce.Errors) == 0 {
			break
		}
		err = ce.Errors[0]
	}
	type coder interface{ Code() int32 }
	if c, ok := err.(coder); ok {
		code := int(c.Code())
		if code >= 600 {
			return 422
		}
		return code
	}
	return 500
}

// prepared is everything that depends on the declaration only.
type prepared struct {
	d       Decl
	level   string
	binder  *middleware.UntypedRequestBinder
	field   string
	handler http.Handler
	got     *capture
	hostile bool   // after each observation the caller overwrites everything it was handed (hostile.go)
	err     string // preparation failed (panic while building): reported per case
}

type capture struct {
	ran    int
	params map[string]interface{}
}

func specParam(d Decl) (spec.Parameter, error) {
	var p spec.Parameter
	b, _ := json.Marshal(d.paramJSON())
	err := json.Unmarshal(b, &p)
	return p, err
}

func prepare(level string, d Decl) (p *prepared) {
	p = &prepared{d: d, level: level}
	defer func() {
		if e := recover(); e != nil {
			p.err = fmt.Sprint(e)
		}
	}()
	switch level {
	case "helper":
		// nothing to build: runtime.ReadSingleValue / ReadCollectionValue take the request's values
	case "map", "mapptr", "struct", "structalt":
		sp, err := specParam(d)
		if err != nil {
			panic(err)
		}
		key := d.in() + "#" + d.Name
		if level == "struct" {
			_, key = d.goType()
			p.field = key
		}
		if level == "structalt" {
			key = altField(d)
			p.field = key
		}
		reg := registryFor(d)
		p.binder = middleware.NewUntypedRequestBinder(map[string]spec.Parameter{key: sp}, new(spec.Swagger), reg)
		if d.Registry == "own" && d.LateFormats { // order of setup: binder first, formats afterwards, same registry
			addUserFormats(func(name string, f strfmt.Format, v strfmt.Validator) { reg.Add(name, f, v) })
		}
		if level == "mapptr" {
			p.binder.SetLogger(discardLogger{}) // the exported logging hook, set
		}
	case "handler", "routes", "serve":
		method, path := "GET", "/op"
		var consumes []string
		if d.Loc == "path" {
			path = "/op/{" + d.Name + "}"
		}
		if d.in() == "formData" {
			method = "POST"
			consumes = []string{"application/x-www-form-urlencoded", "multipart/form-data"}
		}
		doc := apib.MustLoad(apib.Spec{BasePath: "/", Ops: []apib.Op{{Method: method, Path: path, Params: []map[string]any{d.paramJSON()}, Consumes: consumes}}})
		api := untyped.NewAPI(doc)
		api.RegisterConsumer("application/x-www-form-urlencoded", runtime.DiscardConsumer)
		api.RegisterConsumer("multipart/form-data", runtime.DiscardConsumer)
		if d.Registry == "own" && !d.LateFormats {
			addUserFormats(api.RegisterFormat) // the application's own formats, on the API's registry
		}
		p.got = &capture{}
		got := p.got
		api.RegisterOperation(method, path, runtime.OperationHandlerFunc(func(params interface{}) (interface{}, error) {
			got.ran++
			got.params, _ = params.(map[string]interface{})
			return map[string]string{"ok": "1"}, nil
		}))
		switch level {
		case "routes": // the handler without the spec/docs middlewares
			p.handler = middleware.NewContext(doc, api, nil).RoutesHandler(nil)
		case "serve": // the one-call constructor
			p.handler = middleware.Serve(doc, api)
		default:
			p.handler = middleware.NewContext(doc, api, nil).APIHandler(nil)
		}
		if d.Registry == "own" && d.LateFormats { // order of setup: handler (router, binders) first, formats afterwards
			addUserFormats(api.RegisterFormat)
		}
	default:
		panic("unknown level " + level)
	}
	return p
}

// execute runs one request against a prepared declaration.
func (p *prepared) execute(q Req) (o obs, ok bool) {
	raw, ok := rawRequest(p.d, q)
	if !ok {
		return obs{}, false
	}
	req, err := http.ReadRequest(bufio.NewReader(strings.NewReader(raw)))
	if err != nil {
		// a rendering net/http does not accept is a harness matter, never an observation
		fmt.Fprintf(os.Stderr, "C03 harness: request does not parse: %v\n%q\n", err, raw)
		os.Exit(2)
	}
	defer func() {
		if e := recover(); e != nil {
			o = obs{Panic: fmt.Sprint(e)}
		}
	}()
	if p.err != "" {
		return obs{Panic: "while building: " + p.err}, true
	}
	switch p.level {
	case "map":
		var rp middleware.RouteParams
		if p.d.Loc == "path" {
			rp = middleware.RouteParams{{Name: p.d.Name, Value: string(q.Texts[0])}}
		}
		data := map[string]interface{}{}
		if err := p.binder.Bind(req, rp, runtime.JSONConsumer(), data); err != nil {
			return obs{Status: statusOf(err), Message: err.Error()}, true
		}
		o.Status = 200
		x, present := data[p.d.Name]
		o.Present = present
		if present {
			o.GoType = fmt.Sprintf("%T", x)
		}
		o.V = normalise(x)
		p.afterObservation(x)
	case "mapptr": // Bind with a pointer to the map (what the repository's own examples pass)
		var rp middleware.RouteParams
		if p.d.Loc == "path" {
			rp = middleware.RouteParams{{Name: p.d.Name, Value: string(q.Texts[0])}}
		}
		data := map[string]interface{}{}
		if err := p.binder.Bind(req, rp, runtime.JSONConsumer(), &data); err != nil {
			return obs{Status: statusOf(err), Message: err.Error()}, true
		}
		o.Status = 200
		x, present := data[p.d.Name]
		o.Present = present
		if present {
			o.GoType = fmt.Sprintf("%T", x)
		}
		o.V = normalise(x)
		p.afterObservation(x)
	case "helper":
		// what a typed / hand-written binder does: pick the text(s) of the parameter out of the
		// location's values with the exported helpers
		var src runtime.Gettable
		switch p.d.Loc {
		case "path":
			src = middleware.RouteParams{{Name: p.d.Name, Value: string(q.Texts[0])}}
		case "query":
			src = runtime.Values(req.URL.Query())
		case "header":
			src = runtime.Values(req.Header)
		case "formU":
			if err := req.ParseForm(); err != nil {
				panic("harness: " + err.Error())
			}
			src = runtime.Values(req.PostForm)
		case "formM":
			if err := req.ParseMultipartForm(32 << 20); err != nil {
				panic("harness: " + err.Error())
			}
			src = runtime.Values(req.MultipartForm.Value)
		}
		o.Status, o.Present = 200, true
		if p.d.Type == "array" {
			items := runtime.ReadCollectionValue(src, p.d.Name, p.d.CF)
			o.GoType = "[]string"
			l := make([]val, len(items))
			for i, it := range items {
				l[i] = sv(it)
			}
			o.V = val{K: "list", L: l}
		} else {
			o.GoType = "string"
			o.V = sv(runtime.ReadSingleValue(src, p.d.Name))
			if rp, isRoute := src.(middleware.RouteParams); isRoute && rp.Get(p.d.Name) != o.V.S {
				o.V = sv("RouteParams.Get differs: " + rp.Get(p.d.Name))
			}
		}
	case "struct", "structalt":
		var rp middleware.RouteParams
		if p.d.Loc == "path" {
			rp = middleware.RouteParams{{Name: p.d.Name, Value: string(q.Texts[0])}}
		}
		data := &target{}
		if err := p.binder.Bind(req, rp, runtime.JSONConsumer(), data); err != nil {
			return obs{Status: statusOf(err), Message: err.Error()}, true
		}
		o.Status = 200
		o.Present = true
		x := reflect.ValueOf(data).Elem().FieldByName(p.field).Interface()
		o.GoType = fmt.Sprintf("%T", x)
		o.V = normalise(x)
		p.afterObservation(x)
	case "handler", "routes", "serve":
		*p.got = capture{}
		rec := httptest.NewRecorder()
		p.handler.ServeHTTP(rec, req)
		o.Status = rec.Code
		o.Ran = p.got.ran
		if rec.Code != 200 {
			o.Message = strings.TrimSpace(rec.Body.String())
			return o, true
		}
		x, present := p.got.params[p.d.Name]
		o.Present = present
		if present {
			o.GoType = fmt.Sprintf("%T", x)
		}
		o.V = normalise(x)
		p.afterObservation(x)
	}
	if o.V.K == "float" && math.IsNaN(o.V.F) {
		o.V.F = math.NaN()
	}
	return o, true
}

// discardLogger satisfies logger.Logger.
type discardLogger struct{}

func (discardLogger) Printf(string, ...interface{}) {}
func (discardLogger) Debugf(string, ...interface{}) {}

func handlerLevel(level string) bool { return level == "handler" || level == "routes" || level == "serve" }

func structLevel(level string) bool { return level == "struct" || level == "structalt" }

// altField: the field of `target` with the plain Go type a hand-written struct
// may use instead of the strfmt type ("" when the level does not apply).
func altField(d Decl) string {
	et, ef := d.elem()
	if et != "string" {
		return ""
	}
	switch {
	case d.Type == "array":
		return ""
	case ef == "byte":
		return "Raw"
	case d.Type != "array" && (ef == "uuid" || ef == "email" || ef == "ipv4" || ef == "hexcolor"):
		return "PlainS"
	}
	return ""
}

func fieldFor(level string, d Decl) string {
	if level == "structalt" {
		return altField(d)
	}
	_, f := d.goType()
	return f
}
